package sqlx_test

// Replay driver for property C11 (overlaid into lib/store/sqlx as an external test package by
// /verif/bin/check; only the public API of sqlx / sqlc is used, plus the observation point
// sqlx.VerifCountEndings of the overlaid export_test.go).
//
//   - behaviours of spec/TxGen.tla ("call" ... "return"): the environment steps script a
//     sqlmock database (faults at Begin / statements / Commit / Rollback) and the transaction
//     body (statements, then nil / error / panic); the real Transact is run and its result and
//     the Commit / Rollback calls that reached the database driver are compared with the
//     "return" step; so are the Commit() / Rollback() calls the manager makes on its transaction
//     handle (counted by the in-package wrapper of export_test.go: database/sql answers a second
//     call on a finished *sql.Tx by itself, the driver below never sees it).
//   - cases of spec/RowMapGen.tla ("query"): the destination type is built from the descriptor,
//     the result set is served by sqlmock, QueryRow(s)(Partial) is called through a Conn, a
//     transaction session and a prepared statement, and the destination is compared with the
//     set of outcomes the specification allows.
//   - histories of spec/RowMapHistGen.tla ("hquery"): sequences of queries into declared types that
//     print the same name (hist_test.go).
//
// The driver only compares: every expected value comes from the specification's JSON.

import (
	"context"
	"database/sql"
	"database/sql/driver"
	"errors"
	"fmt"
	"math/rand"
	"reflect"
	"strconv"
	"strings"
	"sync/atomic"
	"testing"
	"time"

	"github.com/DATA-DOG/go-sqlmock"
	kit "github.com/gotid/god/internal/verifkit"
	"github.com/gotid/god/lib/logx"
	"github.com/gotid/god/lib/store/sqlc"
	"github.com/gotid/god/lib/store/sqlx"
)

// ---------------------------------------------------------------- counting driver wrapper

// c11Counts counts the calls that reach the database driver.
type c11Counts struct{ begins, commits, rollbacks, execs, queries atomic.Int32 }

type c11Connector struct {
	drv driver.Driver
	dsn string
	cnt *c11Counts
}

func (c *c11Connector) Connect(context.Context) (driver.Conn, error) {
	conn, err := c.drv.Open(c.dsn)
	if err != nil {
		return nil, err
	}
	return &c11Conn{Conn: conn, cnt: c.cnt}, nil
}
func (c *c11Connector) Driver() driver.Driver { return c.drv }

type c11Conn struct {
	driver.Conn
	cnt *c11Counts
}

func (c *c11Conn) wrapTx(tx driver.Tx, err error) (driver.Tx, error) {
	c.cnt.begins.Add(1)
	if err != nil {
		return nil, err
	}
	return &c11Tx{Tx: tx, cnt: c.cnt}, nil
}
func (c *c11Conn) Begin() (driver.Tx, error) { return c.wrapTx(c.Conn.Begin()) }
func (c *c11Conn) BeginTx(ctx context.Context, o driver.TxOptions) (driver.Tx, error) {
	return c.wrapTx(c.Conn.(driver.ConnBeginTx).BeginTx(ctx, o))
}
func (c *c11Conn) ExecContext(ctx context.Context, q string, a []driver.NamedValue) (driver.Result, error) {
	c.cnt.execs.Add(1)
	return c.Conn.(driver.ExecerContext).ExecContext(ctx, q, a)
}
func (c *c11Conn) QueryContext(ctx context.Context, q string, a []driver.NamedValue) (driver.Rows, error) {
	c.cnt.queries.Add(1)
	return c.Conn.(driver.QueryerContext).QueryContext(ctx, q, a)
}
func (c *c11Conn) PrepareContext(ctx context.Context, q string) (driver.Stmt, error) {
	return c.Conn.(driver.ConnPrepareContext).PrepareContext(ctx, q)
}
func (c *c11Conn) Ping(ctx context.Context) error { return c.Conn.(driver.Pinger).Ping(ctx) }
func (c *c11Conn) CheckNamedValue(nv *driver.NamedValue) error {
	return c.Conn.(driver.NamedValueChecker).CheckNamedValue(nv)
}

type c11Tx struct {
	driver.Tx
	cnt *c11Counts
}

func (t *c11Tx) Commit() error   { t.cnt.commits.Add(1); return t.Tx.Commit() }
func (t *c11Tx) Rollback() error { t.cnt.rollbacks.Add(1); return t.Tx.Rollback() }

// c11Env is one scripted database behind a real sqlx.Conn.
type c11Env struct {
	mockDB *sql.DB
	db     *sql.DB
	mock   sqlmock.Sqlmock
	cnt    *c11Counts
	ends   *sqlx.VerifEndings // Commit()/Rollback() calls made on the Conn's transaction handles (export_test.go)
	conn   sqlx.Conn
}

var c11Seq atomic.Int64

func newC11Env() (*c11Env, error) {
	dsn := fmt.Sprintf("verif_c11_%d", c11Seq.Add(1))
	mdb, mock, err := sqlmock.NewWithDSN(dsn, sqlmock.QueryMatcherOption(sqlmock.QueryMatcherEqual))
	if err != nil {
		return nil, err
	}
	mock.MatchExpectationsInOrder(false)
	e := &c11Env{mockDB: mdb, mock: mock, cnt: &c11Counts{}}
	e.db = sql.OpenDB(&c11Connector{drv: mdb.Driver(), dsn: dsn, cnt: e.cnt})
	e.conn = sqlx.NewConnFromDB(e.db) // a fresh Conn has a fresh breaker
	e.ends = &sqlx.VerifEndings{}
	if err := sqlx.VerifCountEndings(e.conn, e.ends); err != nil {
		e.close()
		return nil, err
	}
	return e, nil
}

func (e *c11Env) close() {
	e.db.Close()
	e.mockDB.Close()
}

// ---------------------------------------------------------------- transactions

var (
	errC11Begin    = errors.New("c11: begin fault")
	errC11Commit   = errors.New("c11: commit fault")
	errC11Rollback = errors.New("c11: rollback fault")
	errC11Stmt     = errors.New("c11: statement fault")
	errC11Fn       = errors.New("c11: body error")
)

type c11Panic struct{ n int }

type c11Stmt struct {
	kind string
	ok   bool
	sql  string
	why  string // "driver": scripted driver fault; "ctx": the dead context stops it before the driver
}

func infra(c kit.Case, msg string) kit.Verdict {
	return kit.Verdict{Case: c.Index, Infra: true, Msg: msg}
}

func runTxCase(c kit.Case, rep *kit.Reporter) (v kit.Verdict) {
	v = kit.Verdict{Case: c.Index, OK: true}
	env, err := newC11Env()
	if err != nil {
		return infra(c, err.Error())
	}
	defer env.close()
	cached := sqlc.NewConnWithCache(env.conn, nil)

	i, ncall := 0, 0
	for i < len(c.Steps) {
		st := c.Steps[i]
		if kit.Str(st["op"]) != "call" {
			return infra(c, "expected a call step, got "+kit.Canon(st))
		}
		api := kit.Str(st["api"])
		ncall++
		// the caller's context for this call
		ctxMode := kit.Str(st["ctx"])
		callCtx, cancel := context.Background(), context.CancelFunc(func() {})
		switch ctxMode {
		case "live", "":
			ctxMode = "live"
		case "cancelled":
			callCtx, cancel = context.WithCancel(callCtx)
			cancel()
		case "expired":
			callCtx, cancel = context.WithDeadline(callCtx, time.Now().Add(-time.Hour))
		case "bodycancel":
			callCtx, cancel = context.WithCancel(callCtx)
		default:
			return infra(c, "unknown ctx scenario "+ctxMode)
		}
		defer cancel()
		cancelInBody := false
		// read the environment's script up to the return step
		var stmts []c11Stmt
		how, beginOK := "none", true
		var ret kit.M
		i++
		for ; i < len(c.Steps) && ret == nil; i++ {
			s := c.Steps[i]
			switch kit.Str(s["op"]) {
			case "begin":
				beginOK = kit.Bool(s["ok"])
				eb := env.mock.ExpectBegin()
				if !beginOK {
					eb.WillReturnError(errC11Begin)
				}
			case "stmt":
				k := kit.Str(s["kind"])
				q := fmt.Sprintf("c11 %s call %d stmt %d where id = ?", k, ncall, len(stmts)+1)
				ok := kit.Bool(s["ok"])
				why := kit.Str(s["why"])
				stmts = append(stmts, c11Stmt{kind: k, ok: ok, sql: q, why: why})
				if why == "ctx" {
					if ok {
						return infra(c, "a statement under a dead context cannot be scripted to succeed")
					}
					continue // never reaches the driver: nothing to script
				}
				switch k {
				case "exec":
					ee := env.mock.ExpectExec(q)
					if ok {
						ee.WillReturnResult(sqlmock.NewResult(1, 1))
					} else {
						ee.WillReturnError(errC11Stmt)
					}
				case "query":
					eq := env.mock.ExpectQuery(q)
					if ok {
						eq.WillReturnRows(sqlmock.NewRows([]string{"v"}).AddRow(int64(7)))
					} else {
						eq.WillReturnError(errC11Stmt)
					}
				default:
					return infra(c, "unknown statement kind "+k)
				}
			case "bodyend":
				how = kit.Str(s["how"])
				cancelInBody = kit.Bool(s["cancel"])
			case "commit":
				ec := env.mock.ExpectCommit()
				if !kit.Bool(s["ok"]) {
					ec.WillReturnError(errC11Commit)
				}
			case "rollback":
				er := env.mock.ExpectRollback()
				if !kit.Bool(s["ok"]) {
					er.WillReturnError(errC11Rollback)
				}
			case "return":
				ret = s
			default:
				return infra(c, "unknown step "+kit.Canon(s))
			}
		}
		if ret == nil {
			return infra(c, "behaviour without return step")
		}

		// the body, following the script
		var returned error
		bodyRuns := 0
		var stmtTrouble string
		// bctx is the context the manager hands to the body (nil for the context-free entry points:
		// the body then uses the context-free statement methods)
		body := func(bctx context.Context, s sqlx.Session) error {
			bodyRuns++
			var last error
			for n, stm := range stmts {
				var e error
				var got int64
				switch {
				case stm.kind == "exec" && bctx == nil:
					_, e = s.Exec(stm.sql, n)
				case stm.kind == "exec":
					_, e = s.ExecCtx(bctx, stm.sql, n)
				case stm.kind == "query" && bctx == nil:
					e = s.QueryRow(&got, stm.sql, n)
				case stm.kind == "query":
					e = s.QueryRowCtx(bctx, &got, stm.sql, n)
				}
				if stm.kind == "query" && e == nil && got != 7 {
					stmtTrouble = fmt.Sprintf("statement %d read %d, the database delivered 7", n+1, got)
				}
				if stm.ok && e != nil {
					stmtTrouble = fmt.Sprintf("statement %d failed inside the transaction: %v", n+1, e)
				}
				if !stm.ok && stm.why != "ctx" && !errors.Is(e, errC11Stmt) {
					stmtTrouble = fmt.Sprintf("statement %d: the driver's fault did not reach the body, got %v", n+1, e)
				}
				if !stm.ok && stm.why == "ctx" && e == nil {
					stmtTrouble = fmt.Sprintf("statement %d succeeded under a dead context", n+1)
				}
				last = e
			}
			if cancelInBody {
				cancel()
			}
			switch how {
			case "nil":
				return nil
			case "err":
				returned = errC11Fn
				if last != nil {
					returned = last
				}
				return returned
			default:
				panic(c11Panic{ncall})
			}
		}

		before := *snapshot(env)
		var got error
		var panicked any
		func() {
			defer func() { panicked = recover() }()
			switch api {
			case "Transact":
				got = env.conn.Transact(func(s sqlx.Session) error { return body(nil, s) })
			case "TransactCtx":
				got = env.conn.TransactCtx(callCtx, body)
			case "CachedTransact":
				got = cached.Transact(func(s sqlx.Session) error { return body(nil, s) })
			case "CachedTransactCtx":
				got = cached.TransactCtx(callCtx, body)
			default:
				panic("unknown api " + api)
			}
		}()
		if s, ok := panicked.(string); ok && strings.HasPrefix(s, "unknown api") {
			return infra(c, s)
		}
		after := *snapshot(env)
		commits, rollbacks := after.commits-before.commits, after.rollbacks-before.rollbacks
		begins := after.begins - before.begins
		// the session layer: Commit()/Rollback() calls on the transaction handle, and those among them
		// that hit a handle already ended
		ccalls, rcalls, late := after.ccalls-before.ccalls, after.rcalls-before.rcalls, after.late-before.late
		v.Steps++
		if (api == "Transact" || api == "CachedTransact") && ctxMode != "live" {
			return infra(c, "context scenario for an entry point without context")
		}
		// handed a dead context the manager may decline before beginning anything
		// (no Begin at all), or begin, skip the body (which then has not returned nil) and roll back
		if kit.Bool(ret["mayrefuse"]) && bodyRuns == 0 && commits == 0 && ccalls == 0 && panicked == nil && got != nil &&
			!errors.Is(got, sql.ErrTxDone) &&
			((begins == 0 && rollbacks == 0 && rcalls == 0) || (beginOK && begins == 1 && rollbacks == 1 && rcalls == 1)) {
			rep.Count("tx.refused-dead-context", 1)
			return v // the rest of the script assumed a begun transaction
		}
		rep.Count("tx.ctx-"+ctxMode, 1)
		rep.Count("tx.handle-commit-calls", int(ccalls))
		rep.Count("tx.handle-rollback-calls", int(rcalls))

		// compare with the return step
		want := kit.Str(ret["result"])
		scen := how
		if !beginOK {
			scen = "beginfail"
		}
		if ctxMode != "live" {
			scen += ":ctx-" + ctxMode
		}
		var bad []string
		aspect := ""
		note := func(a, m string) {
			if aspect == "" {
				aspect = a
			}
			bad = append(bad, m)
		}
		gotDesc := "nil"
		if panicked != nil {
			gotDesc = fmt.Sprintf("panic(%v)", panicked)
		} else if got != nil {
			gotDesc = "error(" + got.Error() + ")"
		}
		okRes := false
		switch want {
		case "nil":
			okRes = panicked == nil && got == nil
		case "begin":
			okRes = panicked == nil && errors.Is(got, errC11Begin)
		case "commit":
			okRes = panicked == nil && errors.Is(got, errC11Commit)
		case "fn":
			okRes = panicked == nil && got != nil && errors.Is(got, returned)
		case "nonnil":
			okRes = panicked == nil && got != nil
		case "learn":
			okRes = panicked != nil || got != nil
		default:
			return infra(c, "unknown result class "+want)
		}
		if !okRes {
			note("result", fmt.Sprintf("caller saw %s, specification: %s", gotDesc, c11ResultText(want)))
		}
		if int(commits) != kit.Num(ret["commits"]) {
			note("commits", fmt.Sprintf("%d Commit reached the database, specification %d", commits, kit.Num(ret["commits"])))
		}
		if int(rollbacks) != kit.Num(ret["rollbacks"]) {
			note("rollbacks", fmt.Sprintf("%d Rollback reached the database, specification %d", rollbacks, kit.Num(ret["rollbacks"])))
		}
		if wantC, wantR := kit.Num(ret["ccalls"]), kit.Num(ret["rcalls"]); int(ccalls) != wantC || int(rcalls) != wantR {
			a := "ending-calls"
			switch {
			case int(ccalls) == wantC && wantR == 1 && rcalls > 1:
				a = "double-rollback"
			case int(rcalls) == wantR && wantC == 1 && ccalls > 1:
				a = "double-commit"
			case ccalls > 0 && rcalls > 0:
				a = "commit-and-rollback"
			}
			note(a, fmt.Sprintf("the manager called Commit() %d and Rollback() %d times on its transaction (%d of them after the transaction had been ended), specification: %d and %d",
				ccalls, rcalls, late, wantC, wantR))
		} else if int(late) != kit.Num(ret["late"]) {
			note("ending-on-finished-tx", fmt.Sprintf("%d ending calls on an already ended transaction, specification %d", late, kit.Num(ret["late"])))
		}
		// the same seen from the caller: a finished *sql.Tx answers a further Commit/Rollback with
		// sql.ErrTxDone, nothing else in the scripted database does
		if kit.Num(ret["late"]) == 0 && got != nil && errors.Is(got, sql.ErrTxDone) && len(bad) == 0 {
			a := "ending-on-finished-tx"
			if kit.Num(ret["rcalls"]) == 1 {
				a = "double-rollback"
			}
			note(a, "the result wraps sql.ErrTxDone: the transaction was ended a second time ("+got.Error()+")")
		}
		if begins > 0 && beginOK && commits+rollbacks == 0 && len(bad) == 0 {
			note("dangling", "a transaction was begun and neither committed nor rolled back")
		}
		if beginOK && bodyRuns != 1 {
			note("body-runs", fmt.Sprintf("body ran %d times", bodyRuns))
		}
		if stmtTrouble != "" && len(bad) == 0 {
			note("session", stmtTrouble)
		}
		if len(bad) > 0 {
			v.OK, v.Step = false, i-1
			v.Key = "C11:tx:" + scen + ":" + aspect
			v.Msg = fmt.Sprintf("%s call #%d (context %s, begin ok=%v, %d statements, body ends with %s): %s", api, ncall, ctxMode,
				beginOK, len(stmts), how, strings.Join(bad, "; "))
			return v
		}
	}
	return v
}

func c11ResultText(class string) string {
	switch class {
	case "nil":
		return "nil"
	case "begin":
		return "the Begin error"
	case "commit":
		return "the Commit error"
	case "fn":
		return "the body's error"
	case "nonnil":
		return "a non-nil error"
	case "learn":
		return "a non-nil error or the re-raised panic"
	}
	return class
}

type c11Snap struct{ begins, commits, rollbacks, ccalls, rcalls, late int32 }

func snapshot(e *c11Env) *c11Snap {
	return &c11Snap{e.cnt.begins.Load(), e.cnt.commits.Load(), e.cnt.rollbacks.Load(),
		e.ends.Commits.Load(), e.ends.Rollbacks.Load(), e.ends.Late.Load()}
}

// ---------------------------------------------------------------- row mapping

// c11ColNames renders a name of spec/RowMap.tla, the pair <<column id, case style>>: the four
// spellings of one column differ from each other and are equal once their letter case is folded
// (checked by c11CheckNames); column 4 is the extra column that no destination names.
var c11ColNames = map[int]map[string]string{
	1: {"lower": "userid", "camel": "userId", "cap": "Userid", "upper": "USERID"},
	2: {"lower": "nickname", "camel": "nickName", "cap": "Nickname", "upper": "NICKNAME"},
	3: {"lower": "agemax", "camel": "ageMax", "cap": "Agemax", "upper": "AGEMAX"},
	4: {"lower": "xtracol", "camel": "xtraCol", "cap": "Xtracol", "upper": "XTRACOL"},
}

// c11CheckNames verifies what the specification assumes about the rendering of names.
func c11CheckNames() error {
	seen := map[string]bool{}
	for id, sp := range c11ColNames {
		if len(sp) != 4 {
			return fmt.Errorf("column %d has %d spellings", id, len(sp))
		}
		for style, name := range sp {
			if seen[name] {
				return fmt.Errorf("spelling %q is used twice", name)
			}
			seen[name] = true
			if strings.ToLower(name) != sp["lower"] || strings.ContainsAny(name, ",\"` ") {
				return fmt.Errorf("spelling %q (%s) of column %d is not a case variant of %q", name, style, id, sp["lower"])
			}
		}
	}
	return nil
}

// c11Name is the text of column id in a case style ("" when the specification names something unknown).
func c11Name(id int, style string) string { return c11ColNames[id][style] }

// field Go types used for the cells (all cells are small positive integers)
var c11Scalars = []reflect.Type{
	reflect.TypeOf(int64(0)), reflect.TypeOf(""), reflect.TypeOf(int(0)), reflect.TypeOf(float64(0)),
	reflect.TypeOf(int32(0)), reflect.TypeOf(uint16(0)),
}

// c11TagTokens renders the tokens of spec/RowMap.tla's tag model: a column id is the column's name,
// 0 an empty element, 8 and 9 are options (the spelling lib/store/builder uses).
var c11TagTokens = map[int]string{0: "", 8: "type=varchar", 9: "length=255"}

type c11Shape struct {
	prim   bool
	nf     int
	tagged bool
	tagsp  string   // the specification's name of the tag spelling ("plain", "opts", "comma", "mixed")
	tags   []string // text of the db tag of leaf field i (index i-1), rendered from the specification's tokens
	tcase  string   // letter case of the names in the tags ("lower", "camel", "cap", "upper")
	emb    string
	embn   int // leaf fields inside the embedded struct (the last embn of nf)
	ptrs   map[int]bool
	dest   string
	elem   reflect.Type // struct (or scalar) type of one row
}

func scalarFor(sh *c11Shape, i int) reflect.Type {
	return c11Scalars[(i+sh.nf+2*len(sh.ptrs))%len(c11Scalars)]
}

func fieldFor(sh *c11Shape, i int) reflect.StructField {
	t := scalarFor(sh, i)
	if sh.ptrs[i] {
		t = reflect.PointerTo(t)
	}
	f := reflect.StructField{Name: fmt.Sprintf("F%d", i), Type: t}
	if sh.tagged {
		f.Tag = reflect.StructTag(fmt.Sprintf(`db:"%s"`, sh.tags[i-1]))
	}
	return f
}

func buildShape(st kit.M) (sh *c11Shape, err error) {
	defer func() {
		if p := recover(); p != nil {
			err = fmt.Errorf("cannot build destination type: %v", p)
		}
	}()
	sh = &c11Shape{prim: kit.Bool(st["prim"]), nf: kit.Num(st["nf"]), tagged: kit.Bool(st["tagged"]),
		emb: kit.Str(st["emb"]), embn: kit.Num(st["embn"]), ptrs: map[int]bool{}, dest: kit.Str(st["dest"])}
	if (sh.emb == "none") != (sh.embn == 0) || sh.embn > sh.nf {
		return nil, fmt.Errorf("inconsistent embedded descriptor emb=%s embn=%d nf=%d", sh.emb, sh.embn, sh.nf)
	}
	for _, p := range kit.List(st["ptrs"]) {
		sh.ptrs[kit.Num(p)] = true
	}
	if sh.tagged {
		sh.tagsp = kit.Str(st["tagsp"])
		sh.tcase = kit.Str(st["tcase"])
		for _, tg := range kit.List(st["tags"]) {
			var parts []string
			for k, tok := range kit.List(tg) {
				id := kit.Num(tok)
				name := c11Name(id, sh.tcase)
				isCol := name != ""
				if opt, isOpt := c11TagTokens[id]; isOpt && k > 0 {
					name, isCol = opt, true
				}
				if !isCol {
					return nil, fmt.Errorf("unknown tag token %d in %s (case style %q)", id, kit.Canon(tg), sh.tcase)
				}
				parts = append(parts, name)
			}
			sh.tags = append(sh.tags, strings.Join(parts, ","))
		}
		if len(sh.tags) != sh.nf {
			return nil, fmt.Errorf("tagged shape with %d fields carries %d tags", sh.nf, len(sh.tags))
		}
	}
	if sh.prim {
		sh.elem = c11Scalars[(kit.Num(kit.List(st["cols"])[0])+len(sh.dest))%len(c11Scalars)]
		return sh, nil
	}
	var fields []reflect.StructField
	flat := sh.nf - sh.embn
	for i := 1; i <= flat; i++ {
		fields = append(fields, fieldFor(sh, i))
	}
	if sh.emb != "none" {
		var in []reflect.StructField
		for i := flat + 1; i <= sh.nf; i++ {
			in = append(in, fieldFor(sh, i))
		}
		inner := reflect.StructOf(in)
		if sh.emb == "ptr" {
			inner = reflect.PointerTo(inner)
		}
		fields = append(fields, reflect.StructField{Name: "Emb", Type: inner, Anonymous: true})
	}
	sh.elem = reflect.StructOf(fields)
	return sh, nil
}

func scalarToInt(v reflect.Value) (int, error) {
	for v.Kind() == reflect.Pointer {
		if v.IsNil() {
			return 0, nil
		}
		v = v.Elem()
	}
	switch v.Kind() {
	case reflect.Int, reflect.Int8, reflect.Int16, reflect.Int32, reflect.Int64:
		return int(v.Int()), nil
	case reflect.Uint, reflect.Uint8, reflect.Uint16, reflect.Uint32, reflect.Uint64:
		return int(v.Uint()), nil
	case reflect.Float32, reflect.Float64:
		return int(v.Float()), nil
	case reflect.String:
		if v.String() == "" {
			return 0, nil
		}
		n, err := strconv.Atoi(v.String())
		if err != nil {
			return -1, nil // not a cell of the result set
		}
		return n, nil
	}
	return 0, fmt.Errorf("unexpected field kind %s", v.Kind())
}

// projectRow maps one destination element to the specification's view: field index -> integer.
func projectRow(sh *c11Shape, v reflect.Value) ([]int, error) {
	for v.Kind() == reflect.Pointer {
		if v.IsNil() {
			return nil, fmt.Errorf("nil element in destination slice")
		}
		v = v.Elem()
	}
	if sh.prim {
		n, err := scalarToInt(v)
		return []int{n}, err
	}
	out := make([]int, sh.nf)
	flat := sh.nf - sh.embn
	for i := 1; i <= flat; i++ {
		n, err := scalarToInt(v.Field(i - 1))
		if err != nil {
			return nil, err
		}
		out[i-1] = n
	}
	if sh.emb != "none" {
		e := v.Field(flat)
		if e.Kind() == reflect.Pointer {
			if e.IsNil() {
				return out, nil // the embedded leaf fields stay zero
			}
			e = e.Elem()
		}
		for k := 0; k < sh.embn; k++ {
			n, err := scalarToInt(e.Field(k))
			if err != nil {
				return nil, err
			}
			out[flat+k] = n
		}
	}
	return out, nil
}

// setScalar stores n in a leaf field (allocating pointer fields).
func setScalar(v reflect.Value, n int) error {
	for v.Kind() == reflect.Pointer {
		if v.IsNil() {
			v.Set(reflect.New(v.Type().Elem()))
		}
		v = v.Elem()
	}
	switch v.Kind() {
	case reflect.Int, reflect.Int8, reflect.Int16, reflect.Int32, reflect.Int64:
		v.SetInt(int64(n))
	case reflect.Uint, reflect.Uint8, reflect.Uint16, reflect.Uint32, reflect.Uint64:
		v.SetUint(uint64(n))
	case reflect.Float32, reflect.Float64:
		v.SetFloat(float64(n))
	case reflect.String:
		v.SetString(strconv.Itoa(n))
	default:
		return fmt.Errorf("unexpected field kind %s", v.Kind())
	}
	return nil
}

// fillRow is the inverse of projectRow: element k that a slice holds before the query carries
// 100*k + i in leaf field i (spec/RowMap.tla PreRows).
func fillRow(sh *c11Shape, v reflect.Value, k int) error {
	if sh.prim {
		return setScalar(v, 100*k+1)
	}
	flat := sh.nf - sh.embn
	for i := 1; i <= flat; i++ {
		if err := setScalar(v.Field(i-1), 100*k+i); err != nil {
			return err
		}
	}
	if sh.emb != "none" {
		e := v.Field(flat)
		if e.Kind() == reflect.Pointer {
			e.Set(reflect.New(e.Type().Elem()))
			e = e.Elem()
		}
		for j := 0; j < sh.embn; j++ {
			if err := setScalar(e.Field(j), 100*k+flat+j+1); err != nil {
				return err
			}
		}
	}
	return nil
}

type c11Outcome struct {
	kind string // "rows" | "error" | "notfound" | "panic"
	rows [][]int
	err  error
	pan  any
}

func (o c11Outcome) String() string {
	switch o.kind {
	case "rows":
		return fmt.Sprintf("rows%v", o.rows)
	case "panic":
		return fmt.Sprintf("panic(%v)", o.pan)
	}
	return fmt.Sprintf("%s(%v)", o.kind, o.err)
}

func allowedText(allow []any) string {
	var s []string
	for _, a := range allow {
		m := a.(map[string]any)
		if kit.Str(m["k"]) == "rows" {
			s = append(s, "rows"+strings.ReplaceAll(kit.Canon(m["rows"]), ",", " "))
		} else {
			s = append(s, kit.Str(m["k"]))
		}
	}
	return strings.Join(s, " | ")
}

func outcomeAllowed(o c11Outcome, allow []any) bool {
	for _, a := range allow {
		m := a.(map[string]any)
		switch kit.Str(m["k"]) {
		case "error":
			if o.kind == "error" || o.kind == "notfound" {
				return true
			}
		case "notfound":
			if o.kind == "notfound" {
				return true
			}
		case "rows":
			if o.kind != "rows" {
				continue
			}
			want := kit.List(m["rows"])
			if len(want) != len(o.rows) {
				continue
			}
			same := true
			for r := range want {
				wr := kit.List(want[r])
				if len(wr) != len(o.rows[r]) {
					same = false
					break
				}
				for i := range wr {
					if kit.Num(wr[i]) != o.rows[r][i] {
						same = false
					}
				}
			}
			if same {
				return true
			}
		}
	}
	return false
}

// c11TypeText prints a destination type with readable tags (reflect quotes them twice).
func c11TypeText(t reflect.Type) string {
	return strings.ReplaceAll(t.String(), `\"`, `'`)
}

const c11Query = "select c11 from t where id = ?"

// queryVia runs the query API that corresponds to (dest, strict) through one access path.
func queryVia(env *c11Env, via string, single, strict bool, dst any) error {
	call := func(s sqlx.Session) error {
		switch {
		case single && strict:
			return s.QueryRow(dst, c11Query, 1)
		case single:
			return s.QueryRowPartial(dst, c11Query, 1)
		case strict:
			return s.QueryRows(dst, c11Query, 1)
		default:
			return s.QueryRowsPartial(dst, c11Query, 1)
		}
	}
	switch via {
	case "conn":
		return call(env.conn)
	case "tx":
		return env.conn.Transact(call)
	case "stmt":
		st, err := env.conn.Prepare(c11Query)
		if err != nil {
			return fmt.Errorf("prepare: %w", err)
		}
		defer st.Close()
		switch {
		case single && strict:
			return st.QueryRow(dst, 1)
		case single:
			return st.QueryRowPartial(dst, 1)
		case strict:
			return st.QueryRows(dst, 1)
		default:
			return st.QueryRowsPartial(dst, 1)
		}
	case "nocache": // sqlc pass-through, strict only
		cc := sqlc.NewConnWithCache(env.conn, nil)
		if single {
			return cc.QueryRowNoCache(dst, c11Query, 1)
		}
		return cc.QueryRowsNoCache(dst, c11Query, 1)
	}
	panic("unknown via " + via)
}

func runRowMapCase(c kit.Case, rep *kit.Reporter) (v kit.Verdict) {
	v = kit.Verdict{Case: c.Index, OK: true}
	st := c.Steps[0]
	sh, err := buildShape(st)
	if err != nil {
		return infra(c, err.Error())
	}
	// the result set spells its columns in one case style (the tags' style or another one)
	ccase := kit.Str(st["ccase"])
	var cols []string
	for _, id := range kit.List(st["cols"]) {
		name := c11Name(kit.Num(id), ccase)
		if name == "" {
			return infra(c, fmt.Sprintf("unknown column %d in case style %q", kit.Num(id), ccase))
		}
		cols = append(cols, name)
	}
	strict := kit.Bool(st["strict"])
	single := sh.dest == "one"
	allow := kit.List(st["allow"])
	if strict && sh.emb != "none" && len(cols) < sh.nf && len(cols) >= sh.nf-sh.embn+1 && len(kit.List(st["data"])) > 0 {
		// fewer columns than leaf fields but not fewer than top-level fields: only the flattened count
		// makes this an error (vacuity guard of checks/c11.py)
		rep.Count("rowmap.strict-fewer-than-leaf-fields", 1)
	}
	if sh.tagged {
		rep.Count("rowmap.tags-"+sh.tagsp, 1) // vacuity guards of checks/c11.py
		if ccase == sh.tcase {
			rep.Count("rowmap.names-"+sh.tcase, 1)
		} else {
			rep.Count("rowmap.columns-spelled-differently", 1)
		}
	}
	vias := []string{"conn", "tx", "stmt"}
	if strict {
		vias = append(vias, "nocache")
	}
	for _, via := range vias {
		env, err := newC11Env()
		if err != nil {
			return infra(c, err.Error())
		}
		rows := sqlmock.NewRows(cols)
		for _, r := range kit.List(st["data"]) {
			var vals []driver.Value
			for _, cell := range kit.List(r) {
				if n := kit.Num(cell); n == 0 {
					vals = append(vals, nil)
				} else {
					vals = append(vals, int64(n))
				}
			}
			rows.AddRow(vals...)
		}
		switch via {
		case "tx":
			env.mock.ExpectBegin()
			env.mock.ExpectQuery(c11Query).WillReturnRows(rows)
			env.mock.ExpectCommit()
			env.mock.ExpectRollback()
		case "stmt":
			env.mock.ExpectPrepare(c11Query).ExpectQuery().WillReturnRows(rows)
		default:
			env.mock.ExpectQuery(c11Query).WillReturnRows(rows)
		}

		// destination
		var dstPtr reflect.Value
		switch sh.dest {
		case "one":
			dstPtr = reflect.New(sh.elem)
		case "vals":
			dstPtr = reflect.New(reflect.SliceOf(sh.elem))
		case "ptrs":
			dstPtr = reflect.New(reflect.SliceOf(reflect.PointerTo(sh.elem)))
		default:
			env.close()
			return infra(c, "unknown dest "+sh.dest)
		}

		// elements the slice already holds (an accumulating caller)
		pre := kit.Num(st["pre"])
		if pre > 0 && single {
			env.close()
			return infra(c, "pre-filled single destination")
		}
		for k := 1; k <= pre; k++ {
			el := reflect.New(sh.elem)
			if err := fillRow(sh, el.Elem(), k); err != nil {
				env.close()
				return infra(c, err.Error())
			}
			sl := dstPtr.Elem()
			if sh.dest == "ptrs" {
				sl.Set(reflect.Append(sl, el))
			} else {
				sl.Set(reflect.Append(sl, el.Elem()))
			}
		}
		if pre > 0 {
			rep.Count("rowmap.prefilled", 1)
		}

		var o c11Outcome
		func() {
			defer func() {
				if p := recover(); p != nil {
					o = c11Outcome{kind: "panic", pan: p}
				}
			}()
			e := queryVia(env, via, single, strict, dstPtr.Interface())
			switch {
			case e == nil:
				o.kind = "rows"
			case errors.Is(e, sqlx.ErrNotFound):
				o = c11Outcome{kind: "notfound", err: e}
			default:
				o = c11Outcome{kind: "error", err: e}
			}
		}()
		env.close()
		if o.kind == "rows" {
			if single {
				r, err := projectRow(sh, dstPtr.Elem())
				if err != nil {
					return infra(c, err.Error())
				}
				o.rows = [][]int{r}
			} else {
				sl := dstPtr.Elem()
				o.rows = [][]int{}
				for k := 0; k < sl.Len(); k++ {
					r, err := projectRow(sh, sl.Index(k))
					if err != nil {
						o = c11Outcome{kind: "error", err: err}
						break
					}
					o.rows = append(o.rows, r)
				}
			}
		}
		v.Steps++
		rep.Count("rowmap."+via+"."+o.kind, 1)
		if !outcomeAllowed(o, allow) {
			class := "untagged"
			switch {
			case sh.prim:
				class = "prim"
			case sh.tagged && sh.emb != "none":
				class = "tagged-embedded"
			case sh.tagged:
				class = "tagged"
			case sh.emb != "none":
				class = "untagged-embedded"
			}
			what := "wrong-" + o.kind
			if o.kind == "rows" {
				what = "wrong-fill"
				onlyErr := true
				for _, a := range allow {
					if kit.Str(a.(map[string]any)["k"]) == "rows" {
						onlyErr = false
					}
				}
				if onlyErr {
					what = "success-where-error-required"
				}
			}
			api := map[bool]string{true: "QueryRow", false: "QueryRows"}[single]
			if !strict {
				api += "Partial"
			}
			v.OK = false
			v.Key = "C11:rowmap:" + class + ":" + what
			if pre > 0 {
				v.Key += ":prefilled"
			}
			if sh.tagged && sh.tagsp != "plain" {
				v.Key += ":tag-options"
			}
			if sh.tagged && ccase != sh.tcase {
				v.Key += ":columns-spelled-differently"
			} else if sh.tagged && sh.tcase != "lower" {
				v.Key += ":names-with-upper-case"
			}
			v.Msg = fmt.Sprintf("%s via %s into %s of %s (ptr fields %v, %d elements already there), columns %v, data %s: got %s, specification allows %s",
				api, via, sh.dest, c11TypeText(sh.elem), kit.Canon(st["ptrs"]), pre, cols, kit.Canon(st["data"]), o, allowedText(allow))
			return v
		}
	}
	return v
}

// ---------------------------------------------------------------- entry point

func TestVerifC11(t *testing.T) {
	logx.Disable()
	sqlx.DisableLog()
	if err := c11CheckNames(); err != nil {
		t.Fatal(err)
	}
	cases, err := kit.LoadCases(kit.Env("VERIF_CASES", ""))
	if err != nil {
		t.Fatal(err)
	}
	rep, err := kit.NewReporter(kit.Env("VERIF_OUT", ""))
	if err != nil {
		t.Fatal(err)
	}
	defer rep.Close()
	shard, shards := kit.EnvInt("VERIF_SHARD", 0), kit.EnvInt("VERIF_SHARDS", 1)
	// the cases of this shard run in one process in an order shuffled by VERIF_SEED: a case is judged by
	// itself, so neither the specification's enumeration order nor what ran before may matter (a destination
	// type recurs in many cases: reflect.StructOf returns the same type for the same shape, and the declared
	// types of hist_test.go are queried by thousands of histories)
	var mine []kit.Case
	for _, c := range cases {
		if c.Index%shards == shard && len(c.Steps) > 0 {
			mine = append(mine, c)
		}
	}
	rand.New(rand.NewSource(kit.Seed()*7919+int64(shard))).Shuffle(len(mine), func(i, j int) { mine[i], mine[j] = mine[j], mine[i] })
	for _, c := range mine {
		switch kit.Str(c.Steps[0]["op"]) {
		case "call":
			rep.Put(runTxCase(c, rep))
		case "query":
			rep.Put(runRowMapCase(c, rep))
		case "hquery":
			rep.Put(runHistCase(c, rep))
		default:
			rep.Put(infra(c, "unknown case kind "+kit.Canon(c.Steps[0])))
		}
	}
}
