package hash_test

// Trace recorder for property C13 (overlaid into lib/hash by /verif/bin/check as an external
// test package: only the public API of hash.ConsistentHash is used).
//
// It executes TLC-generated membership histories (spec/ConsistentHashGen.tla) on the real
// ring and records, after every operation, what Get returns: for 16 probe keys (twice), and
// aggregated over a large key population (owner counts, moved keys).  A second ring, on which
// every Add* is executed as Remove followed by the same Add*, gives the reference for the
// "re-adding replaces the previous virtual nodes" clause.  The driver judges nothing: the
// recorded events are validated against spec/ConsistentHashTrace.tla by TLC.
//
// Every call of the code under test (Get, Add*, Remove) runs under recover(): a call that
// panics instead of returning is an observation like any other.  The lookup result is then
// logged as "PANIC" and the event carries `pan` (the operations that panicked since the last
// event: "get", "add", "addw", "addr", "remove") and `panmsg` (first panic value per operation).
// The contract rejects such an event (clause "panic").

import (
	"fmt"
	"hash/fnv"
	"sort"
	"strconv"
	"sync"
	"testing"
	"time"

	kit "github.com/gotid/god/internal/verifkit"
	"github.com/gotid/god/lib/hash"
)

type c13Struct struct {
	Host string
	Port int
}

type c13Stringer struct{ name string }

func (s *c13Stringer) String() string { return s.name }

const c13None = "-"

// c13Panic is logged in place of a lookup result when Get panicked.
const c13Panic = "PANIC"

// c13Pan collects the calls of the code under test that panicked since the last emitted event.
type c13Pan struct {
	ops  []string          // distinct operations, in order of first occurrence
	msgs map[string]string // operation -> first panic value
	n    map[string]int    // operation -> number of panics
}

// call runs f (one call of the code under test); true = it returned normally.
func (p *c13Pan) call(op string, f func()) (ok bool) {
	defer func() {
		if r := recover(); r != nil {
			ok = false
			if p.msgs == nil {
				p.msgs, p.n = map[string]string{}, map[string]int{}
			}
			if _, seen := p.msgs[op]; !seen {
				p.ops = append(p.ops, op)
				p.msgs[op] = fmt.Sprint(r)
			}
			p.n[op]++
		}
	}()
	f()
	return true
}

// flush writes what was collected into the event and starts over.
func (p *c13Pan) flush(ev kit.M) {
	ops := p.ops
	if ops == nil {
		ops = []string{}
	}
	ev["pan"] = ops
	if len(ops) > 0 {
		ev["panmsg"] = p.msgs
	}
	p.ops, p.msgs, p.n = nil, nil, nil
}

// get is Get under recover: the spec name of the returned node, "-" for absence, "PANIC".
func (w *c13World) get(r *hash.ConsistentHash, k any, p *c13Pan) string {
	var n any
	var ok bool
	if !p.call("get", func() { n, ok = r.Get(k) }) {
		return c13Panic
	}
	return w.nameOf(n, ok)
}

type c13World struct {
	nodes map[string]any // spec name -> Go node
	order []string
	probe []any
	pop   []string
}

// Node kinds.  VERIF_KINDS selects which Go values stand behind the spec's node names:
//   "a" (default)  string, struct value, pointer to a fmt.Stringer, string
//   "b"            pointer to a struct without String(), []byte, pointer to int, int
//   "c"            pointer to a Stringer, pointer to a struct, string, []byte   (kinds mixed the other way)
// lang.Repr, which names a node inside the ring, treats each of them differently (Stringer,
// pointer dereference, []byte as string, fmt.Sprint of a struct).
func newC13World(pop int, seed int64) *c13World {
	w := &c13World{nodes: map[string]any{}}
	seven := 7
	switch kit.Env("VERIF_KINDS", "a") {
	case "b":
		w.nodes["n1"] = &c13Struct{Host: "10.0.1.1", Port: 6379} // pointer to struct, no String()
		w.nodes["n2"] = []byte("10.0.1.2:6379")                    // []byte (not comparable)
		w.nodes["n3"] = &seven                                     // pointer to int
		w.nodes["n4"] = 424242                                     // int
	case "c":
		w.nodes["n1"] = &c13Stringer{name: "cache-node-c1"}
		w.nodes["n2"] = &c13Struct{Host: "10.0.2.2", Port: 6380}
		w.nodes["n3"] = "10.0.2.3:6379"
		w.nodes["n4"] = []byte("10.0.2.4:6379")
	default:
		w.nodes["n1"] = "10.0.0.1:6379"                       // string
		w.nodes["n2"] = c13Struct{Host: "10.0.0.2", Port: 6379} // struct (repr through fmt.Sprint)
		w.nodes["n3"] = &c13Stringer{name: "cache-node-3"}     // fmt.Stringer
		w.nodes["n4"] = "10.0.0.4:6379"
	}
	for k := range w.nodes {
		w.order = append(w.order, k)
	}
	sort.Strings(w.order)
	w.probe = []any{"user:1001", "user:1002", "order#77", "", "a", 42, int64(-7), uint8(200),
		"cache:article:9", 3.25, true, "k\x00z", "一致性", []byte("bytes"), &c13Stringer{name: "keyer"}, c13Struct{"h", 1}}
	for i := 0; i < pop; i++ {
		w.pop = append(w.pop, "pk"+strconv.FormatInt(seed, 10)+":"+strconv.Itoa(i))
	}
	return w
}

// same: is the value Get returned this very node?  ([]byte nodes are not comparable with ==.)
func c13Same(a, b any) bool {
	ab, aok := a.([]byte)
	bb, bok := b.([]byte)
	if aok || bok {
		return aok && bok && len(ab) > 0 && len(bb) > 0 && &ab[0] == &bb[0] && len(ab) == len(bb)
	}
	return a == b
}

func (w *c13World) nameOf(n any, ok bool) string {
	if !ok {
		return c13None
	}
	for _, name := range w.order {
		if c13Same(w.nodes[name], n) {
			return name
		}
	}
	return "?" + fmt.Sprint(n)
}

func (w *c13World) look(r *hash.ConsistentHash, keys []any, p *c13Pan) []string {
	out := make([]string, len(keys))
	for i, k := range keys {
		out[i] = w.get(r, k, p)
	}
	return out
}

func (w *c13World) lookPop(r *hash.ConsistentHash, p *c13Pan) []string {
	out := make([]string, len(w.pop))
	for i, k := range w.pop {
		out[i] = w.get(r, k, p)
	}
	return out
}

// c13Fnv is a caller-supplied hash function (FNV-1a, 64 bit, with a final avalanche step): the
// contract clauses do not depend on which function places the virtual nodes.
func c13Fnv(data []byte) uint64 {
	h := fnv.New64a()
	h.Write(data)
	x := h.Sum64()
	x ^= x >> 33
	x *= 0xff51afd7ed558ccd
	x ^= x >> 33
	return x
}

func c13NewRing(base int) *hash.ConsistentHash {
	if kit.Env("VERIF_HASH", "") == "fnv" {
		return hash.NewCustomConsistentHash(base, c13Fnv)
	}
	if base == 100 {
		return hash.NewConsistentHash()
	}
	return hash.NewCustomConsistentHash(base, nil)
}

// c13NewRingSet creates a ring with an explicit REPLICA SETTING (the "new" operation of a history):
// always through NewCustomConsistentHash, with the caller-supplied hash function when VERIF_HASH=fnv.
func c13NewRingSet(setting int) *hash.ConsistentHash {
	if kit.Env("VERIF_HASH", "") == "fnv" {
		return hash.NewCustomConsistentHash(setting, c13Fnv)
	}
	return hash.NewCustomConsistentHash(setting, nil)
}

func c13Apply(r *hash.ConsistentHash, st kit.M, node any, removeFirst bool, p *c13Pan) error {
	op := kit.Str(st["op"])
	if removeFirst && op != "remove" && op != "lookup" && op != "new" {
		p.call("remove", func() { r.Remove(node) })
	}
	switch op {
	case "add":
		p.call(op, func() { r.Add(node) })
	case "addw":
		w := kit.Num(st["w"])
		p.call(op, func() { r.AddWithWeight(node, w) })
	case "addr":
		n := kit.Num(st["r"])
		p.call(op, func() { r.AddWithReplicas(node, n) })
	case "remove":
		p.call(op, func() { r.Remove(node) })
	case "lookup", "new":
	default:
		return fmt.Errorf("unknown op %q", op)
	}
	return nil
}

func runC13Case(w *c13World, c kit.Case, base int, tr *kit.Tracer) kit.Verdict {
	v := kit.Verdict{Case: c.Index, OK: true}
	main, shadow := c13NewRing(base), c13NewRing(base)
	tr.Emit(kit.M{"ev": "reset", "h": c.Index, "base": base})
	pan := &c13Pan{} // a panic of the lookups on the fresh ring is carried into the first event
	prev := w.lookPop(main, pan)
	for _, st := range c.Steps {
		op := kit.Str(st["op"])
		var node any
		if op == "new" {
			// the history creates its ring itself, with the replica setting the generator chose
			set := kit.Num(st["set"])
			var m2, s2 *hash.ConsistentHash
			pan.call("new", func() { m2, s2 = c13NewRingSet(set), c13NewRingSet(set) })
			if m2 != nil && s2 != nil {
				main, shadow = m2, s2
			}
		} else if op != "lookup" {
			var ok bool
			if node, ok = w.nodes[kit.Str(st["n"])]; !ok {
				return kit.Verdict{Case: c.Index, Infra: true, Msg: "unknown node " + kit.Str(st["n"])}
			}
		}
		if err := c13Apply(main, st, node, false, pan); err != nil {
			return kit.Verdict{Case: c.Index, Infra: true, Msg: err.Error()}
		}
		c13Apply(shadow, st, node, true, pan)
		ev := kit.M{"ev": op}
		for _, f := range []string{"n", "w", "r", "set"} {
			if x, ok := st[f]; ok {
				ev[f] = x
			}
		}
		ev["asg"] = w.look(main, w.probe, pan)
		ev["asg2"] = w.look(main, w.probe, pan)
		cur := w.lookPop(main, pan)
		var alt []string
		if op != "remove" && op != "lookup" && op != "new" {
			// reference for "re-adding replaces the previous virtual nodes"
			ev["alt"] = w.look(shadow, w.probe, pan)
			alt = w.lookPop(shadow, pan)
		}
		cnt := map[string]int{c13None: 0}
		for _, n := range w.order {
			cnt[n] = 0
		}
		type ft struct{ f, t string }
		moved := map[ft]int{}
		altd := 0
		for i, n := range cur {
			cnt[n]++
			if prev[i] != n {
				moved[ft{prev[i], n}]++
			}
			if alt != nil && alt[i] != n {
				altd++
			}
		}
		mv := make([]kit.M, 0, len(moved))
		for k, c := range moved {
			mv = append(mv, kit.M{"f": k.f, "t": k.t, "c": c})
		}
		sort.Slice(mv, func(i, j int) bool {
			a, b := mv[i], mv[j]
			if a["f"] != b["f"] {
				return a["f"].(string) < b["f"].(string)
			}
			return a["t"].(string) < b["t"].(string)
		})
		ev["cnt"], ev["mv"] = cnt, mv
		if alt != nil {
			ev["altd"] = altd
		}
		pan.flush(ev)
		tr.Emit(ev)
		prev = cur
		v.Steps++
	}
	return v
}

func TestVerifC13(t *testing.T) {
	cases, err := kit.LoadCases(kit.Env("VERIF_CASES", ""))
	if err != nil {
		t.Fatal(err)
	}
	rep, err := kit.NewReporter(kit.Env("VERIF_OUT", ""))
	if err != nil {
		t.Fatal(err)
	}
	defer rep.Close()
	shard, shards := kit.EnvInt("VERIF_SHARD", 0), kit.EnvInt("VERIF_SHARDS", 1)
	tr, err := kit.NewTracer(fmt.Sprintf("%s-%d.ndjson", kit.Env("VERIF_TRACE", "c13trace"), shard))
	if err != nil {
		t.Fatal(err)
	}
	defer tr.Close()
	w := newC13World(kit.EnvInt("VERIF_POP", 2000), kit.Seed())
	base := kit.EnvInt("VERIF_BASE", 100)
	for _, c := range cases {
		if c.Index%shards != shard {
			continue
		}
		rep.Put(runC13Case(w, c, base, tr))
	}
	rep.Count("events", int(tr.N))
}

// c13SharedPan is c13Pan for several goroutines.
type c13SharedPan struct {
	mu sync.Mutex
	c13Pan
}

func (p *c13SharedPan) call(op string, f func()) (ok bool) {
	defer func() {
		if r := recover(); r != nil {
			ok = false
			p.mu.Lock()
			defer p.mu.Unlock()
			p.c13Pan.call(op, func() { panic(r) })
		}
	}()
	f()
	return true
}

// json renders {"op":count,...} and the first panic value per operation.
func (p *c13Pan) json() string {
	s := "{"
	for i, op := range p.ops {
		if i > 0 {
			s += ","
		}
		s += strconv.Quote(op) + ":{\"n\":" + strconv.Itoa(p.n[op]) + ",\"msg\":" + strconv.Quote(p.msgs[op]) + "}"
	}
	return s + "}"
}

// TestVerifC13Race: lookups concurrent with membership changes, meant to be run under -race.
// The statement does not quantify over concurrency, so no lookup result is compared here: a data
// race reported by the race detector or a fatal runtime error (both make the test binary fail) is a
// finding, and so is a call of Get / Add* / Remove that panics (every call runs under recover();
// the panics are counted per operation and printed, the check reports them as C13:panic:<op>).
// Every fourth round removes all four nodes: the main goroutine looks keys up after every round,
// so lookups on a ring that returned to empty do not depend on scheduling.
func TestVerifC13Race(t *testing.T) {
	w := newC13World(2000, kit.Seed())
	ring := hash.NewConsistentHash()
	stop := make(chan struct{})
	var wg sync.WaitGroup
	var lookups [4]int
	pan := &c13SharedPan{}
	for g := 0; g < 4; g++ {
		wg.Add(1)
		go func(g int) {
			defer wg.Done()
			for i := 0; ; i++ {
				select {
				case <-stop:
					return
				default:
				}
				pan.call("get", func() { ring.Get(w.pop[(i*7+g)%len(w.pop)]) })
				pan.call("get", func() { ring.Get(w.probe[i%len(w.probe)]) })
				lookups[g] += 2
			}
		}(g)
	}
	rounds := kit.EnvInt("VERIF_ROUNDS", 300)
	deadline := time.Now().Add(20 * time.Second)
	n, own := 0, 0
	for ; n < rounds && time.Now().Before(deadline); n++ {
		for _, name := range w.order {
			node := w.nodes[name]
			switch (n + len(name)) % 4 {
			case 0:
				pan.call("add", func() { ring.Add(node) })
			case 1:
				pan.call("addw", func() { ring.AddWithWeight(node, (n*37)%101) })
			case 2:
				pan.call("addr", func() { ring.AddWithReplicas(node, (n*53)%201) })
			case 3:
				pan.call("remove", func() { ring.Remove(node) })
			}
		}
		for i := 0; i < 8; i++ {
			pan.call("get", func() { ring.Get(w.pop[(n*8+i)%len(w.pop)]) })
			own++
		}
	}
	close(stop)
	wg.Wait()
	total := own
	for _, c := range lookups {
		total += c
	}
	fmt.Printf("C13RACE rounds=%d lookups=%d\n", n, total)
	fmt.Printf("C13RACEPANIC %s\n", pan.c13Pan.json())
}

// TestVerifC13Shares: the statistical clause "each node's share of a large key population is
// roughly proportional to its weight", aggregated over classes of ten nodes so that it is tight:
// on a ring created with VERIF_BASE virtual nodes per full node, ten nodes are added with Add,
// ten with AddWithWeight(100), ten with AddWithWeight(50) (interleaved), and VERIF_POP keys are
// looked up.  Node names and keys are fixed, so the measured shares are a deterministic function
// of the code; the driver only counts, the check compares with the weight-proportional shares.
func TestVerifC13Shares(t *testing.T) {
	base := kit.EnvInt("VERIF_BASE", 150)
	pop := kit.EnvInt("VERIF_POP", 40000)
	var ring *hash.ConsistentHash
	if set := kit.Env("VERIF_SETTING", ""); set != "" {
		// replica setting as given by the check (below the minimum: the ring must behave as base 100)
		n, err := strconv.Atoi(set)
		if err != nil {
			t.Fatal(err)
		}
		ring = hash.NewCustomConsistentHash(n, nil)
	} else if base == 100 {
		ring = hash.NewConsistentHash()
	} else {
		ring = hash.NewCustomConsistentHash(base, nil)
	}
	class := map[any]string{}
	pan := &c13Pan{}
	for i := 0; i < 10; i++ {
		a, b, c := fmt.Sprintf("10.1.0.%d:6379", i), fmt.Sprintf("10.2.0.%d:6379", i), fmt.Sprintf("10.3.0.%d:6379", i)
		pan.call("add", func() { ring.Add(a) })
		pan.call("addw", func() { ring.AddWithWeight(b, 100) })
		pan.call("addw", func() { ring.AddWithWeight(c, 50) })
		class[a], class[b], class[c] = "add", "w100", "w50"
	}
	cnt := map[string]int{"add": 0, "w100": 0, "w50": 0, "none": 0, "panic": 0}
	for i := 0; i < pop; i++ {
		var n any
		var ok bool
		if !pan.call("get", func() { n, ok = ring.Get("share-key:" + strconv.Itoa(i)) }) {
			cnt["panic"]++
			continue
		}
		if !ok {
			cnt["none"]++
			continue
		}
		cnt[class[n]]++
	}
	fmt.Printf("C13SHARE {\"base\":%d,\"pop\":%d,\"add\":%d,\"w100\":%d,\"w50\":%d,\"none\":%d,\"panic\":%d,\"pan\":%s}\n",
		base, pop, cnt["add"], cnt["w100"], cnt["w50"], cnt["none"], cnt["panic"], pan.json())
}
