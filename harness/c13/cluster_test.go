package kv_test

// Second recorder for property C13 (overlaid into lib/store/kv as an external test package):
// the two users of hash.ConsistentHash named by the property, cache.New (cache cluster) and
// kv.New (sharded KV store), are built over three in-process redis servers with given weights.
// Which server ends up holding a key is observed on the servers themselves (miniredis
// inspection), after Set, after Del+Set and after a batch Del+Set: the shard of a key must be
// a server of positive weight and must not change.  Events go to the same trace format as
// harness/c13/hash_test.go ("build" = the AddWithWeight calls made by the constructor) and are
// validated by spec/ConsistentHashTrace.tla.
//
// The constructor and every Set / Get / Del run under recover(): a call that panics is logged
// ("PANIC" in place of the holder, `pan` = operations that panicked: "new", "set", "get", "del")
// and rejected by the contract like any other inadmissible observation.

import (
	"errors"
	"fmt"
	"strconv"
	"testing"

	"github.com/alicebob/miniredis/v2"
	kit "github.com/gotid/god/internal/verifkit"
	"github.com/gotid/god/lib/store/cache"
	"github.com/gotid/god/lib/store/kv"
	"github.com/gotid/god/lib/store/redis"
	"github.com/gotid/god/lib/syncx"
)

type c13Shards struct {
	servers []*miniredis.Miniredis
	names   []string
}

// holder names the single server that holds key; anything else is not a node name.
func (s *c13Shards) holder(key string) string {
	h := "-"
	for i, m := range s.servers {
		if m.Exists(key) {
			if h != "-" {
				return "?two-holders"
			}
			h = s.names[i]
		}
	}
	return h
}

// c13Pan collects the calls of the code under test that panicked since the last emitted event.
type c13Pan struct {
	ops  []string
	msgs map[string]string
}

// call runs f (one call of the code under test); ok = it returned normally.
func (p *c13Pan) call(op string, f func() error) (err error, ok bool) {
	defer func() {
		if r := recover(); r != nil {
			err, ok = nil, false
			if p.msgs == nil {
				p.msgs = map[string]string{}
			}
			if _, seen := p.msgs[op]; !seen {
				p.ops = append(p.ops, op)
				p.msgs[op] = fmt.Sprint(r)
			}
		}
	}()
	return f(), true
}

func (p *c13Pan) flush(ev kit.M) kit.M {
	ops := p.ops
	if ops == nil {
		ops = []string{}
	}
	ev["pan"] = ops
	if len(ops) > 0 {
		ev["panmsg"] = p.msgs
	}
	p.ops, p.msgs = nil, nil
	return ev
}

const c13Panic = "PANIC"

type c13KV struct {
	set func(key string) error
	get func(key string) error
	del func(keys ...string) error
}

func c13Round(s *c13Shards, api c13KV, keys []string, pan *c13Pan) ([]string, error) {
	out := make([]string, len(keys))
	for i, k := range keys {
		err, ok := pan.call("set", func() error { return api.set(k) })
		if !ok {
			out[i] = c13Panic
			continue
		}
		if err != nil {
			return nil, fmt.Errorf("set %q: %v", k, err)
		}
		out[i] = s.holder(k)
		if err, ok := pan.call("get", func() error { return api.get(k) }); !ok {
			out[i] = c13Panic
		} else if err != nil {
			out[i] = "?get-misses-after-set"
		}
	}
	return out, nil
}

func runC13Cluster(c kit.Case, kind string, tr *kit.Tracer, pop int) kit.Verdict {
	infra := func(err error) kit.Verdict { return kit.Verdict{Case: c.Index, Infra: true, Msg: err.Error()} }
	weights := kit.List(c.Steps[0]["weights"])
	s := &c13Shards{}
	var conf cache.ClusterConfig
	mem := kit.M{"n1": -1, "n2": -1, "n3": -1, "n4": -1}
	for i, w := range weights {
		m, err := miniredis.Run()
		if err != nil {
			return infra(err)
		}
		defer m.Close()
		name := "n" + strconv.Itoa(i+1)
		s.servers, s.names = append(s.servers, m), append(s.names, name)
		conf = append(conf, cache.NodeConfig{Config: redis.Config{Host: m.Addr(), Type: redis.NodeType}, Weight: kit.Num(w)})
		mem[name] = kit.Num(w) // NewConsistentHash: 100 virtual nodes * weight / 100
	}
	var api c13KV
	pan := &c13Pan{}
	if kind != "cache" && kind != "kv" {
		return infra(fmt.Errorf("kind %q", kind))
	}
	errNotFound := errors.New("not found")
	var cc cache.Cache
	var st kv.Store
	if _, ok := pan.call("new", func() error {
		if kind == "cache" {
			cc = cache.New(conf, syncx.NewSingleFlight(), cache.NewStat("c13"), errNotFound)
		} else {
			st = kv.New(conf)
		}
		return nil
	}); !ok {
		// the constructor (AddWithWeight per node) panicked: nothing can be looked up
		all := make([]string, 16)
		for i := range all {
			all[i] = c13Panic
		}
		tr.Emit(kit.M{"ev": "reset", "h": c.Index, "base": 100, "kind": kind})
		tr.Emit(pan.flush(kit.M{"ev": "build", "mem": mem, "asg": all, "asg2": all,
			"cnt": map[string]int{"-": 0, "n1": 0, "n2": 0, "n3": 0, "n4": 0}, "mv": []kit.M{}}))
		return kit.Verdict{Case: c.Index, OK: true, Steps: 1}
	}
	switch kind {
	case "cache":
		api = c13KV{
			set: func(k string) error { return cc.Set(k, "v") },
			get: func(k string) error { var v string; return cc.Get(k, &v) },
			del: func(ks ...string) error { return cc.Del(ks...) },
		}
	case "kv":
		api = c13KV{
			set: func(k string) error { return st.Set(k, "v") },
			get: func(k string) error {
				v, err := st.Get(k)
				if err == nil && v != "v" {
					err = errors.New("miss")
				}
				return err
			},
			del: func(ks ...string) error { _, err := st.Del(ks...); return err },
		}
	}
	var probe, popk []string
	for i := 0; i < 16; i++ {
		probe = append(probe, fmt.Sprintf("cache:user:%d", 1000+i))
	}
	for i := 0; i < pop; i++ {
		popk = append(popk, fmt.Sprintf("pk%d:%d", kit.Seed(), i))
	}
	count := func(v []string) map[string]int {
		cnt := map[string]int{"-": 0, "n1": 0, "n2": 0, "n3": 0, "n4": 0}
		for _, n := range v {
			cnt[n]++
		}
		return cnt
	}
	moves := func(a, b []string) []kit.M {
		mv := []kit.M{}
		for i := range a {
			if a[i] != b[i] {
				mv = append(mv, kit.M{"f": a[i], "t": b[i], "c": 1})
			}
		}
		return mv
	}
	tr.Emit(kit.M{"ev": "reset", "h": c.Index, "base": 100, "kind": kind})

	// build: first placement; second placement after deleting every key singly
	a1, err := c13Round(s, api, probe, pan)
	if err != nil {
		return infra(err)
	}
	p1, err := c13Round(s, api, popk, pan)
	if err != nil {
		return infra(err)
	}
	delPanicked := map[string]bool{}
	for _, k := range probe {
		if err, ok := pan.call("del", func() error { return api.del(k) }); !ok {
			delPanicked[k] = true
		} else if err != nil {
			return infra(fmt.Errorf("del %q: %v", k, err))
		}
	}
	for i, k := range probe {
		if delPanicked[k] {
			a1[i] = c13Panic
		} else if s.holder(k) != "-" {
			a1[i] = "?still-there-after-del"
		}
	}
	a2, err := c13Round(s, api, probe, pan)
	if err != nil {
		return infra(err)
	}
	tr.Emit(pan.flush(kit.M{"ev": "build", "mem": mem, "asg": a1, "asg2": a2, "cnt": count(p1), "mv": []kit.M{}}))

	// lookup: batch delete (keys grouped by node inside the cluster), place again
	err, batchOK := pan.call("del", func() error { return api.del(append(append([]string{}, probe...), popk...)...) })
	if batchOK && err != nil {
		return infra(fmt.Errorf("batch del: %v", err))
	}
	stale := false
	for _, k := range append(append([]string{}, probe...), popk...) {
		if batchOK && s.holder(k) != "-" {
			stale = true
		}
	}
	a3, err := c13Round(s, api, probe, pan)
	if err != nil {
		return infra(err)
	}
	p3, err := c13Round(s, api, popk, pan)
	if err != nil {
		return infra(err)
	}
	if stale {
		a3[0] = "?still-there-after-batch-del"
	}
	if !batchOK {
		a3[0] = c13Panic
	}
	a4 := make([]string, len(probe))
	for i, k := range probe {
		a4[i] = s.holder(k)
	}
	tr.Emit(pan.flush(kit.M{"ev": "lookup", "asg": a3, "asg2": a4, "cnt": count(p3), "mv": moves(p1, p3)}))
	return kit.Verdict{Case: c.Index, OK: true, Steps: 2}
}

func TestVerifC13Cluster(t *testing.T) {
	cases, err := kit.LoadCases(kit.Env("VERIF_CASES", ""))
	if err != nil {
		t.Fatal(err)
	}
	rep, err := kit.NewReporter(kit.Env("VERIF_OUT", ""))
	if err != nil {
		t.Fatal(err)
	}
	defer rep.Close()
	shard, shards := kit.EnvInt("VERIF_SHARD", 0), kit.EnvInt("VERIF_SHARDS", 1)
	tr, err := kit.NewTracer(fmt.Sprintf("%s-%d.ndjson", kit.Env("VERIF_TRACE", "c13trace"), shard))
	if err != nil {
		t.Fatal(err)
	}
	defer tr.Close()
	for _, c := range cases {
		if c.Index%shards != shard {
			continue
		}
		rep.Put(runC13Cluster(c, kit.Str(c.Steps[0]["kind"]), tr, kit.EnvInt("VERIF_POP", 300)))
	}
	rep.Count("events", int(tr.N))
}
