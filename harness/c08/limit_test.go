package limit

// Replay drivers for property C08 (overlaid into lib/limit by /verif/bin/check).
//
// TestVerifC08Period executes TLC-generated behaviours of spec/PeriodLimitGen.tla on the real
// PeriodLimit and TestVerifC08Token those of spec/TokenLimitGen.tla on the real TokenLimiter,
// both over a miniredis server (the Lua scripts run in miniredis' gopher-lua).  The server
// clock of the model is miniredis' FastForward (TTLs move only through it), the caller clock
// is the `now` handed to AllowN, outages are Close()/Restart() (or, for every other behaviour of the
// outage-duration family, a server that drops every connection), `hold` steps let real time pass
// during an outage (outage DURATION: the monitor lives on a wall-clock ticker).  After every step the
// observable result (code of a take, multiset of codes of a concurrent burst, grant decision,
// whether the request reached Redis) is compared with the specification's prediction.  `step` moves the caller
// clock by milliseconds: the time handed to AllowN is second `now` plus `sub` ms (the script gets now.Unix(), the
// in-process bucket of the outage the full time).

import (
	"bufio"
	"context"
	"fmt"
	"net"
	"runtime"
	"sort"
	"strings"
	"sync"
	"sync/atomic"
	"testing"
	"time"

	"github.com/alicebob/miniredis/v2"
	"github.com/alicebob/miniredis/v2/server"
	kit "github.com/gotid/god/internal/verifkit"
	"github.com/gotid/god/lib/logx"
	"github.com/gotid/god/lib/mathx"
	"github.com/gotid/god/lib/store/redis"
)

func c08Setup(t *testing.T) ([]kit.Case, *kit.Reporter, int, int) {
	logx.Disable()
	if c08RealBreaker() {
		// the real breaker with its real coin: on a healthy Redis neither a denial (the token script's
		// Nil reply) nor an OverQuota code is a failure, so the breaker has nothing to count, never
		// consults its coin and the behaviour stays deterministic
		mathx.SetVerifCoin(nil)
	} else {
		// C01 is not under test here: the breaker inside redis.Redis never rejects
		mathx.SetVerifCoin(func(float64) (bool, bool) { return false, true })
	}
	cases, err := kit.LoadCases(kit.Env("VERIF_CASES", ""))
	if err != nil {
		t.Fatal(err)
	}
	rep, err := kit.NewReporter(kit.Env("VERIF_OUT", ""))
	if err != nil {
		t.Fatal(err)
	}
	return cases, rep, kit.EnvInt("VERIF_SHARD", 0), kit.EnvInt("VERIF_SHARDS", 1)
}

func c08RealBreaker() bool { return kit.Env("VERIF_REAL_BREAKER", "") != "" }

func c08CodeName(code int) string {
	switch code {
	case Allowed:
		return "allowed"
	case HitQuota:
		return "hit"
	case OverQuota:
		return "over"
	case Unknown:
		return "unknown"
	}
	return fmt.Sprintf("code%d", code)
}

// ---------------------------------------------------------------- period limiter

// errDisturbed: go-redis retries a command whose reply did not arrive in time (MaxRetries = 3 in
// the wrapper's client), so on an overloaded machine one Take/AllowN may execute the script twice.
// That is a disturbance of the environment, not a behaviour the property quantifies over: the
// driver sees it (the number of EVALs that reached the server differs from the number of calls)
// and replays the behaviour from scratch.
const c08Disturbed = "disturbed: a script call reached Redis more than once (client-side retry)"

func runC08PeriodRetry(c kit.Case, cs *c08Server, store *redis.Redis, rep *kit.Reporter) kit.Verdict {
	var v kit.Verdict
	for attempt := 0; attempt < 4; attempt++ {
		v = runC08Period(c, cs, store, rep, attempt)
		if !(v.Infra && v.Msg == c08Disturbed) {
			return v
		}
		rep.Count("disturbed-reruns", 1)
	}
	return v
}

func runC08Period(c kit.Case, cs *c08Server, store *redis.Redis, rep *kit.Reporter, attempt int) (v kit.Verdict) {
	s := cs.s
	v = kit.Verdict{Case: c.Index, OK: true}
	fail := func(step int, key, msg string) kit.Verdict {
		v.OK, v.Step, v.Key, v.Msg = false, step, key, msg
		return v
	}
	if len(c.Steps) == 0 || kit.Str(c.Steps[0]["op"]) != "cfg" {
		return kit.Verdict{Case: c.Index, Infra: true, Msg: "behaviour does not start with cfg"}
	}
	s.FlushAll()
	quota, period := kit.Num(c.Steps[0]["quota"]), kit.Num(c.Steps[0]["period"])
	prefix := fmt.Sprintf("p%d.%d:", c.Index, attempt)
	pl := NewPeriodLimit(period, quota, store, prefix)
	cfg := fmt.Sprintf("quota=%d period=%d", quota, period)
	ntake := 0
	take := func(k string) (int, error) {
		ntake++
		if ntake%2 == 0 {
			return pl.TakeCtx(context.Background(), k)
		}
		return pl.Take(k)
	}
	for i, st := range c.Steps[1:] {
		i++
		switch op := kit.Str(st["op"]); op {
		case "take":
			k := kit.Str(st["k"])
			e0 := cs.evals.Load()
			code, err := take(k)
			if cs.evals.Load()-e0 != 1 && err == nil {
				return kit.Verdict{Case: c.Index, Infra: true, Msg: c08Disturbed}
			}
			v.Steps++
			rep.Count("take", 1)
			if err != nil {
				return fail(i, "C08:period:error", fmt.Sprintf("%s step %d Take(%s) returned error %v", cfg, i, k, err))
			}
			if got, want := c08CodeName(code), kit.Str(st["code"]); got != want {
				return fail(i, "C08:period:code:"+want+"->"+got,
					fmt.Sprintf("%s step %d Take(%s) = %s, specification %s", cfg, i, k, got, want))
			}
		case "burst":
			k, m := kit.Str(st["k"]), kit.Num(st["m"])
			got := make([]string, m)
			var wg sync.WaitGroup
			start := make(chan struct{})
			var nerr atomic.Int32
			e0 := cs.evals.Load()
			for j := 0; j < m; j++ {
				wg.Add(1)
				go func(j int) {
					defer wg.Done()
					<-start
					var code int
					var err error
					if j%2 == 0 {
						code, err = pl.Take(k)
					} else {
						code, err = pl.TakeCtx(context.Background(), k)
					}
					if err != nil {
						nerr.Add(1)
						got[j] = "error:" + err.Error()
						return
					}
					got[j] = c08CodeName(code)
				}(j)
			}
			close(start)
			wg.Wait()
			if cs.evals.Load()-e0 != int64(m) && nerr.Load() == 0 {
				return kit.Verdict{Case: c.Index, Infra: true, Msg: c08Disturbed}
			}
			v.Steps++
			rep.Count("burst", 1)
			var want []string
			for _, w := range kit.List(st["codes"]) {
				want = append(want, kit.Str(w))
			}
			sort.Strings(got)
			sort.Strings(want)
			if g, w := strings.Join(got, ","), strings.Join(want, ","); g != w {
				key := "C08:period:burst-codes"
				if nerr.Load() > 0 {
					key = "C08:period:error"
				}
				return fail(i, key, fmt.Sprintf("%s step %d %d concurrent Take(%s) = {%s}, specification {%s}", cfg, i, m, k, g, w))
			}
		case "adv":
			s.FastForward(time.Duration(kit.Num(st["d"])) * time.Second)
			v.Steps++
			rep.Count("adv", 1)
		default:
			return kit.Verdict{Case: c.Index, Infra: true, Msg: "unknown op " + op}
		}
	}
	return v
}

func TestVerifC08Period(t *testing.T) {
	cases, rep, shard, shards := c08Setup(t)
	defer rep.Close()
	s, err := miniredis.Run()
	if err != nil {
		t.Fatal(err)
	}
	defer s.Close()
	cs := &c08Server{s: s}
	cs.hook()
	store := redis.New(s.Addr())
	for _, c := range cases {
		if c.Index%shards != shard {
			continue
		}
		if c08RealBreaker() {
			store = redis.New(s.Addr()) // a breaker without history for every behaviour
		}
		rep.Put(runC08PeriodRetry(c, cs, store, rep))
	}
}

// ---------------------------------------------------------------- Align()

// TestVerifC08Align: one row of spec/PeriodAlignGen.tla = (zone offset, period, table of window
// lengths for the seconds around now).  The limiter reads time.Now() itself, so the driver
// brackets the call with two readings of the clock and accepts the table entry of either second.
func TestVerifC08Align(t *testing.T) {
	cases, rep, shard, shards := c08Setup(t)
	defer rep.Close()
	s, err := miniredis.Run()
	if err != nil {
		t.Fatal(err)
	}
	defer s.Close()
	cs := &c08Server{s: s}
	cs.hook()
	store := redis.New(s.Addr())
	for _, c := range cases {
		if c.Index%shards != shard {
			continue
		}
		row := c.Steps[0]
		off, period, t0 := kit.Num(row["off"]), kit.Num(row["period"]), int64(kit.Num(row["t0"]))
		win := kit.List(row["win"])
		time.Local = time.FixedZone("verif", off)
		v := kit.Verdict{Case: c.Index, OK: true}
		for rep2 := 0; rep2 < 3 && v.OK && !v.Infra; rep2++ {
			s.FlushAll()
			pl := NewPeriodLimit(period, 5, store, "al:", Align())
			key := fmt.Sprintf("k%d", rep2)
			u0 := time.Now().Unix()
			code, err := pl.Take(key)
			u1 := time.Now().Unix()
			v.Steps++
			if err != nil || code != Allowed {
				v.OK, v.Key, v.Msg = false, "C08:period:align:code", fmt.Sprintf("offset=%d period=%d: first Take = %s, %v", off, period, c08CodeName(code), err)
				break
			}
			if u0 < t0 || u1-t0 >= int64(len(win)) {
				v = kit.Verdict{Case: c.Index, Infra: true, Msg: fmt.Sprintf("table covers seconds %d..%d, now is %d", t0, t0+int64(len(win))-1, u1)}
				break
			}
			cs.mu.Lock()
			args := cs.lastEval
			cs.mu.Unlock()
			got := ""
			if len(args) > 0 {
				got = args[len(args)-1]
			}
			w0, w1 := kit.Str(win[u0-t0]), kit.Str(win[u1-t0])
			if got != w0 && got != w1 {
				v.OK, v.Key = false, "C08:period:align:window"
				v.Msg = fmt.Sprintf("offset=%d period=%d at unix second %d: window handed to Redis = %s s, specification %s", off, period, u0, got, w0)
				break
			}
			if ttl := fmt.Sprint(int(s.TTL("al:"+key) / time.Second)); ttl != got {
				v.OK, v.Key = false, "C08:period:align:ttl"
				v.Msg = fmt.Sprintf("offset=%d period=%d: counter key has TTL %s s, window %s s", off, period, ttl, got)
				break
			}
		}
		rep.Put(v)
	}
}

// ---------------------------------------------------------------- concurrent use (also built with -race)

// TestVerifC08Race: many goroutines on ONE limiter ("... whatever the interleaving of concurrent
// callers").  The driver only records; the judge is TLC with spec/TokenLimitConc.tla and
// spec/PeriodLimitConc.tla (checks/c08.py, conc_validate).
//
// A round = a fresh limiter and a sequence of phases separated by barriers.  In front of a phase the
// clocks move as the case says (token: caller second += dc, server += ds; period: server += d); within
// a phase all callers run freely at those frozen clocks.  Token limiter: one caller keeps asking for
// burst+1 tokens (never grantable), `ones` callers ask for 1 token, `twos` for 2, `cancelled` callers
// use an already cancelled context.  Period limiter: `takers` goroutines per key on `keys` keys.
// Recorded per phase (one line per round in VERIF_TRACE): the multiset of results, the number of calls
// that should have reached Redis and the number of script executions the server saw.
func TestVerifC08Race(t *testing.T) {
	cases, rep, _, _ := c08Setup(t)
	defer rep.Close()
	tr, err := kit.NewTracer(kit.Env("VERIF_TRACE", ""))
	if err != nil {
		t.Fatal(err)
	}
	defer tr.Close()
	s, err := miniredis.Run()
	if err != nil {
		t.Fatal(err)
	}
	defer s.Close()
	cs := &c08Server{s: s}
	cs.hook()
	store := redis.New(s.Addr())
	cancelled, cancel := context.WithCancel(context.Background())
	cancel()
	for _, c := range cases {
		cfg := c.Steps[0]
		v := kit.Verdict{Case: c.Index, OK: true}
		per := kit.Num(cfg["per"])
		switch kit.Str(cfg["kind"]) {
		case "token":
			rate, burst := kit.Num(cfg["rate"]), kit.Num(cfg["burst"])
			type caller struct {
				n    int
				live bool
			}
			callers := []caller{{burst + 1, true}}
			for i := 0; i < kit.Num(cfg["ones"]); i++ {
				callers = append(callers, caller{1, true})
			}
			for i := 0; i < kit.Num(cfg["twos"]); i++ {
				callers = append(callers, caller{2, true})
			}
			for i := 0; i < kit.Num(cfg["cancelled"]); i++ {
				callers = append(callers, caller{1 + i%2, false})
			}
			for round := 0; round < kit.Num(cfg["rounds"]); round++ {
				s.FlushAll()
				tl := NewTokenLimiter(rate, burst, store, fmt.Sprintf("race%d.%d", c.Index, round))
				now := int64(c08Base)
				var phases []kit.M
				for _, tk := range kit.List(cfg["ticks"]) {
					dc, ds := kit.Num(kit.List(tk)[0]), kit.Num(kit.List(tk)[1])
					now += int64(dc)
					if ds > 0 {
						s.FastForward(time.Duration(ds) * time.Second)
					}
					at := time.Unix(now, 0)
					granted := make([]int, len(callers))
					start := make(chan struct{})
					var wg sync.WaitGroup
					e0 := cs.evals.Load()
					for ci := range callers {
						wg.Add(1)
						go func(ci int) {
							defer wg.Done()
							cl := callers[ci]
							<-start
							for i := 0; i < per; i++ {
								var ok bool
								switch {
								case !cl.live:
									ok = tl.AllowNCtx(cancelled, at, cl.n)
								case (ci+i)%2 == 0:
									ok = tl.AllowNCtx(context.Background(), at, cl.n)
								default:
									ok = tl.AllowN(at, cl.n)
								}
								if ok {
									granted[ci]++
								}
							}
						}(ci)
					}
					close(start)
					wg.Wait()
					evals := cs.evals.Load() - e0
					type kind struct {
						n    int
						live bool
					}
					yes, no, live := map[kind]int{}, map[kind]int{}, 0
					for ci, cl := range callers {
						yes[kind{cl.n, cl.live}] += granted[ci]
						no[kind{cl.n, cl.live}] += per - granted[ci]
						if cl.live {
							live += per
						}
						if cl.live && cl.n <= 2 {
							rep.Count("token.tokens-granted", granted[ci]*cl.n)
						}
					}
					obs := []kit.M{}
					for _, res := range []bool{true, false} {
						m := no
						if res {
							m = yes
						}
						ks := make([]kind, 0, len(m))
						for k := range m {
							ks = append(ks, k)
						}
						sort.Slice(ks, func(a, b int) bool {
							if ks[a].n != ks[b].n {
								return ks[a].n < ks[b].n
							}
							return ks[a].live && !ks[b].live
						})
						for _, k := range ks {
							if m[k] > 0 {
								obs = append(obs, kit.M{"n": k.n, "live": k.live, "granted": res, "cnt": m[k]})
							}
						}
					}
					phases = append(phases, kit.M{"dc": dc, "ds": ds, "calls": live, "evals": evals, "obs": obs})
					v.Steps += len(callers) * per
					rep.Count("token.calls", len(callers)*per)
					rep.Count("token.phases", 1)
				}
				tr.Emit(kit.M{"kind": "token", "cfg": c.Index, "round": round, "rate": rate, "burst": burst,
					"callers": len(callers), "phases": phases})
				rep.Count("token.rounds", 1)
			}
		case "period":
			quota, period, keys, takers := kit.Num(cfg["quota"]), kit.Num(cfg["period"]), kit.Num(cfg["keys"]), kit.Num(cfg["takers"])
			for round := 0; round < kit.Num(cfg["rounds"]); round++ {
				s.FlushAll()
				pl := NewPeriodLimit(period, quota, store, fmt.Sprintf("race%d.%d:", c.Index, round))
				var phases []kit.M
				for _, dv := range kit.List(cfg["advs"]) {
					d := kit.Num(dv)
					if d > 0 {
						s.FastForward(time.Duration(d) * time.Second)
					}
					counts := make([][4]atomic.Int64, keys)
					var wg sync.WaitGroup
					var nerr atomic.Int64
					start := make(chan struct{})
					e0 := cs.evals.Load()
					for k := 0; k < keys; k++ {
						for g := 0; g < takers; g++ {
							wg.Add(1)
							go func(k, g int) {
								defer wg.Done()
								key := fmt.Sprintf("k%d", k)
								<-start
								for i := 0; i < per; i++ {
									var code int
									var err error
									if (g+i)%2 == 0 {
										code, err = pl.Take(key)
									} else {
										code, err = pl.TakeCtx(context.Background(), key)
									}
									if err != nil || code < 0 || code > 3 {
										nerr.Add(1)
										continue
									}
									counts[k][code].Add(1)
								}
							}(k, g)
						}
					}
					close(start)
					wg.Wait()
					evals := cs.evals.Load() - e0
					obs := []kit.M{}
					for k := 0; k < keys; k++ {
						obs = append(obs, kit.M{"k": fmt.Sprintf("k%d", k), "m": takers * per, "allowed": counts[k][Allowed].Load(),
							"hit": counts[k][HitQuota].Load(), "over": counts[k][OverQuota].Load(), "unknown": counts[k][Unknown].Load()})
					}
					phases = append(phases, kit.M{"d": d, "calls": keys * takers * per, "evals": evals, "errors": nerr.Load(), "obs": obs})
					v.Steps += keys * takers * per
					rep.Count("period.calls", keys*takers*per)
					rep.Count("period.phases", 1)
				}
				tr.Emit(kit.M{"kind": "period", "cfg": c.Index, "round": round, "quota": quota, "period": period,
					"takers": takers, "phases": phases})
				rep.Count("period.rounds", 1)
			}
		default:
			v = kit.Verdict{Case: c.Index, Infra: true, Msg: "unknown kind " + kit.Str(cfg["kind"])}
		}
		rep.Put(v)
	}
}

// ---------------------------------------------------------------- concurrent recovery

// TestVerifC08Concurrent: the mechanism model spec/TokenMonitorImpl.tla says that, whatever the
// interleaving of failing callers and the monitor, the limiter is never left in fallback mode with
// nobody to bring it back (NoDeadFallback / Return).  This stage looks for such a state on the real
// limiter.  One round: several fresh limiters side by side; Redis goes down (connections dropped),
// K goroutines per limiter call Allow(); Redis comes up while calls are still failing; quiesce;
// then every limiter must reach Redis again (an EVAL with its key seen by the server's pre-hook)
// within a generous bound - a limiter that is stuck stays stuck for good.
//
// The interleaving that the model singles out as the critical one (its counterexample for the
// hoisted-store variant) is a script call that fails *late*: RetFail lands between the monitor's
// MonStore1 (redisAlive := 1) and MonClear (monitorStarted := false), a window of well under a
// microsecond on the real code.  Natural traffic practically never lands there, so each limiter
// also gets one "late failure" injected at that point: a goroutine that watches redisAlive and, the
// moment the monitor has set it, runs the failure handling of reserveN (startMonitor) - exactly
// what a call issued before the outage does when its last retry fails at that instant.
func TestVerifC08Concurrent(t *testing.T) {
	cases, rep, _, _ := c08Setup(t)
	defer rep.Close()
	cfg := cases[0].Steps[0]
	rounds, nlim, k := kit.Num(cfg["rounds"]), kit.Num(cfg["limiters"]), kit.Num(cfg["k"])
	if p := runtime.GOMAXPROCS(0) - 2; nlim > p {
		nlim = p // the watchers spin: leave processors for the monitors and the server
	}
	if nlim < 1 {
		nlim = 1
	}
	s, err := miniredis.Run()
	if err != nil {
		t.Fatal(err)
	}
	defer s.Close()
	cs := &c08Server{s: s}
	cs.hook()
	store := redis.New(s.Addr())
	type lim struct {
		name string
		tl   *TokenLimiter
	}
	lims := make([]lim, nlim)
	v := kit.Verdict{Case: 0, OK: true}
rounds:
	for r := 0; r < rounds; r++ {
		for i := range lims {
			lims[i].name = fmt.Sprintf("cc%d.%d", r, i)
			lims[i].tl = NewTokenLimiter(1000, 1000, store, lims[i].name)
			lims[i].tl.Allow() // uses Redis
		}
		var stop atomic.Bool
		var wg, late sync.WaitGroup
		cs.kill.Store(true)
		for _, l := range lims {
			for j := 0; j < k; j++ {
				wg.Add(1)
				go func(tl *TokenLimiter) {
					defer wg.Done()
					for !stop.Load() {
						tl.Allow()
						time.Sleep(200 * time.Microsecond)
					}
				}(l.tl)
			}
		}
		// every limiter has noticed the outage and runs its monitor
		for _, l := range lims {
			tl := l.tl
			if !kit.WaitFor(10*time.Second, func() bool { return atomic.LoadUint32(&tl.redisAlive) == 0 }) {
				stop.Store(true)
				wg.Wait()
				v = kit.Verdict{Case: 0, Infra: true, Msg: "limiter did not notice the outage within 10 s"}
				break rounds
			}
		}
		// the late failures: wait for the monitor's redisAlive := 1, then handle a failed call
		for _, l := range lims {
			late.Add(1)
			go func(tl *TokenLimiter) {
				defer late.Done()
				deadline := time.Now().Add(10 * time.Second)
				for i := 0; atomic.LoadUint32(&tl.redisAlive) == 0; i++ {
					if i&0xfffff == 0 && time.Now().After(deadline) {
						return
					}
				}
				tl.startMonitor()
				rep.Count("late-failures-injected", 1)
			}(l.tl)
		}
		time.Sleep(time.Duration(10+(r*37)%90) * time.Millisecond)
		cs.kill.Store(false) // Up
		late.Wait()
		time.Sleep(50 * time.Millisecond)
		stop.Store(true)
		wg.Wait()
		v.Steps++
		rep.Count("rounds", 1)
		for _, l := range lims {
			key := fmt.Sprintf(tokenFormat, l.name)
			e0 := cs.evalsOf(key)
			back := kit.WaitFor(8*time.Second, func() bool {
				l.tl.Allow()
				if cs.evalsOf(key) > e0 {
					return true
				}
				time.Sleep(10 * time.Millisecond)
				return false
			})
			if !back {
				if !c08RawPing(s.Addr()) {
					v = kit.Verdict{Case: 0, Infra: true, Msg: "server not reachable while waiting for the limiter"}
					break rounds
				}
				v.OK, v.Step, v.Key = false, r, "C08:token:no-return:concurrent"
				v.Msg = fmt.Sprintf("round %d (%d limiters x %d callers; Redis down, up again, one call per limiter failing late): limiter %s "+
					"did not send a request to Redis for 8 s although Redis answers (redisAlive=%d, monitorStarted=%v); "+
					"specification TokenMonitorImpl!NoDeadFallback / Return",
					r, nlim, k, l.name, atomic.LoadUint32(&l.tl.redisAlive), l.tl.monitorStarted)
				break rounds
			}
			rep.Count("returns", 1)
		}
	}
	rep.Put(v)
}

// ---------------------------------------------------------------- token limiter

type c08Server struct {
	s        *miniredis.Miniredis
	evals    atomic.Int64
	pings    atomic.Int64 // PINGs without argument: the limiter's monitor (the driver's own probes carry an argument)
	mu       sync.Mutex
	lastEval []string         // arguments of the last EVAL that reached the server
	byKey    map[string]int64 // EVALs per first key (= "{name}.tokens" for the token limiter)
	kill     atomic.Bool      // outage without closing the listener: every command's connection is dropped
	lost     string           // the server could not be brought back after a behaviour (see c08Restart)
	addr     string           // the server's address (Addr() cannot be asked while the server is closed)
	dropMode bool             // outages of this server are "every connection dropped" (listener kept) instead of Close/Restart
}

// down / up: the two kinds of outage.  Close/Restart: connections are refused (and the port is given up for the
// time of the outage); dropMode: the listener stays, every command's connection is closed before the command runs.
func (cs *c08Server) down() {
	if cs.dropMode {
		cs.kill.Store(true)
		return
	}
	cs.s.Close()
}

func (cs *c08Server) up() error {
	if cs.dropMode {
		cs.kill.Store(false)
		return nil
	}
	if err := c08Restart(cs.s); err != nil {
		return err
	}
	cs.hook()
	return nil
}

// portTaken: during a Close/Restart outage somebody else may have started to listen on the server's port (another
// miniredis of a parallel run, say) and answer the limiter in the server's place.  A behaviour during which that
// is seen is disturbed, not judged.
func (cs *c08Server) portTaken() bool {
	if cs.dropMode {
		return false
	}
	c, err := net.DialTimeout("tcp", cs.addr, time.Second)
	if err != nil {
		return false
	}
	c.Close()
	return true
}

func (cs *c08Server) evalsOf(key string) int64 {
	cs.mu.Lock()
	defer cs.mu.Unlock()
	return cs.byKey[key]
}

func (cs *c08Server) hook() {
	cs.addr = cs.s.Addr()
	cs.s.Server().SetPreHook(func(peer *server.Peer, cmd string, args ...string) bool {
		if cs.kill.Load() {
			peer.Close()
			return true
		}
		switch strings.ToUpper(cmd) {
		case "EVAL", "EVALSHA":
			cs.evals.Add(1)
			cs.mu.Lock()
			cs.lastEval = append([]string(nil), args...)
			if len(args) >= 3 {
				if cs.byKey == nil {
					cs.byKey = map[string]int64{}
				}
				cs.byKey[args[2]]++
			}
			cs.mu.Unlock()
		case "PING":
			if len(args) == 0 {
				cs.pings.Add(1)
			}
		}
		return false
	})
}

// c08RawPing: a PING of the driver's own, over a connection of its own (no client library, no wrapper,
// no breaker): "the Redis server answers".  It carries an argument, so the server's hook does not take it
// for a ping of the limiter's monitor.
func c08RawPing(addr string) bool {
	c, err := net.DialTimeout("tcp", addr, 2*time.Second)
	if err != nil {
		return false
	}
	defer c.Close()
	c.SetDeadline(time.Now().Add(2 * time.Second))
	if _, err := c.Write([]byte("*2\r\n$4\r\nPING\r\n$8\r\nc08probe\r\n")); err != nil {
		return false
	}
	rd := bufio.NewReader(c)
	l1, err := rd.ReadString('\n')
	if err != nil || !strings.HasPrefix(l1, "$8") {
		return false
	}
	l2, err := rd.ReadString('\n')
	return err == nil && strings.HasPrefix(l2, "c08probe")
}

// c08Reachable: after an outage the next model step must not start before (a) the server answers a direct
// PING of the driver and (b) the client library can reach it again - after a Restart go-redis' pool may keep
// answering with a cached dial error until its background re-dial (1 s period) succeeds.  (b) is asked with
// a GET through the wrapper, not with the wrapper's Ping, which is what the limiter's monitor relies on.
// Returns "" or what could not be reached (harness trouble in both cases).
func c08Reachable(s *miniredis.Miniredis) string {
	if !kit.WaitFor(30*time.Second, func() bool {
		if c08RawPing(s.Addr()) {
			return true
		}
		time.Sleep(10 * time.Millisecond)
		return false
	}) {
		return "server does not answer a direct PING 30 s after the end of the outage"
	}
	if !kit.WaitFor(30*time.Second, func() bool {
		if _, err := redis.New(s.Addr()).Get("c08:probe"); err == nil {
			return true
		}
		time.Sleep(10 * time.Millisecond)
		return false
	}) {
		return "server answers a direct PING but the client library cannot reach it 30 s after the end of the outage"
	}
	return ""
}

// c08Restart: Restart listens on the port the server had; if another process has grabbed the port in
// the meantime it fails with "address already in use" - retry for a while before giving up.
func c08Restart(s *miniredis.Miniredis) error {
	var err error
	for deadline := time.Now().Add(15 * time.Second); ; {
		if err = s.Restart(); err == nil {
			return nil
		}
		if time.Now().After(deadline) {
			return err
		}
		time.Sleep(50 * time.Millisecond)
	}
}

// monitorIdle is the barrier after Up: the limiter's monitor has seen a successful ping
// (redisAlive = 1) and has ended.
func monitorIdle(tl *TokenLimiter) bool {
	if atomic.LoadUint32(&tl.redisAlive) != 1 {
		return false
	}
	tl.rescueLock.Lock()
	defer tl.rescueLock.Unlock()
	return !tl.monitorStarted
}

func c08MonitorStarted(tl *TokenLimiter) bool {
	tl.rescueLock.Lock()
	defer tl.rescueLock.Unlock()
	return tl.monitorStarted
}

const c08Base = 1_700_000_000 // caller second 0 of the model

// once a limiter failed to return to Redis the remaining behaviours of this process do not wait
// the full time again (the verdict is already negative; this only bounds the run time)
var c08NoReturnSeen atomic.Bool

func c08ReturnBound() time.Duration {
	if c08NoReturnSeen.Load() {
		return 300 * time.Millisecond
	}
	return 10 * time.Second
}

const (
	c08Returned    = iota // the monitor's ping succeeded, the limiter is back on Redis
	c08NotReturned        // Redis answers, the limiter stays away from it: the disagreement
	c08Unreachable        // the server does not answer the driver either: harness trouble
)

// c08AwaitReturn is the second half of the model's macro-step Up;Ping: "returns to Redis once it answers
// again".  The monitor pings every 100 ms of wall-clock time, so the step has to wait; what it waits for
// is the limiter being back (monitorIdle).  While it waits the driver keeps asking the server itself, with
// direct PINGs at the monitor's own pace.  The limiter has NOT returned if the server has answered an
// unbroken series of those PINGs stretching over the whole bound (a hundred times the monitor's ping
// interval) and the limiter is still in fallback mode - however many pings of the monitor the server saw,
// none included.  If the server does not answer the driver either, nothing can be said about the limiter.
func c08AwaitReturn(tl *TokenLimiter, cs *c08Server) (res int, probes int, over time.Duration) {
	bound := c08ReturnBound()
	need := int(bound / (200 * time.Millisecond))
	if need < 2 {
		need = 2
	}
	start := time.Now()
	last := start
	var first time.Time // start of the current unbroken series of answered probes
	for i := 0; ; i++ {
		if monitorIdle(tl) {
			return c08Returned, probes, 0
		}
		now := time.Now()
		if now.Sub(last) >= pingInterval {
			last = now
			if c08RawPing(cs.addr) {
				if probes == 0 {
					first = now
				}
				probes++
			} else {
				probes = 0
			}
			if probes >= need && now.Sub(first) >= bound {
				if monitorIdle(tl) {
					return c08Returned, probes, 0
				}
				return c08NotReturned, probes, now.Sub(first)
			}
		}
		if now.Sub(start) >= bound+30*time.Second {
			return c08Unreachable, probes, 0
		}
		if i < 200 {
			runtime.Gosched()
		} else {
			time.Sleep(200 * time.Microsecond)
		}
	}
}

const c08PortTaken = "disturbed: somebody else listened on the server's port during the outage"

func c08Rerun(v kit.Verdict) bool {
	return v.Infra && (v.Msg == c08Disturbed || v.Msg == c08PortTaken)
}

func runC08TokenRetry(c kit.Case, cs *c08Server, store *redis.Redis, rep *kit.Reporter) kit.Verdict {
	var v kit.Verdict
	for attempt := 0; attempt < 4; attempt++ {
		v = runC08Token(c, cs, store, rep, attempt)
		if !c08Rerun(v) || cs.lost != "" {
			return v
		}
		rep.Count("disturbed-reruns", 1)
		if v.Msg == c08PortTaken {
			// the released port was grabbed by another process: repeat the behaviour with its
			// outages as dropped connections (the port is never released then)
			cs.dropMode = true
			rep.Count("port-taken-reruns-in-drop-mode", 1)
		}
	}
	return v
}

func runC08Token(c kit.Case, cs *c08Server, store *redis.Redis, rep *kit.Reporter, attempt int) (v kit.Verdict) {
	v = kit.Verdict{Case: c.Index, OK: true}
	alive, outages := true, false
	fail := func(step int, key, msg string) kit.Verdict {
		if !alive && cs.portTaken() {
			return kit.Verdict{Case: c.Index, Infra: true, Msg: c08PortTaken}
		}
		v.OK, v.Step, v.Key, v.Msg = false, step, key, msg
		return v
	}
	infra := func(msg string) kit.Verdict { return kit.Verdict{Case: c.Index, Infra: true, Msg: msg} }
	if len(c.Steps) == 0 || kit.Str(c.Steps[0]["op"]) != "cfg" {
		return infra("behaviour does not start with cfg")
	}
	s := cs.s
	s.FlushAll()
	rate, burst := kit.Num(c.Steps[0]["rate"]), kit.Num(c.Steps[0]["burst"])
	tl := NewTokenLimiter(rate, burst, store, fmt.Sprintf("t%d.%d", c.Index, attempt))
	cfg := fmt.Sprintf("rate=%d burst=%d", rate, burst)
	defer func() {
		// leave the server up and the monitor goroutine finished for the next case
		if !alive {
			if err := cs.up(); err != nil {
				cs.lost = "miniredis restart: " + err.Error() // no server for the remaining behaviours: harness trouble
				return
			}
		}
		if !outages {
			return // the server was never away, no monitor was ever started
		}
		if what := c08Reachable(cs.s); what != "" {
			cs.lost = what
			return
		}
		kit.WaitFor(c08ReturnBound(), func() bool { return monitorIdle(tl) })
	}()
	now := int64(0) // caller clock: whole seconds ...
	sub := int64(0) // ... and the millisecond within the second (model: now, sub)
	clock := func() string {
		if sub == 0 {
			return fmt.Sprint(now)
		}
		return fmt.Sprintf("%d.%03d", now, sub)
	}
	nallow := 0
	trail := []string{}
	// real time, for the message and the coverage counters only: when the current outage began and when the
	// first request failed in it (= the monitor's start, every Up of the model ends the monitor)
	var tDown, tFail time.Time
	// observed grants per deciding bucket, for the statement's bound burst + rate*t: t in whole caller seconds for the
	// Redis bucket (the script counts in seconds), in milliseconds for the in-process bucket (it is refilled continuously
	// from the caller's clock); compared in millitokens
	type grant struct{ t, ms, n int64 }
	grants := map[string][]grant{}
	boundOK := func(via string) (bool, string) {
		g := grants[via]
		j := len(g) - 1
		sum := int64(0)
		for i := j; i >= 0; i-- {
			sum += g[i].n
			lim := 1000 * (int64(burst) + int64(rate)*(g[j].t-g[i].t))
			if via == "rescue" {
				lim = 1000*int64(burst) + int64(rate)*(g[j].ms-g[i].ms)
			}
			if 1000*sum > lim {
				return false, fmt.Sprintf("%d events admitted by the %s bucket between caller time %.3f s and %.3f s, bound burst+rate*t = %.3f",
					sum, via, float64(g[i].ms)/1000, float64(g[j].ms)/1000, float64(lim)/1000)
			}
		}
		return true, ""
	}
	for i, st := range c.Steps[1:] {
		i++
		switch op := kit.Str(st["op"]); op {
		case "allow":
			n := kit.Num(st["n"])
			at := time.Unix(c08Base+now, sub*int64(time.Millisecond))
			before := cs.evals.Load()
			nallow++
			var got bool
			if nallow%2 == 0 {
				got = tl.AllowNCtx(context.Background(), at, n)
			} else {
				got = tl.AllowN(at, n)
			}
			reached := cs.evals.Load() - before
			if reached > 1 {
				return infra(c08Disturbed)
			}
			if !alive && tFail.IsZero() {
				tFail = time.Now()
			}
			v.Steps++
			want, via := kit.Bool(st["granted"]), kit.Str(st["via"])
			rep.Count("allow."+via, 1)
			if sub != 0 {
				rep.Count("allow."+via+".subsecond", 1)
			}
			trail = append(trail, fmt.Sprintf("allow(t=%s,n=%d)=%v", clock(), n, got))
			if got != want {
				return fail(i, fmt.Sprintf("C08:token:%s:granted=%v", via, got),
					fmt.Sprintf("%s step %d AllowN(now=%s, n=%d) = %v, specification %v (decided by %s bucket); trail %s",
						cfg, i, clock(), n, got, want, via, strings.Join(trail, " ")))
			}
			if got {
				grants[via] = append(grants[via], grant{now, now*1000 + sub, int64(n)})
				if ok, msg := boundOK(via); !ok {
					return fail(i, "C08:token:bound:"+via, fmt.Sprintf("%s step %d: %s; trail %s", cfg, i, msg, strings.Join(trail, " ")))
				}
			}
			wantReached := int64(0)
			if via == "redis" {
				wantReached = 1
			}
			if reached != wantReached {
				return fail(i, "C08:token:route:"+via,
					fmt.Sprintf("%s step %d AllowN(now=%s, n=%d): %d script calls reached Redis, specification says the %s bucket decides; trail %s",
						cfg, i, clock(), n, reached, via, strings.Join(trail, " ")))
			}
		case "tick":
			now += int64(kit.Num(st["dc"]))
			if ds := kit.Num(st["ds"]); ds > 0 {
				s.FastForward(time.Duration(ds) * time.Second)
			}
			v.Steps++
			trail = append(trail, fmt.Sprintf("tick(%d,%d)", kit.Num(st["dc"]), kit.Num(st["ds"])))
		case "step":
			// milliseconds pass on the caller clock only (the script is handed whole seconds, the in-process bucket the full time)
			ms := int64(kit.Num(st["ms"]))
			now, sub = now+(sub+ms)/1000, (sub+ms)%1000
			v.Steps++
			rep.Count("step", 1)
			trail = append(trail, fmt.Sprintf("step(%dms)", ms))
		case "down":
			cs.down()
			alive, outages = false, true
			tDown, tFail = time.Now(), time.Time{}
			v.Steps++
			rep.Count("down", 1)
			trail = append(trail, "down")
		case "hold":
			// real time passes during the outage (at least ms milliseconds; nothing depends on how much more)
			ms := kit.Num(st["ms"])
			if alive {
				return infra("hold outside an outage")
			}
			time.Sleep(time.Duration(ms) * time.Millisecond)
			v.Steps++
			rep.Count("hold", 1)
			if tFail.IsZero() {
				rep.Count("hold.outage-not-yet-noticed", 1)
			} else {
				rep.Count("hold.monitor-running", 1)
			}
			trail = append(trail, fmt.Sprintf("hold(%dms)", ms))
		case "up":
			if !alive && cs.portTaken() {
				return infra(c08PortTaken)
			}
			if err := cs.up(); err != nil {
				return infra("miniredis restart: " + err.Error())
			}
			s = cs.s
			alive = true
			v.Steps++
			trail = append(trail, "up")
			if what := c08Reachable(cs.s); what != "" {
				return infra(what)
			}
			outage := time.Since(tDown)
			if kit.Bool(st["ping"]) {
				rep.Count("up.ping", 1)
				age := time.Since(tFail) // how long the monitor has been pinging when Redis answers again
				for _, d := range []int{1, 2, 5} {
					if !tFail.IsZero() && age >= time.Duration(d)*time.Second {
						rep.Count(fmt.Sprintf("up.ping.monitor-older-than-%ds", d), 1)
					}
				}
				// part of the step: the monitor pings every 100 ms of wall-clock time
				p0 := cs.pings.Load()
				switch res, probes, over := c08AwaitReturn(tl, cs); res {
				case c08NotReturned:
					c08NoReturnSeen.Store(true)
					e0 := cs.evals.Load()
					tl.AllowN(time.Unix(c08Base+now, sub*int64(time.Millisecond)), 1) // the public face of the same fact (the verdict is already negative)
					return fail(i, "C08:token:no-return",
						fmt.Sprintf("%s step %d: Redis answers again (%d direct PINGs of the driver in a row over %.1f s, %d pings of the limiter's monitor "+
							"reached the server) but the limiter did not return to it: redisAlive=%d, monitorStarted=%v, a further AllowN sent %d script calls "+
							"to Redis; the outage lasted %.1f s, the limiter had noticed it %.1f s before Redis came back; trail %s",
							cfg, i, probes, over.Seconds(), cs.pings.Load()-p0, atomic.LoadUint32(&tl.redisAlive), c08MonitorStarted(tl),
							cs.evals.Load()-e0, outage.Seconds(), age.Seconds(), strings.Join(trail, " ")))
				case c08Unreachable:
					return infra(fmt.Sprintf("step %d: the server stopped answering the driver's direct PINGs while waiting for the limiter to return", i))
				}
			} else {
				rep.Count("up.noping", 1)
			}
		default:
			return infra("unknown op " + op)
		}
	}
	return v
}

// c08TokenWorker replays behaviours one after the other on a server of its own.  A server that cannot be brought
// back after an outage (port lost for good) is replaced and the behaviour replayed; only repeated loss is reported
// (as harness trouble).
func c08TokenWorker(cases <-chan kit.Case, rep *kit.Reporter, dropOdd bool) {
	var s *miniredis.Miniredis
	var cs *c08Server
	var store *redis.Redis
	fresh := func() error {
		if s != nil {
			s.Close()
		}
		var err error
		if s, err = miniredis.Run(); err != nil {
			return err
		}
		cs = &c08Server{s: s}
		cs.hook()
		store = redis.New(s.Addr())
		return nil
	}
	if err := fresh(); err != nil {
		rep.Put(kit.Verdict{Infra: true, Msg: "miniredis: " + err.Error()})
		return
	}
	defer func() { s.Close() }()
	replaced := 0
	for c := range cases {
		if c08RealBreaker() {
			store = redis.New(s.Addr()) // a breaker without history for every behaviour
		}
		for {
			cs.dropMode = kit.EnvInt("VERIF_DROPALL", 0) == 1 || (dropOdd && c.Index%2 == 1)
			v := runC08TokenRetry(c, cs, store, rep)
			if cs.lost == "" {
				rep.Put(v)
				break
			}
			lost := cs.lost
			rep.Count("server-replaced", 1)
			if replaced++; replaced > 3 {
				rep.Put(kit.Verdict{Case: c.Index, Infra: true, Msg: lost})
				return
			}
			if err := fresh(); err != nil {
				rep.Put(kit.Verdict{Case: c.Index, Infra: true, Msg: lost + "; miniredis: " + err.Error()})
				return
			}
			if v.Key != "" && !v.Infra {
				// the behaviour had been judged before the server was lost in the clean-up: the verdict stands
				rep.Put(v)
				break
			}
		}
	}
}

// TestVerifC08Token.  VERIF_PAR = n > 1: n workers, each with a server of its own, replay the behaviours of this
// shard side by side - for the outage-duration family, whose behaviours mostly wait (hold steps of seconds of real
// time); there every other behaviour has its outages as dropped connections instead of Close/Restart.
func TestVerifC08Token(t *testing.T) {
	cases, rep, shard, shards := c08Setup(t)
	defer rep.Close()
	par := kit.EnvInt("VERIF_PAR", 1)
	if par < 1 {
		par = 1
	}
	ch := make(chan kit.Case)
	var wg sync.WaitGroup
	for w := 0; w < par; w++ {
		wg.Add(1)
		go func() {
			defer wg.Done()
			c08TokenWorker(ch, rep, par > 1)
			for range ch { // a worker that gave up: do not block the feeder
			}
		}()
	}
	for _, c := range cases {
		if c.Index%shards == shard {
			ch <- c
		}
	}
	close(ch)
	wg.Wait()
}
