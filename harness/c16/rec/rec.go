// Package verifc16rec is overlaid into /repo as internal/verifc16rec by checks/c16.py.
// It is the part of the C16 trace recorder that the drivers of the executors' CLIENTS
// (sqlx.BulkInserter, stat.Metrics) share: event emission, bookkeeping of public calls that
// have not returned, the grace-period `hang` event (see harness/c16/executors_trace_test.go),
// the virtual clock of lib/timex.  It asserts nothing; TLC judges the recorded histories with
// spec/ExecutorTrace.tla.
package verifc16rec

import (
	"fmt"
	"math/rand"
	"os"
	"sort"
	"sync"
	"sync/atomic"
	"time"

	kit "github.com/gotid/god/internal/verifkit"
	"github.com/gotid/god/lib/timex"
)

// Rec is one recorder run (one trace file).
type Rec struct {
	Tr    *kit.Tracer
	Rng   *rand.Rand
	Clock *kit.Clock
	Grace time.Duration
	Hung  bool
	N     int
	Path  string
	mu    sync.Mutex
	cnt   map[string]*atomic.Int64
}

// New opens the trace file named by VERIF_TRACE and installs the virtual clock.
func New() (*Rec, error) {
	path := kit.Env("VERIF_TRACE", "")
	tr, err := kit.NewTracer(path)
	if err != nil {
		return nil, err
	}
	r := &Rec{Tr: tr, Clock: kit.NewClock(), Path: path, cnt: map[string]*atomic.Int64{},
		Grace: time.Duration(kit.EnvInt("VERIF_C16_GRACE_MS", 30000)) * time.Millisecond,
		Rng:   rand.New(rand.NewSource(kit.Seed()*7919 + int64(kit.EnvInt("VERIF_SHARD", 0))))}
	timex.SetVerifClock(r.Clock.Now)
	return r, nil
}

func (r *Rec) Ev(m kit.M) { r.Tr.Emit(m) }

func (r *Rec) Count(name string) {
	r.mu.Lock()
	c := r.cnt[name]
	if c == nil {
		c = &atomic.Int64{}
		r.cnt[name] = c
	}
	r.mu.Unlock()
	c.Add(1)
}

// Close writes the summary line that checks/c16.py parses.
func (r *Rec) Close() error {
	timex.SetVerifClock(nil)
	if err := r.Tr.Close(); err != nil {
		return err
	}
	fmt.Printf("C16TRACES %d EVENTS %d", r.N, r.Tr.N)
	r.mu.Lock()
	names := make([]string, 0, len(r.cnt))
	for k := range r.cnt {
		names = append(names, k)
	}
	sort.Strings(names)
	for _, k := range names {
		fmt.Printf(" %s=%d", k, r.cnt[k].Load())
	}
	r.mu.Unlock()
	fmt.Println()
	return nil
}

type call struct {
	op string
	t  int
}

// Hist is one history (one fresh client object).
type Hist struct {
	R     *Rec
	mu    sync.Mutex
	calls map[int]call
	added []int
	execd map[int]bool
	IDs   atomic.Int64
}

func (r *Rec) NewHist(kind string, max int, sc string) *Hist {
	r.Ev(kit.M{"e": "reset", "kind": kind, "max": max, "sc": sc})
	r.Count("hist_" + kind)
	return &Hist{R: r, calls: map[int]call{}, execd: map[int]bool{}}
}

// Call wraps one public call: inv event, bookkeeping, the call, ret event.
func (h *Hist) Call(p int, op string, t, size int, fn func()) {
	h.mu.Lock()
	h.calls[p] = call{op, t}
	if op == "add" {
		h.added = append(h.added, t)
	}
	h.mu.Unlock()
	switch op {
	case "add":
		h.R.Ev(kit.M{"e": "ainv", "p": p, "t": t, "s": size})
	case "wait":
		h.R.Ev(kit.M{"e": "winv", "p": p})
	case "flush":
		h.R.Ev(kit.M{"e": "finv", "p": p})
	}
	fn()
	h.mu.Lock()
	delete(h.calls, p)
	frozen := h.R.Hung
	h.mu.Unlock()
	if frozen {
		return
	}
	switch op {
	case "add":
		h.R.Ev(kit.M{"e": "aret", "p": p})
		h.R.Count("adds")
	case "wait":
		h.R.Ev(kit.M{"e": "wret", "p": p})
		h.R.Count("waits")
	case "flush":
		h.R.Ev(kit.M{"e": "fret", "p": p})
		h.R.Count("flushes")
	}
}

func (h *Hist) NoteExec(b []int) {
	h.mu.Lock()
	for _, t := range b {
		h.execd[t] = true
	}
	h.mu.Unlock()
}

// Await waits for done; the clock keeps jumping (these clients run on real tickers, which keep
// ticking by themselves).  After the grace period the history is closed with a `hang` event.
func (h *Hist) Await(done <-chan struct{}) bool {
	deadline := time.Now().Add(h.R.Grace)
	quiet := time.Now().Add(100 * time.Millisecond)
	for time.Now().Before(deadline) {
		select {
		case <-done:
			return true
		case <-time.After(time.Millisecond):
		}
		if time.Now().After(quiet) {
			time.Sleep(10 * time.Millisecond)
			h.Jump()
		}
	}
	h.hang()
	return false
}

func (h *Hist) Jump() {
	h.R.Clock.Advance(11 * time.Hour)
	h.R.Ev(kit.M{"e": "jump"})
}

func (h *Hist) hang() {
	h.mu.Lock()
	h.R.Hung = true
	calls := []kit.M{}
	op := ""
	rank := map[string]int{"add": 3, "wait": 2, "flush": 1}
	for p := 0; p < 16; p++ {
		if cl, ok := h.calls[p]; ok {
			calls = append(calls, kit.M{"p": p, "op": cl.op, "t": cl.t})
			if rank[cl.op] > rank[op] {
				op = cl.op
			}
		}
	}
	unexec := []int{}
	for _, t := range h.added {
		if !h.execd[t] {
			unexec = append(unexec, t)
		}
	}
	h.mu.Unlock()
	stacks := h.R.Path + ".hang.txt"
	_ = os.WriteFile(stacks, []byte(kit.Stacks()), 0o644)
	if op == "" {
		op = "none"
	}
	h.R.Ev(kit.M{"e": "hang", "op": op, "calls": calls, "unexecuted": unexec, "stacks": stacks,
		"grace_ms": int(h.R.Grace / time.Millisecond)})
	h.R.Count("hangs")
	h.R.N++
}

// Run starts g callers (process ids 1..g) released together and waits for them.
func (h *Hist) Run(g int, body func(p int, r *rand.Rand)) bool {
	var wg sync.WaitGroup
	start := make(chan struct{})
	for p := 1; p <= g; p++ {
		wg.Add(1)
		seed := h.R.Rng.Int63()
		go func(p int) {
			defer wg.Done()
			r := rand.New(rand.NewSource(seed))
			<-start
			body(p, r)
		}(p)
	}
	close(start)
	done := make(chan struct{})
	go func() { wg.Wait(); close(done) }()
	return h.Await(done)
}

// Finish: final Wait by the main goroutine (p = 0), then quiescence.
func (h *Hist) Finish(wait func()) {
	done := make(chan struct{})
	go func() {
		h.Call(0, "wait", 0, 0, wait)
		close(done)
	}()
	if !h.Await(done) {
		return
	}
	h.R.Ev(kit.M{"e": "quiesce"})
	h.R.N++
}
