package executors

// Trace recorder for property C16 (overlaid into lib/executors by /verif/bin/check as
// zz_verif_c16_test.go).  It asserts nothing about the executors: it runs randomized and
// directed concurrent scenarios on the real PeriodicalExecutor / BulkExecutor / ChunkExecutor
// and records what happened; TLC decides with spec/ExecutorTrace.tla (built on
// spec/Executor.tla) whether each recorded history is a behaviour of the specification.
//
// Observation points
//   - kind "per": a recording TaskContainer.  AddTask and RemoveAll are called by the executor
//     while it holds pe.lock, so the tracer's sequence number taken there is a linearization
//     order of the container; Execute logs its begin and end.
//   - kinds "bulk"/"chunk": public API only (Add/Flush/Wait + the execute callback).
//   - Add/Wait/Flush calls: `inv` logged before the call, `ret` after it returned.
// Environment control (never part of a verdict): pe.newTicker is replaced by a factory of
// hand-driven unbuffered tickers (creation = flusher start, Stop = flusher retiring), and the
// virtual clock of lib/timex (build tag verif) decides when 10 idle intervals have passed.

import (
	"fmt"
	"math/rand"
	"os"
	"runtime"
	"sync"
	"sync/atomic"
	"testing"
	"time"

	kit "github.com/gotid/god/internal/verifkit"
	"github.com/gotid/god/lib/timex"
)

const c16Interval = time.Second // a unit of virtual time only

type c16 struct {
	tr    *kit.Tracer
	rng   *rand.Rand
	clock *kit.Clock
	n     int
	base  int // goroutines of the idle test process (histories run one after the other)
	cnt   map[string]*atomic.Int64
}

func (c *c16) ev(m kit.M) { c.tr.Emit(m) }
func (c *c16) count(name string) {
	c.cnt[name].Add(1)
}

var c16Counters = []string{"hist_per", "hist_bulk", "hist_chunk", "hist_handover", "adds", "waits", "flushes", "ticks", "jumps",
	"flusher_starts", "flusher_stops", "takes_nonempty", "execs"}

func c16infra(format string, a ...any) {
	// harness trouble is never a verdict: dump and leave with a code the check maps to exit 2
	fmt.Fprintf(os.Stderr, "C16INFRA "+format+"\n%s\n", append(a, kit.Stacks())...)
	os.Exit(3)
}

func c16jitter(r *rand.Rand) {
	switch r.Intn(5) {
	case 0, 1:
	case 2:
		runtime.Gosched()
	case 3:
		for i := 0; i < r.Intn(20); i++ {
			runtime.Gosched()
		}
	case 4:
		time.Sleep(time.Duration(r.Intn(100)) * time.Microsecond)
	}
}

// ---------------------------------------------------------------- hand-driven tickers

type c16ticker struct {
	n       int
	ch      chan time.Time
	stopped chan struct{}
	once    sync.Once
	h       *c16hist
}

func (t *c16ticker) Chan() <-chan time.Time { return t.ch }
func (t *c16ticker) Stop() {
	t.once.Do(func() {
		t.h.c.ev(kit.M{"e": "fstop", "n": t.n})
		t.h.c.count("flusher_stops")
		close(t.stopped)
	})
}

// c16hist is one history: one fresh executor.
type c16hist struct {
	c       *c16
	pe      *PeriodicalExecutor
	mu      sync.Mutex
	tickers []*c16ticker
	ids     atomic.Int64
	base    int
	hand    bool // tickers are hand-driven
}

func (h *c16hist) newTicker(time.Duration) timex.Ticker {
	h.mu.Lock()
	t := &c16ticker{n: len(h.tickers) + 1, ch: make(chan time.Time), stopped: make(chan struct{}), h: h}
	h.tickers = append(h.tickers, t)
	h.mu.Unlock()
	h.c.ev(kit.M{"e": "fstart", "n": t.n})
	h.c.count("flusher_starts")
	return t
}

func (h *c16hist) live() *c16ticker {
	h.mu.Lock()
	defer h.mu.Unlock()
	for i := len(h.tickers) - 1; i >= 0; i-- {
		select {
		case <-h.tickers[i].stopped:
		default:
			return h.tickers[i]
		}
	}
	return nil
}

// tick offers one tick to the live flusher; returns once the flusher's select has taken it
// (or the flusher retired meanwhile).
func (h *c16hist) tick() {
	t := h.live()
	if t == nil {
		return
	}
	select {
	case t.ch <- time.Time{}:
		h.c.ev(kit.M{"e": "tick", "n": t.n})
		h.c.count("ticks")
	case <-t.stopped:
	case <-time.After(15 * time.Second):
		c16infra("tick not accepted by the flusher")
	}
}

func (h *c16hist) jump() {
	h.c.clock.Advance(11 * c16Interval)
	h.c.ev(kit.M{"e": "jump"})
	h.c.count("jumps")
}

func (h *c16hist) guarded() bool {
	h.pe.lock.Lock()
	defer h.pe.lock.Unlock()
	return h.pe.guarded
}

// retire makes the background flusher quit (idle for more than 10 intervals, nothing to
// flush) and waits until every goroutine of the history has ended.  Harness barrier only.
func (h *c16hist) retire() {
	deadline := time.Now().Add(15 * time.Second)
	for h.guarded() {
		h.jump()
		if h.hand {
			h.tick()
		} else {
			time.Sleep(200 * time.Microsecond)
		}
		if time.Now().After(deadline) {
			c16infra("flusher did not retire")
		}
	}
	if !kit.WaitGoroutines(h.base, 15*time.Second) {
		c16infra("goroutines did not settle: have %d want <= %d", runtime.NumGoroutine(), h.base)
	}
}

// run starts g callers (process ids 1..g) released together, plus the environment goroutine.
func (h *c16hist) run(g int, body func(p int, r *rand.Rand), env func(r *rand.Rand, stop <-chan struct{})) {
	var wg sync.WaitGroup
	start := make(chan struct{})
	for p := 1; p <= g; p++ {
		wg.Add(1)
		seed := h.c.rng.Int63()
		go func(p int) {
			defer wg.Done()
			r := rand.New(rand.NewSource(seed))
			<-start
			body(p, r)
		}(p)
	}
	stop := make(chan struct{})
	envDone := make(chan struct{})
	eseed := h.c.rng.Int63()
	go func() {
		defer close(envDone)
		if env != nil {
			<-start
			env(rand.New(rand.NewSource(eseed)), stop)
		}
	}()
	close(start)
	done := make(chan struct{})
	go func() { wg.Wait(); close(done) }()
	select {
	case <-done:
	case <-time.After(30 * time.Second):
		c16infra("scenario hung")
	}
	close(stop)
	select {
	case <-envDone:
	case <-time.After(30 * time.Second):
		c16infra("environment goroutine hung")
	}
}

func (h *c16hist) env(r *rand.Rand, stop <-chan struct{}) {
	for {
		select {
		case <-stop:
			return
		default:
		}
		switch r.Intn(6) {
		case 0, 1, 2:
			h.tick()
		case 3:
			h.jump()
			h.tick()
		case 4:
			runtime.Gosched()
		case 5:
			time.Sleep(time.Duration(r.Intn(200)) * time.Microsecond)
		}
	}
}

// ---------------------------------------------------------------- kind "per": recording container

type c16task struct {
	p, id, size int
}

func c16ids(ts []any) []int {
	out := make([]int, 0, len(ts))
	for _, t := range ts {
		switch x := t.(type) {
		case c16task:
			out = append(out, x.id)
		case int:
			out = append(out, x)
		}
	}
	return out
}

type c16container struct {
	c      *c16
	tasks  []any
	thr    int           // AddTask asks for a flush when len(tasks) >= thr (0: never)
	onTake func(b []int) // directed scenarios: called under pe.lock after logging
	onExec func(b []int) // directed scenarios: called between xb and xe
	r      *rand.Rand    // jitter inside Execute (guarded by rmu)
	rmu    sync.Mutex
}

func (rc *c16container) AddTask(task any) bool {
	t := task.(c16task)
	rc.tasks = append(rc.tasks, t)
	rc.c.ev(kit.M{"e": "add", "p": t.p, "t": t.id})
	return rc.thr > 0 && len(rc.tasks) >= rc.thr
}

func (rc *c16container) RemoveAll() any {
	ts := rc.tasks
	rc.tasks = nil
	b := c16ids(ts)
	rc.c.ev(kit.M{"e": "take", "b": b})
	if len(b) > 0 {
		rc.c.count("takes_nonempty")
	}
	if rc.onTake != nil {
		rc.onTake(b)
	}
	return ts
}

func (rc *c16container) Execute(tasks any) {
	b := c16ids(tasks.([]any))
	rc.c.ev(kit.M{"e": "xb", "b": b})
	rc.c.count("execs")
	if rc.onExec != nil {
		rc.onExec(b)
	} else {
		rc.rmu.Lock()
		k := rc.r.Intn(4)
		rc.rmu.Unlock()
		switch k {
		case 1:
			runtime.Gosched()
		case 2:
			time.Sleep(50 * time.Microsecond)
		}
	}
	rc.c.ev(kit.M{"e": "xe", "b": b})
}

func (c *c16) newHist() *c16hist {
	return &c16hist{c: c, base: c.base, hand: true}
}

// periodical: randomized stress of the PeriodicalExecutor with the recording container.
func (c *c16) periodical() {
	thr := []int{1, 1, 2, 2, 3, 4, 0}[c.rng.Intn(7)]
	c.ev(kit.M{"e": "reset", "kind": "per", "max": thr, "sc": "stress"})
	c.count("hist_per")
	h := c.newHist()
	rc := &c16container{c: c, thr: thr, r: rand.New(rand.NewSource(c.rng.Int63()))}
	h.pe = NewPeriodicalExecutor(c16Interval, rc)
	h.pe.newTicker = h.newTicker
	g := 2 + c.rng.Intn(3)
	nops := 3 + c.rng.Intn(5)
	h.run(g, func(p int, r *rand.Rand) {
		for i := 0; i < nops; i++ {
			c16jitter(r)
			switch k := r.Intn(20); {
			case k < 13:
				t := c16task{p: p, id: int(h.ids.Add(1)), size: 1}
				c.ev(kit.M{"e": "ainv", "p": p, "t": t.id, "s": 1})
				h.pe.Add(t)
				c.ev(kit.M{"e": "aret", "p": p})
				c.count("adds")
			case k < 17:
				c.ev(kit.M{"e": "winv", "p": p})
				h.pe.Wait()
				c.ev(kit.M{"e": "wret", "p": p})
				c.count("waits")
			default:
				c.ev(kit.M{"e": "finv", "p": p})
				h.pe.Flush()
				c.ev(kit.M{"e": "fret", "p": p})
				c.count("flushes")
			}
		}
	}, h.env)
	c.finish(h, func() { h.pe.Wait() })
}

// finish: final Wait by the main goroutine (p = 0), flusher retired, goroutines joined.
func (c *c16) finish(h *c16hist, wait func()) {
	c.ev(kit.M{"e": "winv", "p": 0})
	wait()
	c.ev(kit.M{"e": "wret", "p": 0})
	h.retire()
	c.ev(kit.M{"e": "quiesce"})
	c.n++
}

// handover: the hand-over window that TLC singles out in spec/PeriodicalImpl.tla, steered
// through the container's callbacks only.  Caller 2's task is taken, together with caller 3's,
// by caller 3's threshold Add while the flusher is busy; caller 2 then calls Wait.  The
// execution of that batch is held back until caller 2's Wait has returned or 150 ms passed
// (an executor that honours the property makes the time-out fire; the verdict is TLC's).
func (c *c16) handover() {
	c.ev(kit.M{"e": "reset", "kind": "per", "max": 2, "sc": "handover"})
	c.count("hist_handover")
	h := c.newHist()
	gateA := make(chan struct{})
	firstRunning := make(chan struct{})
	taken := make(chan []int, 16)
	waitReturned := make(chan struct{})
	rc := &c16container{c: c, thr: 2, r: rand.New(rand.NewSource(1))}
	rc.onTake = func(b []int) { taken <- b }
	rc.onExec = func(b []int) {
		switch b[0] {
		case 1:
			close(firstRunning)
			<-gateA
		case 3:
			select {
			case <-waitReturned:
			case <-time.After(150 * time.Millisecond):
			}
		}
	}
	h.pe = NewPeriodicalExecutor(c16Interval, rc)
	h.pe.newTicker = h.newTicker
	add := func(p, id int) {
		c.ev(kit.M{"e": "ainv", "p": p, "t": id, "s": 1})
		h.pe.Add(c16task{p: p, id: id, size: 1})
		c.ev(kit.M{"e": "aret", "p": p})
		c.count("adds")
	}
	expectTake := func(n int) {
		for {
			select {
			case b := <-taken:
				if len(b) == n {
					return
				}
			case <-time.After(15 * time.Second):
				c16infra("handover: expected take of %d tasks not seen", n)
			}
		}
	}
	add(1, 1)
	add(1, 2) // threshold: [1 2] goes to the flusher, whose Execute is held at gateA
	select {
	case <-firstRunning:
	case <-time.After(15 * time.Second):
		c16infra("handover: first batch never executed")
	}
	add(2, 3)
	var wg sync.WaitGroup
	wg.Add(2)
	go func() { // caller 3: threshold Add takes [3 4] and waits for the busy flusher
		defer wg.Done()
		add(3, 4)
	}()
	expectTake(2)
	expectTake(2)
	go func() { // caller 2: its task 3 was added before this Wait
		defer wg.Done()
		c.ev(kit.M{"e": "winv", "p": 2})
		h.pe.Wait()
		c.ev(kit.M{"e": "wret", "p": 2})
		c.count("waits")
		close(waitReturned)
	}()
	// best effort only: Wait's own Flush (if the implementation flushes there) found the
	// container empty; then give Wait a moment to reach waitGroup.Wait
	select {
	case <-taken:
	case <-time.After(5 * time.Millisecond):
	}
	for i := 0; i < 50; i++ {
		runtime.Gosched()
	}
	time.Sleep(time.Millisecond)
	close(gateA)
	done := make(chan struct{})
	go func() { wg.Wait(); close(done) }()
	select {
	case <-done:
	case <-time.After(30 * time.Second):
		c16infra("handover scenario hung")
	}
	rc.onTake = nil
	c.finish(h, func() { h.pe.Wait() })
}

// ---------------------------------------------------------------- kinds "bulk" / "chunk": public API

type c16pub struct {
	add   func(task, size int)
	flush func()
	wait  func()
}

func (c *c16) public(kind string) {
	var max int
	sizes := []int{1}
	if kind == "bulk" {
		max = []int{1, 2, 7}[c.rng.Intn(3)]
	} else {
		max = []int{1, 8, 10}[c.rng.Intn(3)]
		sizes = []int{1, 2, 5, 8, 10, 13}
	}
	c.ev(kit.M{"e": "reset", "kind": kind, "max": max, "sc": "stress"})
	c.count("hist_" + kind)
	h := c.newHist()
	h.hand = c.rng.Intn(2) == 0
	er := rand.New(rand.NewSource(c.rng.Int63()))
	var emu sync.Mutex
	execute := func(tasks []any) {
		b := c16ids(tasks)
		c.ev(kit.M{"e": "xb", "b": b})
		c.count("execs")
		emu.Lock()
		k := er.Intn(4)
		emu.Unlock()
		switch k {
		case 1:
			runtime.Gosched()
		case 2:
			time.Sleep(50 * time.Microsecond)
		}
		c.ev(kit.M{"e": "xe", "b": b})
	}
	iv := c16Interval
	if !h.hand {
		iv = time.Millisecond // a real ticker; the idle decision still reads the virtual clock
	}
	var api c16pub
	if kind == "bulk" {
		be := NewBulkExecutor(execute, WithBulkTasks(max), WithBulkInterval(iv))
		h.pe = be.executor
		api = c16pub{add: func(t, s int) { _ = be.Add(t) }, flush: be.Flush, wait: be.Wait}
	} else {
		ce := NewChunkExecutor(execute, WithChunkBytes(max), WithFlushInterval(iv))
		h.pe = ce.executor
		api = c16pub{add: func(t, s int) { _ = ce.Add(t, s) }, flush: ce.Flush, wait: ce.Wait}
	}
	if h.hand {
		h.pe.newTicker = h.newTicker
	}
	g := 2 + c.rng.Intn(2)
	nops := 2 + c.rng.Intn(3)
	env := h.env
	if !h.hand {
		env = func(r *rand.Rand, stop <-chan struct{}) {
			for {
				select {
				case <-stop:
					return
				default:
				}
				if r.Intn(3) == 0 {
					h.jump()
				}
				time.Sleep(time.Duration(200+r.Intn(800)) * time.Microsecond)
			}
		}
	}
	h.run(g, func(p int, r *rand.Rand) {
		for i := 0; i < nops; i++ {
			c16jitter(r)
			switch k := r.Intn(20); {
			case k < 14:
				id := int(h.ids.Add(1))
				s := sizes[r.Intn(len(sizes))]
				c.ev(kit.M{"e": "ainv", "p": p, "t": id, "s": s})
				api.add(id, s)
				c.ev(kit.M{"e": "aret", "p": p})
				c.count("adds")
			case k < 17:
				c.ev(kit.M{"e": "winv", "p": p})
				api.wait()
				c.ev(kit.M{"e": "wret", "p": p})
				c.count("waits")
			default:
				c.ev(kit.M{"e": "finv", "p": p})
				api.flush()
				c.ev(kit.M{"e": "fret", "p": p})
				c.count("flushes")
			}
		}
	}, env)
	c.finish(h, api.wait)
}

// ---------------------------------------------------------------- entry point

func TestVerifC16Trace(t *testing.T) {
	out := kit.Env("VERIF_TRACE", "")
	tr, err := kit.NewTracer(out)
	if err != nil {
		t.Fatal(err)
	}
	c := &c16{tr: tr, clock: kit.NewClock(), cnt: map[string]*atomic.Int64{},
		rng: rand.New(rand.NewSource(kit.Seed()*7919 + int64(kit.EnvInt("VERIF_SHARD", 0))))}
	for _, k := range c16Counters {
		c.cnt[k] = &atomic.Int64{}
	}
	// let the runtime's lazily started goroutines (os/signal loop of lib/proc) appear first
	kit.WaitFor(2*time.Second, func() bool { time.Sleep(5 * time.Millisecond); return runtime.NumGoroutine() >= 4 })
	time.Sleep(20 * time.Millisecond)
	c.base = runtime.NumGoroutine()
	timex.SetVerifClock(c.clock.Now)
	defer timex.SetVerifClock(nil)
	rounds := kit.EnvInt("VERIF_ROUNDS", 20)
	only := kit.Env("VERIF_KIND", "")
	scen := []struct {
		name  string
		every int
		fn    func()
	}{
		{"per", 1, c.periodical}, {"per", 1, c.periodical},
		{"bulk", 1, func() { c.public("bulk") }}, {"chunk", 1, func() { c.public("chunk") }},
		{"handover", 10, c.handover},
	}
	for i := 0; i < rounds; i++ {
		for _, s := range scen {
			if only != "" && only != s.name {
				continue
			}
			if only == "" && i%s.every != 0 {
				continue
			}
			s.fn()
		}
	}
	if err := tr.Close(); err != nil {
		t.Fatal(err)
	}
	fmt.Printf("C16TRACES %d EVENTS %d", c.n, tr.N)
	for _, k := range c16Counters {
		fmt.Printf(" %s=%d", k, c.cnt[k].Load())
	}
	fmt.Println()
}
