package executors

// Trace recorder for property C16 (overlaid into lib/executors by /verif/bin/check as
// zz_verif_c16_test.go).  It asserts nothing about the executors: it runs randomized and
// directed concurrent scenarios on the real PeriodicalExecutor / BulkExecutor / ChunkExecutor
// and records what happened; TLC decides with spec/ExecutorTrace.tla (built on
// spec/Executor.tla) whether each recorded history is a behaviour of the specification.
//
// Observation points
//   - kind "per": a recording TaskContainer.  AddTask and RemoveAll are called by the executor
//     while it holds pe.lock, so the tracer's sequence number taken there is a linearization
//     order of the container; Execute logs its begin and end.
//   - kinds "bulk"/"chunk": public API only (Add/Flush/Wait + the execute callback).
//   - Add/Wait/Flush calls: `inv` logged before the call, `ret` after it returned.
// Environment control (never part of a verdict): pe.newTicker is replaced by a factory of
// hand-driven unbuffered tickers (creation = flusher start, Stop = flusher retiring), and the
// virtual clock of lib/timex (build tag verif) decides when 10 idle intervals have passed.
// The function installed as the virtual clock is also a scheduling point inside the flusher:
// timex.Since is called by shallQuit between the tick's empty Flush and the lock region that
// clears pe.guarded, so a one-shot hook run from there places Adds exactly on the retiring tick
// (scenario "retiring").
//
// Every history is judged against the configuration of ITS OWN executor (reset event: max and
// interval = the explicit option, or the package's default constant where the option was left
// out).  Scenario "multi" creates two or three executors of one kind in sequence in this
// process, with different explicit / defaulted options, and uses them one after the other or
// at the same time; their events are buffered per executor and written as one history each.

import (
	"fmt"
	"math/rand"
	"os"
	"runtime"
	"sync"
	"sync/atomic"
	"testing"
	"time"

	kit "github.com/gotid/god/internal/verifkit"
	"github.com/gotid/god/lib/timex"
)

const c16Interval = time.Second // a unit of virtual time only

type c16 struct {
	tr    *kit.Tracer
	rng   *rand.Rand
	clock *kit.Clock
	n     atomic.Int64
	base  int // goroutines of the idle test process (histories run one after the other)
	cnt   map[string]*atomic.Int64
	turnR int           // rotates the kinds of the "retiring" scenario
	turnM int           // rotates the kinds of the "multi" scenario
	turnC int           // rotates the task-size profiles of the chunk stress histories
	turnS int           // alternates Wait / Flush in the "syncwait" scenario
	turnZ int           // alternates the task-size profiles of the chunk "retiring" histories
	grace time.Duration // how long a call may stay unreturned (environment kept going) before it is recorded as hung
	hung  atomic.Bool   // a hang was recorded: recording stops (the stuck goroutines cannot be joined)
	path  string
	hook  atomic.Pointer[func()] // one-shot scheduling point run from inside the next virtual-clock read
}

// now is the function installed with timex.SetVerifClock.
func (c *c16) now() time.Duration {
	if f := c.hook.Load(); f != nil {
		(*f)()
	}
	return c.clock.Now()
}

func (c *c16) ev(m kit.M) { c.tr.Emit(m) }
func (c *c16) count(name string) {
	c.cnt[name].Add(1)
}

var c16Counters = []string{"hist_per", "hist_bulk", "hist_chunk", "hist_handover", "adds", "waits", "flushes", "ticks", "jumps",
	"flusher_starts", "flusher_stops", "takes_nonempty", "execs", "hist_quitrace", "hist_syncwait", "hangs",
	"hist_retiring", "retiring_hit", "retiring_stop_hit", "retiring_final_hit", "rests", "hist_multi", "multi_execs", "multi_defaulted", "multi_concurrent",
	"default_full_batches", "tickers_timed", "hist_chunk_zero", "zero_batches", "zero_adds", "retiring_zero", "edge_adds"}

func c16infra(format string, a ...any) {
	// harness trouble is never a verdict: dump and leave with a code the check maps to exit 2
	fmt.Fprintf(os.Stderr, "C16INFRA "+format+"\n%s\n", append(a, kit.Stacks())...)
	os.Exit(3)
}

func c16jitter(r *rand.Rand) {
	switch r.Intn(5) {
	case 0, 1:
	case 2:
		runtime.Gosched()
	case 3:
		for i := 0; i < r.Intn(20); i++ {
			runtime.Gosched()
		}
	case 4:
		time.Sleep(time.Duration(r.Intn(100)) * time.Microsecond)
	}
}

// ---------------------------------------------------------------- hand-driven tickers

type c16ticker struct {
	n       int
	ch      chan time.Time
	stopped chan struct{}
	once    sync.Once
	h       *c16hist
}

func (t *c16ticker) Chan() <-chan time.Time { return t.ch }
func (t *c16ticker) Stop() {
	t.once.Do(func() {
		t.h.ev(kit.M{"e": "fstop", "n": t.n})
		t.h.c.count("flusher_stops")
		close(t.stopped)
		if f := t.h.onStop.Load(); f != nil {
			(*f)() // scheduling point of a directed scenario: the retiring flusher is in its deferred ticker.Stop()
		}
	})
}

// c16hist is one history: one fresh executor.
type c16hist struct {
	c       *c16
	pe      *PeriodicalExecutor
	mu      sync.Mutex
	tickers []*c16ticker
	ids     atomic.Int64
	base    int
	hand    bool            // tickers are hand-driven
	calls   map[int]c16call // public calls that have not returned yet, per caller (guarded by mu)
	added   []int           // tasks handed to Add (guarded by mu)
	execd   map[int]bool    // tasks whose execution has returned (guarded by mu)
	t0      time.Time
	rng     *rand.Rand                  // this history's own source (histories of a "multi" scenario run side by side)
	iv      time.Duration               // the interval this executor was configured with (unit of the environment's clock jumps)
	obs     atomic.Int64                // longest period a ticker of this executor was created with
	frozen  bool                        // this history was closed with a `hang` event (guarded by mu)
	solo    bool                        // no other executor is active: the process's goroutine count tells when this one is at rest
	rested  bool                        // a `rest` event was recorded
	quiet   bool                        // finished; `quiesce` is due once the goroutines of all executors are joined (!solo)
	bufd    bool                        // events are collected in buf and written as one history afterwards
	onStop  atomic.Pointer[func()]      // directed scenarios: run inside ticker.Stop()
	onExec  atomic.Pointer[func([]int)] // directed scenarios: run inside the execute callback (between xb and xe)
	bmu     sync.Mutex
	buf     []kit.M
	szs     sync.Map // task id -> byte size handed to Add (bookkeeping for the counters only)
}

// ev records one event of this history.  Buffered histories take their sequence order under
// bmu exactly as the tracer does under its own mutex.
func (h *c16hist) ev(m kit.M) {
	if !h.bufd {
		h.c.ev(m)
		return
	}
	h.bmu.Lock()
	h.buf = append(h.buf, m)
	h.bmu.Unlock()
}

// begin opens the history: what this executor is configured with.
func (h *c16hist) begin(kind string, max int, sc string) {
	h.ev(kit.M{"e": "reset", "kind": kind, "max": max, "sc": sc, "iv": int(h.iv / time.Millisecond)})
}

type c16call struct {
	op string
	t  int
}

// call wraps one public call: inv event, bookkeeping of unreturned calls, the call, ret event.
func (h *c16hist) call(p int, op string, t, size int, fn func()) {
	h.mu.Lock()
	h.calls[p] = c16call{op, t}
	if op == "add" {
		h.added = append(h.added, t)
	}
	h.mu.Unlock()
	switch op {
	case "add":
		h.szs.Store(t, size)
		h.ev(kit.M{"e": "ainv", "p": p, "t": t, "s": size})
	case "wait":
		h.ev(kit.M{"e": "winv", "p": p})
	case "flush":
		h.ev(kit.M{"e": "finv", "p": p})
	}
	fn()
	h.mu.Lock()
	delete(h.calls, p)
	frozen := h.frozen
	h.mu.Unlock()
	if frozen {
		return // the history was closed with a `hang` event; late returns are not part of it
	}
	switch op {
	case "add":
		h.ev(kit.M{"e": "aret", "p": p})
		h.c.count("adds")
	case "wait":
		h.ev(kit.M{"e": "wret", "p": p})
		h.c.count("waits")
	case "flush":
		h.ev(kit.M{"e": "fret", "p": p})
		h.c.count("flushes")
	}
}

// pace keeps the environment from flooding the trace while a history lasts unusually long
// (callers stuck, grace period running): after 200 ms it acts every 10 ms only.
func (h *c16hist) pace() {
	if time.Since(h.t0) > 200*time.Millisecond {
		time.Sleep(10 * time.Millisecond)
	}
}

func (h *c16hist) noteExec(b []int) {
	h.mu.Lock()
	for _, t := range b {
		h.execd[t] = true
	}
	h.mu.Unlock()
}

// await waits for done.  A call of the executor that does not return is not a harness
// problem: spec/PeriodicalImpl.tla is deadlock free and always has a flusher alive while work
// is pending, and the statement promises that every task is executed and Wait returns.  So
// the environment is kept going (ticks and clock jumps) for a generous grace period - a slow
// machine must not be misjudged - and then the history is closed with a `hang` event that
// no behaviour of the specification explains.  Returns false if it recorded a hang.
func (h *c16hist) await(done <-chan struct{}, drive bool) bool {
	deadline := time.Now().Add(h.c.grace)
	quiet := time.Now().Add(100 * time.Millisecond)
	for {
		select {
		case <-done:
			return true
		case <-time.After(time.Millisecond):
		}
		if time.Now().After(deadline) {
			break
		}
		if drive && time.Now().After(quiet) {
			time.Sleep(10 * time.Millisecond)
			h.jump()
			if h.hand {
				h.tick()
			}
		}
	}
	h.hang()
	return false
}

func (h *c16hist) hang() {
	h.mu.Lock()
	h.frozen = true
	h.c.hung.Store(true)
	calls := []kit.M{}
	op := ""
	rank := map[string]int{"add": 3, "wait": 2, "flush": 1}
	for p := 0; p < 16; p++ {
		if cl, ok := h.calls[p]; ok {
			calls = append(calls, kit.M{"p": p, "op": cl.op, "t": cl.t})
			if rank[cl.op] > rank[op] {
				op = cl.op
			}
		}
	}
	unexec := []int{}
	for _, t := range h.added {
		if !h.execd[t] {
			unexec = append(unexec, t)
		}
	}
	h.mu.Unlock()
	stacks := h.c.path + ".hang.txt"
	_ = os.WriteFile(stacks, []byte(kit.Stacks()), 0o644)
	if op == "" {
		op = "none"
	}
	h.ev(kit.M{"e": "hang", "op": op, "calls": calls, "unexecuted": unexec, "stacks": stacks,
		"grace_ms": int(h.c.grace / time.Millisecond)})
	h.c.count("hangs")
	h.c.n.Add(1)
}

func (h *c16hist) newTicker(d time.Duration) timex.Ticker {
	h.mu.Lock()
	t := &c16ticker{n: len(h.tickers) + 1, ch: make(chan time.Time), stopped: make(chan struct{}), h: h}
	h.tickers = append(h.tickers, t)
	h.mu.Unlock()
	for o := h.obs.Load(); int64(d) > o && !h.obs.CompareAndSwap(o, int64(d)); o = h.obs.Load() {
	}
	// d: the period the executor asks its ticker for ("the periodic tick" of the configured interval)
	h.ev(kit.M{"e": "fstart", "n": t.n, "d": int(d / time.Millisecond)})
	h.c.count("flusher_starts")
	h.c.count("tickers_timed")
	return t
}

// unit is the environment's idea of one flush interval: the configured one, or a longer one
// that the executor actually asked a ticker for (the environment must be able to make any
// flusher retire; whether the period is the configured one is the acceptor's business).
func (h *c16hist) unit() time.Duration {
	d := h.iv
	if o := time.Duration(h.obs.Load()); o > d {
		d = o
	}
	if d <= 0 {
		d = c16Interval
	}
	return d
}

func (h *c16hist) live() *c16ticker {
	h.mu.Lock()
	defer h.mu.Unlock()
	for i := len(h.tickers) - 1; i >= 0; i-- {
		select {
		case <-h.tickers[i].stopped:
		default:
			return h.tickers[i]
		}
	}
	return nil
}

// tick offers one tick to the live flusher; returns once the flusher's select has taken it
// (or the flusher retired meanwhile).
func (h *c16hist) tick() bool {
	t := h.live()
	if t == nil {
		return false
	}
	select {
	case t.ch <- time.Time{}:
		h.ev(kit.M{"e": "tick", "n": t.n})
		h.c.count("ticks")
		return true
	case <-t.stopped:
	case <-time.After(3 * time.Second):
		// a flusher that is busy or stuck: whoever depends on it will show up as a hung call
	}
	return false
}

func (h *c16hist) jump() {
	h.c.clock.Advance(11 * h.unit())
	h.ev(kit.M{"e": "jump"})
	h.c.count("jumps")
}

func (h *c16hist) guarded() bool {
	h.pe.lock.Lock()
	defer h.pe.lock.Unlock()
	return h.pe.guarded
}

// retire makes the background flusher quit (idle for more than 10 intervals, nothing to
// flush) and waits until every goroutine of the history has ended.  Harness barrier only.
func (h *c16hist) retire() {
	deadline := time.Now().Add(15 * time.Second)
	for h.guarded() {
		h.jump()
		if !h.hand || !h.tick() {
			time.Sleep(200 * time.Microsecond) // (no ticker to hand a tick to: the flusher is on its way out)
		}
		if time.Now().After(deadline) {
			c16infra("flusher did not retire")
		}
	}
	if h.solo && !kit.WaitGoroutines(h.base, 15*time.Second) {
		c16infra("goroutines did not settle: have %d want <= %d", runtime.NumGoroutine(), h.base)
	}
}

// rest: with no public call in progress the environment alone (ticks, clock jumps) runs until
// the background flusher has retired and every goroutine of the executor has ended; the `rest`
// event marks that point.  No Add/Flush/Wait is called to get there, so whatever the executor
// still holds now would be flushed by no trigger (TLC rejects the history in that case).
func (h *c16hist) rest() {
	if !h.solo {
		return
	}
	h.retire()
	h.ev(kit.M{"e": "rest"})
	h.c.count("rests")
	h.rested = true
}

// run starts g callers (process ids 1..g) released together, plus the environment goroutine.
func (h *c16hist) run(g int, body func(p int, r *rand.Rand), env func(r *rand.Rand, stop <-chan struct{})) bool {
	var wg sync.WaitGroup
	start := make(chan struct{})
	for p := 1; p <= g; p++ {
		wg.Add(1)
		seed := h.rng.Int63()
		go func(p int) {
			defer wg.Done()
			r := rand.New(rand.NewSource(seed))
			<-start
			body(p, r)
		}(p)
	}
	stop := make(chan struct{})
	envDone := make(chan struct{})
	eseed := h.rng.Int63()
	go func() {
		defer close(envDone)
		if env != nil {
			<-start
			env(rand.New(rand.NewSource(eseed)), stop)
		}
	}()
	close(start)
	done := make(chan struct{})
	go func() { wg.Wait(); close(done) }()
	ok := h.await(done, env == nil) // the environment goroutine keeps ticking / jumping meanwhile
	close(stop)
	select {
	case <-envDone:
	case <-time.After(30 * time.Second):
		c16infra("environment goroutine hung")
	}
	return ok
}

func (h *c16hist) env(r *rand.Rand, stop <-chan struct{}) {
	for {
		select {
		case <-stop:
			return
		default:
		}
		h.pace()
		switch r.Intn(6) {
		case 0, 1, 2:
			h.tick()
		case 3:
			h.jump()
			h.tick()
		case 4:
			runtime.Gosched()
		case 5:
			time.Sleep(time.Duration(r.Intn(200)) * time.Microsecond)
		}
	}
}

// ---------------------------------------------------------------- kind "per": recording container

type c16task struct {
	p, id, size int
}

func c16ids(ts []any) []int {
	out := make([]int, 0, len(ts))
	for _, t := range ts {
		switch x := t.(type) {
		case c16task:
			out = append(out, x.id)
		case int:
			out = append(out, x)
		}
	}
	return out
}

type c16container struct {
	c      *c16
	h      *c16hist
	tasks  []any
	thr    int           // AddTask asks for a flush when len(tasks) >= thr (0: never)
	onAdd  func(t int)   // directed scenarios: called under pe.lock after logging
	onTake func(b []int) // directed scenarios: called under pe.lock after logging
	onExec func(b []int) // directed scenarios: called between xb and xe
	r      *rand.Rand    // jitter inside Execute (guarded by rmu)
	rmu    sync.Mutex
}

func (rc *c16container) AddTask(task any) bool {
	t := task.(c16task)
	rc.tasks = append(rc.tasks, t)
	rc.h.ev(kit.M{"e": "add", "p": t.p, "t": t.id})
	if rc.onAdd != nil {
		rc.onAdd(t.id)
	}
	return rc.thr > 0 && len(rc.tasks) >= rc.thr
}

func (rc *c16container) RemoveAll() any {
	ts := rc.tasks
	rc.tasks = nil
	b := c16ids(ts)
	rc.h.ev(kit.M{"e": "take", "b": b})
	if len(b) > 0 {
		rc.c.count("takes_nonempty")
	}
	if rc.onTake != nil {
		rc.onTake(b)
	}
	return ts
}

func (rc *c16container) Execute(tasks any) {
	b := c16ids(tasks.([]any))
	rc.h.ev(kit.M{"e": "xb", "b": b})
	rc.c.count("execs")
	if rc.onExec != nil {
		rc.onExec(b)
	} else if f := rc.h.onExec.Load(); f != nil {
		(*f)(b)
	} else {
		rc.rmu.Lock()
		k := rc.r.Intn(4)
		rc.rmu.Unlock()
		switch k {
		case 1:
			runtime.Gosched()
		case 2:
			time.Sleep(50 * time.Microsecond)
		}
	}
	rc.h.ev(kit.M{"e": "xe", "b": b})
	rc.h.noteExec(b)
}

func (c *c16) newHist() *c16hist {
	return &c16hist{c: c, base: c.base, hand: true, calls: map[int]c16call{}, execd: map[int]bool{}, t0: time.Now(),
		rng: rand.New(rand.NewSource(c.rng.Int63())), iv: c16Interval, solo: true}
}

// periodical: randomized stress of the PeriodicalExecutor with the recording container.
func (c *c16) periodical() {
	thr := []int{1, 1, 2, 2, 3, 4, 0}[c.rng.Intn(7)]
	c.count("hist_per")
	h := c.newHist()
	h.begin("per", thr, "stress")
	rc := &c16container{c: c, h: h, thr: thr, r: rand.New(rand.NewSource(c.rng.Int63()))}
	h.pe = NewPeriodicalExecutor(c16Interval, rc)
	h.pe.newTicker = h.newTicker
	g := 2 + c.rng.Intn(3)
	nops := 3 + c.rng.Intn(5)
	ok := h.run(g, func(p int, r *rand.Rand) {
		for i := 0; i < nops; i++ {
			c16jitter(r)
			switch k := r.Intn(20); {
			case k < 13:
				t := c16task{p: p, id: int(h.ids.Add(1)), size: 1}
				h.call(p, "add", t.id, 1, func() { h.pe.Add(t) })
			case k < 17:
				h.call(p, "wait", 0, 0, h.pe.Wait)
			default:
				h.call(p, "flush", 0, 0, func() { h.pe.Flush() })
			}
		}
	}, h.env)
	if ok {
		c.finish(h, h.pe.Wait)
	}
}

// finish: final Wait by the main goroutine (p = 0), flusher retired, goroutines joined.
// In half of the histories the executor is first left alone with its ticker and the clock
// until it is at rest (see rest): every trigger but the caller's own Flush/Wait has to have
// done its work by then.
func (c *c16) finish(h *c16hist, wait func()) {
	if h.solo && !h.rested && h.rng.Intn(2) == 0 {
		h.rest()
	}
	done := make(chan struct{})
	go func() {
		h.call(0, "wait", 0, 0, wait)
		close(done)
	}()
	if !h.await(done, true) {
		return
	}
	h.retire()
	if !h.solo {
		h.quiet = true // `quiesce` once the goroutines of all executors of the scenario are joined
		return
	}
	h.ev(kit.M{"e": "quiesce"})
	c.n.Add(1)
}

// step runs one part of a directed scenario in its own goroutine and waits for it; a call
// that does not return ends the history with a `hang` event (see await).
func (h *c16hist) step(fn func()) bool {
	done := make(chan struct{})
	go func() { fn(); close(done) }()
	return h.await(done, true)
}

// soon waits for a signal of a directed scenario for a short while.  Best effort only: when
// the implementation takes another path the scenario simply does not hit its window.
func c16soon(ch <-chan struct{}, d time.Duration) bool {
	select {
	case <-ch:
		return true
	case <-time.After(d):
		return false
	}
}

func c16settle() {
	for i := 0; i < 50; i++ {
		runtime.Gosched()
	}
	time.Sleep(time.Millisecond)
}

// handover: the hand-over window that TLC singles out in spec/PeriodicalImpl.tla, steered
// through the container's callbacks only.  Caller 2's task is taken, together with caller 3's,
// by caller 3's threshold Add while the flusher is busy; caller 2 then calls Wait.  The
// execution of that batch is held back until caller 2's Wait has returned or 150 ms passed
// (an executor that honours the property makes the time-out fire; the verdict is TLC's).
func (c *c16) handover() {
	c.count("hist_handover")
	h := c.newHist()
	h.begin("per", 2, "handover")
	gateA := make(chan struct{})
	firstRunning := make(chan struct{})
	took2 := make(chan struct{}, 64)
	took0 := make(chan struct{}, 64)
	waitReturned := make(chan struct{})
	rc := &c16container{c: c, h: h, thr: 2, r: rand.New(rand.NewSource(1))}
	rc.onTake = func(b []int) { // under pe.lock: never block here
		ch := took0
		if len(b) == 2 {
			ch = took2
		}
		select {
		case ch <- struct{}{}:
		default:
		}
	}
	rc.onExec = func(b []int) {
		switch b[0] {
		case 1:
			close(firstRunning)
			<-gateA
		case 3:
			c16soon(waitReturned, 150*time.Millisecond)
		}
	}
	h.pe = NewPeriodicalExecutor(c16Interval, rc)
	h.pe.newTicker = h.newTicker
	add := func(p, id int) {
		h.call(p, "add", id, 1, func() { h.pe.Add(c16task{p: p, id: id, size: 1}) })
	}
	// threshold: [1 2] goes to the flusher, whose Execute is held at gateA
	if !h.step(func() { add(1, 1); add(1, 2) }) {
		return
	}
	c16soon(firstRunning, 5*time.Second)
	if !h.step(func() { add(2, 3) }) {
		return
	}
	var wg sync.WaitGroup
	wg.Add(2)
	go func() { // caller 3: threshold Add takes [3 4] and waits for the busy flusher
		defer wg.Done()
		add(3, 4)
	}()
	c16soon(took2, 5*time.Second) // [1 2]
	c16soon(took2, 5*time.Second) // [3 4]
	go func() {                   // caller 2: its task 3 was added before this Wait
		defer wg.Done()
		h.call(2, "wait", 0, 0, h.pe.Wait)
		close(waitReturned)
	}()
	// Wait's own Flush (if the implementation flushes there) found the container empty; then
	// give Wait a moment to reach waitGroup.Wait
	c16soon(took0, 5*time.Millisecond)
	c16settle()
	close(gateA)
	done := make(chan struct{})
	go func() { wg.Wait(); close(done) }()
	if !h.await(done, true) {
		return
	}
	c.finish(h, h.pe.Wait)
}

// syncwait: a Wait (odd turns: an explicit Flush) that overlaps another caller's Sync, which
// runs its function under pe.lock (SetName / SetResultHandler / UpdateStmt of the bulk
// inserter go through Sync).  Two below-threshold tasks are pending; Sync's function is held
// until the Wait / Flush has returned or 100 ms passed.  An executor that honours the property
// makes the time-out fire (its flush queues behind the lock); the verdict is the acceptor's:
// a Wait or Flush that returns while an earlier added task is unexecuted is rejected.
func (c *c16) syncwait() {
	c.count("hist_syncwait")
	c.turnS++
	h := c.newHist()
	h.begin("per", 4, "syncwait")
	rc := &c16container{c: c, h: h, thr: 4, r: rand.New(rand.NewSource(1))}
	h.pe = NewPeriodicalExecutor(c16Interval, rc)
	h.pe.newTicker = h.newTicker
	add := func(p, id int) {
		h.call(p, "add", id, 1, func() { h.pe.Add(c16task{p: p, id: id, size: 1}) })
	}
	if !h.step(func() { add(1, 1); add(1, 2) }) {
		return
	}
	inSync := make(chan struct{})
	returned := make(chan struct{})
	var wg sync.WaitGroup
	wg.Add(2)
	go func() {
		defer wg.Done()
		h.pe.Sync(func() {
			close(inSync)
			c16soon(returned, 100*time.Millisecond)
		})
	}()
	if !c16soon(inSync, 5*time.Second) {
		c16infra("syncwait: Sync did not run its function")
	}
	go func() {
		defer wg.Done()
		if c.turnS%2 == 0 {
			h.call(2, "wait", 0, 0, h.pe.Wait)
		} else {
			h.call(2, "flush", 0, 0, func() { h.pe.Flush() })
		}
		close(returned)
	}()
	done := make(chan struct{})
	go func() { wg.Wait(); close(done) }()
	if !h.await(done, true) {
		return
	}
	c.finish(h, h.pe.Wait)
}

// quitrace: the idle-quit decision of the background flusher racing a threshold Add (the
// window guarded by `inflight` in shallQuit; CmdCovered / deadlock freedom in
// spec/PeriodicalImpl.tla).  A slow Flush keeps the wait group busy, a Wait holds the barrier,
// so the flusher's tick-triggered Flush is parked in enterExecution with more than 10 idle
// intervals on the clock; a threshold Add now hands its batch over through `commander`; then
// everything is released.  The flusher must not retire while that batch is in flight - if it
// does, nobody executes the batch and the Add never returns (recorded as a `hang`).
func (c *c16) quitrace() {
	c.count("hist_quitrace")
	h := c.newHist()
	h.begin("per", 2, "quitrace")
	gate := make(chan struct{})
	running := make(chan struct{})
	took2 := make(chan struct{}, 64)
	took0 := make(chan struct{}, 64)
	rc := &c16container{c: c, h: h, thr: 2, r: rand.New(rand.NewSource(1))}
	rc.onTake = func(b []int) {
		ch := took0
		if len(b) == 2 {
			ch = took2
		}
		select {
		case ch <- struct{}{}:
		default:
		}
	}
	rc.onExec = func(b []int) {
		if b[0] == 1 {
			close(running)
			<-gate
		}
	}
	h.pe = NewPeriodicalExecutor(c16Interval, rc)
	h.pe.newTicker = h.newTicker
	add := func(p, id int) {
		h.call(p, "add", id, 1, func() { h.pe.Add(c16task{p: p, id: id, size: 1}) })
	}
	if !h.step(func() { add(1, 1) }) { // starts the flusher; the container holds [1]
		return
	}
	kit.WaitFor(5*time.Second, func() bool { return h.live() != nil })
	var wg sync.WaitGroup
	wg.Add(3)
	go func() { // caller 2: slow Flush of [1]
		defer wg.Done()
		h.call(2, "flush", 0, 0, func() { h.pe.Flush() })
	}()
	c16soon(running, 5*time.Second)
	go func() { // caller 3: Wait parks in waitGroup.Wait holding the barrier
		defer wg.Done()
		h.call(3, "wait", 0, 0, h.pe.Wait)
	}()
	c16soon(took0, 5*time.Millisecond)
	c16settle()
	h.jump() // more than 10 idle intervals since the flusher's `last`
	h.tick() // the flusher enters its tick branch: Flush -> enterExecution waits for the barrier
	c16settle()
	go func() { // caller 4: the second Add reaches the threshold and hands [2 3] over
		defer wg.Done()
		add(4, 2)
		add(4, 3)
	}()
	c16soon(took2, 2*time.Second)
	c16settle()
	close(gate)
	done := make(chan struct{})
	go func() { wg.Wait(); close(done) }()
	if !h.await(done, true) {
		return
	}
	c.finish(h, h.pe.Wait)
}

// ---------------------------------------------------------------- kinds "bulk" / "chunk": public API

type c16pub struct {
	add   func(p, task, size int)
	flush func()
	wait  func()
}

// c16cfg is what one executor is configured with.  max / iv are the values the executor has
// to honour: the explicit option where one is passed (expMax / expIv), else the default
// constant of the package under test (defaultBulkTasks, defaultChunkSize, defaultFlushInterval).
type c16cfg struct {
	kind   string // "per" | "bulk" | "chunk"
	max    int
	iv     time.Duration
	expMax bool
	expIv  bool
}

func c16config(kind string, max int, iv time.Duration) c16cfg {
	cf := c16cfg{kind: kind, max: max, iv: iv, expMax: max > 0 || kind == "per", expIv: iv > 0}
	if !cf.expMax {
		cf.max = map[string]int{"bulk": defaultBulkTasks, "chunk": defaultChunkSize}[kind]
	}
	if !cf.expIv {
		cf.iv = defaultFlushInterval
	}
	return cf
}

// build creates the executor of history h exactly as a user would (options passed only where
// explicit) and opens the history with its configuration.
func (c *c16) build(h *c16hist, cf c16cfg, sc string) c16pub {
	h.iv = cf.iv
	h.begin(cf.kind, cf.max, sc)
	c.count("hist_" + cf.kind)
	er := rand.New(rand.NewSource(h.rng.Int63()))
	var emu sync.Mutex
	execute := func(tasks []any) {
		b := c16ids(tasks)
		h.ev(kit.M{"e": "xb", "b": b})
		c.count("execs")
		if !cf.expMax && len(b) == cf.max {
			c.count("default_full_batches")
		}
		if cf.kind == "chunk" && len(b) > 0 {
			zero := true
			for _, t := range b {
				if s, ok := h.szs.Load(t); !ok || s.(int) != 0 {
					zero = false
				}
			}
			if zero {
				c.count("zero_batches") // a batch whose tasks carry no bytes at all: only tick / Flush / Wait / final flush can have sent it
			}
		}
		if f := h.onExec.Load(); f != nil {
			(*f)(b)
		} else {
			emu.Lock()
			k := er.Intn(4)
			emu.Unlock()
			switch k {
			case 1:
				runtime.Gosched()
			case 2:
				time.Sleep(50 * time.Microsecond)
			}
		}
		h.ev(kit.M{"e": "xe", "b": b})
		h.noteExec(b)
	}
	var api c16pub
	switch cf.kind {
	case "bulk":
		var opts []BulkOption
		if cf.expMax {
			opts = append(opts, WithBulkTasks(cf.max))
		}
		if cf.expIv {
			opts = append(opts, WithBulkInterval(cf.iv))
		}
		be := NewBulkExecutor(execute, opts...)
		h.pe = be.executor
		api = c16pub{add: func(p, t, s int) { _ = be.Add(t) }, flush: be.Flush, wait: be.Wait}
	case "chunk":
		var opts []ChunkOption
		if cf.expMax {
			opts = append(opts, WithChunkBytes(cf.max))
		}
		if cf.expIv {
			opts = append(opts, WithFlushInterval(cf.iv))
		}
		ce := NewChunkExecutor(execute, opts...)
		h.pe = ce.executor
		api = c16pub{add: func(p, t, s int) {
			if s == 0 {
				c.count("zero_adds")
			} else if s >= cf.max-1 && s <= cf.max+1 {
				c.count("edge_adds")
			}
			_ = ce.Add(t, s)
		}, flush: ce.Flush, wait: ce.Wait}
	default:
		rc := &c16container{c: c, h: h, thr: cf.max, r: er}
		h.pe = NewPeriodicalExecutor(cf.iv, rc)
		pe := h.pe
		api = c16pub{add: func(p, t, s int) { pe.Add(c16task{p: p, id: t, size: s}) }, flush: func() { pe.Flush() }, wait: pe.Wait}
	}
	if h.hand {
		h.pe.newTicker = h.newTicker
	}
	return api
}

// c16chunkSizes: the byte size of a chunk task is a dimension of its own.  The statement's triggers
// other than the byte threshold (tick, Flush, Wait, the retiring flusher's final flush) concern
// whatever tasks are held, however few bytes they carry - a size of 0 (an empty payload added
// with size = len(payload)) included.  Profiles:
//
//	0  positive sizes around and beyond the limits in use
//	1  size 0 only: no batch ever reaches the byte threshold, every batch has 0 bytes
//	2  size 0 mixed with sizes one below / exactly at / one above the byte limit
//	3  profile 0 plus size 0
func c16chunkSizes(prof, max int) []int {
	switch prof {
	case 1:
		return []int{0}
	case 2:
		s := []int{0, 0, max, max + 1}
		if max > 1 {
			s = append(s, max-1)
		}
		return s
	case 3:
		return []int{0, 0, 1, 2, 5, 8, 10, 13}
	}
	return []int{1, 2, 5, 8, 10, 13}
}

// stress: g callers doing nops random calls each, the environment goroutine ticking / jumping.
func (h *c16hist) stress(api c16pub, g, nops int, sizes []int, env func(r *rand.Rand, stop <-chan struct{})) bool {
	return h.run(g, func(p int, r *rand.Rand) {
		for i := 0; i < nops; i++ {
			c16jitter(r)
			switch k := r.Intn(20); {
			case k < 14:
				id := int(h.ids.Add(1))
				sz := sizes[r.Intn(len(sizes))]
				h.call(p, "add", id, sz, func() { api.add(p, id, sz) })
			case k < 17:
				h.call(p, "wait", 0, 0, api.wait)
			default:
				h.call(p, "flush", 0, 0, api.flush)
			}
		}
	}, env)
}

func (c *c16) public(kind string) {
	var max int
	sizes := []int{1}
	if kind == "bulk" {
		max = []int{1, 2, 7}[c.rng.Intn(3)]
	} else {
		max = []int{1, 8, 10}[c.rng.Intn(3)]
		c.turnC++
		prof := (c.turnC + kit.EnvInt("VERIF_SHARD", 0)) % 4
		sizes = c16chunkSizes(prof, max)
		if prof == 1 {
			c.count("hist_chunk_zero")
		}
	}
	h := c.newHist()
	h.hand = c.rng.Intn(2) == 0
	iv := c16Interval
	if !h.hand {
		iv = time.Millisecond // a real ticker; the idle decision still reads the virtual clock
	}
	api := c.build(h, c16config(kind, max, iv), "stress")
	g := 2 + c.rng.Intn(2)
	nops := 2 + c.rng.Intn(3)
	env := h.env
	if !h.hand {
		env = func(r *rand.Rand, stop <-chan struct{}) {
			for {
				select {
				case <-stop:
					return
				default:
				}
				h.pace()
				if r.Intn(3) == 0 {
					h.jump()
				}
				time.Sleep(time.Duration(200+r.Intn(800)) * time.Microsecond)
			}
		}
	}
	if h.stress(api, g, nops, sizes, env) {
		c.finish(h, api.wait)
	}
}

// ---------------------------------------------------------------- directed: Adds on the retiring tick

// retiring: Adds are placed at up to three points of the idle flusher's way out, each reached
// through a seam the environment owns:
//
//	wave 0  on the retiring tick, after that tick's Flush found the container empty and before
//	        shallQuit's lock region (the virtual-clock read of shallQuit is the scheduling point)
//	wave 1  after the quit decision, inside the deferred ticker.Stop()
//	wave 2  inside the execution of the retiring flusher's final Flush (needs wave 0 or 1)
//
// The Adds stay below the threshold.  Whoever accepts them while pe.guarded is still true starts
// no new flusher, so the retiring flusher itself has to flush them (HeldCovered in
// spec/PeriodicalImpl.tla); Adds that find guarded cleared start the next flusher.  Afterwards NO
// Add, Flush or Wait is called: ticks and clock jumps alone run until no flusher is left, and the
// `rest` event asks TLC whether anything was left behind.  Variant thr = 1 (kind per): the Add on
// the retiring tick reaches the threshold and hands its batch over instead - the flusher must
// then not retire (inflight) and executes it from the commander channel.
var c16waves = [][3]int{{1, 0, 0}, {1, 0, 1}, {0, 1, 1}, {2, 0, 0}, {1, 1, 1}, {0, 2, 0}, {1, 0, 2}, {2, 1, 0}}

func (c *c16) retiring(kind string, plan [3]int) {
	c.count("hist_retiring")
	h := c.newHist()
	var cf c16cfg
	sizes := []int{1}
	switch kind {
	case "bulk":
		cf = c16config(kind, []int{5, 7, 0}[c.rng.Intn(3)], c16Interval)
	case "chunk":
		cf = c16config(kind, []int{13, 16, 0}[c.rng.Intn(3)], c16Interval)
		sizes = []int{0, 1, 2, 3}
		if c.turnZ++; c.turnZ%2 == 1 { // every Add placed on the flusher's way out carries 0 bytes
			sizes = []int{0}
			c.count("retiring_zero")
		}
	default:
		cf = c16config("per", []int{0, 5, 6, 1}[c.rng.Intn(4)], c16Interval)
	}
	if kind == "per" && cf.max == 1 {
		plan = [3]int{1, 0, 0}
	}
	api := c.build(h, cf, "retiring")
	type wave struct {
		n       int
		release chan struct{}
		landed  chan struct{}
		fired   atomic.Bool
	}
	waves := make([]*wave, 3)
	waveOf := map[int]*wave{} // task id -> its wave (read-only once the callers exist)
	// prelude: a live, idle flusher and an empty container
	pre := c.rng.Intn(3)
	if !h.step(func() {
		h.call(1, "add", 1, 1, func() { api.add(1, 1, 1) })
		switch pre {
		case 1:
			h.call(1, "flush", 0, 0, api.flush)
		case 2:
			h.call(1, "wait", 0, 0, api.wait)
		}
	}) {
		return
	}
	kit.WaitFor(5*time.Second, func() bool { return h.live() != nil })
	if pre == 0 || cf.max == 1 {
		h.tick() // the tick flushes [1] (thr = 1: task 1 went through the commander; this tick only clears `commanded`)
	}
	executed := func() bool { h.mu.Lock(); defer h.mu.Unlock(); return h.execd[1] }
	parked := func() bool { n, p := c16flushers(); return n == 1 && p }
	ready := kit.WaitFor(5*time.Second, executed) && kit.WaitFor(5*time.Second, parked)
	// the callers of the three waves, parked until the flusher reaches their point
	var wg sync.WaitGroup
	id := 1
	for w := range waves {
		wv := &wave{n: plan[w], release: make(chan struct{}), landed: make(chan struct{}, 8)}
		waves[w] = wv
		for i := 0; i < wv.n; i++ {
			id++
			waveOf[id] = wv
			wg.Add(1)
			p, t, sz := id, id, sizes[c.rng.Intn(len(sizes))]
			go func() {
				defer wg.Done()
				<-wv.release
				h.call(p, "add", t, sz, func() { api.add(p, t, sz) })
				if kind != "per" {
					wv.landed <- struct{}{} // public API: the Add has returned, so it has taken effect
				}
			}()
		}
	}
	if rc, ok := h.pe.container.(*c16container); ok {
		rc.onAdd = func(t int) {
			if wv := waveOf[t]; wv != nil {
				wv.landed <- struct{}{} // under pe.lock: the task is in the container (buffered, never blocks)
			}
		}
	}
	fire := func(w int, fromSeam bool) {
		wv := waves[w]
		if !wv.fired.CompareAndSwap(false, true) {
			return
		}
		close(wv.release)
		for i := 0; fromSeam && i < wv.n; i++ {
			if !c16soon(wv.landed, 5*time.Second) {
				return // best effort: the point was not hit
			}
		}
		if fromSeam && wv.n > 0 {
			c.count([]string{"retiring_hit", "retiring_stop_hit", "retiring_final_hit"}[w])
		}
	}
	clockSeam := func() { fire(0, true) }     // in the flusher, inside shallQuit's clock read
	stopSeam := func() { fire(1, true) }      // in the flusher, inside the deferred ticker.Stop()
	execSeam := func([]int) { fire(2, true) } // in the flusher, inside the next execution (the final Flush's)
	if ready {
		h.jump() // more than 10 idle intervals since the flusher last flushed
		c.hook.Store(&clockSeam)
		h.onStop.Store(&stopSeam)
		h.onExec.Store(&execSeam)
		h.tick() // the retiring tick: empty Flush, then shallQuit reads the clock
		kit.WaitFor(5*time.Second, func() bool {
			all := true
			for _, wv := range waves {
				all = all && (wv.n == 0 || wv.fired.Load())
			}
			return all || (h.live() == nil && !h.guarded())
		})
	}
	c.hook.Store(nil)
	h.onStop.Store(nil)
	h.onExec.Store(nil)
	for w := range waves {
		fire(w, false) // (point not reached: the Adds still happen, the history is an ordinary one)
	}
	done := make(chan struct{})
	go func() { wg.Wait(); close(done) }()
	if !h.await(done, true) {
		return
	}
	h.rest()
	c.finish(h, api.wait)
}

// ---------------------------------------------------------------- several executors in one process

// multi: two or three executors of one kind are created one after the other in this process,
// the first with explicit options, later ones leaving out options that an earlier one set to
// another value (bulk/chunk: task count / byte limit, flush interval; per: threshold container
// and interval are constructor arguments).  Then they are used - in creation order, in reverse
// order, or all at the same time - and each one's events form a history of its own, opened with
// ITS configuration (default constants of the package for the options left out).  An executor
// that relies on the default task count is filled past it by one caller, so that the size
// trigger and the batch bound of the default are exercised.
func (c *c16) multi(kind string) {
	c.count("hist_multi")
	n := 2 + c.rng.Intn(2)
	conc := c.rng.Intn(3) == 0
	if conc {
		c.count("multi_concurrent")
	}
	ivs := []time.Duration{time.Minute, 3 * time.Second, 250 * time.Millisecond}
	cfs := make([]c16cfg, n)
	for i := range cfs {
		var max int
		var iv time.Duration
		expMax := i == 0 || (i < n-1 && c.rng.Intn(2) == 0)
		expIv := i == 0 || c.rng.Intn(2) == 0
		switch kind {
		case "bulk":
			if expMax {
				max = []int{defaultBulkTasks + 300, 2, 7, 1}[c.rng.Intn(4)]
				if i == 0 && c.rng.Intn(2) == 0 {
					max = defaultBulkTasks + 300
				}
			}
		case "chunk":
			if expMax {
				max = []int{2 * defaultChunkSize, 8, 10, 1}[c.rng.Intn(4)]
				if i == 0 && c.rng.Intn(2) == 0 {
					max = 2 * defaultChunkSize
				}
			}
		default:
			expMax, expIv = true, true
			max = []int{1, 2, 3, 4, 0}[(i+c.rng.Intn(4))%5]
		}
		if expIv {
			iv = ivs[(i+c.rng.Intn(2))%len(ivs)]
		}
		cfs[i] = c16config(kind, max, iv)
	}
	hs := make([]*c16hist, n)
	apis := make([]c16pub, n)
	for i, cf := range cfs { // creation, in sequence
		h := c.newHist()
		h.bufd, h.solo = true, !conc
		hs[i] = h
		apis[i] = c.build(h, cf, "multi")
		c.count("multi_execs")
		if kind != "per" && (!cf.expMax || !cf.expIv) {
			c.count("multi_defaulted")
		}
	}
	fillAt := -1 // the executor that is filled past the default task count (the last one relying on it)
	for i, cf := range cfs {
		if kind == "bulk" && !cf.expMax {
			fillAt = i
		}
	}
	work := func(i int) {
		h, cf, api := hs[i], cfs[i], apis[i]
		h.t0 = time.Now()
		var ok bool
		switch {
		case i == fillAt:
			// one caller adds more tasks than the default batch size in a row; the environment stays
			// quiet meanwhile (it starts ticking after 2 s, should the caller be stuck)
			total := cf.max + 1 + h.rng.Intn(20)
			ok = h.run(1, func(p int, r *rand.Rand) {
				for j := 0; j < total; j++ {
					id := int(h.ids.Add(1))
					h.call(p, "add", id, 1, func() { api.add(p, id, 1) })
				}
			}, func(r *rand.Rand, stop <-chan struct{}) {
				if !c16soon(stop, 2*time.Second) {
					h.env(r, stop)
				}
			})
		case kind == "chunk":
			sizes := []int{0, 1, 2, 5, 8, 10, 13}
			if cf.max > 1000 {
				sizes = []int{cf.max / 4, cf.max / 3, cf.max/2 + 1, cf.max - 1, cf.max, cf.max + 1, cf.max + 5, 1, 0}
			}
			ok = h.stress(api, 2+h.rng.Intn(2), 2+h.rng.Intn(3), sizes, h.env)
		default:
			ok = h.stress(api, 2+h.rng.Intn(2), 2+h.rng.Intn(3), []int{1}, h.env)
		}
		if ok {
			c.finish(h, api.wait)
		}
	}
	if conc {
		var wg sync.WaitGroup
		for i := range hs {
			wg.Add(1)
			go func(i int) {
				defer wg.Done()
				work(i)
			}(i)
		}
		wg.Wait()
		if !c.hung.Load() {
			if !kit.WaitGoroutines(c.base, 15*time.Second) {
				c16infra("goroutines did not settle after a multi scenario: have %d want <= %d", runtime.NumGoroutine(), c.base)
			}
			for _, h := range hs {
				if h.quiet {
					h.ev(kit.M{"e": "quiesce"})
					c.n.Add(1)
				}
			}
		}
	} else {
		reverse := c.rng.Intn(2) == 0
		for k := 0; k < n && !c.hung.Load(); k++ {
			if reverse {
				work(n - 1 - k)
			} else {
				work(k)
			}
		}
	}
	for _, h := range hs { // one history per executor, in creation order
		h.bmu.Lock()
		for _, m := range h.buf {
			c.ev(m)
		}
		h.buf = nil
		h.bmu.Unlock()
	}
}

// ---------------------------------------------------------------- entry point

func TestVerifC16Trace(t *testing.T) {
	out := kit.Env("VERIF_TRACE", "")
	tr, err := kit.NewTracer(out)
	if err != nil {
		t.Fatal(err)
	}
	c := &c16{tr: tr, clock: kit.NewClock(), cnt: map[string]*atomic.Int64{}, path: out,
		grace: time.Duration(kit.EnvInt("VERIF_C16_GRACE_MS", 30000)) * time.Millisecond,
		rng:   rand.New(rand.NewSource(kit.Seed()*7919 + int64(kit.EnvInt("VERIF_SHARD", 0))))}
	for _, k := range c16Counters {
		c.cnt[k] = &atomic.Int64{}
	}
	// let the runtime's lazily started goroutines (os/signal loop of lib/proc) appear first
	kit.WaitFor(2*time.Second, func() bool { time.Sleep(5 * time.Millisecond); return runtime.NumGoroutine() >= 4 })
	time.Sleep(20 * time.Millisecond)
	c.base = runtime.NumGoroutine()
	timex.SetVerifClock(c.now)
	defer timex.SetVerifClock(nil)
	c.turnM = kit.EnvInt("VERIF_SHARD", 0)
	rounds := kit.EnvInt("VERIF_ROUNDS", 20)
	only := kit.Env("VERIF_KIND", "")
	scen := []struct {
		name  string
		every int
		fn    func()
	}{
		{"handover", 10, c.handover}, {"quitrace", 10, c.quitrace}, {"syncwait", 5, c.syncwait},
		{"retiring", 2, func() {
			c.turnR++
			shard := kit.EnvInt("VERIF_SHARD", 0)
			c.retiring([]string{"per", "bulk", "per", "chunk"}[(c.turnR+shard)%4], c16waves[(c.turnR+3*shard)%len(c16waves)])
		}},
		{"multi", kit.EnvInt("VERIF_MULTI_EVERY", 4), func() { c.turnM++; c.multi([]string{"bulk", "chunk", "per"}[c.turnM%3]) }},
		{"per", 1, c.periodical}, {"per", 1, c.periodical},
		{"bulk", 1, func() { c.public("bulk") }}, {"chunk", 1, func() { c.public("chunk") }},
	}
	for i := 0; i < rounds; i++ {
		for _, s := range scen {
			if only != "" && only != s.name {
				continue
			}
			if only == "" && i%s.every != 0 {
				continue
			}
			s.fn()
			if c.hung.Load() {
				break // the stuck goroutines cannot be joined: stop recording, validate what was recorded
			}
		}
		if c.hung.Load() {
			break
		}
	}
	if err := tr.Close(); err != nil {
		t.Fatal(err)
	}
	fmt.Printf("C16TRACES %d EVENTS %d", c.n.Load(), tr.N)
	for _, k := range c16Counters {
		fmt.Printf(" %s=%d", k, c.cnt[k].Load())
	}
	fmt.Println()
}
