package sqlx

// Trace recorder for property C16, client sqlx.BulkInserter (overlaid into lib/store/sqlx as
// zz_verif_c16_test.go).  A row handed to Insert is a task, an executed INSERT statement is a
// batch.  Observation: public API (Insert / Flush / SetResultHandler) plus a fake Conn whose
// Exec parses the statement it is given; the final Wait uses the embedded executor (the
// inserter itself exposes none).  Triggers: Flush, the 1000-row threshold, the real 1 s ticker.
// It asserts nothing; TLC judges the histories with spec/ExecutorTrace.tla (kind "inserter").

import (
	"database/sql"
	"math/rand"
	"regexp"
	"runtime"
	"strconv"
	"sync"
	"testing"
	"time"

	rec "github.com/gotid/god/internal/verifc16rec"
	kit "github.com/gotid/god/internal/verifkit"
	"github.com/gotid/god/lib/logx"
)

var c16row = regexp.MustCompile(`\((\d+), (\d+)\)`)

type c16res struct{ b []int }

func (c16res) LastInsertId() (int64, error)   { return 0, nil }
func (r c16res) RowsAffected() (int64, error) { return int64(len(r.b)), nil }

type c16err struct{ b []int }

func (c16err) Error() string { return "c16: exec failed" }

// c16conn is a Conn of which only Exec is used by the inserter.
type c16conn struct {
	Conn
	h    *rec.Hist
	mu   sync.Mutex
	r    *rand.Rand
	fail int // percent of failing Execs
	seen chan struct{}
}

func (c *c16conn) Exec(query string, args ...any) (sql.Result, error) {
	b := []int{}
	for _, m := range c16row.FindAllStringSubmatch(query, -1) {
		id, _ := strconv.Atoi(m[1])
		b = append(b, id)
	}
	c.h.R.Ev(kit.M{"e": "xb", "b": b})
	c.h.R.Count("execs")
	if len(b) == maxBulkRows {
		c.h.R.Count("threshold_batches")
	}
	select {
	case c.seen <- struct{}{}:
	default:
	}
	c.mu.Lock()
	k := c.r.Intn(100)
	c.mu.Unlock()
	if k%3 == 1 {
		runtime.Gosched()
	}
	if k < c.fail {
		c.h.R.Count("exec_failures")
		return nil, c16err{b}
	}
	return c16res{b}, nil
}

type c16ins struct {
	h    *rec.Hist
	bi   *BulkInserter
	conn *c16conn
}

func c16new(r *rec.Rec, sc string, fail int) *c16ins {
	h := r.NewHist("inserter", maxBulkRows, sc)
	conn := &c16conn{h: h, r: rand.New(rand.NewSource(r.Rng.Int63())), fail: fail, seen: make(chan struct{}, 1)}
	bi, err := NewBulkInserter(conn, "INSERT INTO t(id, p) VALUES (?, ?)")
	if err != nil {
		panic(err)
	}
	bi.SetResultHandler(func(res sql.Result, err error) {
		var b []int
		if e, ok := err.(c16err); ok {
			b = e.b
		} else if rr, ok := res.(c16res); ok {
			b = rr.b
		}
		if b == nil {
			b = []int{}
		}
		h.R.Ev(kit.M{"e": "rh", "b": b, "err": err != nil})
		h.NoteExec(b)
		h.R.Ev(kit.M{"e": "xe", "b": b})
	})
	return &c16ins{h: h, bi: bi, conn: conn}
}

func (x *c16ins) insert(p int) {
	id := int(x.h.IDs.Add(1))
	x.h.Call(p, "add", id, 1, func() { _ = x.bi.Insert(id, p) })
}

func c16pause(r *rand.Rand) {
	switch r.Intn(4) {
	case 1:
		runtime.Gosched()
	case 2:
		time.Sleep(time.Duration(r.Intn(80)) * time.Microsecond)
	}
}

// stress: 2-3 callers, Insert / Flush / Wait, some Execs fail.
func c16stress(r *rec.Rec) {
	x := c16new(r, "stress", 25)
	g := 2 + r.Rng.Intn(2)
	nops := 2 + r.Rng.Intn(4)
	ok := x.h.Run(g, func(p int, rr *rand.Rand) {
		for i := 0; i < nops; i++ {
			c16pause(rr)
			switch k := rr.Intn(20); {
			case k < 13:
				x.insert(p)
			case k < 16:
				x.h.Call(p, "wait", 0, 0, x.bi.executor.Wait)
			default:
				x.h.Call(p, "flush", 0, 0, x.bi.Flush)
			}
		}
	})
	if ok {
		x.h.Finish(x.bi.executor.Wait)
	}
}

// threshold: the container reaches maxBulkRows while three callers insert concurrently.
func c16threshold(r *rec.Rec) {
	x := c16new(r, "threshold", 10)
	for i := 0; i < maxBulkRows-4; i++ {
		x.insert(1)
	}
	ok := x.h.Run(3, func(p int, rr *rand.Rand) {
		for i := 0; i < 3; i++ {
			c16pause(rr)
			x.insert(p)
		}
	})
	if ok {
		x.h.Finish(x.bi.executor.Wait)
	}
}

// exact: one caller inserts exactly maxBulkRows rows into a fresh inserter and calls nothing
// else.  The background ticker cannot fire earlier than flushInterval after the first Insert
// began, so an execution that begins before that moment was triggered by the size threshold.
// If none begins in that window the observation is repeated on fresh inserters; only when
// three attempts agree is it logged (`threshold-no-flush`).  Attempts on a machine too slow to
// finish the inserts inside the window are not judged.
func c16exact(r *rec.Rec) {
	for attempt := 1; attempt <= 3 && !r.Hung; attempt++ {
		x := c16new(r, "exact", 0)
		t0 := time.Now()
		if !x.h.Run(1, func(p int, rr *rand.Rand) {
			for i := 0; i < maxBulkRows; i++ {
				x.insert(p)
			}
		}) {
			return
		}
		window := flushInterval*95/100 - time.Since(t0)
		began, judged := false, window > flushInterval/10
		if judged {
			select {
			case <-x.conn.seen:
				began = true
			case <-time.After(window):
			}
		}
		switch {
		case !judged:
			r.Count("thr_void")
		case began:
			r.Ev(kit.M{"e": "thr"})
			r.Count("thr_checked")
		case attempt == 3:
			r.Ev(kit.M{"e": "threshold-no-flush", "rows": maxBulkRows, "attempts": attempt,
				"window_ms": int(window / time.Millisecond)})
			r.Count("thr_checked")
		}
		x.insert(1) // one more row: it must not join the full batch
		x.h.Finish(x.bi.executor.Wait)
		if began {
			return
		}
	}
}

// tick: nothing but the background flusher's (real, 1 s) ticker executes the rows.
func c16tick(r *rec.Rec) {
	x := c16new(r, "tick", 0)
	ok := x.h.Run(2, func(p int, rr *rand.Rand) {
		x.insert(p)
		x.insert(p)
	})
	if !ok {
		return
	}
	select {
	case <-x.conn.seen:
		r.Count("tick_flushes")
	case <-time.After(3 * flushInterval):
	}
	x.h.Finish(x.bi.executor.Wait)
}

func TestVerifC16Inserter(t *testing.T) {
	logx.Disable()
	r, err := rec.New()
	if err != nil {
		t.Fatal(err)
	}
	rounds := kit.EnvInt("VERIF_ROUNDS", 20)
	for i := 0; i < rounds && !r.Hung; i++ {
		if i == 0 {
			c16tick(r)
			if !r.Hung {
				c16exact(r)
			}
		}
		if i%25 == 0 && !r.Hung {
			c16threshold(r)
		}
		for k := 0; k < 4 && !r.Hung; k++ {
			c16stress(r)
		}
	}
	if err := r.Close(); err != nil {
		t.Fatal(err)
	}
}
