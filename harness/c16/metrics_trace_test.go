package stat

// Trace recorder for property C16, client stat.Metrics (overlaid into lib/stat as
// zz_verif_c16_test.go).  A Task handed to Add and a drop handed to AddDrop are tasks; a report
// handed to the report writer is a batch.  The report only carries aggregates, so every
// non-drop task of a history gets the duration 2^(id-1) ms: the aggregated duration
// (Average x count) then names the set of tasks in the report, the reported count and the
// drops are recorded next to it.  logInterval is set to 1 s (ReqsPerSecond = count).
// Metrics exposes no Flush/Wait; the recorder uses those of the embedded executor as triggers
// next to the real 1 s ticker.  It asserts nothing; TLC judges the histories with
// spec/ExecutorTrace.tla (kind "metrics").

import (
	"fmt"
	"math"
	"math/rand"
	"runtime"
	"sync/atomic"
	"testing"
	"time"

	rec "github.com/gotid/god/internal/verifc16rec"
	kit "github.com/gotid/god/internal/verifkit"
	"github.com/gotid/god/lib/logx"
)

type c16writer struct {
	cur  atomic.Pointer[c16met]
	late atomic.Int64
}

type c16met struct {
	name string
	h    *rec.Hist
	m    *Metrics
	seen chan struct{}
}

func (w *c16writer) Write(report *StatReport) error {
	x := w.cur.Load()
	if x == nil || report.Name != x.name {
		w.late.Add(1) // a flusher of an earlier history ticking on: its container is empty
		return nil
	}
	n := int(math.Round(float64(report.ReqsPerSecond)))
	if n == 0 && report.Drops == 0 {
		return nil // an empty report is not a batch
	}
	sum := int64(math.Round(float64(report.Average) * float64(n)))
	bs := []int{}
	for i := 0; i < 40; i++ {
		if sum&(1<<i) != 0 {
			bs = append(bs, i+1)
		}
	}
	ev := func(e string) kit.M { return kit.M{"e": e, "bs": bs, "n": n, "drops": report.Drops} }
	x.h.R.Ev(ev("xbm"))
	x.h.R.Count("execs")
	select {
	case x.seen <- struct{}{}:
	default:
	}
	runtime.Gosched()
	x.h.NoteExec(bs)
	x.h.R.Ev(ev("xem"))
	return nil
}

func c16newMet(r *rec.Rec, w *c16writer, sc string) *c16met {
	h := r.NewHist("metrics", 0, sc)
	x := &c16met{name: fmt.Sprintf("c16-%d", r.N), h: h, seen: make(chan struct{}, 1)}
	w.cur.Store(x)
	x.m = NewMetrics(x.name)
	return x
}

func (x *c16met) add(p int, drop bool) {
	id := int(x.h.IDs.Add(1))
	if drop {
		x.h.Call(p, "add", id, 0, x.m.AddDrop)
		return
	}
	x.h.Call(p, "add", id, 1, func() { x.m.Add(Task{Duration: time.Millisecond << (id - 1)}) })
}

func c16metStress(r *rec.Rec, w *c16writer) {
	x := c16newMet(r, w, "stress")
	g := 2 + r.Rng.Intn(2)
	nops := 2 + r.Rng.Intn(4)
	ok := x.h.Run(g, func(p int, rr *rand.Rand) {
		for i := 0; i < nops; i++ {
			switch rr.Intn(3) {
			case 1:
				runtime.Gosched()
			case 2:
				time.Sleep(time.Duration(rr.Intn(80)) * time.Microsecond)
			}
			switch k := rr.Intn(20); {
			case k < 10:
				x.add(p, false)
			case k < 13:
				x.add(p, true)
			case k < 16:
				x.h.Call(p, "wait", 0, 0, x.m.executor.Wait)
			default:
				x.h.Call(p, "flush", 0, 0, func() { x.m.executor.Flush() })
			}
		}
	})
	if ok {
		x.h.Finish(x.m.executor.Wait)
	}
}

// tick: only the background flusher's (real, 1 s) ticker reports.
func c16metTick(r *rec.Rec, w *c16writer) {
	x := c16newMet(r, w, "tick")
	ok := x.h.Run(2, func(p int, rr *rand.Rand) {
		x.add(p, false)
		x.add(p, p == 1)
	})
	if !ok {
		return
	}
	select {
	case <-x.seen:
		r.Count("tick_flushes")
	case <-time.After(3 * logInterval):
	}
	x.h.Finish(x.m.executor.Wait)
}

func TestVerifC16Metrics(t *testing.T) {
	logx.Disable()
	DisableLog()
	logInterval = time.Second
	w := &c16writer{}
	SetReportWriter(w)
	defer SetReportWriter(nil)
	r, err := rec.New()
	if err != nil {
		t.Fatal(err)
	}
	rounds := kit.EnvInt("VERIF_ROUNDS", 20)
	for i := 0; i < rounds && !r.Hung; i++ {
		if i == 0 {
			c16metTick(r, w)
		}
		for k := 0; k < 2 && !r.Hung; k++ {
			c16metStress(r, w)
		}
	}
	if err := r.Close(); err != nil {
		t.Fatal(err)
	}
}
