package syncx_test

// Trace recorder for property C18 (overlaid into lib/syncx as an external test package).
// For each primitive it runs many short randomized concurrent scenarios on the real
// implementation and records, per call, an `inv` event before the call and a `ret` event
// after it, plus events from inside the user callbacks that belong to the contract.
// The driver asserts nothing: the recorded histories are validated by TLC against
// spec/SyncxTrace.tla.

import (
	"errors"
	"fmt"
	"io"
	"math/rand"
	"os"
	"runtime"
	"sort"
	"sync"
	"sync/atomic"
	"testing"
	"time"

	kit "github.com/gotid/god/internal/verifkit"
	"github.com/gotid/god/lib/syncx"
	"github.com/gotid/god/lib/timex"
)

type c18 struct {
	tr   *kit.Tracer
	rng  *rand.Rand
	ctr  atomic.Int64 // unique values / resource ids
	n    int          // scenarios recorded
	hung bool         // a scenario did not finish: recording stops, the history ends with `hang`
}

func (c *c18) ev(m kit.M) { c.tr.Emit(m) }
func (c *c18) uniq() int  { return int(c.ctr.Add(1)) }

// jitter makes overlap likely without making any verdict depend on timing.
func jitter(r *rand.Rand) {
	switch r.Intn(4) {
	case 0:
	case 1:
		runtime.Gosched()
	case 2:
		for i := 0; i < r.Intn(20); i++ {
			runtime.Gosched()
		}
	case 3:
		time.Sleep(time.Duration(r.Intn(150)) * time.Microsecond)
	}
}

// run starts g goroutines (process ids 1..g), each with its own rng, released together.
func (c *c18) run(g int, body func(p int, r *rand.Rand)) {
	var wg sync.WaitGroup
	start := make(chan struct{})
	for p := 1; p <= g; p++ {
		wg.Add(1)
		seed := c.rng.Int63()
		go func(p int) {
			defer wg.Done()
			r := rand.New(rand.NewSource(seed))
			<-start
			body(p, r)
		}(p)
	}
	close(start)
	done := make(chan struct{})
	go func() { wg.Wait(); close(done) }()
	select {
	case <-done:
	case <-time.After(30 * time.Second):
		// calls that never return: every contract in SyncxTrace promises the opposite, so the
		// history is closed with a `hang` event (which no action of the specification consumes)
		// and recording stops; the stacks go to stderr for the report.
		fmt.Fprintf(os.Stderr, "C18 scenario hung\n%s\n", kit.Stacks())
		c.ev(kit.M{"e": "hang"})
		c.hung = true
	}
}

var keys = []string{"a", "b"}

func encode(v int, err error) int {
	if err != nil {
		return -v
	}
	return v
}

func (c *c18) singleFlight() {
	c.ev(kit.M{"e": "reset", "kind": "sf"})
	sf := syncx.NewSingleFlight()
	g := 2 + c.rng.Intn(4)
	c.run(g, func(p int, r *rand.Rand) {
		for i := 0; i < 1+r.Intn(3); i++ {
			k := keys[r.Intn(len(keys))]
			ran := false
			fn := func() (any, error) {
				ran = true
				c.ev(kit.M{"e": "fnb", "p": p, "k": k})
				jitter(r)
				if r.Intn(8) == 0 { // the user function panics; the caller below recovers
					c.ev(kit.M{"e": "fnp", "p": p, "k": k})
					panic("fn panicked")
				}
				v := c.uniq()
				var err error
				if r.Intn(4) == 0 {
					err = errors.New("boom")
				}
				c.ev(kit.M{"e": "fne", "p": p, "k": k, "v": encode(v, err)})
				return v, err
			}
			jitter(r)
			c.ev(kit.M{"e": "inv", "p": p, "k": k})
			func() {
				defer func() {
					if x := recover(); x != nil {
						c.ev(kit.M{"e": "ret", "p": p, "k": k, "v": 0, "f": ran, "x": ran, "pan": true})
					}
				}()
				if r.Intn(2) == 0 {
					val, err := sf.Do(k, fn)
					c.ev(kit.M{"e": "ret", "p": p, "k": k, "v": encode(asInt(val), err), "f": ran, "x": ran, "pan": false})
				} else {
					val, fresh, err := sf.DoEx(k, fn)
					c.ev(kit.M{"e": "ret", "p": p, "k": k, "v": encode(asInt(val), err), "f": fresh, "x": ran, "pan": false})
				}
			}()
		}
	})
}

// asInt: a waiter of a panicked execution receives the zero result (nil).
func asInt(v any) int {
	if v == nil {
		return 0
	}
	return v.(int)
}

func (c *c18) lockedCalls() {
	c.ev(kit.M{"e": "reset", "kind": "lc"})
	lc := syncx.NewLockedCalls()
	g := 2 + c.rng.Intn(4)
	c.run(g, func(p int, r *rand.Rand) {
		for i := 0; i < 1+r.Intn(3); i++ {
			k := keys[r.Intn(len(keys))]
			fn := func() (any, error) {
				c.ev(kit.M{"e": "fnb", "p": p, "k": k})
				jitter(r)
				if r.Intn(8) == 0 {
					c.ev(kit.M{"e": "fnp", "p": p, "k": k})
					panic("fn panicked")
				}
				v := c.uniq()
				var err error
				if r.Intn(4) == 0 {
					err = errors.New("boom")
				}
				c.ev(kit.M{"e": "fne", "p": p, "k": k, "v": encode(v, err)})
				return v, err
			}
			jitter(r)
			c.ev(kit.M{"e": "inv", "p": p, "k": k})
			func() {
				defer func() {
					if x := recover(); x != nil {
						c.ev(kit.M{"e": "ret", "p": p, "k": k, "v": 0, "pan": true})
					}
				}()
				val, err := lc.Do(k, fn)
				c.ev(kit.M{"e": "ret", "p": p, "k": k, "v": encode(asInt(val), err), "pan": false})
			}()
		}
	})
}

func b2i(b bool) int {
	if b {
		return 1
	}
	return 0
}

func (c *c18) limit() {
	n := 1 + c.rng.Intn(3)
	c.ev(kit.M{"e": "reset", "kind": "lim", "n": n})
	lim := syncx.NewLimit(n)
	g := 2 + c.rng.Intn(4)
	c.run(g, func(p int, r *rand.Rand) {
		for i := 0; i < 1+r.Intn(3); i++ {
			jitter(r)
			switch r.Intn(5) {
			case 0: // return without having borrowed
				c.ev(kit.M{"e": "inv", "p": p, "op": "return"})
				err := lim.Return()
				c.ev(kit.M{"e": "ret", "p": p, "op": "return", "r": b2i(err == nil)})
			case 1, 2:
				c.ev(kit.M{"e": "inv", "p": p, "op": "try"})
				ok := lim.TryBorrow()
				c.ev(kit.M{"e": "ret", "p": p, "op": "try", "r": b2i(ok)})
				if ok {
					jitter(r)
					c.ev(kit.M{"e": "inv", "p": p, "op": "return"})
					err := lim.Return()
					c.ev(kit.M{"e": "ret", "p": p, "op": "return", "r": b2i(err == nil)})
				}
			default:
				c.ev(kit.M{"e": "inv", "p": p, "op": "borrow"})
				lim.Borrow()
				c.ev(kit.M{"e": "ret", "p": p, "op": "borrow", "r": 1})
				jitter(r)
				c.ev(kit.M{"e": "inv", "p": p, "op": "return"})
				err := lim.Return()
				c.ev(kit.M{"e": "ret", "p": p, "op": "return", "r": b2i(err == nil)})
			}
		}
	})
}

func (c *c18) timeoutLimit() {
	n := 1 + c.rng.Intn(2)
	c.ev(kit.M{"e": "reset", "kind": "tl", "n": n})
	lim := syncx.NewTimeoutLimit(n)
	g := 2 + c.rng.Intn(3)
	c.run(g, func(p int, r *rand.Rand) {
		for i := 0; i < 1+r.Intn(2); i++ {
			jitter(r)
			if r.Intn(4) == 0 {
				c.ev(kit.M{"e": "inv", "p": p, "op": "try"})
				ok := lim.TryBorrow()
				c.ev(kit.M{"e": "ret", "p": p, "op": "try", "r": b2i(ok)})
				if !ok {
					continue
				}
			} else {
				timeout := time.Duration(200+r.Intn(1500)) * time.Microsecond
				c.ev(kit.M{"e": "inv", "p": p, "op": "tborrow"})
				t0 := time.Now()
				err := lim.Borrow(timeout)
				el := time.Since(t0)
				if err != nil && err != syncx.ErrTimeout {
					panic(err)
				}
				c.ev(kit.M{"e": "ret", "p": p, "op": "tborrow", "r": b2i(err == nil), "late": el >= timeout})
				if err != nil {
					continue
				}
			}
			// hold it for a while so that others time out now and then
			if r.Intn(2) == 0 {
				time.Sleep(time.Duration(r.Intn(1200)) * time.Microsecond)
			}
			c.ev(kit.M{"e": "inv", "p": p, "op": "return"})
			err := lim.Return()
			c.ev(kit.M{"e": "ret", "p": p, "op": "return", "r": b2i(err == nil)})
		}
	})
}

func (c *c18) pool() {
	n := 1 + c.rng.Intn(3)
	c.ev(kit.M{"e": "reset", "kind": "pool", "n": n, "age": 0})
	pool := syncx.NewPool(n, func() any {
		r := c.uniq()
		c.ev(kit.M{"e": "create", "r": r})
		return r
	}, func(x any) {
		c.ev(kit.M{"e": "destroy", "r": x.(int)})
	})
	g := 2 + c.rng.Intn(4)
	c.run(g, func(p int, r *rand.Rand) {
		for i := 0; i < 1+r.Intn(3); i++ {
			jitter(r)
			c.ev(kit.M{"e": "inv", "p": p, "op": "get"})
			x := pool.Get().(int)
			c.ev(kit.M{"e": "ret", "p": p, "op": "get", "r": x, "now": 0})
			jitter(r)
			c.ev(kit.M{"e": "inv", "p": p, "op": "put", "r": x, "now": 0})
			pool.Put(x)
			c.ev(kit.M{"e": "ret", "p": p, "op": "put"})
		}
	})
}

// poolAging: one goroutine, virtual clock: resources idle beyond the maximum age must be
// destroyed, never handed out; younger ones may be reused.
func (c *c18) poolAging() {
	n := 1 + c.rng.Intn(3)
	age := []int{10, 50, 1000}[c.rng.Intn(3)]
	c.ev(kit.M{"e": "reset", "kind": "pool", "n": n, "age": age})
	clk := kit.NewClock()
	base := clk.Now()
	now := func() int { return int((clk.Now() - base) / time.Millisecond) }
	timex.SetVerifClock(clk.Now)
	defer timex.SetVerifClock(nil)
	pool := syncx.NewPool(n, func() any {
		r := c.uniq()
		c.ev(kit.M{"e": "create", "r": r})
		return r
	}, func(x any) {
		c.ev(kit.M{"e": "destroy", "r": x.(int), "now": now()})
	}, syncx.WithMaxAge(time.Duration(age)*time.Millisecond))
	var held []int
	for i := 0; i < 6+c.rng.Intn(10); i++ {
		switch k := c.rng.Intn(4); {
		case k == 0: // time passes: below, at and beyond the maximum age
			d := []int{0, 1, age - 1, age, age + 1, 3 * age}[c.rng.Intn(6)]
			clk.Advance(time.Duration(d) * time.Millisecond)
		case k == 1 && len(held) > 0:
			j := c.rng.Intn(len(held))
			x := held[j]
			held = append(held[:j], held[j+1:]...)
			c.ev(kit.M{"e": "inv", "p": 1, "op": "put", "r": x, "now": now()})
			pool.Put(x)
			c.ev(kit.M{"e": "ret", "p": 1, "op": "put"})
		case len(held) < n: // a Get that cannot block
			c.ev(kit.M{"e": "inv", "p": 1, "op": "get"})
			x := pool.Get().(int)
			c.ev(kit.M{"e": "ret", "p": 1, "op": "get", "r": x, "now": now()})
			held = append(held, x)
		case len(held) == n:
			// the pool is at its limit and nothing is idle: a Get must wait for a Put (it may
			// neither create a resource beyond the limit nor hand out a held one)
			got := make(chan int, 1)
			go func() {
				c.ev(kit.M{"e": "inv", "p": 2, "op": "get"})
				x := pool.Get().(int)
				c.ev(kit.M{"e": "ret", "p": 2, "op": "get", "r": x, "now": now()})
				got <- x
			}()
			select {
			case x := <-got: // did not wait: the history says where the resource came from
				held = append(held, x)
			case <-time.After(2 * time.Millisecond):
				j := c.rng.Intn(len(held))
				y := held[j]
				held = append(held[:j], held[j+1:]...)
				c.ev(kit.M{"e": "inv", "p": 1, "op": "put", "r": y, "now": now()})
				pool.Put(y)
				c.ev(kit.M{"e": "ret", "p": 1, "op": "put"})
				select {
				case x := <-got:
					held = append(held, x)
				case <-time.After(20 * time.Second):
					fmt.Fprintf(os.Stderr, "C18 pool Get still blocked after a Put\n%s\n", kit.Stacks())
					os.Exit(3)
				}
			}
		}
	}
}

// immutableResource: sequential Gets under the virtual clock with a scripted fetch.
func (c *c18) immutableResource() {
	every := []int{100, 1000}[c.rng.Intn(2)]
	c.ev(kit.M{"e": "reset", "kind": "ir", "every": every})
	clk := kit.NewClock()
	base := clk.Now()
	now := func() int { return int((clk.Now() - base) / time.Millisecond) }
	timex.SetVerifClock(clk.Now)
	defer timex.SetVerifClock(nil)
	failures := c.rng.Intn(4)
	ir := syncx.NewImmutableResource(func() (any, error) {
		if failures > 0 {
			failures--
			v := -c.uniq()
			c.ev(kit.M{"e": "fetch", "p": 1, "v": v})
			return nil, fmt.Errorf("e%d", -v)
		}
		v := c.uniq()
		c.ev(kit.M{"e": "fetch", "p": 1, "v": v})
		return v, nil
	}, syncx.WithRefreshIntervalOnFailure(time.Duration(every)*time.Millisecond))
	for i := 0; i < 5+c.rng.Intn(8); i++ {
		if c.rng.Intn(2) == 0 {
			d := []int{0, 1, every - 1, every, every + 1, 2 * every}[c.rng.Intn(6)]
			clk.Advance(time.Duration(d) * time.Millisecond)
		}
		c.ev(kit.M{"e": "inv", "p": 1, "now": now()})
		val, err := ir.Get()
		v := 0
		if err != nil {
			fmt.Sscanf(err.Error(), "e%d", &v)
			v = -v
		} else {
			v = val.(int)
		}
		c.ev(kit.M{"e": "ret", "p": 1, "v": v})
	}
}

func (c *c18) refResource() {
	c.ev(kit.M{"e": "reset", "kind": "ref"})
	res := syncx.NewRefResource(func() { c.ev(kit.M{"e": "cleancb"}) })
	// the creator holds the first use
	c.ev(kit.M{"e": "inv", "p": 0, "op": "use"})
	err := res.Use()
	c.ev(kit.M{"e": "ret", "p": 0, "op": "use", "r": b2i(err == nil)})
	g := 2 + c.rng.Intn(4)
	owner := 1 + c.rng.Intn(g)
	c.run(g, func(p int, r *rand.Rand) {
		if p == owner {
			jitter(r)
			// gives up the creator's use somewhere in the middle (as process `owner`)
			c.ev(kit.M{"e": "inv", "p": p, "op": "clean"})
			res.Clean()
			c.ev(kit.M{"e": "ret", "p": p, "op": "clean", "r": 1})
		}
		for i := 0; i < 1+r.Intn(3); i++ {
			jitter(r)
			c.ev(kit.M{"e": "inv", "p": p, "op": "use"})
			err := res.Use()
			c.ev(kit.M{"e": "ret", "p": p, "op": "use", "r": b2i(err == nil)})
			if err != nil {
				continue
			}
			jitter(r)
			c.ev(kit.M{"e": "inv", "p": p, "op": "clean"})
			res.Clean()
			c.ev(kit.M{"e": "ret", "p": p, "op": "clean", "r": 1})
		}
	})
}

type c18closer struct {
	c    *c18
	id   int
	fail bool // Close reports an error: the manager must still close all the others
}

func (x *c18closer) Close() error {
	x.c.ev(kit.M{"e": "closed", "p": 0, "r": x.id})
	if x.fail {
		return errors.New("close failed")
	}
	return nil
}

func (c *c18) resourceManager() {
	c.ev(kit.M{"e": "reset", "kind": "rm"})
	rm := syncx.NewResourceManager()
	g := 2 + c.rng.Intn(4)
	c.run(g, func(p int, r *rand.Rand) {
		for i := 0; i < 1+r.Intn(3); i++ {
			k := keys[r.Intn(len(keys))]
			jitter(r)
			c.ev(kit.M{"e": "inv", "p": p, "op": "get", "k": k})
			res, err := rm.Get(k, func() (io.Closer, error) {
				jitter(r)
				if r.Intn(4) == 0 {
					c.ev(kit.M{"e": "create", "p": p, "k": k, "r": 0})
					return nil, errors.New("create failed")
				}
				id := c.uniq()
				c.ev(kit.M{"e": "create", "p": p, "k": k, "r": id})
				return &c18closer{c: c, id: id, fail: r.Intn(3) == 0}, nil
			})
			id := 0
			if err == nil {
				id = res.(*c18closer).id
			}
			c.ev(kit.M{"e": "ret", "p": p, "op": "get", "r": id})
		}
	})
	c.ev(kit.M{"e": "inv", "p": 0, "op": "close"})
	rm.Close()
	c.ev(kit.M{"e": "ret", "p": 0, "op": "close"})
}

// fastLog captures events with one atomic increment per log point (the tracer's mutex and
// JSON encoding would space the callers out and hide narrow windows); the events of a round
// are handed to the tracer in sequence order after the round.
type fastLog struct {
	seq atomic.Int64
	mu  sync.Mutex
	evs []fastEv
}

type fastEv struct {
	seq int64
	m   kit.M
}

func (f *fastLog) ev(m kit.M) {
	n := f.seq.Add(1)
	f.mu.Lock()
	f.evs = append(f.evs, fastEv{n, m})
	f.mu.Unlock()
}

func (f *fastLog) flush(c *c18) {
	sort.Slice(f.evs, func(i, j int) bool { return f.evs[i].seq < f.evs[j].seq })
	for _, e := range f.evs {
		c.ev(e.m)
	}
	f.evs = f.evs[:0]
}

func spin(n int) {
	x := 0
	for i := 0; i < n; i++ {
		x += i
	}
	_ = x
}

// resourceManagerStagger: many callers on ONE fresh key per round, staggered by tiny random
// delays, with a very short create: callers that miss a fast-path lookup just before the first
// creator stores its resource reach the single-flight only after that flight is gone.
func (c *c18) resourceManagerStagger() {
	c.ev(kit.M{"e": "reset", "kind": "rm"})
	rm := syncx.NewResourceManager()
	var fl fastLog
	g := 8 + c.rng.Intn(9)
	if g > 15 {
		g = 15
	}
	c.run(g, func(p int, r *rand.Rand) {
		spin(r.Intn(3000))
		fl.ev(kit.M{"e": "inv", "p": p, "op": "get", "k": "a"})
		res, err := rm.Get("a", func() (io.Closer, error) {
			id := c.uniq()
			fl.ev(kit.M{"e": "create", "p": p, "k": "a", "r": id})
			spin(r.Intn(300))
			return &c18closer{c: c, id: id}, nil
		})
		id := 0
		if err == nil {
			id = res.(*c18closer).id
		}
		fl.ev(kit.M{"e": "ret", "p": p, "op": "get", "r": id})
	})
	fl.flush(c)
	c.ev(kit.M{"e": "inv", "p": 0, "op": "close"})
	rm.Close()
	c.ev(kit.M{"e": "ret", "p": 0, "op": "close"})
}

// resourceManagerPair: two independent managers are asked for the SAME key string at the same
// time (the repository itself keeps two managers keyed by server address): each must create and
// hand out its own resource.  The history names the two (manager, key) pairs "a" and "b".
func (c *c18) resourceManagerPair() {
	c.ev(kit.M{"e": "reset", "kind": "rm"})
	ms := map[string]*syncx.ResourceManager{"a": syncx.NewResourceManager(), "b": syncx.NewResourceManager()}
	g := 4 + c.rng.Intn(5)
	c.run(g, func(p int, r *rand.Rand) {
		k := "a"
		if p%2 == 0 {
			k = "b"
		}
		for i := 0; i < 1+r.Intn(2); i++ {
			jitter(r)
			c.ev(kit.M{"e": "inv", "p": p, "op": "get", "k": k})
			res, err := ms[k].Get("shared-key", func() (io.Closer, error) {
				id := c.uniq()
				c.ev(kit.M{"e": "create", "p": p, "k": k, "r": id})
				time.Sleep(time.Duration(50+r.Intn(300)) * time.Microsecond) // a slow create widens the overlap
				return &c18closer{c: c, id: id}, nil
			})
			id := 0
			if err == nil {
				id = res.(*c18closer).id
			}
			c.ev(kit.M{"e": "ret", "p": p, "op": "get", "r": id})
		}
	})
	c.ev(kit.M{"e": "inv", "p": 0, "op": "close"})
	ms["a"].Close()
	ms["b"].Close()
	c.ev(kit.M{"e": "ret", "p": 0, "op": "close"})
}

func (c *c18) managedResource() {
	c.ev(kit.M{"e": "reset", "kind": "mr"})
	mr := syncx.NewManagedResource(func() any {
		id := c.uniq()
		c.ev(kit.M{"e": "gen", "r": id})
		return id
	}, func(a, b any) bool { return a == b })
	g := 2 + c.rng.Intn(4)
	c.run(g, func(p int, r *rand.Rand) {
		last := 0
		for i := 0; i < 1+r.Intn(4); i++ {
			jitter(r)
			if last != 0 && r.Intn(2) == 0 {
				c.ev(kit.M{"e": "inv", "p": p, "op": "mark", "r": last})
				mr.MarkBroken(last)
				c.ev(kit.M{"e": "ret", "p": p, "op": "mark", "r": 0})
				continue
			}
			c.ev(kit.M{"e": "inv", "p": p, "op": "take", "r": 0})
			last, _ = mr.Take().(int) // nothing returned is logged as 0, which the contract rejects
			c.ev(kit.M{"e": "ret", "p": p, "op": "take", "r": last})
		}
	})
}

// managedResourceStagger: after MarkBroken the resource is empty; many takers released together
// race through Take's read-locked fast path and its write-locked slow path: every one of them
// must come back with a resource that was current during its call (never with nothing).
func (c *c18) managedResourceStagger() {
	c.ev(kit.M{"e": "reset", "kind": "mr"})
	var fl fastLog
	mr := syncx.NewManagedResource(func() any {
		id := c.uniq()
		fl.ev(kit.M{"e": "gen", "r": id})
		return id
	}, func(a, b any) bool { return a == b })
	c.ev(kit.M{"e": "inv", "p": 0, "op": "take", "r": 0})
	first, _ := mr.Take().(int)
	fl.flush(c)
	c.ev(kit.M{"e": "ret", "p": 0, "op": "take", "r": first})
	c.ev(kit.M{"e": "inv", "p": 0, "op": "mark", "r": first})
	mr.MarkBroken(first)
	c.ev(kit.M{"e": "ret", "p": 0, "op": "mark", "r": 0})
	g := 6 + c.rng.Intn(8)
	c.run(g, func(p int, r *rand.Rand) {
		spin(r.Intn(400))
		fl.ev(kit.M{"e": "inv", "p": p, "op": "take", "r": 0})
		x, _ := mr.Take().(int) // nothing returned is logged as 0, which the contract rejects
		fl.ev(kit.M{"e": "ret", "p": p, "op": "take", "r": x})
	})
	fl.flush(c)
}

func (c *c18) spin(useBarrier bool) {
	c.ev(kit.M{"e": "reset", "kind": "spin"})
	var sl syncx.SpinLock
	var ba syncx.Barrier
	g := 2 + c.rng.Intn(4)
	c.run(g, func(p int, r *rand.Rand) {
		for i := 0; i < 1+r.Intn(3); i++ {
			jitter(r)
			if useBarrier {
				c.ev(kit.M{"e": "inv", "p": p, "op": "lock"})
				ba.Guard(func() {
					c.ev(kit.M{"e": "enter", "p": p})
					jitter(r)
					c.ev(kit.M{"e": "exit", "p": p})
				})
				c.ev(kit.M{"e": "unl", "p": p})
				continue
			}
			if r.Intn(3) == 0 {
				c.ev(kit.M{"e": "inv", "p": p, "op": "try"})
				if !sl.TryLock() {
					c.ev(kit.M{"e": "tryfail", "p": p})
					continue
				}
			} else {
				c.ev(kit.M{"e": "inv", "p": p, "op": "lock"})
				sl.Lock()
			}
			c.ev(kit.M{"e": "enter", "p": p})
			jitter(r)
			c.ev(kit.M{"e": "exit", "p": p})
			sl.Unlock()
			c.ev(kit.M{"e": "unl", "p": p})
		}
	})
}

func (c *c18) onceGuard() {
	c.ev(kit.M{"e": "reset", "kind": "og"})
	var og syncx.OnceGuard
	g := 2 + c.rng.Intn(4)
	c.run(g, func(p int, r *rand.Rand) {
		for i := 0; i < 1+r.Intn(2); i++ {
			jitter(r)
			c.ev(kit.M{"e": "inv", "p": p})
			ok := og.Take()
			c.ev(kit.M{"e": "ret", "p": p, "r": b2i(ok)})
		}
	})
}

func (c *c18) doneChan() {
	c.ev(kit.M{"e": "reset", "kind": "dc"})
	dc := syncx.NewDoneChan()
	g := 2 + c.rng.Intn(4)
	closer := 1 + c.rng.Intn(g)
	c.run(g, func(p int, r *rand.Rand) {
		jitter(r)
		if p == closer || r.Intn(3) == 0 {
			for i := 0; i < 1+r.Intn(2); i++ {
				c.ev(kit.M{"e": "inv", "p": p, "op": "close"})
				dc.Close()
				c.ev(kit.M{"e": "ret", "p": p, "op": "close"})
			}
			return
		}
		c.ev(kit.M{"e": "inv", "p": p, "op": "wait"})
		<-dc.Done()
		c.ev(kit.M{"e": "ret", "p": p, "op": "wait"})
	})
}

func (c *c18) once() {
	c.ev(kit.M{"e": "reset", "kind": "once"})
	var cur atomic.Int64
	f := syncx.Once(func() {
		p := int(cur.Load()) // best effort attribution; the spec only needs *a* caller in progress
		_ = p
		c.ev(kit.M{"e": "fnb"})
		runtime.Gosched()
		c.ev(kit.M{"e": "fne"})
	})
	g := 2 + c.rng.Intn(4)
	c.run(g, func(p int, r *rand.Rand) {
		for i := 0; i < 1+r.Intn(2); i++ {
			jitter(r)
			c.ev(kit.M{"e": "inv", "p": p})
			f()
			c.ev(kit.M{"e": "ret", "p": p})
		}
	})
}

func TestVerifC18Trace(t *testing.T) {
	out := kit.Env("VERIF_TRACE", "")
	tr, err := kit.NewTracer(out)
	if err != nil {
		t.Fatal(err)
	}
	c := &c18{tr: tr, rng: rand.New(rand.NewSource(kit.Seed()*7919 + int64(kit.EnvInt("VERIF_SHARD", 0))))}
	rounds := kit.EnvInt("VERIF_ROUNDS", 20)
	only := kit.Env("VERIF_KIND", "")
	scen := []struct {
		name string
		fn   func()
	}{
		{"sf", c.singleFlight}, {"lc", c.lockedCalls}, {"lim", c.limit}, {"tl", c.timeoutLimit},
		{"pool", c.pool}, {"ref", c.refResource}, {"rm", c.resourceManager}, {"mr", c.managedResource},
		{"spin", func() { c.spin(false) }}, {"barrier", func() { c.spin(true) }},
		{"og", c.onceGuard}, {"dc", c.doneChan}, {"once", c.once},
		{"poolage", func() {
			for i := 0; i < 6; i++ { // cheap, sequential: several per round
				c.poolAging()
				c.n++
			}
			c.n--
		}},
		{"ir", c.immutableResource}, {"rmpair", c.resourceManagerPair},
		{"mrstagger", func() {
			for i := 0; i < kit.EnvInt("VERIF_STAGGER", 20); i++ {
				c.managedResourceStagger()
				c.n++
			}
			c.n--
		}},
		{"rmstagger", func() {
			for i := 0; i < kit.EnvInt("VERIF_STAGGER", 20); i++ {
				c.resourceManagerStagger()
				c.n++
			}
			c.n--
		}},
	}
	for i := 0; i < rounds; i++ {
		for _, s := range scen {
			if only != "" && only != s.name {
				continue
			}
			s.fn()
			c.n++
			if c.hung {
				break
			}
		}
		if c.hung {
			break
		}
	}
	if err := tr.Close(); err != nil {
		t.Fatal(err)
	}
	fmt.Printf("C18TRACES %d EVENTS %d\n", c.n, tr.N)
}
