package collection

// Replay driver for the rolling-window part of property C09 (overlaid into lib/collection by
// /verif/bin/check).  It executes TLC-generated behaviours of spec/RollingWindowGen.tla on the
// real RollingWindow through its public API (NewRollingWindow, Add, Reduce) under the virtual
// clock of lib/timex and compares every reduction (non-empty buckets as a multiset, totals)
// with what the specification reports.
//
// Overlap steps (RollingWindowGen!Overlap): a Reduce runs in its own goroutine, its callback is held after
// it has read `gate` buckets; meanwhile the virtual clock moves on by e ticks and another goroutine calls
// Add (it is only waited for until it has either returned or is parked on a lock - never inside the
// callback); then the callback is let go.  What the reduction handed out must be the specification's report
// of ONE of the moments of that sequence; afterwards the add must be part of the window.

import (
	"fmt"
	"runtime"
	"sort"
	"strings"
	"sync"
	"testing"
	"time"

	kit "github.com/gotid/god/internal/verifkit"
	"github.com/gotid/god/lib/timex"
)

const c09Tick = 10 * time.Millisecond // one specification tick

type c09bucket struct {
	sum   float64
	count int64
}

func c09Canon(bs []c09bucket) string {
	s := make([]string, 0, len(bs))
	for _, b := range bs {
		s = append(s, fmt.Sprintf("%g/%d", b.sum, b.count))
	}
	sort.Strings(s)
	return strings.Join(s, " ")
}

// c09Reduce collects what Reduce hands to its callback.
func c09Reduce(rw *RollingWindow) (nonEmpty []c09bucket, sum float64, count int64, calls int) {
	rw.Reduce(func(b *Bucket) {
		calls++
		sum += b.Sum
		count += b.Count
		if b.Count > 0 || b.Sum != 0 {
			nonEmpty = append(nonEmpty, c09bucket{b.Sum, b.Count})
		}
	})
	return
}

func c09Want(m map[string]any) (bs []c09bucket, sum float64, count int64) {
	for _, e := range kit.List(m["buckets"]) {
		b := e.(map[string]any)
		bs = append(bs, c09bucket{float64(kit.Num(b["sum"])), int64(kit.Num(b["count"]))})
	}
	return bs, float64(kit.Num(m["sum"])), int64(kit.Num(m["count"]))
}

// c09Compare returns a (key, message) pair when the reduction differs from the prediction.
func c09Compare(rw *RollingWindow, size int, want map[string]any, lastGap string) (string, string) {
	got, gsum, gcount, calls := c09Reduce(rw)
	wb, wsum, wcount := c09Want(want)
	if calls > size {
		return "C09:window:too-many-buckets", fmt.Sprintf("Reduce visited %d buckets of a window of %d", calls, size)
	}
	if gcount == wcount && gsum == wsum && c09Canon(got) == c09Canon(wb) {
		return "", ""
	}
	kind := "wrong-buckets"
	switch {
	case gcount > wcount:
		kind = "sees-expired-or-duplicate"
	case gcount < wcount:
		kind = "loses-recent"
	}
	return "C09:window:" + kind + ":" + lastGap,
		fmt.Sprintf("Reduce saw buckets {%s} sum=%g count=%d, specification {%s} sum=%g count=%d",
			c09Canon(got), gsum, gcount, c09Canon(wb), wsum, wcount)
}

// c09Same compares collected buckets and totals with one specification report.
func c09Same(got []c09bucket, gsum float64, gcount int64, want map[string]any) bool {
	wb, wsum, wcount := c09Want(want)
	return gcount == wcount && gsum == wsum && c09Canon(got) == c09Canon(wb)
}

func c09Show(want map[string]any) string {
	wb, wsum, wcount := c09Want(want)
	return fmt.Sprintf("{%s} sum=%g count=%d", c09Canon(wb), wsum, wcount)
}

//go:noinline
func c09OverlapAdder(rw *RollingWindow, v float64, done chan struct{}) {
	defer close(done)
	rw.Add(v)
}

// c09AdderParked reports whether the goroutine running c09OverlapAdder is blocked acquiring a lock
// (goroutine header of the runtime's stack dump: "sync.Mutex.Lock", "sync.RWMutex.Lock", "semacquire").
func c09AdderParked(buf []byte) bool {
	n := runtime.Stack(buf, true)
	for _, g := range strings.Split(string(buf[:n]), "\n\n") {
		if !strings.Contains(g, "c09OverlapAdder(") {
			continue
		}
		head := g
		if i := strings.IndexByte(g, '\n'); i >= 0 {
			head = g[:i]
		}
		return strings.Contains(head, "Lock") || strings.Contains(head, "semacquire")
	}
	return false
}

var c09StackBuf = make([]byte, 1<<18)

const c09BarrierLimit = 120 * time.Second

type c09overlap struct {
	got      []c09bucket
	sum      float64
	count    int64
	calls    int
	hit      bool // the callback was held: the reduction really overlapped the advance and the add
	addEarly bool // the add returned while the callback was still held
	infra    string
}

// c09RunOverlap executes one overlap step on the real window.
func c09RunOverlap(rw *RollingWindow, clock *kit.Clock, gate int, e time.Duration, val float64) (o c09overlap) {
	hitc, release, rdone := make(chan struct{}), make(chan struct{}), make(chan struct{})
	go func() {
		defer close(rdone)
		read := func(b *Bucket) {
			o.sum += b.Sum
			o.count += b.Count
			if b.Count > 0 || b.Sum != 0 {
				o.got = append(o.got, c09bucket{b.Sum, b.Count})
			}
		}
		rw.Reduce(func(b *Bucket) {
			o.calls++
			if gate == 0 && o.calls == 1 {
				close(hitc)
				<-release
			}
			read(b)
			if gate > 0 && o.calls == gate {
				close(hitc)
				<-release
			}
		})
	}()
	limit := time.NewTimer(c09BarrierLimit)
	defer limit.Stop()
	select {
	case <-hitc:
		o.hit = true
	case <-rdone:
	case <-limit.C:
		o.infra = "the reduction neither reached its gate nor returned"
		return
	}
	clock.Advance(e)
	adone := make(chan struct{})
	if !o.hit {
		// fewer buckets than the gate: nothing overlaps, the add simply follows
		c09OverlapAdder(rw, val, adone)
		return
	}
	go c09OverlapAdder(rw, val, adone)
	// wait until the adder has returned or is parked on the window's lock
	deadline := time.Now().Add(c09BarrierLimit)
	for i := 0; ; i++ {
		select {
		case <-adone:
			o.addEarly = true
		default:
		}
		if o.addEarly || c09AdderParked(c09StackBuf) {
			break
		}
		if time.Now().After(deadline) {
			o.infra = "the overlapping Add neither returned nor parked on a lock"
			break
		}
		if i < 50 {
			runtime.Gosched()
		} else {
			time.Sleep(20 * time.Microsecond)
		}
	}
	close(release)
	for _, c := range []chan struct{}{rdone, adone} {
		select {
		case <-c:
		case <-limit.C:
			if o.infra == "" {
				o.infra = "the reduction or the overlapping Add did not return after the callback was let go"
			}
			return
		}
	}
	return
}

func c09GapClass(d, q, size int) string {
	switch {
	case d == 0:
		return "gap0"
	case d < q:
		return "gap<bucket"
	case d < q*size:
		return "gap<window"
	}
	return "gap>=window"
}

func runC09WindowCase(c kit.Case, size, q int, ignore bool, clock *kit.Clock, rep *kit.Reporter) (v kit.Verdict) {
	v = kit.Verdict{Case: c.Index, OK: true}
	// an arbitrary, non-aligned creation instant
	clock.Advance(time.Duration(7+c.Index%13) * time.Millisecond)
	var opts []RollingWindowOption
	if ignore {
		opts = append(opts, IgnoreCurrentBucket())
	}
	rw := NewRollingWindow(size, time.Duration(q)*c09Tick, opts...)
	lastGap := "gap0"
	for i, st := range c.Steps {
		fail := func(key, msg string) kit.Verdict {
			v.OK, v.Step, v.Key = false, i, key
			v.Msg = fmt.Sprintf("size=%d Q=%d ignoreCurrent=%v step %d (%s): %s", size, q, ignore, i, kit.Str(st["op"]), msg)
			return v
		}
		op := kit.Str(st["op"])
		if d := kit.Num(st["d"]); op != "finish" {
			clock.Advance(time.Duration(d) * c09Tick)
			if d > 0 {
				lastGap = c09GapClass(d, q, size)
			}
		}
		switch op {
		case "add":
			rw.Add(float64(kit.Num(st["v"])))
		case "addn":
			// n concurrent adders at a frozen clock
			n, val := kit.Num(st["n"]), float64(kit.Num(st["v"]))
			var wg sync.WaitGroup
			for g := 0; g < 8; g++ {
				share := n / 8
				if g < n%8 {
					share++
				}
				wg.Add(1)
				go func(share int) {
					defer wg.Done()
					for j := 0; j < share; j++ {
						rw.Add(val)
					}
				}(share)
			}
			wg.Wait()
		case "reduce":
			if key, msg := c09Compare(rw, size, st, lastGap); key != "" {
				return fail(key, msg)
			}
		case "overlap":
			e, gate := kit.Num(st["e"]), kit.Num(st["gate"])
			o := c09RunOverlap(rw, clock, gate, time.Duration(e)*c09Tick, float64(kit.Num(st["v"])))
			if o.infra != "" {
				return kit.Verdict{Case: c.Index, Infra: true, Msg: fmt.Sprintf("step %d (overlap gate=%d e=%d): %s", i, gate, e, o.infra)}
			}
			if o.calls > size {
				return fail("C09:window:too-many-buckets", fmt.Sprintf("Reduce visited %d buckets of a window of %d", o.calls, size))
			}
			egap := c09GapClass(e, q, size)
			if !o.hit {
				rep.Count("overlap_not_reached", 1)
				seq := st["seq"].(map[string]any)
				if !c09Same(o.got, o.sum, o.count, seq) {
					return fail("C09:window:wrong-buckets:"+lastGap, fmt.Sprintf("Reduce (visited %d buckets, gate %d not reached) saw {%s} sum=%g count=%d, specification %s",
						o.calls, gate, c09Canon(o.got), o.sum, o.count, c09Show(seq)))
				}
			} else {
				rep.Count("overlaps", 1)
				rep.Count("overlaps_"+egap, 1)
				if o.addEarly {
					rep.Count("overlap_add_not_blocked", 1)
				}
				ok := false
				var shown []string
				for _, m := range kit.List(st["moments"]) {
					mm := m.(map[string]any)
					ok = ok || c09Same(o.got, o.sum, o.count, mm)
					shown = append(shown, c09Show(mm))
				}
				if !ok {
					return fail("C09:window:overlap:no-single-moment:"+egap, fmt.Sprintf(
						"a Reduce held after %d of its %d buckets, overlapped by [clock +%d ticks = %d bucket boundaries; Add(%d) from another goroutine, returned while held: %v] "+
							"saw {%s} sum=%g count=%d; the window before the advance / after the advance / after the add is %s",
						gate, o.calls, e, kit.Num(st["s"]), kit.Num(st["v"]), o.addEarly, c09Canon(o.got), o.sum, o.count, strings.Join(shown, " / ")))
				}
			}
			if key, msg := c09Compare(rw, size, st["after"].(map[string]any), "after-overlap"); key != "" {
				return fail(key, "reduction after the overlapped add returned: "+msg)
			}
			if e > 0 {
				lastGap = egap
			}
		case "finish":
			step := kit.Num(st["step"])
			for j, w := range kit.List(st["walk"]) {
				if j > 0 {
					clock.Advance(time.Duration(step) * c09Tick)
				}
				if key, msg := c09Compare(rw, size, w.(map[string]any), "walk-out"); key != "" {
					return fail(key, fmt.Sprintf("after %d further bucket intervals: %s", j, msg))
				}
				v.Steps++
			}
		default:
			return kit.Verdict{Case: c.Index, Infra: true, Msg: "unknown op " + op}
		}
		v.Steps++
	}
	return v
}

func TestVerifC09Window(t *testing.T) {
	cases, err := kit.LoadCases(kit.Env("VERIF_CASES", ""))
	if err != nil {
		t.Fatal(err)
	}
	rep, err := kit.NewReporter(kit.Env("VERIF_OUT", ""))
	if err != nil {
		t.Fatal(err)
	}
	defer rep.Close()
	clock := kit.NewClock()
	timex.SetVerifClock(clock.Now)
	defer timex.SetVerifClock(nil)
	size, q, ignore := kit.EnvInt("VERIF_SIZE", 3), kit.EnvInt("VERIF_Q", 4), kit.EnvInt("VERIF_IGNORE", 0) == 1
	shard, shards := kit.EnvInt("VERIF_SHARD", 0), kit.EnvInt("VERIF_SHARDS", 1)
	for _, c := range cases {
		if c.Index%shards != shard {
			continue
		}
		rep.Put(runC09WindowCase(c, size, q, ignore, clock, rep))
	}
}
