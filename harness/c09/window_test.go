package collection

// Replay driver for the rolling-window part of property C09 (overlaid into lib/collection by
// /verif/bin/check).  It executes TLC-generated behaviours of spec/RollingWindowGen.tla on the
// real RollingWindow through its public API (NewRollingWindow, Add, Reduce) under the virtual
// clock of lib/timex and compares every reduction (non-empty buckets as a multiset, totals)
// with what the specification reports.

import (
	"fmt"
	"sort"
	"strings"
	"sync"
	"testing"
	"time"

	kit "github.com/gotid/god/internal/verifkit"
	"github.com/gotid/god/lib/timex"
)

const c09Tick = 10 * time.Millisecond // one specification tick

type c09bucket struct {
	sum   float64
	count int64
}

func c09Canon(bs []c09bucket) string {
	s := make([]string, 0, len(bs))
	for _, b := range bs {
		s = append(s, fmt.Sprintf("%g/%d", b.sum, b.count))
	}
	sort.Strings(s)
	return strings.Join(s, " ")
}

// c09Reduce collects what Reduce hands to its callback.
func c09Reduce(rw *RollingWindow) (nonEmpty []c09bucket, sum float64, count int64, calls int) {
	rw.Reduce(func(b *Bucket) {
		calls++
		sum += b.Sum
		count += b.Count
		if b.Count > 0 || b.Sum != 0 {
			nonEmpty = append(nonEmpty, c09bucket{b.Sum, b.Count})
		}
	})
	return
}

func c09Want(m map[string]any) (bs []c09bucket, sum float64, count int64) {
	for _, e := range kit.List(m["buckets"]) {
		b := e.(map[string]any)
		bs = append(bs, c09bucket{float64(kit.Num(b["sum"])), int64(kit.Num(b["count"]))})
	}
	return bs, float64(kit.Num(m["sum"])), int64(kit.Num(m["count"]))
}

// c09Compare returns a (key, message) pair when the reduction differs from the prediction.
func c09Compare(rw *RollingWindow, size int, want map[string]any, lastGap string) (string, string) {
	got, gsum, gcount, calls := c09Reduce(rw)
	wb, wsum, wcount := c09Want(want)
	if calls > size {
		return "C09:window:too-many-buckets", fmt.Sprintf("Reduce visited %d buckets of a window of %d", calls, size)
	}
	if gcount == wcount && gsum == wsum && c09Canon(got) == c09Canon(wb) {
		return "", ""
	}
	kind := "wrong-buckets"
	switch {
	case gcount > wcount:
		kind = "sees-expired-or-duplicate"
	case gcount < wcount:
		kind = "loses-recent"
	}
	return "C09:window:" + kind + ":" + lastGap,
		fmt.Sprintf("Reduce saw buckets {%s} sum=%g count=%d, specification {%s} sum=%g count=%d",
			c09Canon(got), gsum, gcount, c09Canon(wb), wsum, wcount)
}

func c09GapClass(d, q, size int) string {
	switch {
	case d == 0:
		return "gap0"
	case d < q:
		return "gap<bucket"
	case d < q*size:
		return "gap<window"
	}
	return "gap>=window"
}

func runC09WindowCase(c kit.Case, size, q int, ignore bool, clock *kit.Clock) (v kit.Verdict) {
	v = kit.Verdict{Case: c.Index, OK: true}
	// an arbitrary, non-aligned creation instant
	clock.Advance(time.Duration(7+c.Index%13) * time.Millisecond)
	var opts []RollingWindowOption
	if ignore {
		opts = append(opts, IgnoreCurrentBucket())
	}
	rw := NewRollingWindow(size, time.Duration(q)*c09Tick, opts...)
	lastGap := "gap0"
	for i, st := range c.Steps {
		fail := func(key, msg string) kit.Verdict {
			v.OK, v.Step, v.Key = false, i, key
			v.Msg = fmt.Sprintf("size=%d Q=%d ignoreCurrent=%v step %d (%s): %s", size, q, ignore, i, kit.Str(st["op"]), msg)
			return v
		}
		op := kit.Str(st["op"])
		if d := kit.Num(st["d"]); op != "finish" {
			clock.Advance(time.Duration(d) * c09Tick)
			if d > 0 {
				lastGap = c09GapClass(d, q, size)
			}
		}
		switch op {
		case "add":
			rw.Add(float64(kit.Num(st["v"])))
		case "addn":
			// n concurrent adders at a frozen clock
			n, val := kit.Num(st["n"]), float64(kit.Num(st["v"]))
			var wg sync.WaitGroup
			for g := 0; g < 8; g++ {
				share := n / 8
				if g < n%8 {
					share++
				}
				wg.Add(1)
				go func(share int) {
					defer wg.Done()
					for j := 0; j < share; j++ {
						rw.Add(val)
					}
				}(share)
			}
			wg.Wait()
		case "reduce":
			if key, msg := c09Compare(rw, size, st, lastGap); key != "" {
				return fail(key, msg)
			}
		case "finish":
			step := kit.Num(st["step"])
			for j, w := range kit.List(st["walk"]) {
				if j > 0 {
					clock.Advance(time.Duration(step) * c09Tick)
				}
				if key, msg := c09Compare(rw, size, w.(map[string]any), "walk-out"); key != "" {
					return fail(key, fmt.Sprintf("after %d further bucket intervals: %s", j, msg))
				}
				v.Steps++
			}
		default:
			return kit.Verdict{Case: c.Index, Infra: true, Msg: "unknown op " + op}
		}
		v.Steps++
	}
	return v
}

func TestVerifC09Window(t *testing.T) {
	cases, err := kit.LoadCases(kit.Env("VERIF_CASES", ""))
	if err != nil {
		t.Fatal(err)
	}
	rep, err := kit.NewReporter(kit.Env("VERIF_OUT", ""))
	if err != nil {
		t.Fatal(err)
	}
	defer rep.Close()
	clock := kit.NewClock()
	timex.SetVerifClock(clock.Now)
	defer timex.SetVerifClock(nil)
	size, q, ignore := kit.EnvInt("VERIF_SIZE", 3), kit.EnvInt("VERIF_Q", 4), kit.EnvInt("VERIF_IGNORE", 0) == 1
	shard, shards := kit.EnvInt("VERIF_SHARD", 0), kit.EnvInt("VERIF_SHARDS", 1)
	for _, c := range cases {
		if c.Index%shards != shard {
			continue
		}
		rep.Put(runC09WindowCase(c, size, q, ignore, clock))
	}
}
