package serverinterceptors

// Driver for the gRPC shedding gate (property C09): UnarySheddingInterceptor in front of a
// scripted handler, with a counting stub Shedder.  Expectations come from spec/ShedGate.tla.

import (
	"context"
	"errors"
	"fmt"
	"sync/atomic"
	"testing"

	kit "github.com/gotid/god/internal/verifkit"
	"github.com/gotid/god/lib/load"
	"github.com/gotid/god/lib/logx"
	"github.com/gotid/god/lib/stat"
	"google.golang.org/grpc"
)

type c09stub struct {
	admit            bool
	admitted, passes int64
	fails            int64
}

type c09promise struct{ s *c09stub }

func (p c09promise) Pass() { atomic.AddInt64(&p.s.passes, 1) }
func (p c09promise) Fail() { atomic.AddInt64(&p.s.fails, 1) }

func (s *c09stub) Allow() (load.Promise, error) {
	if !s.admit {
		return nil, load.ErrServiceOverloaded
	}
	atomic.AddInt64(&s.admitted, 1)
	return c09promise{s}, nil
}

func TestVerifC09GateRPC(t *testing.T) {
	logx.Disable()
	cases, err := kit.LoadCases(kit.Env("VERIF_CASES", ""))
	if err != nil {
		t.Fatal(err)
	}
	rep, err := kit.NewReporter(kit.Env("VERIF_OUT", ""))
	if err != nil {
		t.Fatal(err)
	}
	defer rep.Close()
	metrics := stat.NewMetrics("c09")
	for _, c := range cases {
		v := kit.Verdict{Case: c.Index, OK: true}
		stub := &c09stub{}
		var called int64
		var outcome string
		icpt := UnarySheddingInterceptor(stub, metrics)
		handler := func(ctx context.Context, req interface{}) (interface{}, error) {
			atomic.AddInt64(&called, 1)
			switch outcome {
			case "deadline", "s503":
				return nil, context.DeadlineExceeded
			case "error", "s500", "s404":
				return nil, errors.New("c09 handler error")
			case "panic":
				panic("c09 handler panic")
			}
			return "ok", nil
		}
		for i, st := range c.Steps {
			stub.admit, outcome = kit.Bool(st["admit"]), kit.Str(st["outcome"])
			c0, r0 := atomic.LoadInt64(&called), stub.passes+stub.fails
			func() {
				defer func() { recover() }()
				icpt(context.Background(), "req", &grpc.UnaryServerInfo{FullMethod: "/c09"}, handler)
			}()
			gc, gr := atomic.LoadInt64(&called)-c0, stub.passes+stub.fails-r0
			open := stub.admitted - stub.passes - stub.fails
			v.Steps++
			if int(gc) != kit.Num(st["called"]) || int(gr) != kit.Num(st["reports"]) || int(open) != kit.Num(st["open"]) {
				v.OK, v.Step = false, i
				v.Key = fmt.Sprintf("C09:gate:rpc:%s:reports-%d-want-%d", outcome, gr, kit.Num(st["reports"]))
				v.Msg = fmt.Sprintf("request %d (admit=%v, handler outcome %s): handler ran %d times, %d Pass/Fail reports, %d promises open; specification %d/%d/%d",
					i, stub.admit, outcome, gc, gr, open, kit.Num(st["called"]), kit.Num(st["reports"]), kit.Num(st["open"]))
				break
			}
		}
		rep.Put(v)
	}
}
