package load

// Replay driver for the shedder part of property C09 (overlaid into lib/load by
// /verif/bin/check).  It executes TLC-generated behaviours of spec/ShedderGen.tla on the real
// adaptive shedder: the CPU reading is injected through the package variable
// systemOverloadChecker, time through the virtual clock of lib/timex.  The statement is a set
// of implications, so is the comparison: a rejection the specification does not permit is a
// violation, an admission is always accepted (when the behaviour assumed the other decision it
// is abandoned - TLC generated its sibling as well); the in-flight count is compared after
// every step and the smoothed count is checked against the capacity of the specification.

import (
	"fmt"
	"sync/atomic"
	"testing"
	"time"

	kit "github.com/gotid/god/internal/verifkit"
	"github.com/gotid/god/lib/logx"
	"github.com/gotid/god/lib/stat"
	"github.com/gotid/god/lib/timex"
)

type c09shed struct {
	sh       *adaptiveShedder
	promises []Promise
}

func (s *c09shed) flying() int64 { return atomic.LoadInt64(&s.sh.flying) }
func (s *c09shed) avg() float64 {
	s.sh.avgFlyingLock.Lock()
	defer s.sh.avgFlyingLock.Unlock()
	return s.sh.avgFlying
}

func runC09ShedCase(c kit.Case, size, q, tickUs int, clock *kit.Clock, over *atomic.Bool, rep *kit.Reporter) (v kit.Verdict) {
	v = kit.Verdict{Case: c.Index, OK: true}
	tick := time.Duration(tickUs) * time.Microsecond
	clock.Advance(time.Duration(3+c.Index%17) * time.Millisecond)
	over.Store(false)
	shd, ok := NewAdaptiveShedder(WithWindow(time.Duration(size*q)*tick), WithBuckets(size)).(*adaptiveShedder)
	if !ok {
		return kit.Verdict{Case: c.Index, Infra: true, Msg: "NewAdaptiveShedder did not return the adaptive shedder"}
	}
	s := &c09shed{sh: shd}
	for i, st := range c.Steps {
		fail := func(key, msg string) kit.Verdict {
			v.OK, v.Step, v.Key = false, i, key
			v.Msg = fmt.Sprintf("buckets=%d Q=%d tickus=%d (bucket %v) step %d (%s): %s", size, q, tickUs, time.Duration(q)*tick, i, kit.Str(st["op"]), msg)
			return v
		}
		op := kit.Str(st["op"])
		clock.Advance(time.Duration(kit.Num(st["d"])) * tick)
		switch op {
		case "allow":
			over.Store(kit.Bool(st["over"]))
			flyingBefore, avgBefore := s.flying(), s.avg()
			p, err := s.sh.Allow()
			over.Store(false)
			dropped := err != nil
			if dropped {
				if err != ErrServiceOverloaded {
					return fail("C09:shed:wrong-error", fmt.Sprintf("Allow failed with %v", err))
				}
				cap := int64(kit.Num(st["cap"]))
				switch {
				case !kit.Bool(st["hot"]):
					return fail("C09:shed:drop-while-cool", fmt.Sprintf("request rejected (flying=%d) although the CPU reading is below the threshold and no overload was observed during the last second", flyingBefore))
				case flyingBefore <= cap:
					return fail("C09:shed:drop-below-capacity", fmt.Sprintf("request rejected with %d in flight, capacity of the window is %d", flyingBefore, cap))
				case avgBefore <= float64(cap):
					return fail("C09:shed:drop-smoothed-below-capacity", fmt.Sprintf("request rejected with smoothed in-flight %.3f, capacity of the window is %d", avgBefore, cap))
				case !kit.Bool(st["mayDrop"]):
					return fail("C09:shed:drop-not-permitted", fmt.Sprintf("request rejected (flying=%d avg=%.3f cap=%d), specification does not permit it", flyingBefore, avgBefore, cap))
				}
				rep.Count("drops", 1)
			} else {
				s.promises = append(s.promises, p)
			}
			if dropped != kit.Bool(st["drop"]) {
				// the implementation took the other (permitted) decision: the sibling behaviour covers it
				rep.Count("abandoned", 1)
				s.finish()
				if f := s.flying(); f != 0 {
					return fail("C09:shed:flying-not-zero", fmt.Sprintf("in-flight count %d after every admitted request reported", f))
				}
				return v
			}
			if kit.Bool(st["mayDrop"]) {
				rep.Count("may_drop_steps", 1)
			}
		case "burst":
			for j := 0; j < kit.Num(st["n"]); j++ {
				p, err := s.sh.Allow()
				if err != nil {
					return fail("C09:shed:drop-while-cool", fmt.Sprintf("request %d of a burst rejected (%v) although the CPU reading is below the threshold and no overload was observed during the last second", j+1, err))
				}
				s.promises = append(s.promises, p)
			}
		case "pass", "fail":
			idx := kit.Num(st["i"]) - 1
			if idx < 0 || idx >= len(s.promises) {
				return kit.Verdict{Case: c.Index, Infra: true, Msg: "promise index out of range"}
			}
			p := s.promises[idx]
			s.promises = append(s.promises[:idx:idx], s.promises[idx+1:]...)
			if op == "pass" {
				p.Pass()
			} else {
				p.Fail()
			}
		case "passn", "failn":
			n := kit.Num(st["n"])
			if n > len(s.promises) {
				return kit.Verdict{Case: c.Index, Infra: true, Msg: "not enough promises"}
			}
			for _, p := range s.promises[:n] {
				if op == "passn" {
					p.Pass()
				} else {
					p.Fail()
				}
			}
			s.promises = s.promises[n:]
		case "finish":
			s.finish()
		default:
			return kit.Verdict{Case: c.Index, Infra: true, Msg: "unknown op " + op}
		}
		v.Steps++
		if got, want := s.flying(), int64(kit.Num(st["flying"])); got != want {
			return fail("C09:shed:flying-accounting", fmt.Sprintf("in-flight count %d, specification (admitted - completed) %d", got, want))
		}
		if a, m := s.avg(), float64(kit.Num(st["maxSeen"])); a < -1e-9 || a > m+1e-9 {
			return fail("C09:shed:smoothed-out-of-range", fmt.Sprintf("smoothed in-flight %.4f outside [0, %v] (largest count seen by a completion)", a, m))
		}
	}
	return v
}

func (s *c09shed) finish() {
	for _, p := range s.promises {
		p.Fail()
	}
	s.promises = nil
}

func TestVerifC09Shed(t *testing.T) {
	logx.Disable()
	stat.SetReporter(nil)
	cases, err := kit.LoadCases(kit.Env("VERIF_CASES", ""))
	if err != nil {
		t.Fatal(err)
	}
	rep, err := kit.NewReporter(kit.Env("VERIF_OUT", ""))
	if err != nil {
		t.Fatal(err)
	}
	defer rep.Close()
	clock := kit.NewClock()
	timex.SetVerifClock(clock.Now)
	defer timex.SetVerifClock(nil)
	var over atomic.Bool
	saved := systemOverloadChecker
	systemOverloadChecker = func(int64) bool { return over.Load() }
	defer func() { systemOverloadChecker = saved }()
	size, q, tickUs := kit.EnvInt("VERIF_SIZE", 4), kit.EnvInt("VERIF_Q", 4000), kit.EnvInt("VERIF_TICKUS", 250)
	shard, shards := kit.EnvInt("VERIF_SHARD", 0), kit.EnvInt("VERIF_SHARDS", 1)
	for _, c := range cases {
		if c.Index%shards != shard {
			continue
		}
		rep.Put(runC09ShedCase(c, size, q, tickUs, clock, &over, rep))
	}
}
