package load

// Replay driver for the shedder part of property C09 (overlaid into lib/load by
// /verif/bin/check).  It executes TLC-generated behaviours of spec/ShedderGen.tla on the real
// adaptive shedder: the CPU reading is injected through the package variable
// systemOverloadChecker, time through the virtual clock of lib/timex.  The statement is a set
// of implications, so is the comparison: a rejection the specification does not permit is a
// violation, an admission is always accepted (when the behaviour assumed the other decision it
// is abandoned - TLC generated its sibling as well); the in-flight count is compared after
// every step and the smoothed count is checked against the capacity of the specification.
// The smoothed count is judged as a function of the observed in-flight history (Shedder!P4): at
// every completion, Pass or Fail, it must move towards the in-flight count the completion left
// (strictly when they differ, never away, never past it), and it must stay below the
// specification's bound SmLevel + 1 derived from the last CalmK completions.

import (
	"fmt"
	"sync/atomic"
	"testing"
	"time"

	kit "github.com/gotid/god/internal/verifkit"
	"github.com/gotid/god/lib/logx"
	"github.com/gotid/god/lib/stat"
	"github.com/gotid/god/lib/timex"
)

// development aid (VERIF_C09_DROP_RULE_ONLY=1): judge the smoothed count only through rejections
var c09DropRuleOnly = kit.EnvInt("VERIF_C09_DROP_RULE_ONLY", 0) == 1

type c09shed struct {
	sh       *adaptiveShedder
	promises []Promise
}

func (s *c09shed) flying() int64 { return atomic.LoadInt64(&s.sh.flying) }
func (s *c09shed) avg() float64 {
	s.sh.avgFlyingLock.Lock()
	defer s.sh.avgFlyingLock.Unlock()
	return s.sh.avgFlying
}

// complete lets one promise report and checks the smoothing rule for that completion.
// It returns a non-empty key and message on a disagreement.
func (s *c09shed) complete(p Promise, pass bool) (string, string) {
	before := s.avg()
	if pass {
		p.Pass()
	} else {
		p.Fail()
	}
	left, after := float64(s.flying()), s.avg()
	if c09DropRuleOnly {
		return "", ""
	}
	kind := "fail"
	if pass {
		kind = "pass"
	}
	const eps = 1e-9
	gap0, gap1 := before-left, after-left
	switch {
	case gap0 > 1e-6 && !(after < before && gap1 >= -eps),
		gap0 < -1e-6 && !(after > before && gap1 <= eps),
		gap0 >= -1e-6 && gap0 <= 1e-6 && (gap1 > 1e-6+eps || gap1 < -1e-6-eps):
		return "C09:shed:smoothed-not-tracking:" + kind, fmt.Sprintf(
			"completion (%s) left %v in flight: smoothed in-flight went %.6f -> %.6f; it must move towards the in-flight count (strictly, never away, never past it)",
			kind, left, before, after)
	}
	return "", ""
}

func runC09ShedCase(c kit.Case, size, q, tickUs int, clock *kit.Clock, over *atomic.Bool, rep *kit.Reporter) (v kit.Verdict) {
	v = kit.Verdict{Case: c.Index, OK: true}
	tick := time.Duration(tickUs) * time.Microsecond
	clock.Advance(time.Duration(3+c.Index%17) * time.Millisecond)
	over.Store(false)
	shd, ok := NewAdaptiveShedder(WithWindow(time.Duration(size*q)*tick), WithBuckets(size)).(*adaptiveShedder)
	if !ok {
		return kit.Verdict{Case: c.Index, Infra: true, Msg: "NewAdaptiveShedder did not return the adaptive shedder"}
	}
	s := &c09shed{sh: shd}
	for i, st := range c.Steps {
		fail := func(key, msg string) kit.Verdict {
			v.OK, v.Step, v.Key = false, i, key
			v.Msg = fmt.Sprintf("buckets=%d Q=%d tickus=%d (bucket %v) step %d (%s): %s", size, q, tickUs, time.Duration(q)*tick, i, kit.Str(st["op"]), msg)
			return v
		}
		op := kit.Str(st["op"])
		clock.Advance(time.Duration(kit.Num(st["d"])) * tick)
		switch op {
		case "allow":
			over.Store(kit.Bool(st["over"]))
			flyingBefore, avgBefore := s.flying(), s.avg()
			p, err := s.sh.Allow()
			over.Store(false)
			dropped := err != nil
			if dropped {
				if err != ErrServiceOverloaded {
					return fail("C09:shed:wrong-error", fmt.Sprintf("Allow failed with %v", err))
				}
				cap := int64(kit.Num(st["cap"]))
				switch {
				case !kit.Bool(st["hot"]):
					return fail("C09:shed:drop-while-cool", fmt.Sprintf("request rejected (flying=%d) although the CPU reading is below the threshold and no overload was observed during the last second", flyingBefore))
				case flyingBefore <= cap:
					return fail("C09:shed:drop-below-capacity", fmt.Sprintf("request rejected with %d in flight, capacity of the window is %d", flyingBefore, cap))
				case avgBefore <= float64(cap):
					return fail("C09:shed:drop-smoothed-below-capacity", fmt.Sprintf("request rejected with smoothed in-flight %.3f, capacity of the window is %d", avgBefore, cap))
				case kit.Bool(st["calm"]):
					return fail("C09:shed:drop-while-calm", fmt.Sprintf("request rejected (flying=%d, smoothed %.3f, cap=%d) although every one of the last completions left no more than the capacity in flight", flyingBefore, avgBefore, cap))
				case !kit.Bool(st["mayDrop"]):
					return fail("C09:shed:drop-not-permitted", fmt.Sprintf("request rejected (flying=%d avg=%.3f cap=%d), specification does not permit it", flyingBefore, avgBefore, cap))
				}
				rep.Count("drops", 1)
			} else {
				s.promises = append(s.promises, p)
			}
			if dropped != kit.Bool(st["drop"]) {
				// the implementation took the other (permitted) decision: the sibling behaviour covers it
				rep.Count("abandoned", 1)
				if key, msg := s.finish(); key != "" {
					return fail(key, msg)
				}
				if f := s.flying(); f != 0 {
					return fail("C09:shed:flying-not-zero", fmt.Sprintf("in-flight count %d after every admitted request reported", f))
				}
				return v
			}
			if kit.Bool(st["mayDrop"]) {
				rep.Count("may_drop_steps", 1)
			}
		case "burst":
			for j := 0; j < kit.Num(st["n"]); j++ {
				p, err := s.sh.Allow()
				if err != nil {
					return fail("C09:shed:drop-while-cool", fmt.Sprintf("request %d of a burst rejected (%v) although the CPU reading is below the threshold and no overload was observed during the last second", j+1, err))
				}
				s.promises = append(s.promises, p)
			}
		case "pass", "fail":
			idx := kit.Num(st["i"]) - 1
			if idx < 0 || idx >= len(s.promises) {
				return kit.Verdict{Case: c.Index, Infra: true, Msg: "promise index out of range"}
			}
			p := s.promises[idx]
			s.promises = append(s.promises[:idx:idx], s.promises[idx+1:]...)
			if key, msg := s.complete(p, op == "pass"); key != "" {
				return fail(key, msg)
			}
		case "quiet":
			for j := 0; j < kit.Num(st["n"]); j++ {
				p, err := s.sh.Allow()
				if err != nil {
					return fail("C09:shed:drop-while-cool", fmt.Sprintf("request %d of quiet traffic rejected (%v) although the CPU reading is below the threshold and no overload was observed during the last second", j+1, err))
				}
				if key, msg := s.complete(p, false); key != "" {
					return fail(key, msg)
				}
			}
			rep.Count("quiet_completions", kit.Num(st["n"]))
		case "passn", "failn":
			n := kit.Num(st["n"])
			if n > len(s.promises) {
				return kit.Verdict{Case: c.Index, Infra: true, Msg: "not enough promises"}
			}
			for _, p := range s.promises[:n] {
				if key, msg := s.complete(p, op == "passn"); key != "" {
					return fail(key, msg)
				}
			}
			s.promises = s.promises[n:]
		case "finish":
			if key, msg := s.finish(); key != "" {
				return fail(key, msg)
			}
		default:
			return kit.Verdict{Case: c.Index, Infra: true, Msg: "unknown op " + op}
		}
		v.Steps++
		if got, want := s.flying(), int64(kit.Num(st["flying"])); got != want {
			return fail("C09:shed:flying-accounting", fmt.Sprintf("in-flight count %d, specification (admitted - completed) %d", got, want))
		}
		if a, m := s.avg(), float64(kit.Num(st["maxSeen"])); a < -1e-9 || a > m+1e-9 {
			return fail("C09:shed:smoothed-out-of-range", fmt.Sprintf("smoothed in-flight %.4f outside [0, %v] (largest count seen by a completion)", a, m))
		}
		if a, b := s.avg(), float64(kit.Num(st["smBound"])); st["smBound"] != nil && a > b && !c09DropRuleOnly {
			return fail("C09:shed:smoothed-above-history", fmt.Sprintf("smoothed in-flight %.4f above %v = 1 + the highest count left by one of the last completions", a, b))
		}
	}
	return v
}

func (s *c09shed) finish() (string, string) {
	ps := s.promises
	s.promises = nil
	for i, p := range ps {
		if key, msg := s.complete(p, false); key != "" {
			for _, q := range ps[i+1:] {
				q.Fail()
			}
			return key, msg
		}
	}
	return "", ""
}

func TestVerifC09Shed(t *testing.T) {
	logx.Disable()
	stat.SetReporter(nil)
	cases, err := kit.LoadCases(kit.Env("VERIF_CASES", ""))
	if err != nil {
		t.Fatal(err)
	}
	rep, err := kit.NewReporter(kit.Env("VERIF_OUT", ""))
	if err != nil {
		t.Fatal(err)
	}
	defer rep.Close()
	clock := kit.NewClock()
	timex.SetVerifClock(clock.Now)
	defer timex.SetVerifClock(nil)
	var over atomic.Bool
	saved := systemOverloadChecker
	systemOverloadChecker = func(int64) bool { return over.Load() }
	defer func() { systemOverloadChecker = saved }()
	size, q, tickUs := kit.EnvInt("VERIF_SIZE", 4), kit.EnvInt("VERIF_Q", 4000), kit.EnvInt("VERIF_TICKUS", 250)
	shard, shards := kit.EnvInt("VERIF_SHARD", 0), kit.EnvInt("VERIF_SHARDS", 1)
	for _, c := range cases {
		if c.Index%shards != shard {
			continue
		}
		rep.Put(runC09ShedCase(c, size, q, tickUs, clock, &over, rep))
	}
}
