package drv

// Concurrent stage of the C20 replay driver (built with -race by /verif/checks/c20.py).
//
// "The result depends on nothing but these inputs" and "these conversions never fail or panic"
// hold for every caller, also when several goroutines of the generator convert names at
// overlapping times. VERIF_GOROUTINES goroutines evaluate, VERIF_ITER times each and in their own
// seeded order, every case of the TLC-generated file: FileNamingFormat for every template,
// ToCamel, ToSnake and the camel -> snake round trip. Every result is compared with the
// specification's prediction from the same case (file name / rejection, round trip where
// promised, no panic) and with the value the same call returned before the goroutines were
// started (the result is a function of the inputs). The race detector's report is picked up
// from the log by checks/c20.py (key C20:data-race).

import (
	"bufio"
	"encoding/json"
	"fmt"
	"math/rand"
	"os"
	"runtime"
	"sync"
	"testing"
	"time"

	"github.com/gotid/god/tools/god/util/stringx"
	kit "github.com/gotid/god/tools/god/zz_verif/kit"
)

type c20ConcCase struct {
	index int
	id    string
	rt    bool
	want  []c20Result // per template
	camel string      // sequential baseline
	snake string
}

func TestVerifC20Concurrent(t *testing.T) {
	rep, err := kit.NewReporter(kit.Env("VERIF_OUT", ""))
	if err != nil {
		t.Fatal(err)
	}
	defer rep.Close()
	infra := func(msg string) { rep.Put(kit.Verdict{Infra: true, Msg: msg}) }
	f, err := os.Open(kit.Env("VERIF_CASES", ""))
	if err != nil {
		infra(err.Error())
		return
	}
	defer f.Close()
	sc := bufio.NewScanner(f)
	sc.Buffer(make([]byte, 1<<20), 1<<28)
	var tpls []c20Template
	var cases []c20ConcCase
	for i := 0; sc.Scan(); i++ {
		var one kit.M
		if err := json.Unmarshal(sc.Bytes(), &one); err != nil {
			infra(fmt.Sprintf("case %d: %v", i, err))
			return
		}
		if i == 0 {
			if tpls, err = c20Header(one); err != nil {
				infra(err.Error())
				return
			}
			continue
		}
		c := c20ConcCase{index: i, id: c20Text(one["id"]), rt: kit.Bool(one["rt"])}
		for _, e := range kit.List(one["n"]) {
			w := e.(map[string]any)
			if kit.Bool(w["e"]) {
				c.want = append(c.want, c20Result{err: true})
			} else {
				c.want = append(c.want, c20Result{s: c20Text(w["s"])})
			}
		}
		if len(c.want) != len(tpls) {
			infra("case and header disagree on the number of templates")
			return
		}
		cases = append(cases, c)
	}
	if len(cases) == 0 {
		infra("no cases")
		return
	}
	// sequential baseline (one goroutine): any panic or wrong result here is the business of
	// the sequential replay; the concurrent stage only needs the values
	for i := range cases {
		id := cases[i].id
		cases[i].camel, _ = c20Conv(func() string { return stringx.From(id).ToCamel() })
		cases[i].snake, _ = c20Conv(func() string { return stringx.From(id).ToSnake() })
	}

	n, iters := kit.EnvInt("VERIF_GOROUTINES", 16), kit.EnvInt("VERIF_ITER", 3)
	var mu sync.Mutex
	seen := map[string]bool{}
	var bad []kit.Verdict
	fail := func(c *c20ConcCase, key, msg string) {
		mu.Lock()
		if !seen[key] {
			seen[key] = true
			bad = append(bad, kit.Verdict{Case: c.index, Key: "C20:concurrent:" + key, Msg: fmt.Sprintf("%d goroutines: %s", n, msg)})
		}
		mu.Unlock()
	}
	var calls [4]int64
	start := make(chan struct{})
	var wg sync.WaitGroup
	for g := 0; g < n; g++ {
		wg.Add(1)
		go func(g int) {
			defer wg.Done()
			rnd := rand.New(rand.NewSource(kit.Seed()*1000 + int64(g)))
			var local [4]int64
			<-start
			for it := 0; it < iters; it++ {
				for _, ci := range rnd.Perm(len(cases)) {
					c := &cases[ci]
					id := c.id
					camel, pvc := c20Conv(func() string { return stringx.From(id).ToCamel() })
					local[0]++
					switch {
					case pvc != "":
						fail(c, "camel:panic", fmt.Sprintf("stringx.From(%q).ToCamel() panicked: %s", id, pvc))
					case camel != c.camel:
						fail(c, "camel:differs", fmt.Sprintf("stringx.From(%q).ToCamel() = %q, alone it returned %q", id, camel, c.camel))
					}
					snake, pv := c20Conv(func() string { return stringx.From(id).ToSnake() })
					local[1]++
					switch {
					case pv != "":
						fail(c, "snake:panic", fmt.Sprintf("stringx.From(%q).ToSnake() panicked: %s", id, pv))
					case snake != c.snake:
						fail(c, "snake:differs", fmt.Sprintf("stringx.From(%q).ToSnake() = %q, alone it returned %q", id, snake, c.snake))
					}
					if c.rt && pvc == "" {
						back, pv2 := c20Conv(func() string { return stringx.From(camel).ToSnake() })
						local[2]++
						if pv2 != "" {
							fail(c, "snake:panic", fmt.Sprintf("stringx.From(%q).ToSnake() panicked: %s", camel, pv2))
						} else if back != id {
							fail(c, "roundtrip", fmt.Sprintf("ToCamel(%q) = %q, ToSnake(%q) = %q; the specification promises %q", id, camel, camel, back, id))
						}
					}
					for k := range tpls {
						got := c20Name(tpls[k].text, id)
						local[3]++
						want := c.want[k]
						where := c20Where(tpls[k].text, id)
						switch {
						case got.panic != "":
							fail(c, "name:panic", fmt.Sprintf("%s panicked: %s", where, got.panic))
						case want.err != got.err:
							fail(c, "name:error", fmt.Sprintf("%s: rejected=%v; the specification: rejected=%v", where, got.err, want.err))
						case !want.err && got.s != want.s:
							fail(c, "name:differs", fmt.Sprintf("%s = %q; the specification renders %q", where, got.s, want.s))
						}
					}
				}
			}
			mu.Lock()
			for i := range calls {
				calls[i] += local[i]
			}
			mu.Unlock()
		}(g)
	}
	// watchdog: a conversion whose shared state got corrupted may loop or allocate without bound;
	// the stage is bounded in time and memory and says so in the log (checks/c20.py decides:
	// together with a race report it is part of that finding, alone it is a harness problem)
	done := make(chan struct{})
	go func() {
		limit := time.Duration(kit.EnvInt("VERIF_CONC_SECONDS", 240)) * time.Second
		t0 := time.Now()
		for {
			select {
			case <-done:
				return
			case <-time.After(200 * time.Millisecond):
			}
			var ms runtime.MemStats
			runtime.ReadMemStats(&ms)
			if ms.HeapAlloc > 2<<30 || time.Since(t0) > limit {
				fmt.Fprintf(os.Stderr, "VERIF-WATCHDOG: concurrent stage stopped: heap=%dMB elapsed=%s\n", ms.HeapAlloc>>20, time.Since(t0))
				os.Exit(3)
			}
		}
	}()
	close(start)
	wg.Wait()
	close(done)
	steps := int(calls[0] + calls[1] + calls[2] + calls[3])
	rep.Count("concurrent_camel", int(calls[0]))
	rep.Count("concurrent_snake", int(calls[1]))
	rep.Count("concurrent_roundtrips", int(calls[2]))
	rep.Count("concurrent_names", int(calls[3]))
	rep.Count("goroutines", n)
	if len(bad) == 0 {
		rep.Put(kit.Verdict{Case: cases[0].index, OK: true, Steps: steps})
		return
	}
	bad[0].Steps = steps
	for _, v := range bad {
		rep.Put(v)
	}
}
