package drv

// Replay driver for property C20. /verif/checks/c20.py copies the *current*
// tools/god/util/format and tools/god/util/stringx sources of the repository into a scratch
// module (tools/god is a separate module whose other dependencies are not available offline)
// and builds this file there; the packages are used through their public API only.
//
// Input: the cases printed by spec/NamingGen.tla. Line 0 lists the templates (character
// tokens) with the parse the specification made of them and `via`, the way the templates are
// handed over: "direct" = format.FileNamingFormat(template, id); "config" = the way of the
// generators' --style flag: cfg, err := config.NewConfig(template), rejected if err != nil,
// else format.FileNamingFormat(cfg.NamingFormat, id) (tools/god/config is copied as well).
// Every other line is one identifier:
//   id : character tokens of the identifier (input)
//   n  : per template either e=true (the statement promises a rejection) or s = the
//        promised file name (character tokens)
//   rt : the camel -> snake round trip is promised for this identifier
//   sn, cm : d=true and s = the snake / camel form where the specification defines it
// The driver maps tokens to runes / bytes, calls the code inside recover() and compares.
// Determinism ("depends on nothing but these inputs") is observed by evaluating every pair and
// both conversions again sequentially and from two concurrent goroutines. The tokens xff / xc3
// are single bytes that are no UTF-8: the specification copies them; the code may copy them or
// put U+FFFD in their place, so results for such inputs are compared modulo that replacement.

import (
	"bufio"
	"encoding/json"
	"fmt"
	"math/rand"
	"os"
	"strings"
	"sync"
	"testing"
	"unicode"
	"unicode/utf8"

	"github.com/gotid/god/tools/god/config"
	"github.com/gotid/god/tools/god/util/format"
	"github.com/gotid/god/tools/god/util/stringx"
	kit "github.com/gotid/god/tools/god/zz_verif/kit"
)

// named tokens of spec/Naming.tla; every other token is the character itself
var c20Runes = map[string]string{"zh": "中", "di": "ı", "ta": "ɐ", "sp": " ", "ls": "ſ", "Id": "İ", "ax": "ⱥ",
	"tb": "\t", "nl": "\n", "nb": "\u00a0", "is": "\u3000",
	"Ax": "\u023a", "tx": "\u2c66", "Tx": "\u023e", "ee": "\u00e9", "Ee": "\u00c9", "Kv": "\u212a",
	"xff": "\xff", "xc3": "\xc3"}

// how the templates reach FileNamingFormat (header field `via`); set once, before any case is evaluated
var c20Via = "direct"

// key segment and description of the call under test
func c20Fam() string {
	if c20Via == "config" {
		return "config"
	}
	return "name"
}

func c20Where(tpl, id string) string {
	if c20Via == "config" {
		return fmt.Sprintf("cfg, err := config.NewConfig(%q); FileNamingFormat(cfg.NamingFormat, %q)", tpl, id)
	}
	return fmt.Sprintf("FileNamingFormat(%q, %q)", tpl, id)
}

// c20Header reads line 0 of a cases file.
func c20Header(one kit.M) ([]c20Template, error) {
	if one["templates"] == nil {
		return nil, fmt.Errorf("cases file has no template header")
	}
	switch via := kit.Str(one["via"]); via {
	case "direct", "config":
		c20Via = via
	default:
		return nil, fmt.Errorf("header: unknown via %q", via)
	}
	var tpls []c20Template
	for _, e := range kit.List(one["templates"]) {
		d := e.(map[string]any)
		class := kit.Str(d["why"])
		if kit.Bool(d["valid"]) {
			class = kit.Str(d["gs"]) + "/" + kit.Str(d["ds"])
		}
		if ws := kit.Str(d["ws"]); ws != "no" && ws != "none" && ws != "" {
			class += ":space-" + ws
		}
		tpls = append(tpls, c20Template{text: c20Text(d["t"]), class: class})
	}
	return tpls, nil
}

// c20Same: got is the promised text; for an input that is no UTF-8, modulo "invalid byte <-> U+FFFD"
func c20Same(input, got, want string) bool {
	if got == want {
		return true
	}
	if utf8.ValidString(input) {
		return false
	}
	return string([]rune(got)) == string([]rune(want))
}

// class suffix of a conversion key
func c20ConvClass(id string) string {
	if !utf8.ValidString(id) {
		return ":invalid-utf8"
	}
	return c20CaseLength(id)
}

func c20Text(v any) string {
	var b strings.Builder
	for _, t := range kit.List(v) {
		s := kit.Str(t)
		if r, ok := c20Runes[s]; ok {
			s = r
		}
		b.WriteString(s)
	}
	return b.String()
}

type c20Template struct {
	text  string
	class string // "lower/title" for a valid template, "missing" | "order" | "mixed" otherwise
}

type c20Result struct {
	s     string
	err   bool
	panic string
}

func c20Name(tpl, id string) (r c20Result) {
	defer func() {
		if p := recover(); p != nil {
			r = c20Result{panic: fmt.Sprint(p)}
		}
	}()
	if c20Via == "config" {
		// the generators: gogen.DoGenProject, rpc generator, model commands
		cfg, err := config.NewConfig(tpl)
		if err != nil {
			return c20Result{err: true}
		}
		tpl = cfg.NamingFormat
	}
	s, err := format.FileNamingFormat(tpl, id)
	return c20Result{s: s, err: err != nil}
}

// the two conversions of one identifier
type c20Convs struct {
	camel, camelPanic string
	snake, snakePanic string
}

func c20Convert(id string) (r c20Convs) {
	r.camel, r.camelPanic = c20Conv(func() string { return stringx.From(id).ToCamel() })
	r.snake, r.snakePanic = c20Conv(func() string { return stringx.From(id).ToSnake() })
	return r
}

// c20JudgeConv compares the conversions of id with the specification (sn / cm of the case); it reports
// through fail(class, msg) with class = "snake:differs..." etc.
func c20JudgeConv(tc kit.M, id string, got c20Convs, fail func(class, msg string)) {
	sfx := c20ConvClass(id)
	for _, f := range []struct{ name, fn, field, got, pv string }{
		{"camel", "ToCamel", "cm", got.camel, got.camelPanic},
		{"snake", "ToSnake", "sn", got.snake, got.snakePanic},
	} {
		where := fmt.Sprintf("stringx.From(%q).%s()", id, f.fn)
		if f.pv != "" {
			fail(f.name+":panic", fmt.Sprintf("%s panicked: %s", where, f.pv))
			continue
		}
		if utf8.ValidString(id) && !utf8.ValidString(f.got) {
			fail(f.name+":broken-utf8"+sfx, fmt.Sprintf("%s = %q: the input is UTF-8, the result is not (a character was cut)", where, f.got))
			continue
		}
		w, _ := tc[f.field].(map[string]any)
		if w != nil && kit.Bool(w["d"]) {
			if want := c20Text(w["s"]); !c20Same(id, f.got, want) {
				fail(f.name+":differs"+sfx, fmt.Sprintf("%s = %q; the specification's conversion gives %q", where, f.got, want))
			}
		}
	}
}

func c20Conv(f func() string) (s string, pv string) {
	defer func() {
		if p := recover(); p != nil {
			pv = fmt.Sprint(p)
		}
	}()
	return f(), ""
}

// a rune whose upper- or lower-case form has another UTF-8 length (the §5 clause of DESIGN.md)
func c20CaseLength(s string) string {
	for _, r := range s {
		if len(string(unicode.ToUpper(r))) != len(string(r)) || len(string(unicode.ToLower(r))) != len(string(r)) {
			return ":case-length-rune"
		}
	}
	return ""
}

// runC20Case returns the verdicts of one identifier: a single passing verdict, or one failing
// verdict per class (key) of disagreement.
func runC20Case(c kit.Case, tpls []c20Template, rep *kit.Reporter) []kit.Verdict {
	v := kit.Verdict{Case: c.Index, OK: true}
	var bad []kit.Verdict
	seen := map[string]bool{}
	tc := c.Steps[0]
	id := c20Text(tc["id"])
	names := kit.List(tc["n"])
	fail := func(step int, key, msg string) {
		if !seen[key] {
			seen[key] = true
			bad = append(bad, kit.Verdict{Case: c.Index, Step: step, Key: key, Msg: msg})
		}
	}
	if len(names) != len(tpls) {
		return []kit.Verdict{{Case: c.Index, Infra: true, Msg: "case and header disagree on the number of templates"}}
	}
	first := make([]c20Result, len(tpls))
	for k, t := range tpls {
		first[k] = c20Name(t.text, id)
	}
	conv := c20Convert(id)
	// again, concurrently, in the opposite order
	var wg sync.WaitGroup
	again := [2][]c20Result{make([]c20Result, len(tpls)), make([]c20Result, len(tpls))}
	var convAgain [2]c20Convs
	for g := 0; g < 2; g++ {
		wg.Add(1)
		go func(g int) {
			defer wg.Done()
			convAgain[g] = c20Convert(id)
			for k := len(tpls) - 1; k >= 0; k-- {
				again[g][k] = c20Name(tpls[k].text, id)
			}
		}(g)
	}
	wg.Wait()
	for k, t := range tpls {
		want := names[k].(map[string]any)
		got := first[k]
		v.Steps++
		where := c20Where(t.text, id)
		sfx := c20CaseLength(t.text)
		if !utf8.ValidString(t.text + id) {
			sfx = ":invalid-utf8"
		}
		fam := "C20:" + c20Fam()
		wantErr := kit.Bool(want["e"])
		wantS := ""
		if !wantErr {
			wantS = c20Text(want["s"])
			rep.Count("pairs_rendered", 1)
		} else {
			rep.Count("pairs_rejected", 1)
		}
		switch {
		case got.panic != "":
			fail(k, fam+":panic:"+t.class+sfx, fmt.Sprintf("%s panicked: %s; the specification %s", where, got.panic, c20Want(wantErr, wantS)))
		case wantErr && !got.err:
			fail(k, fam+":missing-error:"+t.class+sfx, fmt.Sprintf("%s = %q; the specification rejects the template (%s)", where, got.s, t.class))
		case !wantErr && got.err:
			fail(k, fam+":spurious-error:"+t.class+sfx, fmt.Sprintf("%s was rejected; the specification renders %q", where, wantS))
		case !wantErr && !c20Same(t.text+id, got.s, wantS):
			fail(k, fam+":differs:"+t.class+sfx, fmt.Sprintf("%s = %q; the specification renders %q", where, got.s, wantS))
		}
		if again[0][k] != got || again[1][k] != got {
			fail(k, fam+":nondeterministic", fmt.Sprintf("%s gave %+v, then %+v and %+v", where, got, again[0][k], again[1][k]))
		}
	}
	// the conversions: no panic, nothing cut, the specification's conversion where it is defined, and the same
	// value whenever and wherever they are evaluated
	camel := conv.camel
	v.Steps += 2
	c20JudgeConv(tc, id, conv, func(class, msg string) { fail(len(tpls), "C20:"+class, msg) })
	if tc["sn"] != nil && kit.Bool(tc["sn"].(map[string]any)["d"]) {
		rep.Count("snake_compared", 1)
	}
	if tc["cm"] != nil && kit.Bool(tc["cm"].(map[string]any)["d"]) {
		rep.Count("camel_compared", 1)
	}
	if convAgain[0] != conv || convAgain[1] != conv {
		fail(len(tpls), "C20:conversion:nondeterministic", fmt.Sprintf("ToCamel/ToSnake of %q gave %+v, then %+v and %+v", id, conv, convAgain[0], convAgain[1]))
	}
	back, pv := c20Conv(func() string { return stringx.From(camel).ToSnake() })
	if pv != "" {
		fail(len(tpls)+1, "C20:snake:panic", fmt.Sprintf("stringx.From(%q).ToSnake() panicked: %s", camel, pv))
	}
	if kit.Bool(tc["rt"]) {
		v.Steps++
		rep.Count("roundtrips", 1)
		if back != id {
			fail(len(tpls)+2, "C20:roundtrip", fmt.Sprintf("ToCamel(%q) = %q, ToSnake(%q) = %q; the specification promises %q", id, camel, camel, back, id))
		}
	}
	if len(bad) == 0 {
		return []kit.Verdict{v}
	}
	for i := range bad {
		if i == 0 {
			bad[i].Steps = v.Steps
		}
	}
	return bad
}

func c20Want(err bool, s string) string {
	if err {
		return "rejects the template"
	}
	return fmt.Sprintf("renders %q", s)
}

func TestVerifC20(t *testing.T) {
	rep, err := kit.NewReporter(kit.Env("VERIF_OUT", ""))
	if err != nil {
		t.Fatal(err)
	}
	defer rep.Close()
	shard, shards := kit.EnvInt("VERIF_SHARD", 0), kit.EnvInt("VERIF_SHARDS", 1)
	f, err := os.Open(kit.Env("VERIF_CASES", ""))
	if err != nil {
		rep.Put(kit.Verdict{Infra: true, Msg: err.Error()})
		return
	}
	defer f.Close()
	sc := bufio.NewScanner(f)
	sc.Buffer(make([]byte, 1<<20), 1<<28)
	var tpls []c20Template
	var kept []c20Kept
	for i := 0; sc.Scan(); i++ {
		if i > 0 && i%shards != shard {
			continue
		}
		var one kit.M
		if err := json.Unmarshal(sc.Bytes(), &one); err != nil {
			rep.Put(kit.Verdict{Infra: true, Msg: fmt.Sprintf("case %d: %v", i, err)})
			return
		}
		if i == 0 {
			if tpls, err = c20Header(one); err != nil {
				rep.Put(kit.Verdict{Infra: true, Msg: err.Error()})
				return
			}
			continue
		}
		agreed := true
		for _, v := range runC20Case(kit.Case{Index: i, Steps: []kit.M{one}}, tpls, rep) {
			agreed = agreed && v.OK
			rep.Put(v)
		}
		if agreed && len(kept) < 60000 { // later passes only for cases whose first evaluation agreed
			kept = append(kept, c20Kept{i, one, c20Convert(c20Text(one["id"]))})
		}
	}
	if err := sc.Err(); err != nil {
		rep.Put(kit.Verdict{Infra: true, Msg: err.Error()})
		return
	}
	// later passes in the same process: reversed, then seeded order; every result is compared with
	// the specification again (the answer must not depend on what was evaluated before)
	for k := len(kept) - 1; k >= 0; k-- {
		for _, v := range c20Again(kept[k].index, kept[k].tc, tpls, kept[k].conv, "second pass (reversed order)") {
			c20PutLater(rep, v)
		}
	}
	rnd := rand.New(rand.NewSource(kit.Seed() + int64(shard)))
	for _, k := range rnd.Perm(len(kept)) {
		for _, v := range c20Again(kept[k].index, kept[k].tc, tpls, kept[k].conv, "third pass (seeded order)") {
			c20PutLater(rep, v)
		}
	}
	rep.Count("later_pass_cases", 2*len(kept))
}

// later passes add comparisons, not cases
func c20PutLater(rep *kit.Reporter, v kit.Verdict) {
	if v.OK {
		rep.Count("steps", v.Steps)
		return
	}
	rep.Put(v)
}

type c20Kept struct {
	index int
	tc    kit.M
	conv  c20Convs // the conversions of the identifier as the first pass saw them
}
