package drv

// Replay driver for property C20. /verif/checks/c20.py copies the *current*
// tools/god/util/format and tools/god/util/stringx sources of the repository into a scratch
// module (tools/god is a separate module whose other dependencies are not available offline)
// and builds this file there; the packages are used through their public API only.
//
// Input: the cases printed by spec/NamingGen.tla. Line 0 lists the templates (character
// tokens) with the parse the specification made of them; every other line is one identifier:
//   id : character tokens of the identifier (input)
//   n  : per template either e=true (the statement promises a rejection) or s = the
//        promised file name (character tokens)
//   rt : the camel -> snake round trip is promised for this identifier
// The driver maps tokens to runes, calls format.FileNamingFormat / stringx.From(..).ToCamel /
// ToSnake inside recover() and compares. Determinism ("depends on nothing but these inputs")
// is observed by evaluating every pair again sequentially and from two concurrent goroutines.

import (
	"bufio"
	"encoding/json"
	"fmt"
	"math/rand"
	"os"
	"strings"
	"sync"
	"testing"
	"unicode"

	"github.com/gotid/god/tools/god/util/format"
	"github.com/gotid/god/tools/god/util/stringx"
	kit "github.com/gotid/god/tools/god/zz_verif/kit"
)

// named tokens of spec/Naming.tla; every other token is the character itself
var c20Runes = map[string]string{"zh": "中", "di": "ı", "ta": "ɐ", "sp": " ", "ls": "ſ", "Id": "İ", "ax": "ⱥ"}

func c20Text(v any) string {
	var b strings.Builder
	for _, t := range kit.List(v) {
		s := kit.Str(t)
		if r, ok := c20Runes[s]; ok {
			s = r
		}
		b.WriteString(s)
	}
	return b.String()
}

type c20Template struct {
	text  string
	class string // "lower/title" for a valid template, "missing" | "order" | "mixed" otherwise
}

type c20Result struct {
	s     string
	err   bool
	panic string
}

func c20Name(tpl, id string) (r c20Result) {
	defer func() {
		if p := recover(); p != nil {
			r = c20Result{panic: fmt.Sprint(p)}
		}
	}()
	s, err := format.FileNamingFormat(tpl, id)
	return c20Result{s: s, err: err != nil}
}

func c20Conv(f func() string) (s string, pv string) {
	defer func() {
		if p := recover(); p != nil {
			pv = fmt.Sprint(p)
		}
	}()
	return f(), ""
}

// a rune whose upper- or lower-case form has another UTF-8 length (the §5 clause of DESIGN.md)
func c20CaseLength(s string) string {
	for _, r := range s {
		if len(string(unicode.ToUpper(r))) != len(string(r)) || len(string(unicode.ToLower(r))) != len(string(r)) {
			return ":case-length-rune"
		}
	}
	return ""
}

// runC20Case returns the verdicts of one identifier: a single passing verdict, or one failing
// verdict per class (key) of disagreement.
func runC20Case(c kit.Case, tpls []c20Template, rep *kit.Reporter) []kit.Verdict {
	v := kit.Verdict{Case: c.Index, OK: true}
	var bad []kit.Verdict
	seen := map[string]bool{}
	tc := c.Steps[0]
	id := c20Text(tc["id"])
	names := kit.List(tc["n"])
	fail := func(step int, key, msg string) {
		if !seen[key] {
			seen[key] = true
			bad = append(bad, kit.Verdict{Case: c.Index, Step: step, Key: key, Msg: msg})
		}
	}
	if len(names) != len(tpls) {
		return []kit.Verdict{{Case: c.Index, Infra: true, Msg: "case and header disagree on the number of templates"}}
	}
	first := make([]c20Result, len(tpls))
	for k, t := range tpls {
		first[k] = c20Name(t.text, id)
	}
	// again, concurrently, in the opposite order
	var wg sync.WaitGroup
	again := [2][]c20Result{make([]c20Result, len(tpls)), make([]c20Result, len(tpls))}
	for g := 0; g < 2; g++ {
		wg.Add(1)
		go func(g int) {
			defer wg.Done()
			for k := len(tpls) - 1; k >= 0; k-- {
				again[g][k] = c20Name(tpls[k].text, id)
			}
		}(g)
	}
	wg.Wait()
	for k, t := range tpls {
		want := names[k].(map[string]any)
		got := first[k]
		v.Steps++
		where := fmt.Sprintf("FileNamingFormat(%q, %q)", t.text, id)
		sfx := c20CaseLength(t.text)
		wantErr := kit.Bool(want["e"])
		wantS := ""
		if !wantErr {
			wantS = c20Text(want["s"])
			rep.Count("pairs_rendered", 1)
		} else {
			rep.Count("pairs_rejected", 1)
		}
		switch {
		case got.panic != "":
			fail(k, "C20:name:panic:"+t.class+sfx, fmt.Sprintf("%s panicked: %s; the specification %s", where, got.panic, c20Want(wantErr, wantS)))
		case wantErr && !got.err:
			fail(k, "C20:name:missing-error:"+t.class+sfx, fmt.Sprintf("%s = %q; the specification rejects the template (%s)", where, got.s, t.class))
		case !wantErr && got.err:
			fail(k, "C20:name:spurious-error:"+t.class+sfx, fmt.Sprintf("%s was rejected; the specification renders %q", where, wantS))
		case !wantErr && got.s != wantS:
			fail(k, "C20:name:differs:"+t.class+sfx, fmt.Sprintf("%s = %q; the specification renders %q", where, got.s, wantS))
		}
		if again[0][k] != got || again[1][k] != got {
			fail(k, "C20:name:nondeterministic", fmt.Sprintf("%s gave %+v, then %+v and %+v", where, got, again[0][k], again[1][k]))
		}
	}
	camel, pv := c20Conv(func() string { return stringx.From(id).ToCamel() })
	v.Steps++
	if pv != "" {
		fail(len(tpls), "C20:camel:panic", fmt.Sprintf("stringx.From(%q).ToCamel() panicked: %s", id, pv))
	}
	_, pv = c20Conv(func() string { return stringx.From(id).ToSnake() })
	v.Steps++
	if pv != "" {
		fail(len(tpls)+1, "C20:snake:panic", fmt.Sprintf("stringx.From(%q).ToSnake() panicked: %s", id, pv))
	}
	back, pv := c20Conv(func() string { return stringx.From(camel).ToSnake() })
	if pv != "" {
		fail(len(tpls)+1, "C20:snake:panic", fmt.Sprintf("stringx.From(%q).ToSnake() panicked: %s", camel, pv))
	}
	if kit.Bool(tc["rt"]) {
		v.Steps++
		rep.Count("roundtrips", 1)
		if back != id {
			fail(len(tpls)+2, "C20:roundtrip", fmt.Sprintf("ToCamel(%q) = %q, ToSnake(%q) = %q; the specification promises %q", id, camel, camel, back, id))
		}
	}
	if len(bad) == 0 {
		return []kit.Verdict{v}
	}
	for i := range bad {
		if i == 0 {
			bad[i].Steps = v.Steps
		}
	}
	return bad
}

func c20Want(err bool, s string) string {
	if err {
		return "rejects the template"
	}
	return fmt.Sprintf("renders %q", s)
}

func TestVerifC20(t *testing.T) {
	rep, err := kit.NewReporter(kit.Env("VERIF_OUT", ""))
	if err != nil {
		t.Fatal(err)
	}
	defer rep.Close()
	shard, shards := kit.EnvInt("VERIF_SHARD", 0), kit.EnvInt("VERIF_SHARDS", 1)
	f, err := os.Open(kit.Env("VERIF_CASES", ""))
	if err != nil {
		rep.Put(kit.Verdict{Infra: true, Msg: err.Error()})
		return
	}
	defer f.Close()
	sc := bufio.NewScanner(f)
	sc.Buffer(make([]byte, 1<<20), 1<<28)
	var tpls []c20Template
	var kept []c20Kept
	for i := 0; sc.Scan(); i++ {
		if i > 0 && i%shards != shard {
			continue
		}
		var one kit.M
		if err := json.Unmarshal(sc.Bytes(), &one); err != nil {
			rep.Put(kit.Verdict{Infra: true, Msg: fmt.Sprintf("case %d: %v", i, err)})
			return
		}
		if i == 0 {
			if one["templates"] == nil {
				rep.Put(kit.Verdict{Infra: true, Msg: "cases file has no template header"})
				return
			}
			for _, e := range kit.List(one["templates"]) {
				d := e.(map[string]any)
				class := kit.Str(d["why"])
				if kit.Bool(d["valid"]) {
					class = kit.Str(d["gs"]) + "/" + kit.Str(d["ds"])
				}
				tpls = append(tpls, c20Template{text: c20Text(d["t"]), class: class})
			}
			continue
		}
		agreed := true
		for _, v := range runC20Case(kit.Case{Index: i, Steps: []kit.M{one}}, tpls, rep) {
			agreed = agreed && v.OK
			rep.Put(v)
		}
		if agreed && len(kept) < 60000 { // later passes only for cases whose first evaluation agreed
			kept = append(kept, c20Kept{i, one})
		}
	}
	if err := sc.Err(); err != nil {
		rep.Put(kit.Verdict{Infra: true, Msg: err.Error()})
		return
	}
	// later passes in the same process: reversed, then seeded order; every result is compared with
	// the specification again (the answer must not depend on what was evaluated before)
	for k := len(kept) - 1; k >= 0; k-- {
		for _, v := range c20Again(kept[k].index, kept[k].tc, tpls, "second pass (reversed order)") {
			c20PutLater(rep, v)
		}
	}
	rnd := rand.New(rand.NewSource(kit.Seed() + int64(shard)))
	for _, k := range rnd.Perm(len(kept)) {
		for _, v := range c20Again(kept[k].index, kept[k].tc, tpls, "third pass (seeded order)") {
			c20PutLater(rep, v)
		}
	}
	rep.Count("later_pass_cases", 2*len(kept))
}

// later passes add comparisons, not cases
func c20PutLater(rep *kit.Reporter, v kit.Verdict) {
	if v.OK {
		rep.Count("steps", v.Steps)
		return
	}
	rep.Put(v)
}

type c20Kept struct {
	index int
	tc    kit.M
}
