package drv

// History-independence stages of the C20 replay driver ("the result depends on nothing but
// these inputs"): (a) later passes of the ordinary replay - every case of the shard is evaluated
// again in reversed and in seeded random order in the same process, each result compared with the
// specification's prediction; (b) the collision family of spec/NamingPairGen.tla - the readings
// (template, identifier) of one character string, which all have the same concatenation but
// different promised results, evaluated one after the other in ONE process in forward, reversed
// and seeded order, each result compared with the prediction for that pair alone.

import (
	"bufio"
	"encoding/json"
	"fmt"
	"math/rand"
	"os"
	"testing"

	"github.com/gotid/god/tools/god/util/stringx"
	kit "github.com/gotid/god/tools/god/zz_verif/kit"
)

// c20Judge compares one FileNamingFormat result with the prediction; class "" = agrees.
func c20Judge(tpl, id string, got c20Result, wantErr bool, wantS string) (class, msg string) {
	where := c20Where(tpl, id)
	switch {
	case got.panic != "":
		return "name:panic", fmt.Sprintf("%s panicked: %s; the specification %s", where, got.panic, c20Want(wantErr, wantS))
	case wantErr && !got.err:
		return "name:missing-error", fmt.Sprintf("%s = %q; the specification rejects the template", where, got.s)
	case !wantErr && got.err:
		return "name:spurious-error", fmt.Sprintf("%s was rejected; the specification renders %q", where, wantS)
	case !wantErr && !c20Same(tpl+id, got.s, wantS):
		return "name:differs", fmt.Sprintf("%s = %q; the specification renders %q", where, got.s, wantS)
	}
	return "", ""
}

// c20Again evaluates one ordinary case once more (sequentially) and compares with the prediction.
func c20Again(index int, tc kit.M, tpls []c20Template, firstConv c20Convs, pass string) []kit.Verdict {
	id := c20Text(tc["id"])
	names := kit.List(tc["n"])
	var bad []kit.Verdict
	seen := map[string]bool{}
	steps := 0
	fail := func(class, msg string) {
		key := "C20:history:" + class
		if !seen[key] {
			seen[key] = true
			bad = append(bad, kit.Verdict{Case: index, Key: key, Msg: pass + ": " + msg + " (the first evaluation in this process agreed with the specification)"})
		}
	}
	for k, t := range tpls {
		want := names[k].(map[string]any)
		wantErr, wantS := kit.Bool(want["e"]), ""
		if !wantErr {
			wantS = c20Text(want["s"])
		}
		steps++
		if class, msg := c20Judge(t.text, id, c20Name(t.text, id), wantErr, wantS); class != "" {
			fail(class, msg)
		}
	}
	conv := c20Convert(id)
	camel := conv.camel
	steps += 2
	c20JudgeConv(tc, id, conv, fail)
	if conv != firstConv {
		fail("conversion:differs", fmt.Sprintf("ToCamel/ToSnake of %q gave %+v, in the first pass %+v", id, conv, firstConv))
	}
	back, pv := c20Conv(func() string { return stringx.From(camel).ToSnake() })
	steps++
	if pv != "" {
		fail("snake:panic", fmt.Sprintf("stringx.From(%q).ToSnake() panicked: %s", camel, pv))
	} else if kit.Bool(tc["rt"]) && back != id {
		fail("roundtrip", fmt.Sprintf("ToCamel(%q) = %q, ToSnake(%q) = %q; the specification promises %q", id, camel, camel, back, id))
	}
	if len(bad) == 0 {
		return []kit.Verdict{{Case: index, OK: true, Steps: steps}}
	}
	bad[0].Steps = steps
	return bad
}

type c20Pair struct {
	caseIndex int
	tpl, id   string
	wantErr   bool
	wantS     string
}

// TestVerifC20Pairs replays the collision family; it must run as ONE process (no sharding).
func TestVerifC20Pairs(t *testing.T) {
	rep, err := kit.NewReporter(kit.Env("VERIF_OUT", ""))
	if err != nil {
		t.Fatal(err)
	}
	defer rep.Close()
	f, err := os.Open(kit.Env("VERIF_CASES", ""))
	if err != nil {
		rep.Put(kit.Verdict{Infra: true, Msg: err.Error()})
		return
	}
	defer f.Close()
	sc := bufio.NewScanner(f)
	sc.Buffer(make([]byte, 1<<20), 1<<28)
	var groups [][]c20Pair // the readings of one string, in cut order
	ncases := 0
	for i := 0; sc.Scan(); i++ {
		var one kit.M
		if err := json.Unmarshal(sc.Bytes(), &one); err != nil {
			rep.Put(kit.Verdict{Infra: true, Msg: fmt.Sprintf("case %d: %v", i, err)})
			return
		}
		ncases++
		for _, fam := range kit.List(one["fam"]) {
			var g []c20Pair
			for _, e := range kit.List(fam) {
				m := e.(map[string]any)
				p := c20Pair{caseIndex: i, tpl: c20Text(m["t"]), id: c20Text(m["id"]), wantErr: kit.Bool(m["e"])}
				if !p.wantErr {
					p.wantS = c20Text(m["s"])
				}
				g = append(g, p)
			}
			groups = append(groups, g)
		}
	}
	if len(groups) == 0 {
		rep.Put(kit.Verdict{Infra: true, Msg: "no collision groups in the cases file"})
		return
	}
	seen := map[string]bool{}
	var bad []kit.Verdict
	steps := 0
	eval := func(p c20Pair, pass string) {
		steps++
		if p.wantErr {
			rep.Count("collision_rejected", 1)
		} else {
			rep.Count("collision_rendered", 1)
		}
		if class, msg := c20Judge(p.tpl, p.id, c20Name(p.tpl, p.id), p.wantErr, p.wantS); class != "" {
			key := "C20:collision:" + class
			if !seen[key] {
				seen[key] = true
				bad = append(bad, kit.Verdict{Case: p.caseIndex, Key: key,
					Msg: pass + ": " + msg + fmt.Sprintf(" (other readings of the same string %q were evaluated before in this process)", p.tpl+p.id)})
			}
		}
	}
	// pass 1: each string's readings from the shortest template to the longest;
	// pass 2: everything backwards; pass 3: seeded order over all readings of all strings
	for _, g := range groups {
		for _, p := range g {
			eval(p, "forward pass")
		}
	}
	for gi := len(groups) - 1; gi >= 0; gi-- {
		for k := len(groups[gi]) - 1; k >= 0; k-- {
			eval(groups[gi][k], "reversed pass")
		}
	}
	var all []c20Pair
	for _, g := range groups {
		all = append(all, g...)
	}
	rnd := rand.New(rand.NewSource(kit.Seed()))
	for _, i := range rnd.Perm(len(all)) {
		eval(all[i], "seeded-order pass")
	}
	rep.Count("collision_strings", len(groups))
	if len(bad) == 0 {
		for i := 0; i < ncases; i++ {
			v := kit.Verdict{Case: i, OK: true}
			if i == 0 {
				v.Steps = steps
			}
			rep.Put(v)
		}
		return
	}
	bad[0].Steps = steps
	for _, v := range bad {
		rep.Put(v)
	}
}
