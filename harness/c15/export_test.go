package internal

import (
	"context"

	"google.golang.org/grpc/connectivity"
)

// Test-only accessors for the C15 conformance driver (overlaid into lib/discov/internal by
// /verif/bin/check as zz_verif_c15_export_test.go; nothing is written to /repo).  The driver
// itself lives in the external test package internal_test because it also imports lib/discov,
// which imports this package.

// VerifSeedClient registers cli as the (already "dialled") client of the cluster with the
// given endpoints, so that Registry.Monitor never dials a real etcd.
func VerifSeedClient(endpoints []string, cli EtcdClient) {
	connManager.Set(getClusterKey(append([]string(nil), endpoints...)), cli)
}

// VerifReload runs what the connection-state watcher runs when the connection comes back
// (production: `go c.reload(cli)`): it returns once the old watchers are gone and the
// load+watch goroutines of every listened key have been started.
func VerifReload(endpoints []string, cli EtcdClient) {
	c, _ := GetRegistry().getCluster(append([]string(nil), endpoints...))
	c.reload(cli)
}

// VerifConn is the connection-state source a stateWatcher watches (the unexported etcdConn).
type VerifConn interface {
	GetState() connectivity.State
	WaitForStateChange(ctx context.Context, sourceState connectivity.State) bool
}

// VerifWatchConnState wires what cluster.watchConnState wires - a new stateWatcher whose
// listener starts the cluster's reload - but on a scripted connection-state source instead of
// cli.ActiveConnection() (a concrete *grpc.ClientConn that cannot be scripted).
func VerifWatchConnState(endpoints []string, cli EtcdClient, conn VerifConn) {
	c, _ := GetRegistry().getCluster(append([]string(nil), endpoints...))
	watcher := newStateWatcher()
	watcher.addListener(func() {
		go c.reload(cli)
	})
	go watcher.watch(conn)
}

// VerifNewStateWatcher starts a real stateWatcher with one listener on a scripted connection.
func VerifNewStateWatcher(conn VerifConn, listener func()) {
	w := newStateWatcher()
	w.addListener(listener)
	go w.watch(conn)
}

// VerifDrop ends the watch goroutines of a cluster and forgets it (per-case isolation).
func VerifDrop(endpoints []string) {
	r := GetRegistry()
	key := getClusterKey(append([]string(nil), endpoints...))
	r.lock.Lock()
	c := r.clusters[key]
	delete(r.clusters, key)
	r.lock.Unlock()
	if c == nil {
		return
	}
	c.lock.Lock()
	close(c.done)
	wg := c.watchGroup
	c.lock.Unlock()
	wg.Wait()
}
