package discov

// Directed concurrent-reader replay for property C15 (overlaid into lib/discov by /verif/bin/check).
// TLC-generated behaviours of spec/DiscovGen.tla that consist of watch-delivered puts and deletes
// only are applied to a subscriber's container through OnAdd/OnDelete - the calls the cluster
// makes for watch events - while a Values() reader is made to run at the worst moment: the driver
// holds the container lock, starts a reader (which queues for the lock because an earlier event
// has not been read yet), starts the event, and releases the lock.  Whatever order the two then
// take is a legitimate schedule; the verdict is Values() at quiescence against the
// specification's prediction.  Values() is read for the verdict only at every second event, so
// that the event in between meets an unread (dirty) cache.

import (
	"bufio"
	"encoding/json"
	"fmt"
	"os"
	"runtime"
	"sort"
	"strings"
	"testing"
	"time"

	kit "github.com/gotid/god/internal/verifkit"
	"github.com/gotid/god/lib/discov/internal"
)

func c15cValOf(k string) string {
	for _, kv := range strings.Split(kit.Env("VERIF_C15_VALOF", ""), ",") {
		if p := strings.SplitN(kv, "=", 2); len(p) == 2 && p[0] == k {
			return p[1]
		}
	}
	panic("c15: no value for key " + k)
}

// settle gives the goroutine just started the time to reach the container lock
func c15cSettle() {
	for i := 0; i < 50; i++ {
		runtime.Gosched()
	}
	time.Sleep(50 * time.Microsecond)
}

func runC15Container(c kit.Case) (v kit.Verdict) {
	v = kit.Verdict{Case: c.Index, OK: true}
	var ct *container
	calls, seen := 0, 0
	var trail []string
	events := 0
	directed := func(f func()) {
		ct.lock.Lock()
		rd, wd := make(chan struct{}), make(chan struct{})
		go func() { ct.getValues(); close(rd) }()
		c15cSettle()
		go func() { f(); close(wd) }()
		c15cSettle()
		ct.lock.Unlock()
		<-rd
		<-wd
	}
	for i, st := range c.Steps {
		op, k := kit.Str(st["op"]), kit.Str(st["k"])
		trail = append(trail, op+":"+k+kit.Str(st["s"]))
		switch op {
		case "init":
			continue
		case "attach":
			ct = newContainer(kit.Bool(st["excl"]))
			for _, x := range kit.List(c.Steps[0]["keys"]) { // the first load adds what etcd holds
				ct.OnAdd(internal.KV{Key: "svc/" + kit.Str(x), Val: c15cValOf(kit.Str(x))})
			}
			ct.addListener(func() { calls++ })
		case "put":
			kv := internal.KV{Key: "svc/" + k, Val: c15cValOf(k)}
			directed(func() { ct.OnAdd(kv) })
			events++
		case "del":
			kv := internal.KV{Key: "svc/" + k}
			directed(func() { ct.OnDelete(kv) })
			events++
		default:
			return kit.Verdict{Case: c.Index, Infra: true, Msg: "container replay got op " + op}
		}
		v.Steps++
		last := i == len(c.Steps)-1
		if op != "attach" && events%2 == 1 && !last {
			continue // leave the cache unread for the next event
		}
		name := ""
		exp, _ := st["exp"].(map[string]any)
		for n := range exp {
			name = n
		}
		var allowed []string
		for _, e := range kit.List(exp[name]) {
			var one []string
			for _, x := range kit.List(e) {
				one = append(one, kit.Str(x))
			}
			sort.Strings(one)
			allowed = append(allowed, "{"+strings.Join(one, ",")+"}")
		}
		got := append([]string(nil), ct.getValues()...)
		sort.Strings(got)
		g := "{" + strings.Join(got, ",") + "}"
		ok := false
		for _, a := range allowed {
			ok = ok || a == g
		}
		if !ok {
			v.OK, v.Step, v.Key = false, i, "C15:stale-cache:concurrent-reader"
			v.Msg = fmt.Sprintf("step %d (%s): with a Values() reader queued on the container lock when the event arrived, Values() at quiescence = %s, specification admits %v [history %v]",
				i, op, g, allowed, trail)
			return v
		}
		if m, _ := st["must"].(map[string]any); kit.Bool(m[name]) && calls == seen {
			v.OK, v.Step, v.Key = false, i, "C15:listener-not-run:after-"+op
			v.Msg = fmt.Sprintf("step %d (%s): value list changed to %s but the change listener did not run", i, op, g)
			return v
		}
		seen = calls
	}
	return v
}

func TestVerifC15Container(t *testing.T) {
	rep, err := kit.NewReporter(kit.Env("VERIF_OUT", ""))
	if err != nil {
		t.Fatal(err)
	}
	defer rep.Close()
	shard, shards := kit.EnvInt("VERIF_SHARD", 0), kit.EnvInt("VERIF_SHARDS", 1)
	f, err := os.Open(kit.Env("VERIF_CASES", ""))
	if err != nil {
		t.Fatal(err)
	}
	defer f.Close()
	sc := bufio.NewScanner(f)
	sc.Buffer(make([]byte, 1<<20), 1<<26)
	for i := 0; sc.Scan(); {
		line := sc.Bytes()
		if len(line) == 0 {
			continue
		}
		idx := i
		i++
		if idx%shards != shard {
			continue
		}
		c := kit.Case{Index: idx, Raw: append([]byte(nil), line...)}
		if err := json.Unmarshal(line, &c.Steps); err != nil {
			t.Fatalf("case %d: %v", idx, err)
		}
		rep.Put(runC15Container(c))
	}
}
