package internal_test

// Replay driver for property C15 (overlaid into lib/discov/internal by /verif/bin/check as an
// external test package).  It executes TLC-generated behaviours of spec/DiscovGen.tla through the
// public path discov.NewSubscriber / Subscriber.Values / Subscriber.AddListener.  The etcd
// behind it is a scripted EtcdClient (a small model etcd: key space, revisions, an event log,
// watchers with unbuffered channels fed by the driver) seeded into the package's connection
// manager, so that no real etcd is dialled.  After every step the driver compares Values() of
// every attached subscriber, and the listener counters, with the specification's prediction.

import (
	"bufio"
	"context"
	"encoding/json"
	"errors"
	"fmt"
	"hash/fnv"
	"math/rand"
	"os"
	"regexp"
	"runtime/debug"
	"sort"
	"strings"
	"sync"
	"sync/atomic"
	"testing"
	"time"

	kit "github.com/gotid/god/internal/verifkit"
	"github.com/gotid/god/lib/discov"
	"github.com/gotid/god/lib/discov/internal"
	"github.com/gotid/god/lib/logx"
	"go.etcd.io/etcd/api/v3/etcdserverpb"
	"go.etcd.io/etcd/api/v3/mvccpb"
	clientv3 "go.etcd.io/etcd/client/v3"
	"google.golang.org/grpc"
	"google.golang.org/grpc/connectivity"
)

const (
	c15Prefix  = "svc"
	c15Timeout = 10 * time.Second
)

type c15Event struct {
	rev int64
	del bool
	key string
	val string
}

type c15Watch struct {
	rg   c15Range // key range watched
	ch   chan clientv3.WatchResponse
	next int64 // next revision to deliver
	dead bool  // the cluster has abandoned this watcher (reload)
}

type c15Change struct {
	del bool
	key string
	val string
}

// c15Etcd is the scripted EtcdClient.
type c15Etcd struct {
	mu       sync.Mutex
	kv       map[string]string
	modRev   map[string]int64
	rev      int64
	log      []c15Event
	watchers []*c15Watch
	mid      map[string][]c15Change // per prefix: applied right after its next snapshot (between Get and Watch)
	nGet     int
	nSnap    int // Get calls answered with a snapshot
	nWatch   int
	// Get faults, consumed one per call: "err" = fails at once, "block" = blocks until the
	// request context is done (like a client whose server does not answer) and returns its error
	faults      []string
	nHealthy    int      // Get calls that arrived after the faults had stopped
	nExpired    int      // ... of which the caller's context was already done (answered with its error)
	ignoreCtx   bool     // clean-up only: answer even if the caller's context is done
	alwaysBatch bool     // concurrent-reader stage: several events always travel in one response
	problems    []string // protocol surprises (wrong prefix, missing option): harness trouble
}

func newC15Etcd() *c15Etcd {
	return &c15Etcd{kv: map[string]string{}, modRev: map[string]int64{}, rev: 1, mid: map[string][]c15Change{}}
}

func (f *c15Etcd) applyLocked(c c15Change) {
	f.rev++
	if c.del {
		delete(f.kv, c.key)
		delete(f.modRev, c.key)
	} else {
		f.kv[c.key] = c.val
		f.modRev[c.key] = f.rev
	}
	f.log = append(f.log, c15Event{rev: f.rev, del: c.del, key: c.key, val: c.val})
}

func (f *c15Etcd) apply(c c15Change) {
	f.mu.Lock()
	f.applyLocked(c)
	f.mu.Unlock()
}

func (f *c15Etcd) ActiveConnection() *grpc.ClientConn { return nil }
func (f *c15Etcd) Close() error                       { return nil }
func (f *c15Etcd) Ctx() context.Context               { return context.Background() }
func (f *c15Etcd) Grant(context.Context, int64) (*clientv3.LeaseGrantResponse, error) {
	return nil, errors.New("c15: Grant not scripted")
}
func (f *c15Etcd) KeepAlive(context.Context, clientv3.LeaseID) (<-chan *clientv3.LeaseKeepAliveResponse, error) {
	return nil, errors.New("c15: KeepAlive not scripted")
}
func (f *c15Etcd) Put(context.Context, string, string, ...clientv3.OpOption) (*clientv3.PutResponse, error) {
	return nil, errors.New("c15: Put not scripted")
}
func (f *c15Etcd) Revoke(context.Context, clientv3.LeaseID) (*clientv3.LeaseRevokeResponse, error) {
	return nil, errors.New("c15: Revoke not scripted")
}

// c15Range is the key range of a request as etcd understands it: the single key, or
// [key, end) with the end computed by the client's options (WithPrefix, WithRange, WithFromKey).
// The model etcd answers any request by these semantics over its whole key space, so a request
// for a wrong key or prefix gets what real etcd would give.
type c15Range struct{ key, end string }

func c15RangeOf(key string, opts []clientv3.OpOption) c15Range {
	return c15Range{key: key, end: string(clientv3.OpGet(key, opts...).RangeBytes())}
}

func (r c15Range) has(k string) bool {
	switch {
	case r.end == "":
		return k == r.key
	case r.end == "\x00":
		return k >= r.key
	}
	return k >= r.key && k < r.end
}

// Get answers with the snapshot of the model etcd and its revision; changes scripted as
// "mid" hit the key space right after the snapshot was taken.
func (f *c15Etcd) Get(ctx context.Context, key string, opts ...clientv3.OpOption) (*clientv3.GetResponse, error) {
	f.mu.Lock()
	if len(f.faults) > 0 {
		ft := f.faults[0]
		f.faults = f.faults[1:]
		f.nGet++
		f.mu.Unlock()
		if ft == "block" {
			select {
			case <-ctx.Done():
				return nil, ctx.Err()
			case <-time.After(c15Timeout):
				return nil, errors.New("c15: scripted Get blocked, request context has no deadline")
			}
		}
		return nil, errors.New("c15: scripted Get failure")
	}
	defer f.mu.Unlock()
	f.nGet++
	f.nHealthy++
	if err := ctx.Err(); err != nil && !f.ignoreCtx {
		// like a real client: a request whose context is already done is not sent
		f.nExpired++
		return nil, err
	}
	rg := c15RangeOf(key, opts)
	keys := make([]string, 0, len(f.kv))
	for k := range f.kv {
		if rg.has(k) {
			keys = append(keys, k)
		}
	}
	sort.Strings(keys)
	resp := &clientv3.GetResponse{Header: &etcdserverpb.ResponseHeader{Revision: f.rev}}
	for _, k := range keys {
		resp.Kvs = append(resp.Kvs, &mvccpb.KeyValue{Key: []byte(k), Value: []byte(f.kv[k]), ModRevision: f.modRev[k]})
	}
	resp.Count = int64(len(keys))
	f.nSnap++
	for _, c := range f.mid[key] {
		f.applyLocked(c)
	}
	delete(f.mid, key)
	return resp, nil
}

// Watch registers a watcher that the driver feeds: from the requested revision, or from "now".
func (f *c15Etcd) Watch(_ context.Context, key string, opts ...clientv3.OpOption) clientv3.WatchChan {
	f.mu.Lock()
	defer f.mu.Unlock()
	w := &c15Watch{rg: c15RangeOf(key, opts), ch: make(chan clientv3.WatchResponse)}
	if rev := clientv3.OpGet(key, opts...).Rev(); rev != 0 {
		w.next = rev
	} else {
		w.next = f.rev + 1
	}
	f.watchers = append(f.watchers, w)
	f.nWatch++
	return w.ch
}

func (f *c15Etcd) watchCalls() int {
	f.mu.Lock()
	defer f.mu.Unlock()
	return f.nWatch
}

func (f *c15Etcd) snapshots() int {
	f.mu.Lock()
	defer f.mu.Unlock()
	return f.nSnap
}

// c15Log replaces the log writer: the cluster reports an event of unknown type with one
// Error line, after which its watch goroutine goes back to waiting without touching the
// cluster lock again.  The driver uses that line as the acknowledgement of its barrier event
// (cluster.reload holds the lock while it waits for the watch goroutines, so a barrier that is
// merely *accepted* could still be in flight when the next step starts).
type c15Log struct{ errors atomic.Int64 }

func (l *c15Log) Close() error                { return nil }
func (l *c15Log) Debug(any, ...logx.LogField) {}
func (l *c15Log) Info(any, ...logx.LogField)  {}
func (l *c15Log) Alert(any)                   {}
func (l *c15Log) Error(any, ...logx.LogField) { l.errors.Add(1) }
func (l *c15Log) Severe(any)                  {}
func (l *c15Log) Slow(any, ...logx.LogField)  {}
func (l *c15Log) Stack(any)                   {}
func (l *c15Log) Stat(any, ...logx.LogField)  {}

var c15Logger = &c15Log{}

func c15Send(w *c15Watch, r clientv3.WatchResponse) error {
	select {
	case w.ch <- r:
		return nil
	case <-time.After(c15Timeout):
		return fmt.Errorf("watch response not accepted by the cluster's watch goroutine within %v\n%s", c15Timeout, kit.Stacks())
	}
}

// pump delivers to every live watcher everything it has not seen yet and returns once all of
// it has been processed: the watch goroutine is sequential, so when it accepts the barrier (an
// event of a type it ignores) on the unbuffered channel it has finished the previous response.
func (f *c15Etcd) pump(rng *rand.Rand) error {
	f.mu.Lock()
	var live []*c15Watch
	for _, w := range f.watchers {
		if !w.dead {
			live = append(live, w)
		}
	}
	log := append([]c15Event(nil), f.log...)
	last := f.rev
	f.mu.Unlock()
	rng.Shuffle(len(live), func(i, j int) { live[i], live[j] = live[j], live[i] })
	for _, w := range live {
		var evs []*clientv3.Event
		for _, e := range log {
			if e.rev < w.next || !w.rg.has(e.key) {
				continue
			}
			ev := &clientv3.Event{Type: clientv3.EventTypePut, Kv: &mvccpb.KeyValue{Key: []byte(e.key), Value: []byte(e.val), ModRevision: e.rev}}
			if e.del {
				// like etcd: a delete event carries the key only
				ev = &clientv3.Event{Type: clientv3.EventTypeDelete, Kv: &mvccpb.KeyValue{Key: []byte(e.key), ModRevision: e.rev}}
			}
			evs = append(evs, ev)
		}
		w.next = last + 1
		// one response for the whole batch, or one response per event
		if len(evs) > 1 && !f.alwaysBatch && rng.Intn(2) == 0 {
			for _, ev := range evs {
				if err := c15Send(w, clientv3.WatchResponse{Events: []*clientv3.Event{ev}}); err != nil {
					return err
				}
			}
		} else if len(evs) > 0 {
			if err := c15Send(w, clientv3.WatchResponse{Events: evs}); err != nil {
				return err
			}
		}
		barrier := clientv3.WatchResponse{Events: []*clientv3.Event{{Type: 99, Kv: &mvccpb.KeyValue{}}}}
		acks := c15Logger.errors.Load()
		if err := c15Send(w, barrier); err != nil {
			return err
		}
		if !kit.WaitFor(c15Timeout, func() bool { return c15Logger.errors.Load() > acks }) {
			return fmt.Errorf("barrier event accepted but not acknowledged (no error line for an event of unknown type)\n%s", kit.Stacks())
		}
	}
	return nil
}

func (f *c15Etcd) killWatchers() {
	f.mu.Lock()
	for _, w := range f.watchers {
		w.dead = true
	}
	f.mu.Unlock()
}

// c15Conn is the scripted connection-state source the real stateWatcher watches (its etcdConn
// interface): the driver sets states, WaitForStateChange blocks until the state differs from the
// one the watcher has seen.  `seen` is the last state the watcher reported having: the barrier
// for "the watcher has observed this state".
type c15Conn struct {
	mu    sync.Mutex
	state connectivity.State
	seen  connectivity.State
	waits int
	ch    chan struct{}
}

func newC15Conn(s connectivity.State) *c15Conn {
	return &c15Conn{state: s, seen: -1, ch: make(chan struct{})}
}

func (c *c15Conn) GetState() connectivity.State {
	c.mu.Lock()
	defer c.mu.Unlock()
	return c.state
}

func (c *c15Conn) WaitForStateChange(ctx context.Context, source connectivity.State) bool {
	for {
		c.mu.Lock()
		c.seen = source
		c.waits++
		if c.state != source {
			c.mu.Unlock()
			return true
		}
		ch := c.ch
		c.mu.Unlock()
		select {
		case <-ch:
		case <-ctx.Done():
			return false
		}
	}
}

// set changes the state and waits until the watcher has taken notice of it.
func (c *c15Conn) set(s connectivity.State) bool {
	c.mu.Lock()
	if c.state != s {
		c.state = s
		close(c.ch)
		c.ch = make(chan struct{})
	}
	c.mu.Unlock()
	return kit.WaitFor(c15Timeout, func() bool {
		c.mu.Lock()
		defer c.mu.Unlock()
		return c.seen == s
	})
}

var c15States = map[string]connectivity.State{"IDLE": connectivity.Idle, "CONNECTING": connectivity.Connecting,
	"READY": connectivity.Ready, "TRANSIENT_FAILURE": connectivity.TransientFailure, "SHUTDOWN": connectivity.Shutdown}

type c15Sub struct {
	p     int // prefix index
	name  string
	excl  bool
	sub   *discov.Subscriber
	mu    sync.Mutex
	calls int
	seen  int
}

func (s *c15Sub) listenerCalls() int {
	s.mu.Lock()
	defer s.mu.Unlock()
	return s.calls
}

func c15Canon(vals []string) string {
	s := append([]string(nil), vals...)
	sort.Strings(s)
	return "{" + strings.Join(s, ",") + "}"
}

func c15Allowed(v any) (out []string, sets [][]string) {
	for _, e := range kit.List(v) {
		var one []string
		for _, x := range kit.List(e) {
			one = append(one, kit.Str(x))
		}
		out = append(out, c15Canon(one))
		sets = append(sets, one)
	}
	sort.Strings(out)
	return
}

func c15Mode(excl bool) string {
	if excl {
		return "exclusive"
	}
	return "plain"
}

// ---------------------------------------------------------------- stuck calls and panics
//
// A barrier that times out is harness trouble when the machine is merely slow, but a finding
// when a call of the code under test is stuck: a goroutine whose innermost frame (below the
// runtime and the standard library) lies in the repository's own code, blocked, and still at the
// same place a second later.  A panic is attributed the same way: by the innermost frame below
// the panic.

type c15G struct {
	id, state, inner, innerFile, text string
}

var c15GHead = regexp.MustCompile(`^goroutine (\d+) \[([^\],]+)`)

func c15StdFrame(fn string) bool {
	for _, p := range []string{"runtime.", "runtime/", "sync.", "sync/", "time.", "internal/", "panic(", "testing.", "reflect."} {
		if strings.HasPrefix(fn, p) {
			return true
		}
	}
	return false
}

func c15Inner(lines []string) (fn, file string) {
	for j := 0; j+1 < len(lines); j += 2 {
		if strings.HasPrefix(lines[j], "created by ") {
			break
		}
		if c15StdFrame(lines[j]) {
			continue
		}
		return lines[j], strings.TrimSpace(lines[j+1])
	}
	return "", ""
}

func c15Goroutines(dump string) []c15G {
	var out []c15G
	for _, blk := range strings.Split(dump, "\n\n") {
		lines := strings.Split(strings.TrimSpace(blk), "\n")
		m := c15GHead.FindStringSubmatch(lines[0])
		if m == nil {
			continue
		}
		g := c15G{id: m[1], state: m[2], text: blk}
		g.inner, g.innerFile = c15Inner(lines[1:])
		out = append(out, g)
	}
	return out
}

func c15UnderTest(fn, file string) bool {
	return strings.Contains(fn, "github.com/gotid/god/") && !strings.Contains(file, "zz_verif") && !strings.Contains(fn, "/internal/verifkit")
}

// c15Stuck looks for goroutines running one of the named functions of the code under test that
// are blocked inside that code now and a second later (a watch goroutine waiting in
// watchStream's select is idle, not stuck).
func c15Stuck(markers ...string) (string, bool) {
	pick := func() map[string]c15G {
		m := map[string]c15G{}
		for _, g := range c15Goroutines(kit.Stacks()) {
			if g.state == "running" || g.state == "runnable" || g.state == "syscall" || !c15UnderTest(g.inner, g.innerFile) ||
				strings.Contains(g.inner, ".(*cluster).watchStream(") {
				continue
			}
			for _, mk := range markers {
				if strings.Contains(g.text, mk) {
					m[g.id] = g
					break
				}
			}
		}
		return m
	}
	first := pick()
	if len(first) == 0 {
		return "", false
	}
	time.Sleep(time.Second)
	var out []string
	for id, g := range pick() {
		if f, ok := first[id]; ok && f.inner == g.inner && f.innerFile == g.innerFile {
			out = append(out, g.text)
		}
	}
	sort.Strings(out)
	return strings.Join(out, "\n\n"), len(out) > 0
}

// c15PanicWhere names the function that panicked (from debug.Stack() taken in the recovering
// deferred function) and tells whether it belongs to the code under test.
func c15PanicWhere(stack string) (string, bool) {
	lines := strings.Split(stack, "\n")
	at := -1
	for j, l := range lines {
		if strings.HasPrefix(l, "panic(") {
			at = j
		}
	}
	if at < 0 {
		return "", false
	}
	fn, file := c15Inner(lines[at:])
	return c15Short(fn), c15UnderTest(fn, file)
}

var c15ArgTail = regexp.MustCompile(`\([^()]*\)$`)

// c15Short turns "github.com/gotid/god/lib/discov/internal.(*cluster).load(0xc0.., ...)" into "cluster.load".
func c15Short(fn string) string {
	fn = c15ArgTail.ReplaceAllString(fn, "")
	if k := strings.LastIndex(fn, "/"); k >= 0 {
		fn = fn[k+1:]
	}
	if k := strings.Index(fn, "."); k >= 0 {
		fn = fn[k+1:]
	}
	return strings.NewReplacer("(*", "", ")", "").Replace(fn)
}

const (
	c15MarkNew    = "lib/discov.NewSubscriber("
	c15MarkReload = ".(*cluster).reload"
	c15MarkLoad   = ".(*cluster).load("
	c15MarkEvents = ".(*cluster).handleWatchEvents("
	c15MarkDiff   = ".(*cluster).handleChanges("
)

var c15Serial int

func runC15Case(c kit.Case) (v kit.Verdict) {
	v = kit.Verdict{Case: c.Index, OK: true}
	// delivery order among watchers and batching are seeded per case content (replayable)
	h := fnv.New64a()
	h.Write(c.Raw)
	rng := rand.New(rand.NewSource(kit.Seed()*1000003 + int64(h.Sum64()>>1)))
	infra := func(msg string) kit.Verdict { return kit.Verdict{Case: c.Index, Infra: true, Msg: msg} }
	etcd := newC15Etcd()
	lateWatch := 0 // number of Watch calls a NewSubscriber should have reached but had not within the time-out
	fail := func(step int, key, msg string) kit.Verdict {
		if lateWatch > 0 && etcd.watchCalls() >= lateWatch {
			// the watch did start, but after the driver had stopped waiting for it: what was compared
			// since then was not fed to it (slow machine), so the comparison is void
			return infra("a watch was registered only after the barrier had timed out; void comparison: " + msg)
		}
		v.OK, v.Step, v.Key, v.Msg = false, step, key, msg
		return v
	}
	curStep, curOp := 0, "setup"
	var trail []string
	defer func() {
		// a panic of the code under test on the driver's goroutine (Values(), reload, ...) is a finding
		if r := recover(); r != nil {
			stack := string(debug.Stack())
			where, ours := c15PanicWhere(stack)
			if !ours {
				panic(r)
			}
			v = kit.Verdict{Case: c.Index, Step: curStep, Key: "C15:panic:" + curOp, Steps: v.Steps,
				Msg: fmt.Sprintf("step %d (%s): %s panicked: %v [history %v]\n%s", curStep, curOp, where, r, trail, stack)}
		}
	}()
	// a time-out of a barrier: a finding when a call of the code under test is stuck, harness
	// trouble (slow machine, driver bug) otherwise
	stuckOr := func(step int, what, msg string, markers ...string) kit.Verdict {
		if stacks, ok := c15Stuck(markers...); ok {
			return fail(step, "C15:hang:"+what, fmt.Sprintf("step %d (%s): %s; the code under test is blocked and does not move [history %v]\n%s",
				step, curOp, msg, trail, stacks))
		}
		return infra(msg + "\n" + kit.Stacks())
	}
	c15Serial++
	endpoints := []string{fmt.Sprintf("verif-c15-%d-%d-%d:2379", kit.EnvInt("VERIF_SHARD", 0), c.Index, c15Serial)}
	// histories that begin while the registry cannot be reached: the endpoint is a socket path at
	// which nothing listens (the real client is dialled and fails after internal.DialTimeout); the
	// registry "comes up" when the scripted client is made the cluster's client, before the first
	// attempt that is to succeed
	reachable := true
	for _, st := range c.Steps {
		if kit.Str(st["op"]) == "attachfail" {
			reachable = false
			endpoints = []string{fmt.Sprintf("unix:///nonexistent/verif-c15-%d-%d-%d.sock", kit.EnvInt("VERIF_SHARD", 0), c.Index, c15Serial)}
		}
	}
	if reachable {
		internal.VerifSeedClient(endpoints, etcd)
	}
	defer func() {
		// (a cluster left stuck by the code under test must not hold up the next case)
		done := make(chan struct{})
		go func() {
			defer close(done)
			internal.VerifDrop(endpoints)
		}()
		wait := c15Timeout
		if strings.HasPrefix(v.Key, "C15:hang:") {
			wait = 100 * time.Millisecond
		}
		select {
		case <-done:
		case <-time.After(wait):
		}
	}()
	premise := "" // a scenario premise that did not hold (judged only if nothing else disagrees)
	failedAttempts, retried, retriedAttach, revaluedReloads := 0, !reachable, 0, 0
	defer func() {
		if v.OK && !v.Infra {
			c15Counts["revalued_reloads"] += revaluedReloads
			c15Counts["failed_attempts"] += failedAttempts
			c15Counts["retried_attaches"] += retriedAttach
		}
	}()

	// connection-state stage: reloads are triggered by the real stateWatcher from scripted states
	var conn *c15Conn
	if len(c.Steps) > 0 && c.Steps[0]["conn"] != nil {
		conn = newC15Conn(connectivity.Ready)
		internal.VerifWatchConnState(endpoints, etcd, conn)
		if !kit.WaitFor(c15Timeout, func() bool { conn.mu.Lock(); defer conn.mu.Unlock(); return conn.waits > 0 }) {
			return infra("the state watcher did not start watching the scripted connection")
		}
	}
	connDown := false
	subs := map[string]*c15Sub{}
	var order []string
	up := true
	// concurrent-reader stage: goroutines calling Values() in a tight loop while events arrive
	readers := kit.EnvInt("VERIF_C15_READERS", 0)
	etcd.alwaysBatch = readers > 0
	revalued := false
	stopReaders := make(chan struct{})
	var rwg sync.WaitGroup
	defer func() {
		close(stopReaders)
		rwg.Wait()
	}()
	valuesKey := func(kind string, s *c15Sub, op string) string {
		if kind == "foreign-value" {
			return "C15:foreign-value"
		}
		if readers > 0 {
			return "C15:stale-cache:concurrent-reader"
		}
		if revalued {
			// a reload of this history showed a key the cluster knew with another value
			return "C15:" + kind + ":" + c15Mode(s.excl) + ":recreated-with-other-value"
		}
		return "C15:" + kind + ":" + c15Mode(s.excl) + ":after-" + op
	}

	for i, st := range c.Steps {
		op := kit.Str(st["op"])
		curStep, curOp = i, op
		p := kit.Num(st["p"])
		pfx := c15Pfx(p)
		// keys of sibling services (svc2/..., svc-admin/...) changing in the same etcd
		for _, x := range kit.List(st["sib"]) {
			m := x.(map[string]any)
			etcd.apply(c15Change{del: kit.Str(m["op"]) == "del", key: kit.Str(m["key"]), val: kit.Str(m["val"])})
			trail = append(trail, "sibling-"+kit.Str(m["op"])+":"+kit.Str(m["key"]))
		}
		// a step concerns one prefix, or (connection events) all prefixes of the cluster at once
		parts := []kit.M{st}
		if sh := kit.List(st["shared"]); len(sh) > 0 {
			parts = parts[:0]
			for _, x := range sh {
				parts = append(parts, x.(map[string]any))
			}
		}
		key := pfx + "/" + c15Id(kit.Str(st["k"]))
		tag := ""
		if len(c15Multi(c)) > 0 {
			tag = fmt.Sprintf("[%s]", pfx)
		}
		show := kit.Str(st["k"])
		if show != "" && c15Id(show) != show {
			show = fmt.Sprintf("%s(=key %s, now with value %s)", show, c15Id(show), c15Val(c, show))
		}
		trail = append(trail, tag+op+":"+show+kit.Str(st["s"])+c15Mid(st["mid"]))
		if f := c15Faults(st["states"]); len(f) > 0 {
			trail[len(trail)-1] += fmt.Sprintf("(connection states %v)", f)
		}
		if f := c15Faults(st["faults"]); len(f) > 0 {
			trail[len(trail)-1] += fmt.Sprintf("(Get faults %v)", f)
		}
		switch op {
		case "init":
			for _, k := range kit.List(st["keys"]) {
				etcd.apply(c15Change{key: pfx + "/" + c15Id(kit.Str(k)), val: c15Val(c, kit.Str(k))})
			}
			continue
		case "put":
			etcd.apply(c15Change{key: key, val: c15Val(c, kit.Str(st["k"]))})
		case "del":
			etcd.apply(c15Change{del: true, key: key})
		case "disconnect":
			up = false
			if conn != nil {
				for _, nm := range c15Faults(st["states"]) {
					if !conn.set(c15States[nm]) {
						return infra("state watcher did not observe " + nm)
					}
				}
				connDown = true
			}
		case "resume":
			up = true
		case "reload":
			for _, part := range parts {
				if kit.Bool(part["reval"]) {
					revalued = true
					revaluedReloads++
				}
			}
			mid := map[string][]c15Change{}
			for _, part := range parts {
				pp := c15Pfx(kit.Num(part["p"]))
				for _, m := range kit.List(part["mid"]) {
					mm := m.(map[string]any)
					k := kit.Str(mm["k"])
					mid[pp+"/"] = append(mid[pp+"/"], c15Change{del: kit.Str(mm["op"]) == "del", key: pp + "/" + c15Id(k), val: c15Val(c, k)})
				}
			}
			etcd.killWatchers()
			faults := c15Faults(st["faults"])
			etcd.mu.Lock()
			etcd.mid = mid
			etcd.faults, etcd.nHealthy, etcd.nExpired = faults, 0, 0
			etcd.mu.Unlock()
			before := etcd.watchCalls()
			etcd.mu.Lock()
			getsBefore := etcd.nGet
			etcd.mu.Unlock()
			listened := map[int]bool{}
			for _, s := range subs {
				listened[s.p] = true
			}
			if conn == nil {
				relDone := make(chan string, 1)
				go func() {
					defer func() {
						if r := recover(); r != nil {
							relDone <- fmt.Sprintf("%v\n%s", r, debug.Stack())
						}
					}()
					internal.VerifReload(endpoints, etcd)
					relDone <- ""
				}()
				select {
				case pm := <-relDone:
					if pm != "" {
						if where, ours := c15PanicWhere(pm); ours {
							return fail(i, "C15:panic:reload", fmt.Sprintf("step %d: %s panicked during the reload: %s [history %v]", i, where, pm, trail))
						}
						return infra("panic in the driver's reload: " + pm)
					}
				case <-time.After(c15Timeout):
					return stuckOr(i, "reload", "cluster.reload did not return", c15MarkReload)
				}
			} else {
				// the connection fails (unless the outage is already under way) and recovers through
				// the scripted states; the real stateWatcher must call the cluster's reload
				seq := c15Faults(st["states"])
				if connDown && len(seq) > 0 && (seq[0] == "TRANSIENT_FAILURE" || seq[0] == "SHUTDOWN") {
					seq = seq[1:]
				}
				for _, nm := range seq {
					if !conn.set(c15States[nm]) {
						return infra("state watcher did not observe " + nm)
					}
				}
				connDown = false
				if !kit.WaitFor(3*time.Second, func() bool { return etcd.watchCalls() >= before+len(listened) }) {
					etcd.mu.Lock()
					gets := etcd.nGet
					etcd.mu.Unlock()
					if etcd.watchCalls() == before && gets == getsBefore {
						return fail(i, "C15:reload:not-triggered", fmt.Sprintf("step %d: the connection went through %v (the state watcher observed each state) "+
							"but no reload followed within 3 s: no snapshot was requested, no watch restarted [history %v]", i, c15Faults(st["states"]), trail))
					}
				}
			}
			// one load+watch per listened key (prefix)
			if !kit.WaitFor(c15Bound(faults), func() bool { return etcd.watchCalls() >= before+len(listened) }) {
				if len(faults) > 0 {
					if msg, stuck := etcd.stuckAfterFaults(); stuck {
						etcd.heal()
						kit.WaitFor(c15Timeout, func() bool { return etcd.watchCalls() >= before+len(listened) })
						return fail(i, "C15:reload:never-completes", fmt.Sprintf("step %d (reload, Get faults %v, RequestTimeout %v): %s [history %v]",
							i, faults, internal.RequestTimeout, msg, trail))
					}
				}
				return stuckOr(i, "reload", "reload did not register a new watch per listened prefix", c15MarkReload, c15MarkLoad, c15MarkDiff)
			}
			// a change scripted between snapshot and watch whose snapshot was never taken still happens
			etcd.mu.Lock()
			for k, cs := range etcd.mid {
				for _, ch := range cs {
					etcd.applyLocked(ch)
				}
				delete(etcd.mid, k)
			}
			etcd.mu.Unlock()
			up = true
		case "attach", "attachfail":
			name := kit.Str(st["s"])
			s := &c15Sub{p: p, name: name, excl: kit.Bool(st["excl"])}
			if op == "attachfail" && reachable {
				return infra("generated history has a failing NewSubscriber after the registry became reachable")
			}
			if op == "attach" && !reachable {
				// the registry has come up: from now on the cluster's client is the scripted one
				internal.VerifSeedClient(endpoints, etcd)
				reachable = true
			}
			before, snapsBefore := etcd.watchCalls(), etcd.snapshots()
			var opts []discov.SubOption
			if s.excl {
				opts = append(opts, discov.Exclusive())
			}
			faults := c15Faults(st["faults"])
			etcd.mu.Lock()
			etcd.faults, etcd.nHealthy, etcd.nExpired = faults, 0, 0
			etcd.mu.Unlock()
			type subRes struct {
				sub   *discov.Subscriber
				err   error
				panic string
			}
			resCh := make(chan subRes, 1)
			go func() {
				defer func() {
					if r := recover(); r != nil {
						resCh <- subRes{panic: fmt.Sprintf("%v\n%s", r, debug.Stack())}
					}
				}()
				sub, err := discov.NewSubscriber(endpoints, pfx, opts...)
				resCh <- subRes{sub: sub, err: err}
			}()
			var sub *discov.Subscriber
			select {
			case r := <-resCh:
				if r.panic != "" {
					if where, ours := c15PanicWhere(r.panic); ours {
						return fail(i, "C15:panic:new-subscriber", fmt.Sprintf("step %d: %s panicked during NewSubscriber %s: %s [history %v]", i, where, name, r.panic, trail))
					}
					return infra("panic below NewSubscriber outside the code under test: " + r.panic)
				}
				if op == "attachfail" {
					if r.err == nil {
						premise = fmt.Sprintf("step %d: NewSubscriber returned no error although nothing listens at %v", i, endpoints)
					}
					failedAttempts++
					break
				}
				if r.err != nil {
					return infra("NewSubscriber: " + r.err.Error())
				}
				sub = r.sub
			case <-time.After(c15Bound(faults)):
				if len(faults) > 0 {
					if msg, stuck := etcd.stuckAfterFaults(); stuck {
						etcd.heal()
						select {
						case <-resCh:
						case <-time.After(c15Timeout):
						}
						return fail(i, "C15:load:never-completes", fmt.Sprintf("step %d (NewSubscriber %s, Get faults %v, RequestTimeout %v): %s [history %v]",
							i, name, faults, internal.RequestTimeout, msg, trail))
					}
				}
				return stuckOr(i, "new-subscriber", "NewSubscriber did not return", c15MarkNew)
			}
			if op == "attachfail" {
				break
			}
			s.sub = sub
			// "a subscriber that joins ... immediately sees the current set": compared before anything
			// else is delivered
			allowed, _ := c15Allowed(st["exp"].(map[string]any)[name])
			if got := c15Canon(sub.Values()); !c15In(got, allowed) {
				kind := "first"
				if retried {
					kind = "after-failed-attempt"
				}
				for _, o := range subs {
					if o.p == p {
						kind = "late"
					}
				}
				return fail(i, "C15:join-view:"+kind+":"+c15Mode(s.excl),
					fmt.Sprintf("step %d: subscriber %s (%s) right after NewSubscriber shows %s, specification admits %v [history %v]",
						i, name, c15Mode(s.excl), got, allowed, trail))
			}
			sub.AddListener(func() {
				s.mu.Lock()
				s.calls++
				s.mu.Unlock()
			})
			subs[fmt.Sprintf("%d/%s", p, name)] = s
			order = append(order, fmt.Sprintf("%d/%s", p, name))
			for r := 0; r < readers; r++ {
				rwg.Add(1)
				go func() {
					defer rwg.Done()
					for {
						select {
						case <-stopReaders:
							return
						default:
							sub.Values()
						}
					}
				}()
			}
			// every snapshot taken by NewSubscriber is the start of a watch (from its revision) that
			// the driver has to feed: wait for it.  A call that took no snapshot (a joiner served from
			// the cluster's cache alone) starts none; whether that subscriber then follows the registry
			// is for the comparisons to tell.  A watch that does not appear is not judged here either.
			snaps := etcd.snapshots() - snapsBefore
			if snaps > 1 {
				snaps = 1
			}
			if op == "attach" && retried {
				retriedAttach++
			}
			if !kit.WaitFor(c15Timeout, func() bool { return etcd.watchCalls() >= before+snaps }) {
				lateWatch = before + snaps
			}
		default:
			return infra("unknown op " + op)
		}
		if up {
			if err := etcd.pump(rng); err != nil {
				return stuckOr(i, "watch-delivery", err.Error(), c15MarkEvents, c15MarkDiff, c15MarkReload)
			}
		}
		etcd.mu.Lock()
		problems := append([]string(nil), etcd.problems...)
		etcd.mu.Unlock()
		if len(problems) > 0 {
			return infra(strings.Join(problems, "; "))
		}
		v.Steps++
		for _, part := range parts {
			exp, _ := part["exp"].(map[string]any)
			must, _ := part["must"].(map[string]any)
			for _, id := range order {
				s := subs[id]
				if s.p != kit.Num(part["p"]) {
					continue
				}
				name := s.name
				if len(c15Multi(c)) > 0 {
					name = c15Pfx(s.p) + ":" + s.name
				}
				allowed, _ := c15Allowed(exp[s.name])
				raw := s.sub.Values()
				got := c15Canon(raw)
				dup := false
				for a := range raw {
					for b := a + 1; b < len(raw); b++ {
						dup = dup || raw[a] == raw[b]
					}
				}
				if dup {
					return fail(i, "C15:duplicate-value:"+c15Mode(s.excl), fmt.Sprintf("step %d (%s): Values() of %s = %v lists a value twice", i, op, name, raw))
				}
				if !c15In(got, allowed) {
					kind := c15Kind(raw, exp[s.name])
					for _, g := range raw {
						if !c15KnownVal(g) {
							kind = "foreign-value" // a value no key under the subscriber's prefix ever carried
						}
					}
					return fail(i, valuesKey(kind, s, op),
						fmt.Sprintf("step %d (%s): Values() of %s (%s) = %s, specification admits %v [history %v]",
							i, op, name, c15Mode(s.excl), got, allowed, trail))
				}
				calls := s.listenerCalls()
				if kit.Bool(must[s.name]) && calls == s.seen {
					return fail(i, "C15:listener-not-run:after-"+op,
						fmt.Sprintf("step %d (%s): value list of %s changed to %s but its change listener did not run", i, op, name, got))
				}
				s.seen = calls
			}
		}
	}
	if premise != "" {
		return infra(premise)
	}
	return v
}

var c15Counts = map[string]int{}

// c15Pfx is the watched key of prefix number p ("svc" for single-prefix behaviours).
func c15Pfx(p int) string {
	if p == 0 {
		return c15Prefix
	}
	return fmt.Sprintf("%s%d", c15Prefix, p)
}

// c15Multi tells whether the case uses several prefixes (only for messages).
func c15Multi(c kit.Case) []int {
	for _, st := range c.Steps {
		if kit.Num(st["p"]) > 0 {
			return []int{1}
		}
	}
	return nil
}

// c15Val is the value a key carries: the case's first step may carry the table, otherwise the
// fixed convention of spec/DiscovGen configurations (VERIF_C15_VALOF = "k1=va,k2=va,k3=vb").
var c15ValTable map[string]string

func c15Val(_ kit.Case, k string) string {
	if c15ValTable == nil {
		c15ValTable = map[string]string{}
		for _, kv := range strings.Split(kit.Env("VERIF_C15_VALOF", ""), ",") {
			if p := strings.SplitN(kv, "=", 2); len(p) == 2 {
				c15ValTable[p[0]] = p[1]
			}
		}
	}
	if v, ok := c15ValTable[k]; ok {
		return v
	}
	panic("c15: no value for key " + k + " in VERIF_C15_VALOF")
}

// c15Id is the name in etcd of the key whose life k is (VERIF_C15_IDOF = "r1=k1,r3=k3": r1 is the
// key k1 registered again, with the value VERIF_C15_VALOF gives r1); by default the life's own name.
var c15IdTable map[string]string

func c15Id(k string) string {
	if c15IdTable == nil {
		c15IdTable = map[string]string{}
		for _, kv := range strings.Split(kit.Env("VERIF_C15_IDOF", ""), ",") {
			if p := strings.SplitN(kv, "=", 2); len(p) == 2 {
				c15IdTable[p[0]] = p[1]
			}
		}
	}
	if id, ok := c15IdTable[k]; ok {
		return id
	}
	return k
}

func c15Faults(v any) []string {
	var out []string
	for _, x := range kit.List(v) {
		out = append(out, kit.Str(x))
	}
	return out
}

// c15Bound is how long a load may take: every fault costs at most the request time-out plus
// the one-second cool-down before the retry; then a generous margin.
func c15Bound(faults []string) time.Duration {
	if len(faults) == 0 {
		return c15Timeout
	}
	return time.Duration(len(faults))*(internal.RequestTimeout+time.Second) + 6*time.Second
}

// stuckAfterFaults tells a load that cannot finish from a stalled machine: the faults are used
// up, the cluster kept calling Get afterwards (so it is running), and every such call came with
// a request context that was already done.
func (f *c15Etcd) stuckAfterFaults() (string, bool) {
	f.mu.Lock()
	defer f.mu.Unlock()
	if len(f.faults) > 0 || f.nHealthy < 2 || f.nExpired != f.nHealthy {
		return "", false
	}
	return fmt.Sprintf("the registry answers again, but load never finished: %d further Get calls all carried a request context that was already done "+
		"(snapshot never applied, watch never restarted)", f.nHealthy), true
}

func (f *c15Etcd) heal() {
	f.mu.Lock()
	f.ignoreCtx = true
	f.mu.Unlock()
}

func c15Mid(v any) string {
	var out []string
	for _, m := range kit.List(v) {
		mm := m.(map[string]any)
		out = append(out, kit.Str(mm["op"])+":"+kit.Str(mm["k"]))
	}
	if len(out) == 0 {
		return ""
	}
	return "(then, before the new watch: " + strings.Join(out, ",") + ")"
}

func c15KnownVal(v string) bool {
	c15Val(kit.Case{}, "k1")
	for _, x := range c15ValTable {
		if x == v {
			return true
		}
	}
	return false
}

func c15In(got string, allowed []string) bool {
	for _, a := range allowed {
		if a == got {
			return true
		}
	}
	return false
}

// c15Kind classifies a wrong value list against the admitted sets: a value no admitted set
// contains is stale, otherwise a value every admitted set contains is missing.
func c15Kind(got []string, exp any) string {
	_, sets := c15Allowed(exp)
	inAny := map[string]bool{}
	inAll := map[string]int{}
	for _, s := range sets {
		for _, x := range s {
			inAny[x] = true
			inAll[x]++
		}
	}
	have := map[string]bool{}
	for _, g := range got {
		have[g] = true
		if !inAny[g] {
			return "stale-value"
		}
	}
	for x, n := range inAll {
		if n == len(sets) && !have[x] {
			return "missing-value"
		}
	}
	return "wrong-combination"
}

func TestVerifC15(t *testing.T) {
	logx.SetWriter(c15Logger)
	if ms := kit.EnvInt("VERIF_C15_DIAL_TIMEOUT_MS", 0); ms > 0 {
		// exported package variable (default 5 s): how long a NewSubscriber on a registry that cannot
		// be reached takes to fail; nothing ever listens at those endpoints, so the outcome does not
		// depend on the value
		old := internal.DialTimeout
		internal.DialTimeout = time.Duration(ms) * time.Millisecond
		defer func() { internal.DialTimeout = old }()
	}
	if ms := kit.EnvInt("VERIF_C15_REQ_TIMEOUT_MS", 0); ms > 0 {
		// exported package variable (default 3 s): shortened for the Get-fault cases so that a
		// blocking Get costs little real time
		old := internal.RequestTimeout
		internal.RequestTimeout = time.Duration(ms) * time.Millisecond
		defer func() { internal.RequestTimeout = old }()
	}
	rep, err := kit.NewReporter(kit.Env("VERIF_OUT", ""))
	if err != nil {
		t.Fatal(err)
	}
	defer rep.Close()
	shard, shards := kit.EnvInt("VERIF_SHARD", 0), kit.EnvInt("VERIF_SHARDS", 1)
	// like kit.LoadCases, but a shard decodes only its own lines (case files of several 10^5 lines)
	f, err := os.Open(kit.Env("VERIF_CASES", ""))
	if err != nil {
		t.Fatal(err)
	}
	defer f.Close()
	sc := bufio.NewScanner(f)
	sc.Buffer(make([]byte, 1<<20), 1<<26)
	cur, nInfra := kit.Env("VERIF_OUT", "")+".cur", 0
	curF, err := os.Create(cur)
	if err != nil {
		t.Fatal(err)
	}
	for i := 0; sc.Scan(); {
		line := sc.Bytes()
		if len(line) == 0 {
			continue
		}
		idx := i
		i++
		if idx%shards != shard {
			continue
		}
		c := kit.Case{Index: idx, Raw: append([]byte(nil), line...)}
		if err := json.Unmarshal(line, &c.Steps); err != nil {
			t.Fatalf("case %d: %v", idx, err)
		}
		// the case being replayed, for attributing a crash of the process (a panic of the code under
		// test on one of its own goroutines) to it
		curF.WriteAt([]byte(fmt.Sprintf("%-12d", idx)), 0)
		vd := runC15Case(c)
		rep.Put(vd)
		if strings.HasPrefix(vd.Key, "C15:hang:") {
			break // the stuck goroutines of the code under test stay behind in this process
		}
		if vd.Infra || strings.HasSuffix(vd.Key, ":never-completes") {
			// harness trouble does not go away by repeating it a thousand times, and a load that never
			// completes costs a time-out each time
			if nInfra++; nInfra >= 3 {
				break
			}
		}
	}
	curF.Close()
	os.Remove(cur)
	for k, n := range c15Counts {
		rep.Count(k, n)
	}
	if err := sc.Err(); err != nil {
		t.Fatal(err)
	}
}

// TestVerifC15Probe measures (does not judge) two behaviours outside the generated histories;
// checks/c15.py copies the result into the evidence notes.
//
//	revalue: a key is deleted and re-created with another value while the watch is down, so
//	         the reload snapshot shows the key with a changed value.
func TestVerifC15Probe(t *testing.T) {
	logx.SetWriter(c15Logger)
	rng := rand.New(rand.NewSource(kit.Seed()))
	endpoints := []string{"verif-c15-probe:2379"}
	etcd := newC15Etcd()
	internal.VerifSeedClient(endpoints, etcd)
	defer internal.VerifDrop(endpoints)
	etcd.apply(c15Change{key: c15Prefix + "/k1", val: "va"})
	sub, err := discov.NewSubscriber(endpoints, c15Prefix)
	if err != nil {
		t.Fatal(err)
	}
	if !kit.WaitFor(c15Timeout, func() bool { return etcd.watchCalls() >= 1 }) {
		t.Fatal("no watch registered")
	}
	if err := etcd.pump(rng); err != nil {
		t.Fatal(err)
	}
	before := c15Canon(sub.Values())
	// outage: k1 expires and is re-registered with value vb
	etcd.apply(c15Change{del: true, key: c15Prefix + "/k1"})
	etcd.apply(c15Change{key: c15Prefix + "/k1", val: "vb"})
	etcd.killWatchers()
	internal.VerifReload(endpoints, etcd)
	if !kit.WaitFor(c15Timeout, func() bool { return etcd.watchCalls() >= 2 }) {
		t.Fatal("no watch registered after reload")
	}
	if err := etcd.pump(rng); err != nil {
		t.Fatal(err)
	}
	out := kit.M{"revalue": kit.M{"before": before, "after_reload": c15Canon(sub.Values()), "etcd": "{vb}"}}
	b, _ := json.Marshal(out)
	if err := os.WriteFile(kit.Env("VERIF_C15_PROBE_OUT", os.TempDir()+"/c15probe.json"), b, 0o644); err != nil {
		t.Fatal(err)
	}
}

// TestVerifC15StateWatcher replays the state sequences of spec/DiscovConn.tla on the real
// stateWatcher alone (through internal.VerifNewStateWatcher): after every state the watcher has
// observed, the number of listener notifications must equal the specification's count.
func TestVerifC15StateWatcher(t *testing.T) {
	logx.SetWriter(c15Logger)
	rep, err := kit.NewReporter(kit.Env("VERIF_OUT", ""))
	if err != nil {
		t.Fatal(err)
	}
	defer rep.Close()
	cases, err := kit.LoadCases(kit.Env("VERIF_CASES", ""))
	if err != nil {
		t.Fatal(err)
	}
	shard, shards := kit.EnvInt("VERIF_SHARD", 0), kit.EnvInt("VERIF_SHARDS", 1)
	for _, c := range cases {
		if c.Index%shards != shard {
			continue
		}
		v := kit.Verdict{Case: c.Index, OK: true}
		var notes atomic.Int64
		var seq []string
		conn := newC15Conn(c15States[kit.Str(c.Steps[0]["s"])])
		internal.VerifNewStateWatcher(conn, func() { notes.Add(1) })
		if !kit.WaitFor(c15Timeout, func() bool { conn.mu.Lock(); defer conn.mu.Unlock(); return conn.waits > 0 }) {
			rep.Put(kit.Verdict{Case: c.Index, Infra: true, Msg: "state watcher did not start"})
			continue
		}
		for i, st := range c.Steps {
			name := kit.Str(st["s"])
			seq = append(seq, name)
			if i > 0 && !conn.set(c15States[name]) {
				v = kit.Verdict{Case: c.Index, Infra: true, Msg: "state watcher did not observe " + name}
				break
			}
			v.Steps++
			if got, want := int(notes.Load()), kit.Num(st["n"]); got != want {
				kind := "missing"
				if got > want {
					kind = "extra"
				}
				v.OK, v.Step, v.Key = false, i, "C15:statewatcher:"+kind+"-notification"
				v.Msg = fmt.Sprintf("connection states %v: listeners notified %d times, specification %d (once per outage, when READY is reached again)", seq, got, want)
				break
			}
		}
		rep.Put(v)
	}
}
