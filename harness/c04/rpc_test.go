package serverinterceptors

// Replay driver for property C04, RPC authentication (overlaid into
// /repo/rpc/internal/serverinterceptors by /verif/bin/check).
//
// Behaviours of spec/AuthRpcGen.tla: a configuration step (strict, unary or stream, initial
// store) followed by calls and store changes between them ("settoken": HSET / HDEL of app a1,
// "down": the store answers every command with an error, "up": it works again).  The real
// auth.NewAuthenticator runs over a miniredis store behind the real Unary/Stream
// AuthorizeInterceptor; the verdict is whether the inner handler ran and whether an error
// status came back, compared with the specification's admit / reject / either.

import (
	"context"
	"fmt"
	"testing"

	"github.com/alicebob/miniredis/v2"
	kit "github.com/gotid/god/internal/verifkit"
	"github.com/gotid/god/lib/logx"
	"github.com/gotid/god/lib/store/redis"
	"github.com/gotid/god/rpc/internal/auth"
	"google.golang.org/grpc"
	"google.golang.org/grpc/codes"
	"google.golang.org/grpc/metadata"
	"google.golang.org/grpc/status"
)

type c04Stream struct {
	grpc.ServerStream
	ctx context.Context
}

func (s c04Stream) Context() context.Context { return s.ctx }

func runRpcCase(c kit.Case, mr *miniredis.Miniredis) (v kit.Verdict) {
	v = kit.Verdict{Case: c.Index, OK: true}
	inf := func(msg string) kit.Verdict { return kit.Verdict{Case: c.Index, Infra: true, Msg: msg} }
	cfg := c.Steps[0]
	strict, kind := kit.Bool(cfg["strict"]), kit.Str(cfg["kind"])
	// one store process-wide (thousands of listeners would exhaust the ephemeral ports); every
	// behaviour starts from a flushed store, a fresh redis.Redis (fresh breaker) and a fresh
	// Authenticator (fresh cache)
	const hashKey = "c04:apps"
	const downMsg = "ERR c04 store failure"
	mr.SetError("")
	mr.FlushAll()
	store := "up"
	if t := kit.Str(cfg["token"]); t != "" {
		mr.HSet(hashKey, "a1", t)
	}
	if !kit.Bool(cfg["up"]) {
		mr.SetError(downMsg)
		store = "down"
	}
	a, err := auth.NewAuthenticator(redis.New(mr.Addr()), hashKey, strict)
	if err != nil {
		return inf(err.Error())
	}
	unary, stream := UnaryAuthorizeInterceptor(a), StreamAuthorizeInterceptor(a)
	for i, st := range c.Steps[1:] {
		switch kit.Str(st["op"]) {
		case "rpc":
		case "settoken":
			// the environment writes while the store is reachable for it (the error switch only
			// affects the authenticator's client commands)
			if t := kit.Str(st["token"]); t == "" {
				mr.HDel(hashKey, kit.Str(st["app"]))
			} else {
				mr.HSet(hashKey, kit.Str(st["app"]), t)
			}
			continue
		case "down":
			mr.SetError(downMsg)
			store = "down"
			continue
		case "up":
			mr.SetError("")
			store = "up"
			continue
		default:
			return inf("unknown step " + kit.Canon(st))
		}
		app, tok := kit.Str(st["app"]), kit.Str(st["token"])
		ctx := context.Background()
		if app != "absent" || tok != "absent" {
			md := metadata.MD{}
			if app != "absent" {
				md.Set("app", app)
			}
			if tok != "absent" {
				md.Set("token", tok)
			}
			ctx = metadata.NewIncomingContext(ctx, md)
		}
		ran := 0
		var gotErr error
		var resp any
		switch kind {
		case "unary":
			resp, gotErr = unary(ctx, "req", &grpc.UnaryServerInfo{FullMethod: "/c04.Svc/Call"},
				func(ctx context.Context, req any) (any, error) {
					ran++
					return "reply", nil
				})
		case "stream":
			gotErr = stream(nil, c04Stream{ctx: ctx}, &grpc.StreamServerInfo{FullMethod: "/c04.Svc/Stream"},
				func(srv any, ss grpc.ServerStream) error {
					ran++
					return nil
				})
			resp = "reply"
		default:
			return inf("unknown kind " + kind)
		}
		v.Steps++
		admitted := ran == 1 && gotErr == nil && resp == "reply"
		rejected := ran == 0 && gotErr != nil && status.Code(gotErr) != codes.OK
		expect := kit.Str(st["expect"])
		what := ""
		switch {
		case !admitted && !rejected:
			what = "neither-admit-nor-reject"
		case expect == "reject" && admitted:
			what = "admitted-invalid"
		case expect == "admit" && rejected:
			what = "rejected-valid"
		}
		if what != "" {
			v.OK, v.Step = false, i+1
			mode := map[bool]string{true: "strict", false: "lenient"}[strict]
			v.Key = fmt.Sprintf("C04:rpc:%s:%s:store-%s", what, mode, store)
			if now := kit.Str(st["now"]); now != "fail" && now != "none" {
				v.Key = fmt.Sprintf("C04:rpc:%s:%s:store-has-token", what, mode)
			}
			if len(kit.List(st["cached"])) == 0 && i > 0 {
				v.Key += ":after-earlier-calls"
			}
			v.Msg = fmt.Sprintf("%s interceptor, strict=%v, step %d app=%q token=%q; store now: %s, tokens a cache may hold from earlier successful lookups: %s: handler ran %d times, err=%v; specification: %s (history %s)",
				kind, strict, i+1, app, tok, kit.Str(st["now"]), kit.Canon(st["cached"]), ran, gotErr, expect, kit.Canon(c.Steps[:i+2]))
			return v
		}
	}
	return v
}

func TestVerifC04Rpc(t *testing.T) {
	logx.Disable()
	cases, err := kit.LoadCases(kit.Env("VERIF_CASES", ""))
	if err != nil {
		t.Fatal(err)
	}
	rep, err := kit.NewReporter(kit.Env("VERIF_OUT", ""))
	if err != nil {
		t.Fatal(err)
	}
	defer rep.Close()
	mr, err := miniredis.Run()
	if err != nil {
		t.Fatal(err)
	}
	defer mr.Close()
	shard, shards := kit.EnvInt("VERIF_SHARD", 0), kit.EnvInt("VERIF_SHARDS", 1)
	for _, c := range cases {
		if c.Index%shards != shard || len(c.Steps) == 0 {
			continue
		}
		rep.Put(runRpcCase(c, mr))
	}
}
