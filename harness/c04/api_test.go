package api

// Replay driver for property C04, HTTP gates (overlaid into /repo/api by /verif/bin/check).
//
// The gates are exercised as composed by the engine: a Server is built with the public
// constructors (NewServer, AddRoute(s) with WithJwt / WithJwtTransition / WithSignature), its
// routes are bound with the engine's own bindRoutes (what Start does before listening) and
// requests are served through the bound router.  The driver plays the honest client and the
// attacker: it mints real JWTs (golang-jwt) and real X-Content-Security headers (crypto/rsa,
// crypto/hmac: the wire protocol, not the repository's helpers) for the symbolic classes of
// spec/AuthJwt.tla and spec/AuthSig.tla.  Verdicts: whether the handler ran, the status, and
// the claims visible in the request context - compared with the specification's prediction.
// The server-level options the gates inherit from the engine are dimensions of the scenarios: the
// unauthorized callback of the JWT gate (api.WithUnauthorizedCallback: none / writes nothing /
// sets a header only / writes 401 itself) and, for the signature gate, the key layout of the
// server (one or two signature-protected route groups, built from the `conf` of the case).
// Route groups that carry BOTH gates (spec/AuthBoth.tla, the composition of the two specifications)
// are driven with a token class and a signed/altered request class at once: runBothCase.

import (
	"crypto/hmac"
	"crypto/rand"
	"crypto/rsa"
	"crypto/sha256"
	"crypto/x509"
	"encoding/base64"
	"encoding/json"
	"encoding/pem"
	"fmt"
	"io"
	"math"
	mrand "math/rand"
	"net/http"
	"net/http/httptest"
	"os"
	"path/filepath"
	"sort"
	"strconv"
	"strings"
	"sync"
	"sync/atomic"
	"testing"
	"time"

	"github.com/golang-jwt/jwt/v4"
	"github.com/gotid/god/api/chain"
	kit "github.com/gotid/god/internal/verifkit"
	"github.com/gotid/god/lib/logx"
	"github.com/gotid/god/lib/timex"
)

func c04Infra(c kit.Case, msg string) kit.Verdict {
	return kit.Verdict{Case: c.Index, Infra: true, Msg: msg}
}

// ---------------------------------------------------------------- JWT

var c04Secrets = map[string]string{
	"cur":   "c04-current-secret-0001",
	"prev":  "c04-previous-secret-0002",
	"other": "c04-unrelated-secret-0003",
}

var c04Registered = []string{"aud", "exp", "jti", "iat", "iss", "nbf", "sub"}

func b64url(b []byte) string { return base64.RawURLEncoding.EncodeToString(b) }

// mintToken builds the Authorization header value ("" = no header) for a token class.
func mintToken(tok kit.M, cfg string, uid int) (string, error) {
	key := kit.Str(tok["key"])
	secret := c04Secrets[key]
	if cfg == "same" && key == "prev" {
		secret = c04Secrets["cur"] // prev and cur are one secret in this configuration
	}
	now := time.Now().Unix()
	claims := jwt.MapClaims{}
	switch kit.Str(tok["time"]) {
	case "valid":
		claims["exp"], claims["nbf"] = now+3600, now-3600
	case "expired":
		claims["exp"], claims["nbf"] = now-3600, now-7200
	case "notyet":
		claims["exp"], claims["nbf"] = now+7200, now+3600
	case "noclaims":
	default:
		return "", fmt.Errorf("unknown time class %v", tok["time"])
	}
	switch kit.Str(tok["claims"]) {
	case "none":
	case "custom":
		claims["uid"], claims["role"] = uid, "admin"
	case "mixed":
		claims["uid"], claims["role"] = uid, "admin"
		claims["sub"], claims["iss"], claims["aud"], claims["jti"] = "subject", "issuer", "audience", "id-1"
		if kit.Str(tok["time"]) != "noclaims" {
			claims["iat"] = now - 60
		}
	default:
		return "", fmt.Errorf("unknown claims class %v", tok["claims"])
	}
	var signed string
	var err error
	switch alg := kit.Str(tok["alg"]); alg {
	case "HS256", "HS384", "HS512":
		signed, err = jwt.NewWithClaims(jwt.GetSigningMethod(alg), claims).SignedString([]byte(secret))
	case "none":
		signed, err = jwt.NewWithClaims(jwt.SigningMethodNone, claims).SignedString(jwt.UnsafeAllowNoneSignatureType)
	case "RS256hdr":
		payload, _ := json.Marshal(claims)
		ss := b64url([]byte(`{"alg":"RS256","typ":"JWT"}`)) + "." + b64url(payload)
		m := hmac.New(sha256.New, []byte(secret))
		m.Write([]byte(ss))
		signed = ss + "." + b64url(m.Sum(nil))
	case "badsig":
		signed, err = jwt.NewWithClaims(jwt.SigningMethodHS256, claims).SignedString([]byte(secret))
		if err == nil {
			i := strings.LastIndexByte(signed, '.') + 1
			repl := byte('A')
			if signed[i] == 'A' {
				repl = 'B'
			}
			signed = signed[:i] + string(repl) + signed[i+1:]
		}
	default:
		return "", fmt.Errorf("unknown alg class %v", tok["alg"])
	}
	if err != nil {
		return "", err
	}
	switch kit.Str(tok["shape"]) {
	case "bearer":
		return "Bearer " + signed, nil
	case "malformed":
		return "Bearer " + signed[:strings.IndexByte(signed, '.')] + ".garbage", nil
	case "missing":
		return "", nil
	case "wrongscheme":
		return "Basic " + signed, nil
	}
	return "", fmt.Errorf("unknown shape %v", tok["shape"])
}

func tokClass(tok kit.M) string {
	return fmt.Sprintf("%s/%s/%s/%s/%s", kit.Str(tok["shape"]), kit.Str(tok["key"]), kit.Str(tok["alg"]),
		kit.Str(tok["time"]), kit.Str(tok["claims"]))
}

// coverage counters of the driver (flushed into the reporter by the entry points)
var (
	c04CountMu sync.Mutex
	c04Counts  = map[string]int{}
)

func c04Count(name string, n int) {
	c04CountMu.Lock()
	c04Counts[name] += n
	c04CountMu.Unlock()
}

func c04FlushCounts(rep *kit.Reporter) {
	c04CountMu.Lock()
	defer c04CountMu.Unlock()
	for k, n := range c04Counts {
		rep.Count(k, n)
	}
	c04Counts = map[string]int{}
}

// c04Callback is the unauthorized callback of kind cb (spec/AuthJwt.tla, variable cb) as a server
// option (nil for "none"); calls counts its invocations.
func c04Callback(cb string, calls *atomic.Int64) ([]Option, error) {
	switch cb {
	case "none", "":
		return nil, nil
	case "silent": // e.g. a callback that only logs or counts
		return []Option{WithUnauthorizedCallback(func(w http.ResponseWriter, r *http.Request, err error) {
			calls.Add(1)
		})}, nil
	case "header":
		return []Option{WithUnauthorizedCallback(func(w http.ResponseWriter, r *http.Request, err error) {
			calls.Add(1)
			w.Header().Set("WWW-Authenticate", `Bearer realm="c04"`)
		})}, nil
	case "writes401":
		return []Option{WithUnauthorizedCallback(func(w http.ResponseWriter, r *http.Request, err error) {
			calls.Add(1)
			w.Header().Set("Content-Type", "application/json")
			w.WriteHeader(http.StatusUnauthorized)
			w.Write([]byte(`{"error":"unauthorized"}`))
		})}, nil
	}
	return nil, fmt.Errorf("unknown unauthorized-callback kind %q", cb)
}

// denyStatus is the status the specification predicts for a request that is not admitted.
func denyStatus(st kit.M) int {
	if n := kit.Num(st["deny_status"]); n != 0 {
		return n
	}
	return http.StatusUnauthorized // cases recorded before the field existed
}

// c04Server builds a server the way the scenario says: "default" (built-in chain), "chain"
// (api.WithChain with a custom chain of one pass-through middleware), "use" (built-in chain plus
// a Server.Use middleware), "chain+use".
func c04Server(kind string, opts ...Option) (*Server, error) {
	pass := func(next http.Handler) http.Handler {
		return http.HandlerFunc(func(w http.ResponseWriter, r *http.Request) { next.ServeHTTP(w, r) })
	}
	switch kind {
	case "default", "use", "":
	case "chain", "chain+use":
		opts = append(opts, WithChain(chain.New(pass)))
	default:
		return nil, fmt.Errorf("unknown server construction %q", kind)
	}
	srv, err := NewServer(Config{Host: "127.0.0.1", Port: 0}, opts...)
	if err != nil {
		return nil, err
	}
	if kind == "use" || kind == "chain+use" {
		srv.Use(func(next http.HandlerFunc) http.HandlerFunc {
			return func(w http.ResponseWriter, r *http.Request) { next(w, r) }
		})
	}
	return srv, nil
}

func runJwtCase(c kit.Case, clock *kit.Clock) (v kit.Verdict) {
	v = kit.Verdict{Case: c.Index, OK: true}
	cfg := kit.Str(c.Steps[0]["cfg"])
	server := kit.Str(c.Steps[0]["server"])
	cb := kit.Str(c.Steps[0]["cb"])
	var cbCalls atomic.Int64
	cbOpts, err := c04Callback(cb, &cbCalls)
	if err != nil {
		return c04Infra(c, err.Error())
	}
	srv, err := c04Server(server, cbOpts...)
	if err != nil {
		return c04Infra(c, err.Error())
	}
	ran := 0
	var seen map[string]any
	keys := append([]string{"uid", "role"}, c04Registered...)
	h := func(w http.ResponseWriter, r *http.Request) {
		ran++
		seen = map[string]any{}
		for _, k := range keys {
			if val := r.Context().Value(k); val != nil {
				seen[k] = val
			}
		}
		w.WriteHeader(http.StatusOK)
	}
	var opt RouteOption
	switch cfg {
	case "single":
		opt = WithJwt(c04Secrets["cur"])
	case "transition":
		opt = WithJwtTransition(c04Secrets["cur"], c04Secrets["prev"])
	case "same":
		opt = WithJwtTransition(c04Secrets["cur"], c04Secrets["cur"])
	default:
		return c04Infra(c, "unknown cfg "+cfg)
	}
	srv.AddRoute(Route{Method: http.MethodGet, Path: "/c04/jwt", Handler: h}, opt)
	if err := srv.ng.bindRoutes(srv.router); err != nil {
		return c04Infra(c, "bindRoutes: "+err.Error())
	}
	for i, st := range c.Steps[1:] {
		switch kit.Str(st["op"]) {
		case "advance":
			clock.Advance(time.Duration(kit.Num(st["hours"])) * time.Hour)
			continue
		case "jwt":
		default:
			return c04Infra(c, "unknown step "+kit.Canon(st))
		}
		tok := st["tok"].(map[string]any)
		hdr, err := mintToken(tok, cfg, 42)
		if err != nil {
			return c04Infra(c, err.Error())
		}
		req := httptest.NewRequest(http.MethodGet, "/c04/jwt", nil)
		if hdr != "" {
			req.Header.Set("Authorization", hdr)
		}
		rec := httptest.NewRecorder()
		ran, seen = 0, nil
		srv.router.ServeHTTP(rec, req)
		v.Steps++
		expect := kit.Str(st["expect"])
		admitted := ran == 1 && rec.Code == http.StatusOK
		denied := ran == 0 && rec.Code == denyStatus(st)
		fail := func(what, msg string) kit.Verdict {
			v.OK, v.Step = false, i+1
			v.Key = "C04:jwt:" + what
			if cb != "none" && cb != "" {
				v.Key += ":callback-" + cb
			}
			if server != "default" && server != "" {
				v.Key += ":server-" + server
			}
			v.Msg = fmt.Sprintf("server=%s cfg=%s unauthorized-callback=%s request #%d token %s: %s (handler ran %d times, status %d, callback called %d times)",
				server, cfg, cb, i+1, tokClass(tok), msg, ran, rec.Code, cbCalls.Load())
			return v
		}
		switch {
		case !admitted && !denied:
			return fail("neither-admit-nor-401", fmt.Sprintf("the gate neither ran the handler with 200 nor answered %d without running it", denyStatus(st)))
		case expect == "deny" && admitted:
			return fail("admitted-invalid", "specification: 401 and handler not run")
		case expect == "admit" && denied:
			return fail("rejected-valid", "specification: handler runs")
		}
		if denied {
			c04Count("jwt.denied.cb-"+cb, 1)
			if cbCalls.Swap(0) > 0 {
				c04Count("jwt.denied-callback-called.cb-"+cb, 1)
			}
		}
		if admitted {
			for _, k := range kit.List(st["visible"]) {
				name := kit.Str(k)
				want := map[string]string{"uid": "42", "role": "admin"}[name]
				if got := fmt.Sprint(seen[name]); seen[name] == nil || got != want {
					return fail("claim-missing", fmt.Sprintf("claim %q in context = %v, specification %q", name, seen[name], want))
				}
			}
			for _, k := range kit.List(st["hidden"]) {
				if val, ok := seen[kit.Str(k)]; ok {
					return fail("registered-claim-visible", fmt.Sprintf("registered claim %q visible in context (%v)", kit.Str(k), val))
				}
			}
			vis := map[string]bool{}
			for _, k := range kit.List(st["visible"]) {
				vis[kit.Str(k)] = true
			}
			for k := range seen {
				if !vis[k] {
					return fail("extra-claim", fmt.Sprintf("context shows %q which the token does not carry", k))
				}
			}
		}
	}
	return v
}

// ---------------------------------------------------------------- JWT, concurrent stage

// TestVerifC04JwtConc replays behaviours of spec/AuthJwtGen.tla concurrently against ONE route
// (one parser shared by all requests, as in a running server): goroutine g replays the cases
// with Index % G == g, round after round, until VERIF_CONC_MIN requests have been judged.  Every
// request is judged by its own step of the specification; tokens carry a uid that is unique per
// request and the handler echoes the claims it sees, so "its own claims" is checked too.
func TestVerifC04JwtConc(t *testing.T) {
	logx.Disable()
	cases, err := kit.LoadCases(kit.Env("VERIF_CASES", ""))
	if err != nil {
		t.Fatal(err)
	}
	rep, err := kit.NewReporter(kit.Env("VERIF_OUT", ""))
	if err != nil {
		t.Fatal(err)
	}
	defer rep.Close()
	clock := kit.NewClock()
	timex.SetVerifClock(clock.Now)
	defer timex.SetVerifClock(nil)
	if len(cases) == 0 {
		t.Fatal("no cases")
	}
	cfg := kit.Str(cases[0].Steps[0]["cfg"])
	cb := kit.Str(cases[0].Steps[0]["cb"])
	var cbCalls atomic.Int64
	cbOpts, err := c04Callback(cb, &cbCalls)
	if err != nil {
		t.Fatal(err)
	}
	srv, err := c04Server(kit.Str(cases[0].Steps[0]["server"]), cbOpts...)
	if err != nil {
		t.Fatal(err)
	}
	var ranTotal atomic.Int64
	h := func(w http.ResponseWriter, r *http.Request) {
		ranTotal.Add(1)
		w.Header().Set("X-Ran", "1")
		for _, k := range append([]string{"uid", "role"}, c04Registered...) {
			if val := r.Context().Value(k); val != nil {
				w.Header().Set("X-Claim-"+k, fmt.Sprint(val))
			}
		}
		w.WriteHeader(http.StatusOK)
	}
	var opt RouteOption
	switch cfg {
	case "transition":
		opt = WithJwtTransition(c04Secrets["cur"], c04Secrets["prev"])
	case "single":
		opt = WithJwt(c04Secrets["cur"])
	default:
		t.Fatal("concurrent stage: unexpected cfg " + cfg)
	}
	srv.AddRoute(Route{Method: http.MethodGet, Path: "/c04/jwt", Handler: h}, opt)
	if err := srv.ng.bindRoutes(srv.router); err != nil {
		t.Fatal(err)
	}
	G := kit.EnvInt("VERIF_CONC_G", 8)
	minReq := int64(kit.EnvInt("VERIF_CONC_MIN", 20000))
	var judged atomic.Int64
	var uidSeq atomic.Int64
	var mu sync.Mutex
	verdicts := make([]kit.Verdict, len(cases))
	for i := range verdicts {
		verdicts[i] = kit.Verdict{Case: cases[i].Index, OK: true}
	}
	fail := func(ci, step int, what, msg string) {
		mu.Lock()
		if verdicts[ci].OK {
			verdicts[ci].OK, verdicts[ci].Step = false, step
			verdicts[ci].Key = "C04:jwt:concurrent:" + what
			verdicts[ci].Msg = msg
		}
		mu.Unlock()
	}
	var wg sync.WaitGroup
	for g := 0; g < G; g++ {
		wg.Add(1)
		go func(g int) {
			defer wg.Done()
			for judged.Load() < minReq {
				for ci := g; ci < len(cases); ci += G {
					c := cases[ci]
					if kit.Str(c.Steps[0]["cfg"]) != cfg || kit.Str(c.Steps[0]["cb"]) != cb {
						fail(ci, 0, "harness", "mixed configurations in the concurrent stage")
						continue
					}
					n := 0
					for i, st := range c.Steps[1:] {
						if kit.Str(st["op"]) != "jwt" {
							continue // clock steps make no sense while other requests are in flight
						}
						tok := st["tok"].(map[string]any)
						uid := int(uidSeq.Add(1))
						hdr, err := mintToken(tok, cfg, uid)
						if err != nil {
							fail(ci, i+1, "harness", err.Error())
							continue
						}
						req := httptest.NewRequest(http.MethodGet, "/c04/jwt", nil)
						if hdr != "" {
							req.Header.Set("Authorization", hdr)
						}
						rec := httptest.NewRecorder()
						srv.router.ServeHTTP(rec, req)
						n++
						judged.Add(1)
						ran := rec.Header().Get("X-Ran") == "1"
						admitted := ran && rec.Code == http.StatusOK
						denied := !ran && rec.Code == denyStatus(st)
						where := fmt.Sprintf("%d goroutines on one route (cfg=%s, unauthorized-callback=%s), token %s uid=%d: handler ran=%v status %d", G, cfg, cb, tokClass(tok), uid, ran, rec.Code)
						switch expect := kit.Str(st["expect"]); {
						case !admitted && !denied:
							fail(ci, i+1, "neither-admit-nor-401", where)
						case expect == "deny" && admitted:
							fail(ci, i+1, "admitted-invalid", where+"; specification: 401 and handler not run")
						case expect == "admit" && denied:
							fail(ci, i+1, "rejected-valid", where+"; specification: handler runs")
						}
						if admitted {
							for _, k := range kit.List(st["visible"]) {
								name := kit.Str(k)
								want := map[string]string{"uid": strconv.Itoa(uid), "role": "admin"}[name]
								if got := rec.Header().Get("X-Claim-" + name); got != want {
									fail(ci, i+1, "wrong-claims", fmt.Sprintf("%s; claim %q in context = %q, the request's own token says %q", where, name, got, want))
								}
							}
							for _, k := range kit.List(st["hidden"]) {
								if got := rec.Header().Get("X-Claim-" + kit.Str(k)); got != "" {
									fail(ci, i+1, "wrong-claims", fmt.Sprintf("%s; registered claim %q visible (%s)", where, kit.Str(k), got))
								}
							}
						}
					}
					mu.Lock()
					verdicts[ci].Steps += n
					mu.Unlock()
				}
			}
		}(g)
	}
	wg.Wait()
	for _, v := range verdicts {
		if v.Steps > 0 || !v.OK {
			rep.Put(v)
		}
	}
	rep.Count("conc.requests", int(judged.Load()))
	rep.Count("conc.goroutines", G)
	rep.Count("conc.callback-calls.cb-"+cb, int(cbCalls.Load()))
}

// ---------------------------------------------------------------- signature

const c04Tol = 3 // seconds of tolerance configured for the signed routes
const c04Half = 1 // "half the tolerance" in whole seconds

type c04Keys struct {
	priv  map[string]*rsa.PrivateKey // RSA key name of the specification ("KA", "KB") -> key
	files map[string]string
}

// the fingerprint names of the specification as they go over the wire ("fx": configured nowhere)
var c04FpWire = map[string]string{"fa": "c04-fingerprint-A", "fb": "c04-fingerprint-B", "fx": "c04-nobody"}

func newC04Keys(dir string) (*c04Keys, error) {
	k := &c04Keys{priv: map[string]*rsa.PrivateKey{}, files: map[string]string{}}
	// the two configured keys have different sizes: the payload of one RSA block (k-11 bytes) and the
	// block length k of the chunked scheme differ between them
	for _, name := range []string{"KA", "KB"} {
		key, err := rsa.GenerateKey(rand.Reader, map[string]int{"KA": 2048, "KB": 1024}[name])
		if err != nil {
			return nil, err
		}
		file := filepath.Join(dir, name+".pem")
		blk := pem.EncodeToMemory(&pem.Block{Type: "RSA PRIVATE KEY", Bytes: x509.MarshalPKCS1PrivateKey(key)})
		if err := os.WriteFile(file, blk, 0o600); err != nil {
			return nil, err
		}
		k.priv[name], k.files[name] = key, file
	}
	return k, nil
}

func sortedKeys(m map[string]any) []string {
	var ks []string
	for k := range m {
		ks = append(ks, k)
	}
	sort.Strings(ks)
	return ks
}

type c04SigServer struct {
	srv  *Server
	ran  atomic.Int32
	wire *httptest.Server // the bound router behind a real loopback listener (started on first use)

	mu      sync.Mutex
	seen    map[string]any // claims the handler saw in the request context at its last run
	cbCalls atomic.Int64   // calls of the server's unauthorized callback (routes that also carry the JWT gate)
}

func (s *c04SigServer) lastSeen() map[string]any {
	s.mu.Lock()
	defer s.mu.Unlock()
	return s.seen
}

func (s *c04SigServer) close() {
	if s.wire != nil {
		s.wire.Close()
	}
}

// newC04SigServer builds one server with the signature-protected route groups of the case's
// `conf` (route group -> fingerprint name -> RSA key name): one AddRoutes(..., WithSignature(...))
// per group, each with exactly its own PrivateKeys; group g serves /c04/<g>/a and /c04/<g>/b.
// gates (spec/AuthBoth.tla) are further route options every group carries besides the signature gate -
// the JWT gate of the case's configuration -, mkOpts builds the server options (unauthorized callback).
func newC04SigServer(keys *c04Keys, kind string, conf map[string]any, mkOpts func(*c04SigServer) ([]Option, error), gates ...RouteOption) (*c04SigServer, error) {
	s := &c04SigServer{}
	var srvOpts []Option
	if mkOpts != nil {
		var err error
		if srvOpts, err = mkOpts(s); err != nil {
			return nil, err
		}
	}
	srv, err := c04Server(kind, srvOpts...)
	if err != nil {
		return nil, err
	}
	if len(conf) == 0 {
		return nil, fmt.Errorf("the case names no route group")
	}
	s.srv = srv
	claimKeys := append([]string{"uid", "role"}, c04Registered...)
	for _, g := range sortedKeys(conf) {
		var routes []Route
		for _, m := range []string{http.MethodGet, http.MethodPost, http.MethodPut, http.MethodDelete} {
			for _, p := range []string{"/c04/" + g + "/a", "/c04/" + g + "/b"} {
				routes = append(routes, Route{Method: m, Path: p, Handler: func(w http.ResponseWriter, r *http.Request) {
					s.ran.Add(1)
					seen := map[string]any{}
					for _, k := range claimKeys {
						if val := r.Context().Value(k); val != nil {
							seen[k] = val
						}
					}
					s.mu.Lock()
					s.seen = seen
					s.mu.Unlock()
					w.WriteHeader(http.StatusOK)
				}})
			}
		}
		gc, _ := conf[g].(map[string]any)
		var pks []PrivateKeyConfig
		for _, fpName := range sortedKeys(gc) {
			wire, file := c04FpWire[fpName], keys.files[kit.Str(gc[fpName])]
			if wire == "" || file == "" {
				return nil, fmt.Errorf("group %s: unknown fingerprint name %q or key %v", g, fpName, gc[fpName])
			}
			pks = append(pks, PrivateKeyConfig{Fingerprint: wire, KeyFile: file})
		}
		if len(pks) == 0 {
			return nil, fmt.Errorf("group %s has no key", g)
		}
		sigOpt := WithSignature(SignatureConfig{Strict: true, Expire: c04Tol * time.Second, PrivateKeys: pks})
		srv.AddRoutes(routes, append([]RouteOption{sigOpt}, gates...)...)
	}
	if err := srv.ng.bindRoutes(srv.router); err != nil {
		return nil, err
	}
	return s, nil
}

func c04Sign(key []byte, ts, method, path, query, body string) string {
	sum := sha256.Sum256([]byte(body))
	content := strings.Join([]string{ts, method, path, query, fmt.Sprintf("%x", sum)}, "\n")
	m := hmac.New(sha256.New, key)
	m.Write([]byte(content))
	return base64.StdEncoding.EncodeToString(m.Sum(nil))
}

// c04HmacKey is the HMAC key an honest client uses for a secret of length class slen
// (spec/AuthSig.tla) under an RSA key with modulus length k and timestamp ts: 16 bytes for "short";
// otherwise as long as fits, so that the plaintext of c04Plain reaches the wanted length together
// with a filler attribute of 1-4 characters.
func c04HmacKey(slen string, k int, ts string, salt int64) ([]byte, int, error) {
	if slen == "short" {
		return []byte("c04-hmac-key-16b"), 0, nil
	}
	B := k - 11 // payload of one PKCS#1 v1.5 block
	want, ok := map[string]int{"B-1": B - 1, "B": B, "B+1": B + 1, "2B": 2 * B, "2B+1": 2*B + 1, "long": 3*B + 7}[slen]
	if !ok {
		return nil, 0, fmt.Errorf("unknown secret length class %q", slen)
	}
	fixed := len(c04Plain(nil, ts, "x")) // with a filler of one character and an empty key
	avail := want - fixed
	if avail < 24 {
		return nil, 0, fmt.Errorf("secret length %s = %d bytes leaves no room for a key", slen, want)
	}
	key := make([]byte, avail/4*3) // a multiple of 3: base64 without padding characters
	rnd := mrand.New(mrand.NewSource(salt))
	for i := range key {
		key[i] = byte(rnd.Intn(256))
	}
	return key, want, nil
}

// c04Plain is the plaintext of the secret attribute: "type", "key", "time" as the protocol says,
// preceded by an attribute the server does not know ("version" as real clients send it, or a
// filler) - the time is always the last thing of the last block.
func c04Plain(key []byte, ts string, filler string) string {
	first := "version=v1"
	if filler != "" {
		first = "nonce=" + filler
	}
	return strings.Join([]string{first, "type=0", "key=" + base64.StdEncoding.EncodeToString(key), "time=" + ts}, "; ")
}

// c04Secret encrypts the secret the way the scheme defines it (lib/codec/rsa.go crypt, with the
// standard library only): PKCS#1 v1.5, the plaintext cut into pieces of k-11 bytes, each encrypted
// to one block of k bytes, the blocks concatenated.  want (0 = as it comes) is the exact plaintext
// length to reach with the filler attribute.  corrupt alters one byte of the last block.
func c04Secret(pub *rsa.PublicKey, key []byte, ts string, want int, corrupt bool) (secret string, blocks int, err error) {
	plain := c04Plain(key, ts, "")
	if want > 0 {
		n := want - len(c04Plain(key, ts, "x")) + 1
		if n < 1 {
			return "", 0, fmt.Errorf("secret plaintext cannot be made %d bytes long", want)
		}
		plain = c04Plain(key, ts, strings.Repeat("n", n))
		if len(plain) != want {
			return "", 0, fmt.Errorf("secret plaintext is %d bytes, wanted %d", len(plain), want)
		}
	}
	k := pub.Size()
	var enc []byte
	for rest := []byte(plain); len(rest) > 0; blocks++ {
		n := len(rest)
		if n > k-11 {
			n = k - 11
		}
		blk, err := rsa.EncryptPKCS1v15(rand.Reader, pub, rest[:n])
		if err != nil {
			return "", 0, err
		}
		if len(blk) != k {
			return "", 0, fmt.Errorf("RSA block of %d bytes under a %d-byte modulus", len(blk), k)
		}
		enc = append(enc, blk...)
		rest = rest[n:]
	}
	if corrupt {
		enc[len(enc)-k/2] ^= 0x5a
	}
	return base64.StdEncoding.EncodeToString(enc), blocks, nil
}

func runSigCase(c kit.Case, keys *c04Keys, servers map[string]*c04SigServer) (v kit.Verdict) {
	v = kit.Verdict{Case: c.Index, OK: true}
	st := c.Steps[0]
	rq := st["req"].(map[string]any)
	server := kit.Str(rq["server"])
	layout, group := kit.Str(rq["layout"]), kit.Str(rq["group"])
	conf, _ := st["conf"].(map[string]any)
	if _, ok := conf[group]; !ok {
		return c04Infra(c, fmt.Sprintf("the case's conf %v has no route group %q", st["conf"], group))
	}
	skey := server + "/" + kit.Canon(conf) // one server per construction and key configuration
	s := servers[skey]
	if s == nil {
		var err error
		if s, err = newC04SigServer(keys, server, conf, nil); err != nil {
			return c04Infra(c, err.Error())
		}
		servers[skey] = s
	}
	res, msg := c04SigExchange(c, st, keys, s, nil)
	if msg != "" {
		return c04Infra(c, msg)
	}
	return c04JudgeSig(st, keys, res, v, conf, layout, group, server)
}

// c04SigResult is what one signed (and altered) request came back with.
type c04SigResult struct {
	code, ran, blocks int
	encFor, slen      string
	tamList           []string
}

// c04SigExchange plays the honest client and the attacker of the case's `req` (spec/AuthSig.tla) against
// server s: signs, alters, sends, and repeats the whole exchange when the wall-clock second changed
// meanwhile.  auth (may be nil) supplies an Authorization header value for every attempt ("" = none).
// A non-empty msg is a harness problem.
func c04SigExchange(c kit.Case, st kit.M, keys *c04Keys, s *c04SigServer, auth func() (string, error)) (res c04SigResult, msg string) {
	rq := st["req"].(map[string]any)
	group := kit.Str(rq["group"])
	tam := map[string]bool{}
	var tamList []string
	for _, t := range kit.List(rq["tamper"]) {
		tam[kit.Str(t)] = true
		tamList = append(tamList, kit.Str(t))
	}
	sort.Strings(tamList)
	slen := kit.Str(rq["slen"])
	if slen == "" {
		slen = "short" // cases recorded before the field existed
	}
	var code, ran, blocks int
	encFor := "KA"
	for attempt := 0; ; attempt++ {
		if attempt == 8 {
			return res, "the clock's second changed during 8 consecutive attempts"
		}
		t0 := time.Now().Unix()
		var ts string
		off := kit.Str(rq["ts"])
		switch off {
		case "now":
			ts = strconv.FormatInt(t0, 10)
		case "-tol":
			ts = strconv.FormatInt(t0-c04Tol, 10)
		case "-tol-1":
			ts = strconv.FormatInt(t0-c04Tol-1, 10)
		case "+tol":
			ts = strconv.FormatInt(t0+c04Tol, 10)
		case "+tol+1":
			ts = strconv.FormatInt(t0+c04Tol+1, 10)
		case "far":
			ts = strconv.FormatInt(t0-3600, 10)
		case "garbage":
			ts = "17zz"
		// extremes a decimal int64 can carry (h = half the tolerance, at least one second)
		case "+2^55":
			ts = strconv.FormatInt(t0+1<<55, 10)
		case "-2^55":
			ts = strconv.FormatInt(t0-1<<55, 10)
		case "+2^55+h":
			ts = strconv.FormatInt(t0+1<<55+c04Half, 10)
		case "+2^55-h":
			ts = strconv.FormatInt(t0+1<<55-c04Half, 10)
		case "-2^55+h":
			ts = strconv.FormatInt(t0-1<<55+c04Half, 10)
		case "-2^55-h":
			ts = strconv.FormatInt(t0-1<<55-c04Half, 10)
		case "+2^56":
			ts = strconv.FormatInt(t0+1<<56, 10)
		case "-2^56":
			ts = strconv.FormatInt(t0-1<<56, 10)
		case "+2^62":
			ts = strconv.FormatInt(t0+1<<62, 10)
		case "-2^62":
			ts = strconv.FormatInt(t0-1<<62, 10)
		case "zero":
			ts = "0"
		case "maxint":
			ts = strconv.FormatInt(math.MaxInt64, 10)
		case "minint":
			ts = strconv.FormatInt(math.MinInt64, 10)
		default:
			return res, "unknown ts class "+off
		}
		method, path, query := kit.Str(rq["method"]), "/c04/"+group+"/a", "k=1&z=%20q"
		body := ""
		if kit.Bool(rq["body"]) {
			body = `{"n":1,"s":"c04"}`
		}
		// the fingerprint the header names and the RSA key the honest secret is encrypted for
		// (spec/AuthSig.tla, FpName and EncKey)
		fp := c04FpWire["fa"]
		encFor = "KA"
		switch kit.Str(rq["fp"]) {
		case "known":
		case "known2":
			fp, encFor = c04FpWire["fb"], "KB"
		case "unknown":
			fp = c04FpWire["fx"]
		case "missing":
		default:
			return res, "unknown fp class"
		}
		tsInSecret := ts
		if tam["ts"] {
			switch off {
			case "garbage":
				tsInSecret = strconv.FormatInt(t0, 10)
			case "-tol", "-tol-1", "far":
				n, _ := strconv.ParseInt(ts, 10, 64)
				tsInSecret = strconv.FormatInt(n+1, 10)
			default:
				n, _ := strconv.ParseInt(ts, 10, 64)
				tsInSecret = strconv.FormatInt(n-1, 10)
			}
		}
		if kit.Str(rq["secret"]) == "crossed" {
			encFor = map[string]string{"KA": "KB", "KB": "KA"}[encFor]
		}
		pub := &keys.priv[encFor].PublicKey
		// the honest client's HMAC key: its length (and a filler attribute) makes the secret's plaintext
		// as long as the case says, relative to the block payload of the key it is encrypted for
		hmacKey, want, err := c04HmacKey(slen, pub.Size(), tsInSecret, int64(kit.EnvInt("VERIF_SEED", 1))*1000003+int64(c.Index))
		if err != nil {
			return res, err.Error()
		}
		sig := c04Sign(hmacKey, ts, method, path, query, body)
		var secret string
		switch kit.Str(rq["secret"]) {
		case "ok", "crossed":
			secret, blocks, err = c04Secret(pub, hmacKey, tsInSecret, want, false)
		case "corrupt":
			secret, blocks, err = c04Secret(pub, hmacKey, tsInSecret, want, true)
		case "garbled":
			secret = "@@not-base64@@"
		default:
			return res, "unknown secret class"
		}
		if err != nil {
			return res, err.Error()
		}
		if wantBlocks := kit.Num(st["blocks"]); wantBlocks != 0 && blocks != 0 && blocks != wantBlocks {
			return res, fmt.Sprintf("the secret of length class %s has %d RSA blocks, the specification says %d", slen, blocks, wantBlocks)
		}
		if tam["method"] {
			method = map[string]string{"GET": "DELETE", "DELETE": "GET", "POST": "PUT", "PUT": "POST"}[method]
		}
		if tam["path"] {
			path = "/c04/" + group + "/b"
		}
		if tam["query"] {
			query = "k=2&z=%20q"
		}
		if tam["body"] {
			body += "x"
		}
		if tam["sig"] {
			repl := "A"
			if sig[0] == 'A' {
				repl = "B"
			}
			sig = repl + sig[1:]
		}
		hdr := ""
		if kit.Str(rq["fp"]) != "missing" {
			hdr = strings.Join([]string{"fingerprint=" + fp, "secret=" + secret, "signature=" + sig}, "; ")
		}
		authHdr := ""
		if auth != nil {
			if authHdr, err = auth(); err != nil {
				return res, err.Error()
			}
		}
		s.ran.Store(0)
		switch via := kit.Str(rq["via"]); via {
		case "sized", "unknown":
			req := httptest.NewRequest(method, path+"?"+query, strings.NewReader(body))
			if via == "unknown" {
				// what net/http hands to a handler for a chunked request: a body, length not known
				req.ContentLength = -1
				req.Body = io.NopCloser(strings.NewReader(body))
			}
			if hdr != "" {
				req.Header.Set("X-Content-Security", hdr)
			}
			if authHdr != "" {
				req.Header.Set("Authorization", authHdr)
			}
			rec := httptest.NewRecorder()
			s.srv.router.ServeHTTP(rec, req)
			code = rec.Code
		case "wire":
			if s.wire == nil {
				s.wire = httptest.NewServer(s.srv.router)
			}
			var rdr io.Reader = http.NoBody
			if body != "" {
				rdr = struct{ io.Reader }{strings.NewReader(body)} // length hidden: Transfer-Encoding: chunked
			}
			req, err := http.NewRequest(method, s.wire.URL+path+"?"+query, rdr)
			if err != nil {
				return res, err.Error()
			}
			if hdr != "" {
				req.Header.Set("X-Content-Security", hdr)
			}
			if authHdr != "" {
				req.Header.Set("Authorization", authHdr)
			}
			resp, err := s.wire.Client().Do(req)
			if err != nil {
				return res, "wire request: "+err.Error()
			}
			io.Copy(io.Discard, resp.Body)
			resp.Body.Close()
			code = resp.StatusCode
		default:
			return res, "unknown delivery "+via
		}
		ran = int(s.ran.Load())
		if time.Now().Unix() == t0 {
			break // the server judged the timestamp within the same second the driver computed it for
		}
	}
	res = c04SigResult{code: code, ran: ran, blocks: blocks, encFor: encFor, slen: slen, tamList: tamList}
	return res, ""
}

// c04JudgeSig compares the outcome of a request to a signature-only route with the specification.
func c04JudgeSig(st kit.M, keys *c04Keys, res c04SigResult, v kit.Verdict, conf map[string]any, layout, group, server string) kit.Verdict {
	rq := st["req"].(map[string]any)
	code, ran, blocks, encFor, tamList, slen := res.code, res.ran, res.blocks, res.encFor, res.tamList, res.slen
	v.Steps++
	passed := ran == 1 && code == http.StatusOK
	denied := ran == 0 && code == http.StatusForbidden
	expect := kit.Str(st["expect"])
	what := ""
	switch {
	case !passed && !denied:
		what = "neither-pass-nor-403"
	case expect == "pass" && denied:
		what = "rejected-valid"
	case expect == "deny" && passed:
		what = "admitted-invalid"
		if len(tamList) > 0 {
			what += ":tampered-" + strings.Join(tamList, "+")
		} else if kit.Bool(st["foreign"]) {
			what += ":key-of-another-route-group"
		} else if kit.Str(rq["fp"]) != "known" && kit.Str(rq["fp"]) != "known2" {
			what += ":fingerprint-" + kit.Str(rq["fp"])
		} else if kit.Str(rq["secret"]) != "ok" {
			what += ":secret-" + kit.Str(rq["secret"])
		} else {
			what += ":time" + kit.Str(rq["ts"])
		}
	}
	if what != "" && slen != "short" {
		what += fmt.Sprintf(":secret-length-%s", slen)
	}
	if what != "" && kit.Str(rq["via"]) != "sized" {
		what += ":body-" + kit.Str(rq["via"])
	}
	if what != "" && layout != "one" {
		what += ":keys-" + layout
	}
	if what != "" && server != "default" {
		what += ":server-" + server
	}
	if what != "" {
		v.OK = false
		v.Key = "C04:sig:" + what
		v.Msg = fmt.Sprintf("strict signature route of group %s (route groups and their keys: %s), request %s (secret: %d RSA block(s) for the %d-bit key %s): handler ran %d times, status %d; specification: %s",
			group, kit.Canon(conf), kit.Canon(rq), blocks, keys.priv[encFor].N.BitLen(), encFor, ran, code, expect)
	} else {
		if passed {
			c04Count("sig.pass."+layout+"."+group, 1)
			c04Count("sig.pass.len-"+slen+"."+encFor, 1)
			c04Count(fmt.Sprintf("sig.pass.blocks-%d", blocks), 1)
		}
		if denied && len(tamList) == 1 && kit.Str(rq["ts"]) == "now" && kit.Str(rq["secret"]) == "ok" &&
			(kit.Str(rq["fp"]) == "known" || kit.Str(rq["fp"]) == "known2") && !kit.Bool(st["foreign"]) {
			c04Count("sig.tampered-denied.len-"+slen, 1)
		}
		if denied && kit.Str(rq["secret"]) == "corrupt" && kit.Str(rq["ts"]) == "now" &&
			(kit.Str(rq["fp"]) == "known" || kit.Str(rq["fp"]) == "known2") && !kit.Bool(st["foreign"]) {
			c04Count("sig.corrupt-block-denied", 1)
		}
		if kit.Bool(st["foreign"]) && kit.Str(rq["ts"]) == "now" && len(tamList) == 0 {
			c04Count("sig.foreign-key-denied."+layout+"."+group, 1)
		}
	}
	return v
}

// ---------------------------------------------------------------- both gates on one route

func c04JwtOption(cfg string) (RouteOption, error) {
	switch cfg {
	case "single":
		return WithJwt(c04Secrets["cur"]), nil
	case "transition":
		return WithJwtTransition(c04Secrets["cur"], c04Secrets["prev"]), nil
	case "same":
		return WithJwtTransition(c04Secrets["cur"], c04Secrets["cur"]), nil
	}
	return nil, fmt.Errorf("unknown cfg %q", cfg)
}

// runBothCase drives one request of spec/AuthBoth.tla: the route group carries the JWT gate of the
// case's configuration AND the strict signature gate (api.WithJwt/WithJwtTransition + api.WithSignature
// on the same AddRoutes), the request carries a token of the case's class and a signed-then-altered
// X-Content-Security header of the case's class.  The outcome - handler ran with 200 / 401 / 403 - must
// be one the specification allows (`expect`, composed of the verdicts of AuthJwt and AuthSig).
func runBothCase(c kit.Case, keys *c04Keys, servers map[string]*c04SigServer) (v kit.Verdict) {
	v = kit.Verdict{Case: c.Index, OK: true}
	st := c.Steps[0]
	rq, _ := st["req"].(map[string]any)
	tok, _ := st["tok"].(map[string]any)
	if rq == nil || tok == nil {
		return c04Infra(c, "case without req/tok: "+kit.Canon(st))
	}
	cfg, cb, server := kit.Str(st["cfg"]), kit.Str(st["cb"]), kit.Str(rq["server"])
	group := kit.Str(rq["group"])
	conf, _ := st["conf"].(map[string]any)
	if _, ok := conf[group]; !ok {
		return c04Infra(c, fmt.Sprintf("the case's conf %v has no route group %q", st["conf"], group))
	}
	// one server per construction, JWT configuration, callback kind and key configuration (the statement lets
	// no verdict depend on earlier requests, so the route's parser may have served other cases before)
	skey := "both/" + server + "/" + cfg + "/" + cb + "/" + kit.Canon(conf)
	s := servers[skey]
	if s == nil {
		jwtOpt, err := c04JwtOption(cfg)
		if err != nil {
			return c04Infra(c, err.Error())
		}
		s, err = newC04SigServer(keys, server, conf, func(s *c04SigServer) ([]Option, error) {
			return c04Callback(cb, &s.cbCalls)
		}, jwtOpt)
		if err != nil {
			return c04Infra(c, err.Error())
		}
		servers[skey] = s
	}
	s.cbCalls.Store(0)
	res, msg := c04SigExchange(c, st, keys, s, func() (string, error) {
		s.cbCalls.Store(0)
		return mintToken(tok, cfg, 42)
	})
	if msg != "" {
		return c04Infra(c, msg)
	}
	v.Steps++
	outcome := fmt.Sprintf("status-%d-handler-ran-%d-times", res.code, res.ran)
	switch {
	case res.ran == 1 && res.code == http.StatusOK:
		outcome = "run"
	case res.ran == 0 && res.code == http.StatusUnauthorized:
		outcome = "401"
	case res.ran == 0 && res.code == http.StatusForbidden:
		outcome = "403"
	}
	allowed := false
	var want []string
	for _, e := range kit.List(st["expect"]) {
		want = append(want, kit.Str(e))
		allowed = allowed || kit.Str(e) == outcome
	}
	sort.Strings(want)
	if len(want) == 0 {
		return c04Infra(c, "the case allows no outcome: "+kit.Canon(st))
	}
	jv, sv := kit.Str(st["jwt"]), kit.Str(st["sig"])
	fail := func(what, msg string) kit.Verdict {
		v.OK = false
		v.Key = "C04:both:" + what
		if cb != "none" && cb != "" {
			v.Key += ":callback-" + cb
		}
		if server != "default" && server != "" {
			v.Key += ":server-" + server
		}
		v.Msg = fmt.Sprintf("route with the JWT gate (cfg=%s, unauthorized-callback=%s, server=%s) and the strict signature gate; token %s (JWT gate: %s), signed request %s (signature gate: %s): %s (handler ran %d times, status %d, unauthorized callback called %d times); specification: one of %v",
			cfg, cb, server, tokClass(tok), jv, kit.Canon(rq), sv, msg, res.ran, res.code, s.cbCalls.Load(), want)
		return v
	}
	if !allowed {
		tokWord := map[string]string{"admit": "token-valid", "deny": "token-invalid", "either": "token-without-time-claims"}[jv]
		sigWord := map[string]string{"pass": "signature-valid", "deny": "signature-invalid"}[sv]
		got := map[string]string{"run": "handler-ran", "401": "answered-401", "403": "answered-403"}[outcome]
		if got == "" {
			got = "neither-run-nor-401-nor-403"
		}
		return fail(tokWord+"+"+sigWord+":"+got, "outcome "+outcome)
	}
	c04Count("both."+jv+"."+sv+"."+outcome, 1)
	if outcome == "401" && s.cbCalls.Load() > 0 {
		c04Count("both.denied-callback-called.cb-"+cb, 1)
	}
	if outcome == "run" {
		seen := s.lastSeen()
		vis := map[string]bool{}
		for _, k := range kit.List(st["visible"]) {
			name := kit.Str(k)
			vis[name] = true
			wantVal := map[string]string{"uid": "42", "role": "admin"}[name]
			if got := fmt.Sprint(seen[name]); seen[name] == nil || got != wantVal {
				return fail("claim-missing", fmt.Sprintf("claim %q in context = %v, specification %q", name, seen[name], wantVal))
			}
		}
		for _, k := range kit.List(st["hidden"]) {
			if val, ok := seen[kit.Str(k)]; ok {
				return fail("registered-claim-visible", fmt.Sprintf("registered claim %q visible in context (%v)", kit.Str(k), val))
			}
		}
		for k := range seen {
			if !vis[k] {
				return fail("extra-claim", fmt.Sprintf("context shows %q which the token does not carry", k))
			}
		}
	}
	return v
}

// ---------------------------------------------------------------- entry point

func TestVerifC04Api(t *testing.T) {
	logx.Disable()
	cases, err := kit.LoadCases(kit.Env("VERIF_CASES", ""))
	if err != nil {
		t.Fatal(err)
	}
	rep, err := kit.NewReporter(kit.Env("VERIF_OUT", ""))
	if err != nil {
		t.Fatal(err)
	}
	defer rep.Close()
	defer c04FlushCounts(rep)
	clock := kit.NewClock()
	timex.SetVerifClock(clock.Now)
	defer timex.SetVerifClock(nil)
	var keys *c04Keys
	sigServers := map[string]*c04SigServer{}
	defer func() {
		for _, s := range sigServers {
			s.close()
		}
	}()
	shard, shards := kit.EnvInt("VERIF_SHARD", 0), kit.EnvInt("VERIF_SHARDS", 1)
	for _, c := range cases {
		if c.Index%shards != shard || len(c.Steps) == 0 {
			continue
		}
		switch kit.Str(c.Steps[0]["op"]) {
		case "config":
			rep.Put(runJwtCase(c, clock))
		case "sig", "both":
			if keys == nil {
				dir, err := os.MkdirTemp("", "verif-c04-")
				if err != nil {
					t.Fatal(err)
				}
				defer os.RemoveAll(dir)
				if keys, err = newC04Keys(dir); err != nil {
					t.Fatal(err)
				}
			}
			if kit.Str(c.Steps[0]["op"]) == "both" {
				rep.Put(runBothCase(c, keys, sigServers))
			} else {
				rep.Put(runSigCase(c, keys, sigServers))
			}
		default:
			rep.Put(c04Infra(c, "unknown case kind "+kit.Canon(c.Steps[0])))
		}
	}
}
