package collection

// Replay driver for property C10 (overlaid into lib/collection by /verif/bin/check).
// It executes TLC-generated behaviours of spec/WheelGen.tla on the real TimingWheel through
// its public operations (SetTimer, MoveTimer, RemoveTimer, Drain, Stop), with a ticker whose
// ticks are issued by the driver, and compares after every tick / operation what the wheel
// did (fired pairs, error class, drained pairs) with what the specification predicted.

import (
	"fmt"
	"runtime"
	"sort"
	"strings"
	"sync"
	"sync/atomic"
	"testing"
	"time"

	kit "github.com/gotid/god/internal/verifkit"
)

// vTicker is a timex.Ticker with an unbuffered channel: Tick returns once the wheel's run
// loop has received the tick.
type vTicker struct {
	c       chan time.Time
	stopped chan struct{}
	once    sync.Once
}

func newVTicker() *vTicker {
	return &vTicker{c: make(chan time.Time), stopped: make(chan struct{})}
}
func (t *vTicker) Chan() <-chan time.Time { return t.c }
func (t *vTicker) Stop()                  { t.once.Do(func() { close(t.stopped) }) }

type c10pair struct {
	K string
	V int
}

type c10wheel struct {
	w      *TimingWheel
	tk     *vTicker
	mu     sync.Mutex
	fired  []c10pair
	base   int
	n      int
	closed bool
	gate   chan struct{} // non-nil: callbacks block here until the behaviour is over (gated mode)
}

const c10Interval = time.Second // only a unit: the ticker is driven by hand

// c10Frac is added to every delay handed to the wheel (VERIF_FRACNS nanoseconds, below one
// interval): a delay of d intervals plus a fraction must still fire at T + floor(delay/I) = T + d.
var c10Frac = time.Duration(kit.EnvInt("VERIF_FRACNS", 0))

func newC10Wheel(n int) (*c10wheel, error) {
	cw := &c10wheel{tk: newVTicker(), n: n}
	cw.base = runtime.NumGoroutine()
	w, err := newTimingWheelWithClock(c10Interval, n, func(k, v any) {
		if cw.gate != nil {
			<-cw.gate
		}
		cw.mu.Lock()
		cw.fired = append(cw.fired, c10pair{fmt.Sprint(k), v.(int)})
		cw.mu.Unlock()
	}, cw.tk)
	if err != nil {
		return nil, err
	}
	cw.w = w
	cw.base++ // the run loop
	return cw, nil
}

// settle waits until the run loop has finished the previous command and every goroutine it
// spawned (runTasks, drain workers) has ended.
func (cw *c10wheel) settle() error {
	if !cw.closed {
		// the run loop is sequential: once it accepts this no-op, the previous command is done
		if err := cw.w.RemoveTimer("\x00barrier"); err != nil {
			return fmt.Errorf("barrier command: %v", err)
		}
	}
	if !kit.WaitGoroutines(cw.base, 5*time.Second) {
		return fmt.Errorf("goroutines did not settle: have %d want <= %d\n%s", runtime.NumGoroutine(), cw.base, kit.Stacks())
	}
	return nil
}

func (cw *c10wheel) take() []c10pair {
	cw.mu.Lock()
	f := cw.fired
	cw.fired = nil
	cw.mu.Unlock()
	return f
}

func (cw *c10wheel) tick() ([]c10pair, error) {
	select {
	case cw.tk.c <- time.Time{}:
	case <-time.After(5 * time.Second):
		return nil, fmt.Errorf("tick not accepted by the run loop")
	}
	if err := cw.settle(); err != nil {
		return nil, err
	}
	return cw.take(), nil
}

func canonPairs(ps []c10pair) string {
	s := make([]string, 0, len(ps))
	for _, p := range ps {
		s = append(s, fmt.Sprintf("%s=%d", p.K, p.V))
	}
	sort.Strings(s)
	return strings.Join(s, ",")
}

func wantPairs(v any) string {
	var ps []c10pair
	for _, e := range kit.List(v) {
		m := e.(map[string]any)
		ps = append(ps, c10pair{kit.Str(m["k"]), kit.Num(m["v"])})
	}
	return canonPairs(ps)
}

func errClass(err error) string {
	switch err {
	case nil:
		return "ok"
	case ErrClosed:
		return "closed"
	case ErrArgument:
		return "arg"
	}
	return "other:" + err.Error()
}

// c10Key classifies a disagreement for known-findings matching: what kind of misfire, after
// which kind of scheduling operation.
func c10Key(kind string, lastSched string) string {
	return "C10:" + kind + ":after-" + lastSched
}

func runC10Case(c kit.Case, n int) (v kit.Verdict) {
	v = kit.Verdict{Case: c.Index, OK: true}
	cw, err := newC10Wheel(n)
	if err != nil {
		return kit.Verdict{Case: c.Index, Infra: true, Msg: err.Error()}
	}
	defer func() {
		if !cw.closed {
			cw.w.Stop()
			<-cw.tk.stopped
			cw.base--
		}
		kit.WaitGoroutines(cw.base, 5*time.Second)
	}()
	fail := func(step int, key, msg string) kit.Verdict {
		v.OK, v.Step, v.Key, v.Msg = false, step, key, msg
		return v
	}
	T := 0
	lastSched := "none"
	nset := map[string]int{}
	for i, st := range c.Steps {
		// ticks that precede the operation
		for j, want := range kit.List(st["pre"]) {
			got, err := cw.tick()
			if err != nil {
				return kit.Verdict{Case: c.Index, Infra: true, Msg: err.Error()}
			}
			T++
			v.Steps++
			g, w := canonPairs(got), wantPairs(want)
			if g != w {
				kind := "misfire"
				switch {
				case w != "" && g == "":
					kind = "missing-fire"
				case w == "" && g != "":
					kind = "unexpected-fire"
				}
				return fail(i, c10Key(kind, lastSched),
					fmt.Sprintf("N=%d step %d tick #%d (T=%d): fired {%s}, specification fires {%s}", n, i, j+1, T, g, w))
			}
		}
		op := kit.Str(st["op"])
		var got error
		k, d := kit.Str(st["k"]), time.Duration(kit.Num(st["d"]))*c10Interval+c10Frac
		switch op {
		case "set":
			got = cw.w.SetTimer(k, kit.Num(st["v"]), d)
			nset[k]++
			if nset[k] > 1 {
				lastSched = "reset"
			} else {
				lastSched = "set"
			}
		case "move":
			got = cw.w.MoveTimer(k, d)
			lastSched = "move"
		case "remove":
			got = cw.w.RemoveTimer(k)
			lastSched = "remove"
		case "set_nilkey":
			got = cw.w.SetTimer(nil, 1, c10Interval)
		case "set_zero":
			got = cw.w.SetTimer("a", 1, 0)
		case "set_neg":
			got = cw.w.SetTimer("a", 1, -c10Interval)
		case "move_nilkey":
			got = cw.w.MoveTimer(nil, c10Interval)
		case "move_zero":
			got = cw.w.MoveTimer("a", 0)
		case "remove_nilkey":
			got = cw.w.RemoveTimer(nil)
		case "drain":
			var mu sync.Mutex
			var dr []c10pair
			got = cw.w.Drain(func(k, v any) {
				mu.Lock()
				dr = append(dr, c10pair{fmt.Sprint(k), v.(int)})
				mu.Unlock()
			})
			if err := cw.settle(); err != nil {
				return kit.Verdict{Case: c.Index, Infra: true, Msg: err.Error()}
			}
			mu.Lock()
			g, w := canonPairs(dr), wantPairs(st["drained"])
			mu.Unlock()
			if g != w {
				return fail(i, "C10:drain-set", fmt.Sprintf("N=%d step %d drain handed {%s}, specification {%s}", n, i, g, w))
			}
			lastSched = "drain"
		case "stop":
			cw.w.Stop()
			select {
			case <-cw.tk.stopped: // run loop has exited: from now on every operation must see ErrClosed
			case <-time.After(5 * time.Second):
				return kit.Verdict{Case: c.Index, Infra: true, Msg: "run loop did not stop its ticker after Stop"}
			}
			cw.closed = true
			cw.base--
			v.Steps++
			continue
		case "finish":
			continue
		default:
			return kit.Verdict{Case: c.Index, Infra: true, Msg: "unknown op " + op}
		}
		v.Steps++
		if want := kit.Str(st["err"]); errClass(got) != want {
			return fail(i, "C10:error-class:"+op, fmt.Sprintf("N=%d step %d %s returned %q, specification %q", n, i, op, errClass(got), want))
		}
		if err := cw.settle(); err != nil {
			return kit.Verdict{Case: c.Index, Infra: true, Msg: err.Error()}
		}
		if f := cw.take(); len(f) != 0 {
			return fail(i, c10Key("fire-outside-tick", lastSched), fmt.Sprintf("N=%d step %d %s: fired {%s} outside any tick", n, i, op, canonPairs(f)))
		}
	}
	return v
}

// runC10Gated executes a behaviour with SLOW callbacks: every execute callback blocks until the
// last tick of the behaviour has been processed, so the goroutine that runs the tasks of tick n
// is still busy while later ticks fire.  Tick attribution is not observable then; what is
// compared is the statement's core: every task the specification fires is executed exactly
// once, with the value most recently set, and nothing else is executed.
func runC10Gated(c kit.Case, n int) (v kit.Verdict) {
	v = kit.Verdict{Case: c.Index, OK: true}
	for _, st := range c.Steps {
		if op := kit.Str(st["op"]); op == "stop" || op == "drain" {
			return v // shutdown behaviours are replayed by the ordinary mode only
		}
	}
	cw := &c10wheel{tk: newVTicker(), n: n, gate: make(chan struct{})}
	cw.base = runtime.NumGoroutine()
	w, err := newTimingWheelWithClock(c10Interval, n, func(k, val any) {
		<-cw.gate
		cw.mu.Lock()
		cw.fired = append(cw.fired, c10pair{fmt.Sprint(k), val.(int)})
		cw.mu.Unlock()
	}, cw.tk)
	if err != nil {
		return kit.Verdict{Case: c.Index, Infra: true, Msg: err.Error()}
	}
	cw.w = w
	cw.base++
	var want []c10pair
	barrier := func() error { return cw.w.RemoveTimer("\x00barrier") } // run loop is sequential
	for _, st := range c.Steps {
		op := kit.Str(st["op"])
		for _, w := range kit.List(st["pre"]) {
			select {
			case cw.tk.c <- time.Time{}:
			case <-time.After(5 * time.Second):
				return kit.Verdict{Case: c.Index, Infra: true, Msg: "tick not accepted by the run loop"}
			}
			if err := barrier(); err != nil {
				return kit.Verdict{Case: c.Index, Infra: true, Msg: err.Error()}
			}
			for _, e := range kit.List(w) {
				m := e.(map[string]any)
				want = append(want, c10pair{kit.Str(m["k"]), kit.Num(m["v"])})
			}
			v.Steps++
		}
		k, d := kit.Str(st["k"]), time.Duration(kit.Num(st["d"]))*c10Interval
		switch op { // invalid-argument operations have no effect and are not repeated here
		case "set":
			err = cw.w.SetTimer(k, kit.Num(st["v"]), d)
		case "move":
			err = cw.w.MoveTimer(k, d)
		case "remove":
			err = cw.w.RemoveTimer(k)
		}
		if err != nil {
			return kit.Verdict{Case: c.Index, Infra: true, Msg: "gated " + op + ": " + err.Error()}
		}
	}
	close(cw.gate)
	cw.w.Stop()
	<-cw.tk.stopped
	cw.base--
	if !kit.WaitGoroutines(cw.base, 10*time.Second) {
		return kit.Verdict{Case: c.Index, Infra: true, Msg: "gated callbacks did not finish\n" + kit.Stacks()}
	}
	if g, w := canonPairs(cw.take()), canonPairs(want); g != w {
		v.OK, v.Key = false, "C10:slow-callbacks:executed-set"
		v.Msg = fmt.Sprintf("N=%d with callbacks that are still running while later ticks fire: executed {%s}, specification fires {%s}", n, g, w)
	}
	return v
}

// runC10Bulk executes a WheelBulkGen behaviour: every model key is a block of `mult` real timers
// that are set / moved / removed together, so that the wheel's key index goes through more
// than 10 000 deletions.  Per tick the fired pairs must be exactly mult copies of each block
// the specification fires.
func runC10Bulk(c kit.Case, n, mult int) (v kit.Verdict) {
	v = kit.Verdict{Case: c.Index, OK: true}
	cw := &c10wheel{tk: newVTicker(), n: n}
	cw.base = runtime.NumGoroutine()
	counts := map[string]int{}
	w, err := newTimingWheelWithClock(c10Interval, n, func(k, val any) {
		blk := k.(string)
		blk = blk[:strings.IndexByte(blk, '#')]
		cw.mu.Lock()
		counts[fmt.Sprintf("%s=%d", blk, val.(int))]++
		cw.mu.Unlock()
	}, cw.tk)
	if err != nil {
		return kit.Verdict{Case: c.Index, Infra: true, Msg: err.Error()}
	}
	cw.w = w
	cw.base++
	defer func() {
		cw.w.Stop()
		<-cw.tk.stopped
		kit.WaitGoroutines(cw.base-1, 10*time.Second)
	}()
	T := 0
	var hist []string
	for i, st := range c.Steps {
		op := kit.Str(st["op"])
		lo, hi, d := kit.Num(st["lo"]), kit.Num(st["hi"]), time.Duration(kit.Num(st["d"]))*c10Interval
		for b := lo; b <= hi && op != "ticks"; b++ {
			for j := 0; j < mult; j++ {
				key := fmt.Sprintf("%d#%d", b, j)
				var e error
				switch op {
				case "setr":
					e = cw.w.SetTimer(key, kit.Num(st["v"]), d)
				case "mover":
					e = cw.w.MoveTimer(key, d)
				case "remover":
					e = cw.w.RemoveTimer(key)
				}
				if e != nil {
					return kit.Verdict{Case: c.Index, Infra: true, Msg: op + ": " + e.Error()}
				}
			}
		}
		hist = append(hist, fmt.Sprintf("%s[%d..%d]", op, lo, hi))
		for j, want := range kit.List(st["pre"]) {
			select {
			case cw.tk.c <- time.Time{}:
			case <-time.After(10 * time.Second):
				return kit.Verdict{Case: c.Index, Infra: true, Msg: "tick not accepted by the run loop"}
			}
			if err := cw.settle(); err != nil {
				return kit.Verdict{Case: c.Index, Infra: true, Msg: err.Error()}
			}
			T++
			v.Steps++
			cw.mu.Lock()
			got := counts
			counts = map[string]int{}
			cw.mu.Unlock()
			wantc := map[string]int{}
			for _, e := range kit.List(want) {
				m := e.(map[string]any)
				wantc[fmt.Sprintf("%d=%d", kit.Num(m["k"]), kit.Num(m["v"]))] = mult
			}
			if kit.Canon(got) != kit.Canon(wantc) {
				v.OK, v.Step, v.Key = false, i, "C10:bulk:fired-set"
				v.Msg = fmt.Sprintf("N=%d blocks of %d timers, history %v, tick #%d (T=%d): executed (block=value: count) %s, specification %s",
					n, mult, hist, j+1, T, kit.Canon(got), kit.Canon(wantc))
				return v
			}
		}
	}
	return v
}

// runC10DrainGate executes a behaviour that contains a successful Drain with BLOCKS of `mult`
// real timers per model key (mult > the number of drain workers) and a drain callback that
// blocks until released.  While the callbacks are held, the driver offers the wheel more
// ticks than any pending delay: the specification (Wheel.tla, DrainAll) empties `pend` at the
// Drain itself, so whatever is still pending is handed to the callback exactly once and NO
// task fires any more, however the ticks and the slow callbacks overlap.
func runC10DrainGate(c kit.Case, n, mult int) (v kit.Verdict) {
	v = kit.Verdict{Case: c.Index, OK: true}
	di := -1
	for i, st := range c.Steps {
		if kit.Str(st["op"]) == "drain" && kit.Str(st["err"]) == "ok" && len(kit.List(st["drained"])) > 0 {
			di = i
			break
		}
	}
	if di < 0 {
		return v // nothing pending at a Drain: the ordinary mode covers it
	}
	cw := &c10wheel{tk: newVTicker(), n: n}
	cw.base = runtime.NumGoroutine()
	fired := map[string]int{}
	w, err := newTimingWheelWithClock(c10Interval, n, func(k, val any) {
		blk := k.(string)
		cw.mu.Lock()
		fired[fmt.Sprintf("%s=%d", blk[:strings.IndexByte(blk, '#')], val.(int))]++
		cw.mu.Unlock()
	}, cw.tk)
	if err != nil {
		return kit.Verdict{Case: c.Index, Infra: true, Msg: err.Error()}
	}
	cw.w = w
	cw.base++
	stopped := false
	defer func() {
		if !stopped {
			cw.w.Stop()
			<-cw.tk.stopped
		}
		kit.WaitGoroutines(cw.base-1, 10*time.Second)
	}()
	takeFired := func() map[string]int {
		cw.mu.Lock()
		defer cw.mu.Unlock()
		f := fired
		fired = map[string]int{}
		return f
	}
	maxd := 1
	for i, st := range c.Steps[:di] {
		for j, want := range kit.List(st["pre"]) {
			select {
			case cw.tk.c <- time.Time{}:
			case <-time.After(10 * time.Second):
				return kit.Verdict{Case: c.Index, Infra: true, Msg: "tick not accepted by the run loop"}
			}
			if err := cw.settle(); err != nil {
				return kit.Verdict{Case: c.Index, Infra: true, Msg: err.Error()}
			}
			v.Steps++
			wantc := map[string]int{}
			for _, e := range kit.List(want) {
				m := e.(map[string]any)
				wantc[fmt.Sprintf("%s=%d", kit.Str(m["k"]), kit.Num(m["v"]))] = mult
			}
			if got := takeFired(); kit.Canon(got) != kit.Canon(wantc) {
				v.OK, v.Step, v.Key = false, i, "C10:drain:fired-set-before-drain"
				v.Msg = fmt.Sprintf("N=%d blocks of %d timers, step %d tick #%d: executed %s, specification %s", n, mult, i, j+1, kit.Canon(got), kit.Canon(wantc))
				return v
			}
		}
		op, k := kit.Str(st["op"]), kit.Str(st["k"])
		dn := kit.Num(st["d"])
		if dn > maxd {
			maxd = dn
		}
		d := time.Duration(dn) * c10Interval
		for j := 0; j < mult; j++ {
			key := fmt.Sprintf("%s#%d", k, j)
			switch op {
			case "set":
				err = cw.w.SetTimer(key, kit.Num(st["v"]), d)
			case "move":
				err = cw.w.MoveTimer(key, d)
			case "remove":
				err = cw.w.RemoveTimer(key)
			default:
				err = nil // argument-error probes and the like do not change the wheel
			}
			if err != nil {
				return kit.Verdict{Case: c.Index, Infra: true, Msg: op + ": " + err.Error()}
			}
		}
	}
	st := c.Steps[di]
	for range kit.List(st["pre"]) { // ticks that precede the Drain
		select {
		case cw.tk.c <- time.Time{}:
		case <-time.After(10 * time.Second):
			return kit.Verdict{Case: c.Index, Infra: true, Msg: "tick not accepted by the run loop"}
		}
		if err := cw.settle(); err != nil {
			return kit.Verdict{Case: c.Index, Infra: true, Msg: err.Error()}
		}
		takeFired()
	}
	gate := make(chan struct{})
	var entered int32
	drained := map[string]int{}
	if err := cw.w.Drain(func(k, val any) {
		atomic.AddInt32(&entered, 1)
		<-gate
		blk := k.(string)
		cw.mu.Lock()
		drained[fmt.Sprintf("%s=%d", blk[:strings.IndexByte(blk, '#')], val.(int))]++
		cw.mu.Unlock()
	}); err != nil {
		return kit.Verdict{Case: c.Index, Infra: true, Msg: "drain: " + err.Error()}
	}
	wantd := map[string]int{}
	for _, e := range kit.List(st["drained"]) {
		m := e.(map[string]any)
		wantd[fmt.Sprintf("%s=%d", kit.Str(m["k"]), kit.Num(m["v"]))] = mult
	}
	// the drain workers are all held now (mult exceeds their number)
	kit.WaitFor(2*time.Second, func() bool { return atomic.LoadInt32(&entered) >= 8 })
	total := maxd + n + 1
	var delivered int32
	tickDone := make(chan struct{})
	go func() {
		defer close(tickDone)
		for i := 0; i < total; i++ {
			select {
			case cw.tk.c <- time.Time{}:
				atomic.AddInt32(&delivered, 1)
			case <-time.After(30 * time.Second):
				return
			}
		}
	}()
	// give the wheel the chance to take the ticks while the drain callbacks are still held
	kit.WaitFor(20*time.Millisecond, func() bool { return atomic.LoadInt32(&delivered) == int32(total) })
	held := atomic.LoadInt32(&delivered)
	close(gate)
	select {
	case <-tickDone:
	case <-time.After(40 * time.Second):
		return kit.Verdict{Case: c.Index, Infra: true, Msg: "ticks after the drain were not accepted\n" + kit.Stacks()}
	}
	if atomic.LoadInt32(&delivered) != int32(total) {
		return kit.Verdict{Case: c.Index, Infra: true, Msg: "ticks after the drain were not accepted"}
	}
	if err := cw.settle(); err != nil {
		return kit.Verdict{Case: c.Index, Infra: true, Msg: err.Error()}
	}
	v.Steps += total + 1
	cw.mu.Lock()
	gd := kit.Canon(drained)
	cw.mu.Unlock()
	gf := takeFired()
	if len(gf) != 0 || gd != kit.Canon(wantd) {
		v.OK, v.Step, v.Key = false, di, "C10:drain:overlapped-by-ticks"
		v.Msg = fmt.Sprintf("N=%d blocks of %d timers, Drain at step %d with its callbacks held while %d ticks were offered (%d taken before the release): handed to the callback (block=value: count) %s, specification %s; fired after the Drain %s, specification {}",
			n, mult, di, total, held, gd, kit.Canon(wantd), kit.Canon(gf))
	}
	return v
}

func TestVerifC10(t *testing.T) {
	rep, err := kit.NewReporter(kit.Env("VERIF_OUT", ""))
	if err != nil {
		t.Fatal(err)
	}
	defer rep.Close()
	n := kit.EnvInt("VERIF_SLOTS", 3)
	gated := kit.EnvInt("VERIF_GATED", 0) == 1
	mult := kit.EnvInt("VERIF_BULK", 0)
	dgate := kit.EnvInt("VERIF_DRAINGATE", 0)
	if err := kit.StreamCases(kit.Env("VERIF_CASES", ""), func(c kit.Case) error {
		if dgate > 0 {
			rep.Put(runC10DrainGate(c, n, dgate))
		} else if mult > 0 {
			rep.Put(runC10Bulk(c, n, mult))
		} else if gated {
			rep.Put(runC10Gated(c, n))
		} else {
			rep.Put(runC10Case(c, n))
		}
		return nil
	}); err != nil {
		t.Fatal(err)
	}
}
