package cache

// Test-export file overlaid by /verif (property C06) next to the external driver package
// cache_test: replaces the cleaner's package-level timing wheel by one whose ticker the
// driver owns, and exposes what the barrier needs.

import (
	"time"

	"github.com/gotid/god/lib/collection"
	"github.com/gotid/god/lib/timex"
)

// VerifSentinel is a wheel value that is not a delayTask: when it fires, C is closed instead
// of calling clean.  The driver schedules one right before every tick; the wheel executes the
// tasks of a tick one after the other in insertion order, so when the sentinel fires every
// delayTask of that tick has been handed to clean (and thereby to the task runner).
type VerifSentinel struct{ C chan struct{} }

// VerifSwapWheel stops the current cleaner wheel and installs a fresh one (same interval and
// slot count as production, same execute function `clean`) driven by ticker.
func VerifSwapWheel(ticker timex.Ticker) (*collection.TimingWheel, error) {
	w, err := collection.NewVerifTimingWheel(time.Second, timingWheelSlots, func(k, v any) {
		if s, ok := v.(VerifSentinel); ok {
			close(s.C)
			return
		}
		clean(k, v)
	}, ticker)
	if err != nil {
		return nil, err
	}
	old := timingWheel
	timingWheel = w
	if old != nil {
		old.Stop()
	}
	return w, nil
}

// VerifCleanInFlight is the number of clean closures that have not finished.
func VerifCleanInFlight() int { return taskRunner.VerifInFlight() }

// VerifLadder returns the delays of the retry ladder in seconds as the code defines them:
// the first delay used by AddCleanTask is one second, the following ones come from nextDelay.
func VerifLadder() []int {
	out := []int{1}
	d := time.Second
	for i := 0; i < 64; i++ {
		n, ok := nextDelay(d)
		if !ok {
			break
		}
		out = append(out, int(n/time.Second))
		d = n
	}
	return out
}
