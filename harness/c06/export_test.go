package cache

// Test-export file overlaid by /verif (property C06) next to the external driver package
// cache_test: replaces the cleaner's package-level timing wheel by one whose ticker the
// driver owns, and exposes what the barrier needs.

import (
	"sync"
	"time"

	"github.com/gotid/god/lib/collection"
	"github.com/gotid/god/lib/timex"
)

// The tick barrier of the driver does not rely on any timer of its own being fired by the wheel
// (how the wheel scans a slot is code under test).  The wheel's execute function is `clean`
// behind a gate that also counts:
//   - while the gate is held, a task that the wheel has collected on a tick waits in front of
//     clean; nothing can therefore register a new timer, and the number of timers the tick has
//     taken out of the wheel's registry (read before the tick and after the wheel's loop has
//     accepted a later message) is exactly the number of tasks the tick collected;
//   - after the release, VerifHanded tells how many tasks clean has taken over (clean returns
//     once the task occupies a slot of the task runner, so VerifCleanInFlight counts it).
var verifGate struct {
	mu     sync.Mutex
	held   chan struct{}
	handed int
}

// VerifHold makes tasks fired by the wheel wait in front of clean until VerifRelease.
func VerifHold() {
	verifGate.mu.Lock()
	if verifGate.held == nil {
		verifGate.held = make(chan struct{})
	}
	verifGate.mu.Unlock()
}

// VerifRelease lets the waiting tasks (and all later ones) through.
func VerifRelease() {
	verifGate.mu.Lock()
	if verifGate.held != nil {
		close(verifGate.held)
		verifGate.held = nil
	}
	verifGate.mu.Unlock()
}

// VerifHanded is the number of fired tasks that clean has taken over so far.
func VerifHanded() int {
	verifGate.mu.Lock()
	defer verifGate.mu.Unlock()
	return verifGate.handed
}

// VerifSwapWheel stops the current cleaner wheel and installs a fresh one (same interval and
// slot count as production, execute function `clean` behind the gate) driven by ticker.
func VerifSwapWheel(ticker timex.Ticker) (*collection.TimingWheel, error) {
	w, err := collection.NewVerifTimingWheel(time.Second, timingWheelSlots, func(k, v any) {
		verifGate.mu.Lock()
		held := verifGate.held
		verifGate.mu.Unlock()
		if held != nil {
			<-held
		}
		defer func() {
			verifGate.mu.Lock()
			verifGate.handed++
			verifGate.mu.Unlock()
		}()
		clean(k, v)
	}, ticker)
	if err != nil {
		return nil, err
	}
	old := timingWheel
	timingWheel = w
	if old != nil {
		old.Stop()
	}
	return w, nil
}

// VerifCleanInFlight is the number of clean closures that have not finished.
func VerifCleanInFlight() int { return taskRunner.VerifInFlight() }

// VerifLadder returns the delays of the retry ladder in seconds as the code defines them:
// the first delay used by AddCleanTask is one second, the following ones come from nextDelay.
func VerifLadder() []int {
	out := []int{1}
	d := time.Second
	for i := 0; i < 64; i++ {
		n, ok := nextDelay(d)
		if !ok {
			break
		}
		out = append(out, int(n/time.Second))
		d = n
	}
	return out
}
