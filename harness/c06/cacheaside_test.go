package cache_test

// Replay driver for property C06 (overlaid into lib/store/cache by /verif/bin/check as an
// external test package so that it may import sqlc).  It executes TLC-generated histories of
// spec/CacheAsideGen.tla through the public methods of sqlc.CachedConn (NewNodeConn for one
// Redis node, NewConn for a consistent-hash cluster) against
//   - a model database behind the Query/Exec callbacks (which count their invocations),
//   - miniredis nodes whose commands are logged and whose outages are injected either as
//     error replies (fast) or by closing / restarting the server (real "down, then back"),
//   - the cleaner's timing wheel, replaced by one whose ticks the driver issues by hand,
// (bursts of writes on different ids within one second and writes whose statement callback runs
// a complete read before the statement are ordinary records of such histories),
// and compares after every step (and after every second of a time step) what was returned,
// how often the database was reached, which keys were removed from Redis and what Redis
// holds (kind of value and TTL per key) with what the specification predicted.

import (
	"bufio"
	"context"
	"database/sql"
	"encoding/json"
	"fmt"
	"os"
	"runtime"
	"sort"
	"strings"
	"sync"
	"testing"
	"time"

	"github.com/alicebob/miniredis/v2"
	"github.com/alicebob/miniredis/v2/server"
	kit "github.com/gotid/god/internal/verifkit"
	"github.com/gotid/god/lib/collection"
	"github.com/gotid/god/lib/logx"
	"github.com/gotid/god/lib/mathx"
	"github.com/gotid/god/lib/stat"
	"github.com/gotid/god/lib/store/cache"
	"github.com/gotid/god/lib/store/redis"
	"github.com/gotid/god/lib/store/sqlc"
	"github.com/gotid/god/lib/store/sqlx"
)

func init() {
	logx.Disable()
	stat.SetReporter(nil)
}

// ---------------------------------------------------------------- hand-driven ticker

type vTicker struct {
	c       chan time.Time
	stopped chan struct{}
	once    sync.Once
}

func newVTicker() *vTicker                { return &vTicker{c: make(chan time.Time), stopped: make(chan struct{})} }
func (t *vTicker) Chan() <-chan time.Time { return t.c }
func (t *vTicker) Stop()                  { t.once.Do(func() { close(t.stopped) }) }

// ---------------------------------------------------------------- caller contexts

// handCtx is a context with a deadline on the virtual time axis: "half a second after the call",
// i.e. before the first background retry.  Virtual seconds have no wall-clock counterpart (a
// tick of the cleaner's wheel is issued by hand), so the wall-clock instant reported by
// Deadline lies far enough ahead never to cut a socket operation short, and the driver lets the
// deadline pass by hand (expire) between the return of the call and the next tick.
type handCtx struct {
	mu   sync.Mutex
	done chan struct{}
	err  error
	at   time.Time
}

func newHandCtx() *handCtx { return &handCtx{done: make(chan struct{}), at: time.Now().Add(time.Hour)} }

func (c *handCtx) Deadline() (time.Time, bool) { return c.at, true }
func (c *handCtx) Done() <-chan struct{}       { return c.done }
func (c *handCtx) Value(any) any               { return nil }
func (c *handCtx) Err() error {
	c.mu.Lock()
	defer c.mu.Unlock()
	return c.err
}

func (c *handCtx) expire() {
	c.mu.Lock()
	defer c.mu.Unlock()
	if c.err == nil {
		c.err = context.DeadlineExceeded
		close(c.done)
	}
}

// callCtx gives the context of kind cx for one write and the function that ends it; end is
// called as soon as the write has returned.
func callCtx(cx string) (ctx context.Context, end func(), err error) {
	switch cx {
	case "cancel":
		c, cancel := context.WithCancel(context.Background())
		return c, cancel, nil
	case "deadline":
		h := newHandCtx()
		return h, h.expire, nil
	}
	return nil, nil, fmt.Errorf("unknown caller context %q", cx)
}

// ---------------------------------------------------------------- Redis nodes

type delEvent struct {
	node int
	keys []string
}

type mnode struct {
	idx  int // 1-based node number of the specification
	m    *miniredis.Miniredis
	addr string
	rds  *redis.Redis // same address, hence the same pooled client as the cache node under test
	mu   sync.Mutex
	down bool // error-reply outage
	shut bool // server closed
	dels [][]string
	// Redis-Cluster mode: the one server stands for all model nodes; a command fails when one
	// of its arguments is a key placed on a model node that is down (so the per-key DELs of a
	// multi-key removal fail individually)
	vdown   map[int]bool
	keyNode func(arg string) (int, bool)
}

const outageMsg = "ERR verif: injected outage"

func (n *mnode) hook(c *server.Peer, cmd string, args ...string) bool {
	n.mu.Lock()
	defer n.mu.Unlock()
	if n.down {
		c.WriteError(outageMsg)
		return true
	}
	if len(n.vdown) > 0 && n.keyNode != nil {
		for _, a := range args {
			if vn, ok := n.keyNode(a); ok && n.vdown[vn] {
				c.WriteError(outageMsg)
				return true
			}
		}
	}
	if strings.EqualFold(cmd, "DEL") {
		n.dels = append(n.dels, append([]string(nil), args...))
	}
	return false
}

func (n *mnode) takeDels() [][]string {
	n.mu.Lock()
	d := n.dels
	n.dels = nil
	n.mu.Unlock()
	return d
}

func newNode(idx int) (*mnode, error) {
	m := miniredis.NewMiniRedis()
	if err := m.Start(); err != nil {
		return nil, err
	}
	n := &mnode{idx: idx, m: m, addr: m.Addr()}
	n.rds = redis.New(n.addr)
	m.Server().SetPreHook(n.hook)
	return n, nil
}

// ---------------------------------------------------------------- model database

type row struct {
	Id   int64  `json:"id"`
	Name string `json:"name"`
	Data string `json:"data"`
}

type stubConn struct{ sqlx.Conn } // never used by the callbacks

type env struct {
	nodes   []*mnode
	conn    sqlc.CachedConn                            // the connection of the current history
	mkConn  func(opts ...cache.Option) sqlc.CachedConn // a cached connection over the same Redis nodes
	conns   map[string]sqlc.CachedConn                 // expiry configuration -> connection
	fault   string                                     // "error" | "close"
	rclu    bool                                       // the cache node's Redis is of ClusterType (one server, model nodes are virtual)
	mnodes  int                                        // number of model nodes
	pkKind  string                                     // "small" | "big" | "str": see pkValue
	pkID    map[string]int                             // printed primary value -> model id
	pkReal  map[string]string                          // printed primary value -> Redis key
	real    map[string]string                          // logical key ("p:1", "i:a") -> Redis key
	logical map[string]string                          // Redis key -> logical key
	place   map[string]int                             // logical key -> node (1-based)
	ids     []int
	names   []string

	db         map[int64]row
	qp, qi, qx int // callbacks: primary-key queries, index queries, exec

	tk    *vTicker
	wheel *collection.TimingWheel
	nsent int
	ticks int
}

func pkey(id int) string      { return fmt.Sprintf("p:%d", id) }
func ikey(name string) string { return "i:" + name }

// pkValue is the primary-key value that the database uses for model id under the configured
// kind: a small integer, an integer above 2^53 (not representable as float64) or a string.
func pkValue(kind string, id int) any {
	switch kind {
	case "big":
		return int64(323427211229009810) + int64(id)
	case "str":
		return fmt.Sprintf("k%d", id)
	}
	return int64(id)
}

// keyer builds the primary cache key the way generated model code does: prefix + %v of the
// primary value handed over by the cache layer (decoded into `any`).
func (e *env) keyer(primary any) string {
	s := fmt.Sprint(primary)
	if rk, ok := e.pkReal[s]; ok {
		return rk
	}
	return "p:" + s // no row has this key; whatever the code does with it shows up in Redis
}

// newEnv starts the Redis nodes and builds the cached connection.  place gives for every
// logical key the node it must live on; with more than one node the Redis key names get a
// suffix chosen such that the cluster's consistent hash really puts them there (found by
// storing a probe through the cache and looking where it arrives).
func newEnv(nnodes int, place map[string]int, ids []int, names []string, opts []cache.Option, fault, rtype, pkKind string) (*env, error) {
	e := &env{conns: map[string]sqlc.CachedConn{}, pkKind: pkKind, pkID: map[string]int{}, pkReal: map[string]string{}, fault: fault, real: map[string]string{}, logical: map[string]string{}, place: place, ids: ids, names: names,
		rclu: rtype == redis.ClusterType, mnodes: nnodes}
	if e.rclu && fault != "error" {
		return nil, fmt.Errorf("Redis-Cluster mode supports error-reply outages only")
	}
	realNodes := nnodes
	if e.rclu {
		realNodes = 1
	}
	for i := 1; i <= realNodes; i++ {
		n, err := newNode(i)
		if err != nil {
			return nil, err
		}
		e.nodes = append(e.nodes, n)
	}
	if e.rclu {
		// through the configuration path: cache.New with one node of type "cluster" (go-redis
		// ClusterClient; miniredis answers CLUSTER SLOTS with itself for all slots)
		e.mkConn = func(opts ...cache.Option) sqlc.CachedConn {
			return sqlc.NewConn(stubConn{}, cache.Config{{Config: redis.Config{Host: e.nodes[0].addr, Type: redis.ClusterType}, Weight: 100}}, opts...)
		}
		n := e.nodes[0]
		n.vdown = map[int]bool{}
		n.keyNode = func(arg string) (int, bool) {
			lk, ok := e.logical[arg]
			if !ok {
				return 0, false
			}
			return e.place[lk], true
		}
	} else if nnodes == 1 {
		e.mkConn = func(opts ...cache.Option) sqlc.CachedConn {
			return sqlc.NewNodeConn(stubConn{}, redis.New(e.nodes[0].addr), opts...)
		}
	} else {
		var cfg cache.Config
		for _, n := range e.nodes {
			cfg = append(cfg, cache.NodeConfig{Config: redis.Config{Host: n.addr, Type: redis.NodeType}, Weight: 100})
		}
		e.mkConn = func(opts ...cache.Option) sqlc.CachedConn { return sqlc.NewConn(stubConn{}, cfg, opts...) }
	}
	// (where a key lives depends on the nodes only, not on the options)
	e.conn = e.mkConn(opts...)
	var lks []string
	base := map[string]string{} // logical key -> Redis key name (before any placement suffix)
	for _, id := range ids {
		lks = append(lks, pkey(id))
		base[pkey(id)] = "p:" + fmt.Sprint(pkValue(pkKind, id))
	}
	for _, nm := range names {
		lks = append(lks, ikey(nm))
	}
	for _, lk := range lks {
		want, ok := place[lk]
		if !ok || want < 1 || want > nnodes {
			return nil, fmt.Errorf("no placement for key %s", lk)
		}
		if _, ok := base[lk]; !ok {
			base[lk] = lk
		}
		if nnodes == 1 || e.rclu {
			e.real[lk], e.logical[base[lk]] = base[lk], lk
			continue
		}
		found := false
		for salt := 0; salt < 4000 && !found; salt++ {
			rk := fmt.Sprintf("%s#%d", base[lk], salt)
			if err := e.conn.SetCache(rk, 1); err != nil {
				return nil, fmt.Errorf("placement probe: %v", err)
			}
			for _, n := range e.nodes {
				if n.m.Exists(rk) {
					if n.idx == want {
						e.real[lk], e.logical[rk] = rk, lk
						found = true
					}
					n.m.Del(rk)
				}
			}
		}
		if !found {
			return nil, fmt.Errorf("no key name found that places %s on node %d", lk, want)
		}
	}
	for _, id := range ids {
		s := fmt.Sprint(pkValue(pkKind, id))
		e.pkID[s], e.pkReal[s] = id, e.real[pkey(id)]
	}
	return e, nil
}

// expiryOpt is one expiry option as a history configures it: not given at all, or given with a
// number of seconds that may be zero or negative.
type expiryOpt struct {
	Set bool `json:"set"`
	V   int  `json:"v"`
}

func (o expiryOpt) class() string {
	switch {
	case !o.Set:
		return "unset"
	case o.V == 0:
		return "zero"
	case o.V < 0:
		return "negative"
	}
	return "positive"
}

// useConfig makes the connection configured with the given expiry options the current one.
func (e *env) useConfig(ex, nf expiryOpt) {
	k := fmt.Sprintf("%+v/%+v", ex, nf)
	c, ok := e.conns[k]
	if !ok {
		var opts []cache.Option
		if ex.Set {
			opts = append(opts, cache.WithExpire(time.Duration(ex.V)*time.Second))
		}
		if nf.Set {
			opts = append(opts, cache.WithNotFoundExpire(time.Duration(nf.V)*time.Second))
		}
		c = e.mkConn(opts...)
		e.conns[k] = c
	}
	e.conn = c
}

func (e *env) close() {
	for _, n := range e.nodes {
		n.m.Close()
	}
}

// reset prepares the environment for the next history.
func (e *env) reset() error {
	if err := e.allUp(); err != nil {
		return err
	}
	for _, n := range e.nodes {
		n.m.FlushAll()
		n.takeDels()
	}
	e.db = map[int64]row{}
	e.qp, e.qi, e.qx = 0, 0, 0
	if !kit.WaitFor(5*time.Second, func() bool { return cache.VerifCleanInFlight() == 0 }) {
		return fmt.Errorf("cleaner tasks of the previous history did not finish")
	}
	cache.VerifRelease()
	e.tk = newVTicker()
	w, err := cache.VerifSwapWheel(e.tk)
	if err != nil {
		return err
	}
	e.wheel = w
	e.ticks = 0
	return nil
}

var errRestart = fmt.Errorf("miniredis could not be restarted on its port / did not become reachable again")

// setNode makes model node idx (1-based) reachable or not.
func (e *env) setNode(idx int, up bool) error {
	if e.rclu {
		n := e.nodes[0]
		n.mu.Lock()
		if up {
			delete(n.vdown, idx)
		} else {
			n.vdown[idx] = true
		}
		n.mu.Unlock()
		return nil
	}
	return e.setUp(e.nodes[idx-1], up)
}

func (e *env) allUp() error {
	for i := 1; i <= e.mnodes; i++ {
		if err := e.setNode(i, true); err != nil {
			return err
		}
	}
	return nil
}

func (e *env) setUp(n *mnode, up bool) error {
	if e.fault == "close" {
		if up && n.shut {
			var err error
			for i := 0; i < 20; i++ {
				if err = n.m.Restart(); err == nil {
					break
				}
				time.Sleep(10 * time.Millisecond)
			}
			if err != nil {
				return errRestart
			}
			n.m.Server().SetPreHook(n.hook)
			n.shut = false
			// "back" means reachable by the client: after many failed dials go-redis refuses
			// to dial at all until its background probe (once per second) has succeeded
			if !kit.WaitFor(5*time.Second, n.rds.Ping) {
				return errRestart
			}
		} else if !up && !n.shut {
			n.m.Close()
			n.shut = true
		}
		return nil
	}
	n.mu.Lock()
	n.down = !up
	n.mu.Unlock()
	return nil
}

// noop makes the wheel's loop accept a message that changes nothing; the loop is sequential, so
// everything it accepted earlier (a tick, the SetTimer calls of finished cleaner tasks) has been
// carried out when this returns.
func (e *env) noop() error {
	done := make(chan error, 1)
	go func() { done <- e.wheel.RemoveTimer("\x00barrier") }()
	select {
	case err := <-done:
		return err
	case <-time.After(30 * time.Second):
		return fmt.Errorf("the wheel's loop does not accept messages\n%s", kit.Stacks())
	}
}

// tick issues one tick of the cleaner's wheel and returns once everything the tick caused has
// happened.  The barrier does not depend on how the wheel treats a timer of the driver (see
// cache.VerifHold): the tasks the tick collects wait in front of clean until the driver has
// counted them in the wheel's registry; then they are let through, the driver waits until clean
// has taken over that many, until the task runner is idle, and until the wheel has accepted
// the timers that failing tasks set again.  It returns the number of tasks the tick fired.
func (e *env) tick() (int, error) {
	// (a timer set by the operation before -- AddCleanTask returns when the wheel's loop has taken
	// the request, not when it is registered -- is in the registry once the loop takes the next one)
	if err := e.noop(); err != nil {
		return 0, err
	}
	before, handed0 := e.wheel.VerifRegistered(), cache.VerifHanded()
	cache.VerifHold()
	defer cache.VerifRelease()
	select {
	case e.tk.c <- time.Time{}:
	case <-time.After(30 * time.Second):
		return 0, fmt.Errorf("tick not accepted by the wheel\n%s", kit.Stacks())
	}
	if err := e.noop(); err != nil {
		return 0, err
	}
	fired := before - e.wheel.VerifRegistered()
	if fired < 0 {
		return 0, fmt.Errorf("tick %d: the wheel's registry grew from %d timers by %d while no task could run", e.ticks+1, before, -fired)
	}
	cache.VerifRelease()
	if !kit.WaitFor(60*time.Second, func() bool { return cache.VerifHanded() >= handed0+fired }) {
		return fired, fmt.Errorf("tick %d: %d tasks fired, the cleaner took over %d\n%s", e.ticks+1, fired, cache.VerifHanded()-handed0, kit.Stacks())
	}
	if !kit.WaitFor(60*time.Second, func() bool { return cache.VerifCleanInFlight() == 0 }) {
		return fired, fmt.Errorf("cleaner tasks did not finish\n%s", kit.Stacks())
	}
	if err := e.noop(); err != nil {
		return fired, err
	}
	if n := cache.VerifHanded() - handed0; n != fired {
		return fired, fmt.Errorf("tick %d: the wheel's registry lost %d timers, but %d tasks were executed", e.ticks+1, fired, n)
	}
	e.ticks++
	return fired, nil
}

// ---------------------------------------------------------------- operations

func (e *env) classify(err error) string {
	switch err {
	case nil:
		return "ok"
	case sqlc.ErrNotFound:
		return "nf"
	}
	return "cacheerr"
}

func (e *env) queryRow(id int) (row, string, error) {
	var r row
	err := e.conn.QueryRow(&r, e.real[pkey(id)], func(_ sqlx.Conn, v any) error {
		e.qp++
		d, ok := e.db[int64(id)]
		if !ok {
			return sqlc.ErrNotFound
		}
		*v.(*row) = d
		return nil
	})
	return r, e.classify(err), err
}

func (e *env) queryIndex(name string) (row, string, error) {
	var r row
	err := e.conn.QueryRowIndex(&r, e.real[ikey(name)], e.keyer,
		func(_ sqlx.Conn, v any) (any, error) {
			e.qi++
			for _, d := range e.db {
				if d.Name == name {
					*v.(*row) = d
					return pkValue(e.pkKind, int(d.Id)), nil
				}
			}
			return nil, sqlc.ErrNotFound
		},
		func(_ sqlx.Conn, v, primary any) error {
			e.qp++
			id, ok := e.pkID[fmt.Sprint(primary)]
			if !ok {
				return sqlc.ErrNotFound // the database has no row with such a primary key
			}
			d, ok := e.db[int64(id)]
			if !ok {
				return sqlc.ErrNotFound
			}
			*v.(*row) = d
			return nil
		})
	return r, e.classify(err), err
}

func (e *env) realKeys(v any) []string {
	var ks []string
	for _, k := range kit.List(v) {
		ks = append(ks, e.real[kit.Str(k)])
	}
	sort.Strings(ks)
	return ks
}

// delsNow returns the removals seen by the Redis nodes since the last call, as a sorted
// multiset of "node/logicalkey".
func (e *env) delsNow() []string {
	var out []string
	for _, n := range e.nodes {
		for _, cmd := range n.takeDels() {
			for _, rk := range cmd {
				lk, ok := e.logical[rk]
				if !ok {
					lk = "?" + rk
				}
				nd := n.idx
				if e.rclu && ok {
					nd = e.place[lk]
				}
				out = append(out, fmt.Sprintf("%d/%s", nd, lk))
			}
		}
	}
	sort.Strings(out)
	return out
}

// wantDels flattens the specification's removal groups {node, keys} the same way.
func wantDels(groups []any) []string {
	var out []string
	for _, g := range groups {
		m := g.(map[string]any)
		for _, k := range kit.List(m["keys"]) {
			out = append(out, fmt.Sprintf("%d/%s", kit.Num(m["node"]), kit.Str(k)))
		}
	}
	sort.Strings(out)
	return out
}

const (
	kindNone = 0
	kindRow  = 1
	kindNf   = 2
	kindPk   = 3
)

var kindNames = []string{"none", "row", "placeholder", "primary-id"}

// cacheNow reads what the Redis nodes hold: logical key -> ttl*10 + kind (the encoding of
// CacheAsideGen!Snap); keys that no history could have produced are reported.
func (e *env) cacheNow() (map[string]int, string) {
	out := map[string]int{}
	for _, n := range e.nodes {
		for _, rk := range n.m.Keys() {
			lk, ok := e.logical[rk]
			if !ok {
				return nil, fmt.Sprintf("unknown key %q on node %d", rk, n.idx)
			}
			if !e.rclu && e.place[lk] != n.idx {
				return nil, fmt.Sprintf("key %s stored on node %d, placement says node %d", lk, n.idx, e.place[lk])
			}
			val, err := n.m.Get(rk)
			if err != nil {
				return nil, fmt.Sprintf("key %s: %v", lk, err)
			}
			kind := kindPk
			switch {
			case val == "*":
				kind = kindNf
			case strings.HasPrefix(val, "{"):
				kind = kindRow
			}
			ttl := n.m.TTL(rk)
			if ttl%time.Second != 0 {
				return nil, fmt.Sprintf("key %s has a fractional TTL %v", lk, ttl)
			}
			out[lk] = int(ttl/time.Second)*10 + kind
		}
	}
	return out, ""
}

func descr(code int) string {
	if code == 0 {
		return "absent"
	}
	return fmt.Sprintf("%s ttl=%ds", kindNames[code%10], code/10)
}

// ---------------------------------------------------------------- one history

type caseRunner struct {
	e    *env
	rep  *kit.Reporter
	mode string
}

func jitValue(j string) (float64, error) {
	switch j {
	case "hi":
		return 0, nil
	case "mid":
		return 0.5, nil
	case "lo":
		return 1, nil
	}
	return 0, fmt.Errorf("unknown jitter choice %q", j)
}

// run executes one history; a disagreement is reported only if it shows again when the same
// history is executed a second time.  The histories are sequential and the code under test is
// deterministic on them, so a real defect reproduces; what does not reproduce is transport
// noise (go-redis re-sends a command whose reply timed out on an overloaded machine, and the
// Redis node then sees e.g. the same DEL twice).  Unconfirmed disagreements are counted.
func (cr *caseRunner) run(c kit.Case) kit.Verdict {
	v := cr.runOnce(c)
	if v.OK || v.Infra {
		return v
	}
	v2 := cr.runOnce(c)
	if v2.Infra {
		return v2
	}
	if v2.OK {
		cr.rep.Count("unconfirmed_disagreement", 1)
		return v2
	}
	return v
}

func (cr *caseRunner) runOnce(c kit.Case) (v kit.Verdict) {
	e := cr.e
	v = kit.Verdict{Case: c.Index, OK: true}
	infra := func(msg string) kit.Verdict {
		return kit.Verdict{Case: c.Index, Infra: true, Msg: msg, Steps: v.Steps}
	}
	if err := e.reset(); err != nil {
		if err == errRestart {
			cr.rep.Count("abandoned_restart", 1)
			return v
		}
		return infra(err.Error())
	}
	fail := func(step int, key, msg string) kit.Verdict {
		v.OK, v.Step, v.Key, v.Msg = false, step, key, msg
		return v
	}
	hadFail := false // some removal has failed so far in this history
	curStep, curOp := 0, "init"
	// a panic raised by the code under test on the driver's goroutine is a behaviour of that code
	defer func() {
		if r := recover(); r != nil {
			where, own := panicOrigin()
			if own {
				v = infra(fmt.Sprintf("step %d %s: the driver panicked: %v at %s", curStep, curOp, r, where))
				return
			}
			v = fail(curStep, "C06:panic:"+curOp, fmt.Sprintf("step %d %s: panic %v at %s", curStep, curOp, r, where))
		}
	}()
	var cfgE, cfgNF expiryOpt
	ctxEnded := map[string]bool{} // keys whose removal failed under a context that has ended since
	for i, st := range c.Steps {
		op := kit.Str(st["op"])
		if op == "init" {
			r, err := jitValue(kit.Str(st["jit"]))
			if err != nil {
				return infra(err.Error())
			}
			mathx.SetVerifUnstable(func() (float64, bool) { return r, true })
			cm, ok := st["cfg"].(map[string]any)
			if !ok {
				return infra("init record without expiry configuration")
			}
			b, _ := json.Marshal(cm)
			var hc struct{ E, Nf expiryOpt }
			if err := json.Unmarshal(b, &hc); err != nil {
				return infra("init record: " + err.Error())
			}
			cfgE, cfgNF = hc.E, hc.Nf
			e.useConfig(cfgE, cfgNF)
			cr.rep.Count("cfg_e_"+cfgE.class(), 1)
			cr.rep.Count("cfg_nf_"+cfgNF.class(), 1)
			for _, x := range kit.List(st["db"]) {
				m := x.(map[string]any)
				id := int64(kit.Num(m["id"]))
				e.db[id] = row{Id: id, Name: kit.Str(m["name"]), Data: kit.Str(m["data"])}
			}
			continue
		}
		cr.rep.Count("op_"+op, 1)
		curStep, curOp = i, op
		q0p, q0i, q0x := e.qp, e.qi, e.qx
		var gotRes string
		var gotRow row
		var gotErr error
		wantX := 0
		var pre map[string]any // the read inside a write's statement callback, and what it returned
		var preRow row
		var preRes string
		var preErr error
		switch op {
		case "qrow":
			gotRow, gotRes, gotErr = e.queryRow(kit.Num(st["id"]))
			if gotRes == "ok" {
				gotRes = "row"
			}
		case "qindex":
			gotRow, gotRes, gotErr = e.queryIndex(kit.Str(st["name"]))
			if gotRes == "ok" {
				gotRes = "row"
			}
		case "put", "delete":
			id := int64(kit.Num(st["id"]))
			wantX = 1
			pre, _ = st["pre"].(map[string]any)
			write := func() {
				if pre != nil {
					// a complete read inside the statement callback, before the statement
					preRow, preRes, preErr = e.readOf(pre)
				}
				e.qx++
				if op == "put" {
					e.db[id] = row{Id: id, Name: kit.Str(st["name"]), Data: kit.Str(st["data"])}
				} else {
					delete(e.db, id)
				}
			}
			var err error
			if cx := kit.Str(st["cx"]); cx == "bg" {
				_, err = e.conn.Exec(func(_ sqlx.Conn) (sql.Result, error) { write(); return nil, nil }, e.realKeys(st["keys"])...)
			} else {
				ctx, end, cerr := callCtx(cx)
				if cerr != nil {
					return infra(cerr.Error())
				}
				_, err = e.conn.ExecCtx(ctx, func(context.Context, sqlx.Conn) (sql.Result, error) { write(); return nil, nil }, e.realKeys(st["keys"])...)
				end()
			}
			gotRes, gotErr = e.classify(err), err
		case "delcache":
			var err error
			if cx := kit.Str(st["cx"]); cx == "bg" {
				err = e.conn.DelCache(e.realKeys(st["keys"])...)
			} else {
				ctx, end, cerr := callCtx(cx)
				if cerr != nil {
					return infra(cerr.Error())
				}
				err = e.conn.DelCacheCtx(ctx, e.realKeys(st["keys"])...)
				end()
			}
			gotRes, gotErr = e.classify(err), err
		case "setcache":
			id := kit.Num(st["id"])
			d, ok := e.db[int64(id)]
			if !ok {
				return infra(fmt.Sprintf("step %d: setcache of a missing row", i))
			}
			err := e.conn.SetCache(e.real[pkey(id)], d)
			gotRes, gotErr = e.classify(err), err
		case "down", "up":
			if err := e.setNode(kit.Num(st["node"]), op == "up"); err != nil {
				if err == errRestart {
					cr.rep.Count("abandoned_restart", 1)
					return v
				}
				return infra(err.Error())
			}
			gotRes = "ok"
		case "adv", "finish":
			if op == "finish" {
				if err := e.allUp(); err != nil {
					if err == errRestart {
						cr.rep.Count("abandoned_restart", 1)
						return v
					}
					return infra(err.Error())
				}
			}
			want := map[int][]any{}
			for _, f := range kit.List(st["fires"]) {
				at := kit.Num(f.(map[string]any)["at"])
				want[at] = append(want[at], f)
			}
			n := kit.Num(st["n"])
			for t := 1; t <= n; t++ {
				for _, nd := range e.nodes {
					nd.m.FastForward(time.Second)
				}
				nfired, err := e.tick()
				if err != nil {
					return infra(err.Error())
				}
				got, wnt := strings.Join(e.delsNow(), " "), strings.Join(wantDels(want[t]), " ")
				if got != wnt {
					key := "C06:retry:unexpected-removal"
					switch {
					case wnt != "" && got == "":
						key = "C06:retry:failed-removal-not-retried"
					case wnt != "" && got != "":
						key = "C06:retry:wrong-keys"
					case !hadFail:
						key = "C06:retry:removal-without-failure"
					}
					return fail(i, key, fmt.Sprintf("step %d (%s %d s), second %d (wheel tick %d): Redis saw removals {%s}, specification {%s}",
						i, op, n, t, e.ticks, got, wnt))
				}
				if len(want[t]) >= 2 && nfired < len(want[t]) {
					// (cannot be: the removals seen agree with the specification)
					return infra(fmt.Sprintf("second %d: %d retries observed at Redis, the wheel fired %d tasks", t, len(want[t]), nfired))
				}
				if wnt != "" {
					cr.rep.Count("retry_del_seconds", 1)
					for _, m := range []int{2, 3, 10} {
						if len(want[t]) >= m {
							cr.rep.Count(fmt.Sprintf("retry_fires_ge%d", m), 1)
						}
					}
					for _, f := range want[t] {
						for _, k := range kit.List(f.(map[string]any)["keys"]) {
							if ctxEnded[kit.Str(k)] {
								cr.rep.Count("retry_del_after_ctx_end", 1)
								delete(ctxEnded, kit.Str(k))
							}
						}
					}
				}
			}
			v.Steps += n
			gotRes = "ok"
		default:
			return infra("unknown op " + op)
		}
		v.Steps++
		loose := kit.Bool(st["loose"])
		wantRes := kit.Str(st["res"])
		if op == "qrow" || op == "qindex" {
			cr.rep.Count("read_"+wantRes, 1)
			if loose {
				cr.rep.Count("read_loose", 1)
			}
			if kit.Num(st["qp"])+kit.Num(st["qi"]) == 0 && wantRes != "cacheerr" {
				cr.rep.Count("read_shielded", 1)
			}
		}
		resOK := gotRes == wantRes
		if resOK && wantRes == "row" {
			w := st["row"].(map[string]any)
			resOK = gotRow == row{Id: int64(kit.Num(w["id"])), Name: kit.Str(w["name"]), Data: kit.Str(w["data"])}
		}
		dq := fmt.Sprintf("primary=%d index=%d exec=%d", e.qp-q0p, e.qi-q0i, e.qx-q0x)
		wq := fmt.Sprintf("primary=%d index=%d exec=%d", kit.Num(st["qp"]), kit.Num(st["qi"]), wantX)
		// a write with a read inside its statement callback (before the statement)
		staleAfter := func() (string, bool) { return "", false }
		if pre != nil && resOK {
			pop := kit.Str(pre["op"])
			cr.rep.Count("write_with_inner_"+pop, 1)
			if kit.Num(pre["qp"])+kit.Num(pre["qi"]) > 0 {
				cr.rep.Count("inner_read_db", 1)
			}
			if preRes == "" {
				return fail(i, "C06:statement-not-executed:"+op, fmt.Sprintf("step %d %s: the statement callback was not called", i, opArgs(st)))
			}
			wres, ploose := kit.Str(pre["res"]), kit.Bool(pre["loose"])
			pOK := preRes == wres
			if pOK && wres == "row" {
				w := pre["row"].(map[string]any)
				pOK = preRow == row{Id: int64(kit.Num(w["id"])), Name: kit.Str(w["name"]), Data: kit.Str(w["data"])}
			}
			if !pOK && ploose {
				// (a dirty key was consulted: the row before the statement is accepted as well; the write
				// has been carried out, but the rest of the history can no longer be predicted)
				cr.rep.Count("abandoned_loose", 1)
				return v
			}
			if !pOK {
				key := "C06:read-in-write:" + pop
				if wres == "cacheerr" {
					key = "C06:cache-error-not-returned:in-write:" + pop
				}
				return fail(i, key, fmt.Sprintf("step %d %s: the read inside the statement callback (before the statement) returned %s %+v (err=%v), specification %s %v",
					i, opArgs(st), preRes, preRow, preErr, wres, pre["row"]))
			}
			stepFailed := len(wantDels(kit.List(st["dels"]))) < len(kit.List(st["keys"]))
			if !hadFail && !stepFailed && !ploose {
				// the write has returned and no removal has failed in this history: the same read, issued
				// now, must give the database's current row.  (Used only to name a disagreement of this
				// step by what the statement forbids; the history ends there.)
				staleAfter = func() (string, bool) {
					r, res, err := e.readOf(pre)
					cur, curRes := e.truth(pop, pre)
					if res == "cacheerr" || (res == curRes && (curRes != "row" || r == cur)) {
						return "", false
					}
					return fmt.Sprintf("; the same read issued after the write had returned gave %s %+v (err=%v), the database has %s %+v", res, r, err, curRes, cur), true
				}
			}
		}
		if loose && (!resOK || dq != wq) {
			// the statement allows a stale value here (a removal of a consulted key failed and
			// has not been repeated successfully yet): accept the current row as well, but the
			// rest of the history can no longer be predicted
			cur, curRes := e.truth(op, st)
			if gotRes == curRes && (curRes != "row" || gotRow == cur) {
				cr.rep.Count("abandoned_loose", 1)
				return v
			}
		}
		if !resOK {
			key := "C06:read-result:" + op
			if op != "qrow" && op != "qindex" {
				key = "C06:result:" + op
			} else if wantRes == "cacheerr" {
				key = "C06:cache-error-not-returned:" + op
			} else if gotRes != "cacheerr" {
				key = "C06:stale-read:" + op
				if loose {
					key = "C06:read-result-dirty:" + op
				}
			}
			return fail(i, key, fmt.Sprintf("step %d %s: returned %s %+v (err=%v), specification %s %v", i, opArgs(st), gotRes, gotRow, gotErr, wantRes, st["row"]))
		}
		if dq != wq {
			key := "C06:db-callbacks:" + op
			if wantRes == "cacheerr" {
				key = "C06:fall-through-to-db:" + op
			}
			msg := fmt.Sprintf("step %d %s: database callbacks %s, specification %s", i, opArgs(st), dq, wq)
			if more, stale := staleAfter(); stale {
				key, msg = "C06:stale-read:after-write-overlapped-by-read:"+kit.Str(pre["op"]), msg+more
			}
			return fail(i, key, msg)
		}
		if op != "adv" && op != "finish" {
			got, wnt := strings.Join(e.delsNow(), " "), strings.Join(wantDels(kit.List(st["dels"])), " ")
			if got != wnt {
				return fail(i, "C06:removal:"+op, fmt.Sprintf("step %d %s: Redis saw removals {%s}, specification {%s}", i, opArgs(st), got, wnt))
			}
			if len(wantDels(kit.List(st["dels"]))) < len(kit.List(st["keys"])) {
				hadFail = true // some named key could not be removed: a retry is pending from now on
				cx := kit.Str(st["cx"])
				cr.rep.Count("failed_removal_cx_"+cx, 1)
				if cx != "bg" {
					removed := map[string]bool{}
					for _, g := range kit.List(st["dels"]) {
						for _, k := range kit.List(g.(map[string]any)["keys"]) {
							removed[kit.Str(k)] = true
						}
					}
					for _, k := range kit.List(st["keys"]) {
						if !removed[kit.Str(k)] {
							ctxEnded[kit.Str(k)] = true
						}
					}
				}
			}
		}
		got, bad := e.cacheNow()
		if bad != "" {
			return fail(i, "C06:cache-content:foreign-key", fmt.Sprintf("step %d %s: %s", i, opArgs(st), bad))
		}
		wantCache := st["cache"].(map[string]any)
		for lk, wv := range wantCache {
			w, g := kit.Num(wv), got[lk]
			if w == g {
				continue
			}
			key := "C06:cache-content:" + op
			if w != 0 && g != 0 && w%10 == g%10 {
				key = "C06:ttl:" + kindNames[w%10]
			}
			msg := fmt.Sprintf("step %d %s: Redis holds %s = %s, specification %s", i, opArgs(st), lk, descr(g), descr(w))
			if more, stale := staleAfter(); stale {
				key, msg = "C06:stale-read:after-write-overlapped-by-read:"+kit.Str(pre["op"]), msg+more
			}
			return fail(i, key, msg)
		}
		for lk := range got {
			if _, ok := wantCache[lk]; !ok {
				return infra("key " + lk + " missing in the specification's snapshot")
			}
		}
		for _, wv := range wantCache {
			switch w := kit.Num(wv); {
			case w == 0:
			case w%10 == kindNf && cfgNF.class() != "positive":
				cr.rep.Count("stored_default_nf_expiry", 1)
			case w%10 != kindNf && cfgE.class() != "positive":
				cr.rep.Count("stored_default_expiry", 1)
			}
		}
	}
	return v
}

// readOf executes a read given by its descriptor (op qrow/qindex with id/name).
func (e *env) readOf(d map[string]any) (row, string, error) {
	var r row
	var res string
	var err error
	switch kit.Str(d["op"]) {
	case "qrow":
		r, res, err = e.queryRow(kit.Num(d["id"]))
	case "qindex":
		r, res, err = e.queryIndex(kit.Str(d["name"]))
	default:
		panic("verif driver: unknown read " + kit.Str(d["op"]))
	}
	if res == "ok" {
		res = "row"
	}
	return r, res, err
}

// panicOrigin names the function that raised the panic being recovered and tells whether it
// belongs to the driver (its own files / the kit) rather than to the code under test.
func panicOrigin() (string, bool) {
	pcs := make([]uintptr, 64)
	n := runtime.Callers(2, pcs)
	fr := runtime.CallersFrames(pcs[:n])
	seenPanic := false
	for {
		f, more := fr.Next()
		if strings.HasPrefix(f.Function, "runtime.") {
			if f.Function == "runtime.gopanic" || strings.HasPrefix(f.Function, "runtime.panic") || f.Function == "runtime.sigpanic" || f.Function == "runtime.goPanicIndex" {
				seenPanic = true
			}
		} else if seenPanic {
			own := strings.Contains(f.File, "zz_verif_") || strings.Contains(f.Function, "verifkit")
			return fmt.Sprintf("%s (%s:%d)", f.Function, f.File, f.Line), own
		}
		if !more {
			return "unknown", true
		}
	}
}

// truth is the current database content for a read (used only for loose reads).
func (e *env) truth(op string, st kit.M) (row, string) {
	switch op {
	case "qrow":
		if d, ok := e.db[int64(kit.Num(st["id"]))]; ok {
			return d, "row"
		}
	case "qindex":
		for _, d := range e.db {
			if d.Name == kit.Str(st["name"]) {
				return d, "row"
			}
		}
	}
	return row{}, "nf"
}

func opArgs(st kit.M) string {
	switch kit.Str(st["op"]) {
	case "qrow", "setcache":
		return fmt.Sprintf("%s(id=%d)", st["op"], kit.Num(st["id"]))
	case "qindex":
		return fmt.Sprintf("qindex(name=%s)", kit.Str(st["name"]))
	case "put":
		return fmt.Sprintf("put(id=%d,name=%s,data=%s keys=%v%s)", kit.Num(st["id"]), kit.Str(st["name"]), kit.Str(st["data"]), st["keys"], preArgs(st))
	case "delete":
		return fmt.Sprintf("delete(id=%d keys=%v%s)", kit.Num(st["id"]), st["keys"], preArgs(st))
	case "delcache":
		return fmt.Sprintf("delcache(%v)", st["keys"])
	}
	return kit.Str(st["op"])
}

func preArgs(st kit.M) string {
	pre, ok := st["pre"].(map[string]any)
	if !ok {
		return ""
	}
	if kit.Str(pre["op"]) == "qrow" {
		return fmt.Sprintf(" callback-reads=qrow(id=%d)", kit.Num(pre["id"]))
	}
	return fmt.Sprintf(" callback-reads=qindex(name=%s)", kit.Str(pre["name"]))
}

// envFromEnviron builds the environment described by VERIF_C06_* variables.
func envFromEnviron() (*env, error) {
	var cfg struct {
		Nodes int            `json:"nodes"`
		Place map[string]int `json:"place"`
		Ids   []int          `json:"ids"`
		Names []string       `json:"names"`
		RType string         `json:"rtype"`
		Pk    string         `json:"pk"`
	}
	if err := json.Unmarshal([]byte(kit.Env("VERIF_C06_CFG", "")), &cfg); err != nil {
		return nil, fmt.Errorf("VERIF_C06_CFG: %v", err)
	}
	// (every history brings its own expiry configuration: see useConfig)
	return newEnv(cfg.Nodes, cfg.Place, cfg.Ids, cfg.Names, nil, kit.Env("VERIF_C06_FAULT", "error"), cfg.RType, cfg.Pk)
}

// forEachCase streams the case file: one line is decoded at a time and only the lines of this
// shard are decoded at all (the files of this check are large; nothing is retained).
func forEachCase(path string, shard, shards int, fn func(kit.Case)) error {
	f, err := os.Open(path)
	if err != nil {
		return err
	}
	defer f.Close()
	sc := bufio.NewScanner(f)
	sc.Buffer(make([]byte, 1<<20), 1<<27)
	i := 0
	for sc.Scan() {
		line := sc.Bytes()
		if len(line) == 0 {
			continue
		}
		if i%shards == shard {
			var steps []kit.M
			if err := json.Unmarshal(line, &steps); err != nil {
				return fmt.Errorf("case %d: %v", i, err)
			}
			fn(kit.Case{Index: i, Steps: steps})
		}
		i++
	}
	return sc.Err()
}

func TestVerifC06(t *testing.T) {
	rep, err := kit.NewReporter(kit.Env("VERIF_OUT", ""))
	if err != nil {
		t.Fatal(err)
	}
	defer rep.Close()
	// the breaker inside redis.Redis must not start rejecting after injected failures (C01/C12)
	mathx.SetVerifCoin(func(float64) (bool, bool) { return false, true })
	defer mathx.SetVerifCoin(nil)
	defer mathx.SetVerifUnstable(nil)
	e, err := envFromEnviron()
	if err != nil {
		rep.Put(kit.Verdict{Infra: true, Msg: err.Error()})
		return
	}
	defer e.close()
	cr := &caseRunner{e: e, rep: rep}
	shard, shards := kit.EnvInt("VERIF_SHARD", 0), kit.EnvInt("VERIF_SHARDS", 1)
	if err := forEachCase(kit.Env("VERIF_CASES", ""), shard, shards, func(c kit.Case) { rep.Put(cr.run(c)) }); err != nil {
		rep.Put(kit.Verdict{Infra: true, Msg: err.Error()})
	}
}

// TestVerifC06Ladder writes the retry ladder as the code defines it (seconds) to VERIF_OUT.
func TestVerifC06Ladder(t *testing.T) {
	b, _ := json.Marshal(cache.VerifLadder())
	if err := os.WriteFile(kit.Env("VERIF_OUT", ""), b, 0o644); err != nil {
		t.Fatal(err)
	}
}

// ---------------------------------------------------------------- concurrent readers

// TestVerifC06Concurrent records what concurrent readers of uncached keys do.  Every round:
// [sequential writes through Exec] ; [many goroutines read the same keys at once against a slow
// database callback: QueryRow of two primary keys and QueryRowIndex of three index keys whose
// primary key is a small integer, an integer above 2^53 and a string (handed to the keyer as
// `any`, as the API prescribes)] ; [a second wave of readers] ; [what Redis holds].  Every
// event gets its position in the trace under the tracer's mutex (reads: at call and at return;
// database callbacks: at entry and at exit), and the trace is validated by TLC against
// spec/CacheAsideTrace.tla.
func TestVerifC06Concurrent(t *testing.T) {
	tr, err := kit.NewTracer(kit.Env("VERIF_OUT", ""))
	if err != nil {
		t.Fatal(err)
	}
	defer tr.Close()
	mathx.SetVerifCoin(func(float64) (bool, bool) { return false, true })
	defer mathx.SetVerifCoin(nil)
	mathx.SetVerifUnstable(nil) // real jitter: TTLs are checked against the +-5 % range
	rounds, readers := kit.EnvInt("VERIF_C06_ROUNDS", 40), kit.EnvInt("VERIF_C06_READERS", 16)
	ids := []int{1, 2}
	e, err := newEnv(1, map[string]int{"p:1": 1, "p:2": 1}, ids, nil,
		[]cache.Option{cache.WithExpire(time.Duration(kit.EnvInt("VERIF_C06_E", 30)) * time.Second),
			cache.WithNotFoundExpire(time.Duration(kit.EnvInt("VERIF_C06_NF", 10)) * time.Second)}, "error", redis.NodeType, "small")
	if err != nil {
		tr.Emit(kit.M{"e": "infra", "msg": err.Error()})
		return
	}
	defer e.close()
	if err := e.reset(); err != nil {
		tr.Emit(kit.M{"e": "infra", "msg": err.Error()})
		return
	}
	type irow struct {
		Pk   string `json:"pk"`
		Name string `json:"name"`
		Data string `json:"data"`
	}
	type ikind struct {
		ik, qk string // logical names of the index key and of the primary key
		pk     any
	}
	kinds := []ikind{{"i:s", "q:s", int64(7)}, {"i:b", "q:b", int64(323427211229009810)}, {"i:t", "q:t", "alpha"}}
	keyer := func(primary any) string { return "q:" + fmt.Sprint(primary) }
	logical := map[string]string{"p:1": "p:1", "p:2": "p:2"} // Redis key -> logical name
	for _, kd := range kinds {
		logical[kd.ik] = kd.ik
		logical[keyer(kd.pk)] = kd.qk
	}
	name := func(rk string) string {
		if l, ok := logical[rk]; ok {
			return l
		}
		return rk
	}
	var dbmu sync.Mutex
	db := map[int]row{}
	idb := map[string]irow{} // index key -> row
	rnd := newRand(kit.Seed())
	slow := func() { time.Sleep(time.Duration(rnd.delay()) * time.Microsecond) } // widens the window; no verdict depends on it
	result := func(rid int, k string, err error, data string) {
		res := e.classify(err)
		if res == "ok" {
			res = "row"
		}
		tr.Emit(kit.M{"e": "ret", "r": rid, "k": k, "res": res, "d": data})
	}
	read := func(rid, id int) {
		k := pkey(id)
		tr.Emit(kit.M{"e": "inv", "r": rid, "k": k})
		var r row
		err := e.conn.QueryRow(&r, e.real[k], func(_ sqlx.Conn, v any) error {
			tr.Emit(kit.M{"e": "dbb", "k": k, "on": k})
			dbmu.Lock()
			d, ok := db[id]
			dbmu.Unlock()
			slow()
			tr.Emit(kit.M{"e": "dbe", "k": k})
			if !ok {
				return sqlc.ErrNotFound
			}
			*v.(*row) = d
			return nil
		})
		result(rid, k, err, r.Data)
	}
	iread := func(rid int, kd ikind) {
		tr.Emit(kit.M{"e": "inv", "r": rid, "k": kd.ik})
		var r irow
		err := e.conn.QueryRowIndex(&r, kd.ik, keyer,
			func(_ sqlx.Conn, v any) (any, error) {
				tr.Emit(kit.M{"e": "dbb", "k": kd.ik, "on": kd.ik})
				dbmu.Lock()
				d, ok := idb[kd.ik]
				dbmu.Unlock()
				slow()
				tr.Emit(kit.M{"e": "dbe", "k": kd.ik})
				if !ok {
					return nil, sqlc.ErrNotFound
				}
				*v.(*irow) = d
				return kd.pk, nil
			},
			func(_ sqlx.Conn, v, primary any) error {
				qk := name(keyer(primary))
				tr.Emit(kit.M{"e": "dbb", "k": qk, "on": kd.ik})
				dbmu.Lock()
				d, ok := idb[kd.ik]
				dbmu.Unlock()
				slow()
				tr.Emit(kit.M{"e": "dbe", "k": qk})
				if !ok || fmt.Sprint(primary) != d.Pk {
					return sqlc.ErrNotFound // the database has no row with such a primary key
				}
				*v.(*irow) = d
				return nil
			})
		result(rid, kd.ik, err, r.Data)
	}
	wave := func(n int) {
		var wg sync.WaitGroup
		start := make(chan struct{})
		rid := 0
		spawn := func(f func(rid int)) {
			rid++
			wg.Add(1)
			go func(rid int) {
				defer wg.Done()
				<-start
				f(rid)
			}(rid)
		}
		for j := 0; j < n; j++ {
			for _, id := range ids {
				id := id
				spawn(func(rid int) { read(rid, id) })
			}
			for _, kd := range kinds {
				kd := kd
				spawn(func(rid int) { iread(rid, kd) })
			}
		}
		close(start)
		wg.Wait()
	}
	for r := 1; r <= rounds; r++ {
		for _, id := range ids {
			data := ""
			if rnd.intn(4) != 0 {
				data = fmt.Sprintf("r%d", r)
			}
			_, err := e.conn.Exec(func(_ sqlx.Conn) (sql.Result, error) {
				dbmu.Lock()
				if data == "" {
					delete(db, id)
				} else {
					db[id] = row{Id: int64(id), Name: "n", Data: data}
				}
				dbmu.Unlock()
				return nil, nil
			}, e.real[pkey(id)])
			if err != nil {
				tr.Emit(kit.M{"e": "infra", "msg": "exec: " + err.Error()})
				return
			}
			tr.Emit(kit.M{"e": "write", "k": pkey(id), "d": data})
		}
		for _, kd := range kinds {
			data := ""
			if rnd.intn(5) != 0 {
				data = fmt.Sprintf("x%d", r)
			}
			_, err := e.conn.Exec(func(_ sqlx.Conn) (sql.Result, error) {
				dbmu.Lock()
				if data == "" {
					delete(idb, kd.ik)
				} else {
					idb[kd.ik] = irow{Pk: fmt.Sprint(kd.pk), Name: kd.ik, Data: data}
				}
				dbmu.Unlock()
				return nil, nil
			}, kd.ik, keyer(kd.pk))
			if err != nil {
				tr.Emit(kit.M{"e": "infra", "msg": "exec: " + err.Error()})
				return
			}
			tr.Emit(kit.M{"e": "write", "k": kd.ik, "d": data})
		}
		wave(readers)
		wave(2)
		// what Redis holds now: the set of keys first, then kind and TTL of each
		m := e.nodes[0].m
		rks := m.Keys()
		ks := make([]string, 0, len(rks))
		for _, rk := range rks {
			ks = append(ks, name(rk))
		}
		tr.Emit(kit.M{"e": "keys", "ks": ks})
		for _, rk := range rks {
			val, _ := m.Get(rk)
			kind := kindPk
			switch {
			case val == "*":
				kind = kindNf
			case strings.HasPrefix(val, "{"):
				kind = kindRow
			}
			ttl := m.TTL(rk)
			if ttl%time.Second != 0 {
				tr.Emit(kit.M{"e": "infra", "msg": fmt.Sprintf("key %s has a fractional TTL %v", rk, ttl)})
				return
			}
			tr.Emit(kit.M{"e": "ttl", "k": name(rk), "kind": kindNames[kind], "ttl": int(ttl / time.Second)})
		}
	}
}

// small deterministic generator (seeded by VERIF_SEED), safe for concurrent use
type c06rand struct {
	mu sync.Mutex
	s  uint64
}

func newRand(seed int64) *c06rand { return &c06rand{s: uint64(seed)*2654435761 + 88172645463325252} }
func (r *c06rand) next() uint64 {
	r.mu.Lock()
	r.s ^= r.s << 13
	r.s ^= r.s >> 7
	r.s ^= r.s << 17
	v := r.s
	r.mu.Unlock()
	return v
}
func (r *c06rand) intn(n int) int { return int(r.next() % uint64(n)) }
func (r *c06rand) delay() int     { return []int{0, 200, 1000, 3000}[r.intn(4)] }
