//go:build verif

package threading

// Overlaid by /verif (property C06): a barrier needs to know when every task handed to a
// TaskRunner has finished.

// VerifInFlight is the number of scheduled tasks that have not finished yet.
func (r *TaskRunner) VerifInFlight() int { return len(r.limitChan) }
