//go:build verif

package collection

// Overlaid by /verif (property C06): lets a driver outside this package build a TimingWheel
// whose ticks are issued by hand (the constructor with an injectable ticker is unexported).

import (
	"time"

	"github.com/gotid/god/lib/timex"
)

// NewVerifTimingWheel is newTimingWheelWithClock.
func NewVerifTimingWheel(interval time.Duration, numSlots int, execute Execute, ticker timex.Ticker) (*TimingWheel, error) {
	return newTimingWheelWithClock(interval, numSlots, execute, ticker)
}

// VerifRegistered is the number of timers in the wheel's registry (a concurrency-safe map: a
// timer is entered when it is set and taken out when a tick collects it for execution).
func (w *TimingWheel) VerifRegistered() int { return w.timers.Size() }
