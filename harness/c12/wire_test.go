package kv

// Wire tier and breaker clause of property C12 (overlaid into lib/store/kv by /verif/bin/check).
//
// TestVerifC12Wire: every row printed by spec/RedisWire.tla names a wrapper method, an argument
// tuple and the canonical command(s); the driver calls the method in its plain and in its Ctx
// form on a miniredis server whose pre-hook records what reaches the wire, and compares.
//
// TestVerifC12Breaker: histories of spec/RedisBrk.tla on the real per-address breaker with the
// coin forced to "reject whenever asked" and a frozen breaker clock.  An outage ("down") is made in one of
// two ways, chosen per history from VERIF_SEED: the server keeps its listener and drops every connection at
// the first command (pre-hook; the calls fail with EOF after go-redis' retries), or the listener is closed
// and reopened afterwards (the calls fail at dial).  Reopening can fail for good when another process has
// been given the port in between: the history is then replayed from its start against a fresh server (a
// fresh address = a fresh breaker) in the first way; only if that is impossible too the run is exit 2.

import (
	"context"
	"errors"
	"fmt"
	"strings"
	"sync"
	"sync/atomic"
	"testing"
	"time"

	"github.com/alicebob/miniredis/v2"
	"github.com/alicebob/miniredis/v2/server"
	kit "github.com/gotid/god/internal/verifkit"
	"github.com/gotid/god/lib/breaker"
	"github.com/gotid/god/lib/mathx"
	"github.com/gotid/god/lib/store/redis"
	"github.com/gotid/god/lib/timex"
)

type c12Recorder struct {
	mu   sync.Mutex
	cmds [][]string
}

func (r *c12Recorder) install(s *miniredis.Miniredis) {
	s.Server().SetPreHook(func(_ *server.Peer, cmd string, args ...string) bool {
		line := []string{strings.ToLower(cmd)}
		for _, a := range args {
			line = append(line, strings.ToLower(a))
		}
		r.mu.Lock()
		r.cmds = append(r.cmds, line)
		r.mu.Unlock()
		return false
	})
}

func (r *c12Recorder) take() [][]string {
	r.mu.Lock()
	defer r.mu.Unlock()
	out := r.cmds
	r.cmds = nil
	return out
}

func canonCmds(cs [][]string) string {
	var parts []string
	for _, c := range cs {
		parts = append(parts, strings.Join(c, " "))
	}
	return strings.Join(parts, " ; ")
}

// c12Call invokes one wrapper method (plain or Ctx form) and returns the method's error.
func c12Call(r *redis.Redis, m string, a kit.M, uc bool) error {
	_, err := c12CallCtx(context.Background(), r, m, a, uc)
	return err
}

// c12CallCtx: known = false if the driver has no call for the method.
func c12CallCtx(ctx context.Context, r *redis.Redis, m string, a kit.M, uc bool) (known bool, err error) {
	k, s := kit.Str(a["k"]), kit.Str(a["s"])
	n, x, y := int64(kit.Num(a["n"])), int64(kit.Num(a["x"])), int64(kit.Num(a["y"]))
	f, dst := kit.Str(a["f"]), kit.Str(a["dst"])
	ss, ks := strs(a["ss"]), strs(a["ks"])
	// the trailing arguments of the variadic (...any) methods in the shape the row names
	anySS, shErr := c12Shaped(kit.List(a["ss"]), kit.Str(a["sh"]))
	if shErr != nil {
		return false, shErr
	}
	page, size := kit.Num(a["page"]), kit.Num(a["size"])
	bit := kit.Num(a["bit"])
	do := func(plain, withCtx func()) {
		if uc {
			withCtx()
		} else {
			plain()
		}
	}
	switch m {
	case "BitCount":
		do(func() { _, err = r.BitCount(k, x, y) }, func() { _, err = r.BitCountCtx(ctx, k, x, y) })
	case "BitOpAnd":
		do(func() { _, err = r.BitOpAnd(dst, ks...) }, func() { _, err = r.BitOpAndCtx(ctx, dst, ks...) })
	case "BitOpOr":
		do(func() { _, err = r.BitOpOr(dst, ks...) }, func() { _, err = r.BitOpOrCtx(ctx, dst, ks...) })
	case "BitOpXor":
		do(func() { _, err = r.BitOpXor(dst, ks...) }, func() { _, err = r.BitOpXorCtx(ctx, dst, ks...) })
	case "BitOpNot":
		do(func() { _, err = r.BitOpNot(dst, k) }, func() { _, err = r.BitOpNotCtx(ctx, dst, k) })
	case "BitPos":
		do(func() { _, err = r.BitPos(k, int64(bit), x, y) }, func() { _, err = r.BitPosCtx(ctx, k, int64(bit), x, y) })
	case "Decr":
		do(func() { _, err = r.Decr(k) }, func() { _, err = r.DecrCtx(ctx, k) })
	case "DecrBy":
		do(func() { _, err = r.DecrBy(k, n) }, func() { _, err = r.DecrByCtx(ctx, k, n) })
	case "Del":
		do(func() { _, err = r.Del(ks...) }, func() { _, err = r.DelCtx(ctx, ks...) })
	case "Eval":
		do(func() { _, err = r.Eval(kit.Str(a["script"]), ks, anySS...) }, func() { _, err = r.EvalCtx(ctx, kit.Str(a["script"]), ks, anySS...) })
	case "EvalSha":
		do(func() { _, err = r.EvalSha(kit.Str(a["sha"]), ks, anySS...) }, func() { _, err = r.EvalShaCtx(ctx, kit.Str(a["sha"]), ks, anySS...) })
	case "Exists":
		do(func() { _, err = r.Exists(k) }, func() { _, err = r.ExistsCtx(ctx, k) })
	case "Expire":
		do(func() { err = r.Expire(k, int(n)) }, func() { err = r.ExpireCtx(ctx, k, int(n)) })
	case "ExpireAt":
		do(func() { err = r.ExpireAt(k, n) }, func() { err = r.ExpireAtCtx(ctx, k, n) })
	case "GeoAdd":
		loc := &redis.GeoLocation{Name: s, Longitude: float64(x), Latitude: float64(y)}
		do(func() { _, err = r.GeoAdd(k, loc) }, func() { _, err = r.GeoAddCtx(ctx, k, loc) })
	case "GeoDist":
		do(func() { _, err = r.GeoDist(k, ss[0], ss[1], s) }, func() { _, err = r.GeoDistCtx(ctx, k, ss[0], ss[1], s) })
	case "GeoHash":
		do(func() { _, err = r.GeoHash(k, ss...) }, func() { _, err = r.GeoHashCtx(ctx, k, ss...) })
	case "GeoPos":
		do(func() { _, err = r.GeoPos(k, ss...) }, func() { _, err = r.GeoPosCtx(ctx, k, ss...) })
	case "GeoRadius":
		q := &redis.GeoRadiusQuery{Radius: float64(n), Unit: s}
		do(func() { _, err = r.GeoRadius(k, float64(x), float64(y), q) }, func() { _, err = r.GeoRadiusCtx(ctx, k, float64(x), float64(y), q) })
	case "GeoRadiusByMember":
		q := &redis.GeoRadiusQuery{Radius: float64(n), Unit: s}
		do(func() { _, err = r.GeoRadiusByMember(k, kit.Str(a["m"]), q) }, func() { _, err = r.GeoRadiusByMemberCtx(ctx, k, kit.Str(a["m"]), q) })
	case "Get":
		do(func() { _, err = r.Get(k) }, func() { _, err = r.GetCtx(ctx, k) })
	case "GetBit":
		do(func() { _, err = r.GetBit(k, n) }, func() { _, err = r.GetBitCtx(ctx, k, n) })
	case "GetSet":
		do(func() { _, err = r.GetSet(k, s) }, func() { _, err = r.GetSetCtx(ctx, k, s) })
	case "HDel":
		do(func() { _, err = r.HDel(k, ss...) }, func() { _, err = r.HDelCtx(ctx, k, ss...) })
	case "HExists":
		do(func() { _, err = r.HExists(k, s) }, func() { _, err = r.HExistsCtx(ctx, k, s) })
	case "HGet":
		do(func() { _, err = r.HGet(k, s) }, func() { _, err = r.HGetCtx(ctx, k, s) })
	case "HGetAll":
		do(func() { _, err = r.HGetAll(k) }, func() { _, err = r.HGetAllCtx(ctx, k) })
	case "HIncrBy":
		do(func() { _, err = r.HIncrBy(k, f, int(n)) }, func() { _, err = r.HIncrByCtx(ctx, k, f, int(n)) })
	case "HKeys":
		do(func() { _, err = r.HKeys(k) }, func() { _, err = r.HKeysCtx(ctx, k) })
	case "HLen":
		do(func() { _, err = r.HLen(k) }, func() { _, err = r.HLenCtx(ctx, k) })
	case "HMGet":
		do(func() { _, err = r.HMGet(k, ss...) }, func() { _, err = r.HMGetCtx(ctx, k, ss...) })
	case "HSet":
		do(func() { err = r.HSet(k, f, s) }, func() { err = r.HSetCtx(ctx, k, f, s) })
	case "HSetNX":
		do(func() { _, err = r.HSetNX(k, f, s) }, func() { _, err = r.HSetNXCtx(ctx, k, f, s) })
	case "HMSet":
		do(func() { err = r.HMSet(k, map[string]string{f: s}) }, func() { err = r.HMSetCtx(ctx, k, map[string]string{f: s}) })
	case "HScan":
		do(func() { _, _, err = r.HScan(k, uint64(x), s, y) }, func() { _, _, err = r.HScanCtx(ctx, k, uint64(x), s, y) })
	case "HVals":
		do(func() { _, err = r.HVals(k) }, func() { _, err = r.HValsCtx(ctx, k) })
	case "Incr":
		do(func() { _, err = r.Incr(k) }, func() { _, err = r.IncrCtx(ctx, k) })
	case "IncrBy":
		do(func() { _, err = r.IncrBy(k, n) }, func() { _, err = r.IncrByCtx(ctx, k, n) })
	case "Keys":
		do(func() { _, err = r.Keys(s) }, func() { _, err = r.KeysCtx(ctx, s) })
	case "LLen":
		do(func() { _, err = r.LLen(k) }, func() { _, err = r.LLenCtx(ctx, k) })
	case "LIndex":
		do(func() { _, err = r.LIndex(k, n) }, func() { _, err = r.LIndexCtx(ctx, k, n) })
	case "LPop":
		do(func() { _, err = r.LPop(k) }, func() { _, err = r.LPopCtx(ctx, k) })
	case "LPush":
		do(func() { _, err = r.LPush(k, anySS...) }, func() { _, err = r.LPushCtx(ctx, k, anySS...) })
	case "LRange":
		do(func() { _, err = r.LRange(k, int(x), int(y)) }, func() { _, err = r.LRangeCtx(ctx, k, int(x), int(y)) })
	case "LRem":
		do(func() { _, err = r.LRem(k, int(n), s) }, func() { _, err = r.LRemCtx(ctx, k, int(n), s) })
	case "LTrim":
		do(func() { err = r.LTrim(k, x, y) }, func() { err = r.LTrimCtx(ctx, k, x, y) })
	case "MGet":
		do(func() { _, err = r.MGet(ks...) }, func() { _, err = r.MGetCtx(ctx, ks...) })
	case "Persist":
		do(func() { _, err = r.Persist(k) }, func() { _, err = r.PersistCtx(ctx, k) })
	case "PFAdd":
		do(func() { _, err = r.PFAdd(k, anySS...) }, func() { _, err = r.PFAddCtx(ctx, k, anySS...) })
	case "PFCount":
		do(func() { _, err = r.PFCount(k) }, func() { _, err = r.PFCountCtx(ctx, k) })
	case "PFMerge":
		do(func() { err = r.PFMerge(dst, ks...) }, func() { err = r.PFMergeCtx(ctx, dst, ks...) })
	case "Ping":
		ok := true
		do(func() { ok = r.Ping() }, func() { ok = r.PingCtx(ctx) })
		if !ok {
			err = errPingFalse
		}
	case "Pipelined":
		fn := func(p redis.Pipeliner) error {
			p.Set(ctx, k, s, 0)
			p.Get(ctx, k)
			return nil
		}
		do(func() { err = r.Pipelined(fn) }, func() { err = r.PipelinedCtx(ctx, fn) })
	case "RPop":
		do(func() { _, err = r.RPop(k) }, func() { _, err = r.RPopCtx(ctx, k) })
	case "RPush":
		do(func() { _, err = r.RPush(k, anySS...) }, func() { _, err = r.RPushCtx(ctx, k, anySS...) })
	case "SAdd":
		do(func() { _, err = r.SAdd(k, anySS...) }, func() { _, err = r.SAddCtx(ctx, k, anySS...) })
	case "Scan":
		do(func() { _, _, err = r.Scan(uint64(x), s, y) }, func() { _, _, err = r.ScanCtx(ctx, uint64(x), s, y) })
	case "SetBit":
		do(func() { _, err = r.SetBit(k, x, bit) }, func() { _, err = r.SetBitCtx(ctx, k, x, bit) })
	case "SScan":
		do(func() { _, _, err = r.SScan(k, uint64(x), s, y) }, func() { _, _, err = r.SScanCtx(ctx, k, uint64(x), s, y) })
	case "SCard":
		do(func() { _, err = r.SCard(k) }, func() { _, err = r.SCardCtx(ctx, k) })
	case "ScriptLoad":
		do(func() { _, err = r.ScriptLoad(kit.Str(a["script"])) }, func() { _, err = r.ScriptLoadCtx(ctx, kit.Str(a["script"])) })
	case "Set":
		do(func() { err = r.Set(k, s) }, func() { err = r.SetCtx(ctx, k, s) })
	case "SetEx":
		do(func() { err = r.SetEx(k, s, int(n)) }, func() { err = r.SetExCtx(ctx, k, s, int(n)) })
	case "SetNX":
		do(func() { _, err = r.SetNX(k, s) }, func() { _, err = r.SetNXCtx(ctx, k, s) })
	case "SetNXEx":
		do(func() { _, err = r.SetNXEx(k, s, int(n)) }, func() { _, err = r.SetNXExCtx(ctx, k, s, int(n)) })
	case "SIsMember":
		do(func() { _, err = r.SIsMember(k, s) }, func() { _, err = r.SIsMemberCtx(ctx, k, s) })
	case "SMembers":
		do(func() { _, err = r.SMembers(k) }, func() { _, err = r.SMembersCtx(ctx, k) })
	case "SPop":
		do(func() { _, err = r.SPop(k) }, func() { _, err = r.SPopCtx(ctx, k) })
	case "SRandMember":
		do(func() { _, err = r.SRandMember(k, int(n)) }, func() { _, err = r.SRandMemberCtx(ctx, k, int(n)) })
	case "SRem":
		do(func() { _, err = r.SRem(k, anySS...) }, func() { _, err = r.SRemCtx(ctx, k, anySS...) })
	case "SUnion":
		do(func() { _, err = r.SUnion(ks...) }, func() { _, err = r.SUnionCtx(ctx, ks...) })
	case "SUnionStore":
		do(func() { _, err = r.SUnionStore(dst, ks...) }, func() { _, err = r.SUnionStoreCtx(ctx, dst, ks...) })
	case "SDiff":
		do(func() { _, err = r.SDiff(ks...) }, func() { _, err = r.SDiffCtx(ctx, ks...) })
	case "SDiffStore":
		do(func() { _, err = r.SDiffStore(dst, ks...) }, func() { _, err = r.SDiffStoreCtx(ctx, dst, ks...) })
	case "SInter":
		do(func() { _, err = r.SInter(ks...) }, func() { _, err = r.SInterCtx(ctx, ks...) })
	case "SInterStore":
		do(func() { _, err = r.SInterStore(dst, ks...) }, func() { _, err = r.SInterStoreCtx(ctx, dst, ks...) })
	case "TTL":
		do(func() { _, err = r.TTL(k) }, func() { _, err = r.TTLCtx(ctx, k) })
	case "ZAdd":
		do(func() { _, err = r.ZAdd(k, n, s) }, func() { _, err = r.ZAddCtx(ctx, k, n, s) })
	case "ZAddFloat":
		do(func() { _, err = r.ZAddFloat(k, float64(n), s) }, func() { _, err = r.ZAddFloatCtx(ctx, k, float64(n), s) })
	case "ZAdds":
		ps := []redis.Pair{{Member: ss[0], Score: x}, {Member: ss[1], Score: y}}
		do(func() { _, err = r.ZAdds(k, ps...) }, func() { _, err = r.ZAddsCtx(ctx, k, ps...) })
	case "ZCard":
		do(func() { _, err = r.ZCard(k) }, func() { _, err = r.ZCardCtx(ctx, k) })
	case "ZCount":
		do(func() { _, err = r.ZCount(k, x, y) }, func() { _, err = r.ZCountCtx(ctx, k, x, y) })
	case "ZIncrBy":
		do(func() { _, err = r.ZIncrBy(k, n, s) }, func() { _, err = r.ZIncrByCtx(ctx, k, n, s) })
	case "ZScore":
		do(func() { _, err = r.ZScore(k, s) }, func() { _, err = r.ZScoreCtx(ctx, k, s) })
	case "ZRank":
		do(func() { _, err = r.ZRank(k, s) }, func() { _, err = r.ZRankCtx(ctx, k, s) })
	case "ZRevRank":
		do(func() { _, err = r.ZRevRank(k, s) }, func() { _, err = r.ZRevRankCtx(ctx, k, s) })
	case "ZRem":
		do(func() { _, err = r.ZRem(k, anySS...) }, func() { _, err = r.ZRemCtx(ctx, k, anySS...) })
	case "ZRemRangeByScore":
		do(func() { _, err = r.ZRemRangeByScore(k, x, y) }, func() { _, err = r.ZRemRangeByScoreCtx(ctx, k, x, y) })
	case "ZRemRangeByRank":
		do(func() { _, err = r.ZRemRangeByRank(k, x, y) }, func() { _, err = r.ZRemRangeByRankCtx(ctx, k, x, y) })
	case "ZRange":
		do(func() { _, err = r.ZRange(k, x, y) }, func() { _, err = r.ZRangeCtx(ctx, k, x, y) })
	case "ZRangeWithScores":
		do(func() { _, err = r.ZRangeWithScores(k, x, y) }, func() { _, err = r.ZRangeWithScoresCtx(ctx, k, x, y) })
	case "ZRevRangeWithScores":
		do(func() { _, err = r.ZRevRangeWithScores(k, x, y) }, func() { _, err = r.ZRevRangeWithScoresCtx(ctx, k, x, y) })
	case "ZRangeByScoreWithScores":
		do(func() { _, err = r.ZRangeByScoreWithScores(k, x, y) }, func() { _, err = r.ZRangeByScoreWithScoresCtx(ctx, k, x, y) })
	case "ZRangeByScoreWithScoresAndLimit":
		do(func() { _, err = r.ZRangeByScoreWithScoresAndLimit(k, x, y, page, size) }, func() { _, err = r.ZRangeByScoreWithScoresAndLimitCtx(ctx, k, x, y, page, size) })
	case "ZRevRange":
		do(func() { _, err = r.ZRevRange(k, x, y) }, func() { _, err = r.ZRevRangeCtx(ctx, k, x, y) })
	case "ZRevRangeByScoreWithScores":
		do(func() { _, err = r.ZRevRangeByScoreWithScores(k, x, y) }, func() { _, err = r.ZRevRangeByScoreWithScoresCtx(ctx, k, x, y) })
	case "ZRevRangeByScoreWithScoresAndLimit":
		do(func() { _, err = r.ZRevRangeByScoreWithScoresAndLimit(k, x, y, page, size) }, func() { _, err = r.ZRevRangeByScoreWithScoresAndLimitCtx(ctx, k, x, y, page, size) })
	case "ZUnionStore":
		zs := &redis.ZStore{Keys: ks, Aggregate: s}
		if s != "" {
			zs.Weights = []float64{float64(x), float64(y)}
		}
		do(func() { _, err = r.ZUnionStore(dst, zs) }, func() { _, err = r.ZUnionStoreCtx(ctx, dst, zs) })
	default:
		return false, nil
	}
	return true, err
}

var errPingFalse = errors.New("ping: false")

func TestVerifC12Wire(t *testing.T) {
	cases, rep, shard, shards := c12Setup(t)
	defer rep.Close()
	mathx.SetVerifCoin(func(float64) (bool, bool) { return false, true })
	s, err := miniredis.Run()
	if err != nil {
		t.Fatal(err)
	}
	defer s.Close()
	rec := &c12Recorder{}
	rec.install(s)
	r := redis.New(s.Addr())
	r.Ping() // connection set-up traffic, if any, is not part of a row
	rec.take()
	methods := map[string]bool{}
	for _, c := range cases {
		if c.Index%shards != shard {
			continue
		}
		row := c.Steps[0]
		m, a := kit.Str(row["m"]), row["a"].(kit.M)
		var want [][]string
		for _, w := range kit.List(row["w"]) {
			want = append(want, strs(w))
		}
		v := kit.Verdict{Case: c.Index, OK: true}
		for _, uc := range []bool{false, true} {
			s.FlushAll()
			rec.take()
			if known, _ := c12CallCtx(context.Background(), r, m, a, uc); !known { // the reply is not the subject of the wire tier
				v = kit.Verdict{Case: c.Index, Infra: true, Msg: "no driver call for method " + m}
				break
			}
			v.Steps++
			form := m
			if uc {
				form = m + "Ctx"
			}
			if g, w := canonCmds(rec.take()), canonCmds(want); g != w {
				v.OK, v.Key = false, "C12:wire:"+m
				v.Msg = fmt.Sprintf("%s(%s) put [%s] on the wire, specification [%s]", form, kit.Canon(a), g, w)
				break
			}
		}
		// context dimension: the Ctx form with a dead context
		for _, mode := range []string{"canceled", "deadline"} {
			if !v.OK || v.Infra {
				break
			}
			ctx := c12Cancelled
			if mode == "deadline" {
				ctx = c12Expired
			}
			s.FlushAll()
			rec.take()
			_, err := c12CallCtx(ctx, r, m, a, true)
			v.Steps++
			sent := rec.take()
			want := kit.Str(row["cerr"])
			got := ""
			switch {
			case err == nil:
			case err == errPingFalse:
				got = "false"
			case (mode == "canceled" && errors.Is(err, context.Canceled)) || (mode == "deadline" && errors.Is(err, context.DeadlineExceeded)):
				got = "ctx"
			default:
				got = "other: " + err.Error()
			}
			if w := canonCmds(nil); len(sent) > 0 && len(kit.List(row["cw"])) == 0 {
				v.OK, v.Key = false, "C12:ctx-form:ignores-context:"+m
				v.Msg = fmt.Sprintf("%sCtx(%s) with a context that is already %s put [%s] on the wire (error %q), specification [%s] and the context's error", m, kit.Canon(a), mode, canonCmds(sent), got, w)
			} else if got != want {
				v.OK, v.Key = false, "C12:ctx-form:error:"+m
				v.Msg = fmt.Sprintf("%sCtx(%s) with a context that is already %s returned %q, specification %q", m, kit.Canon(a), mode, got, want)
			}
		}
		if !methods[m] {
			methods[m] = true
			rep.Count("methods", 1)
		}
		rep.Put(v)
	}
}

// ---------------------------------------------------------------- breaker clause

func TestVerifC12Breaker(t *testing.T) {
	cases, rep, shard, shards := c12Setup(t)
	defer rep.Close()
	// the breaker rejects whenever its drop ratio is positive; its rolling window never slides
	mathx.SetVerifCoin(func(float64) (bool, bool) { return true, true })
	frozen := 500 * 24 * time.Hour
	timex.SetVerifClock(func() time.Duration { return frozen })
	// the server under test; dropping = it closes every connection at the first command it is sent
	var dropping atomic.Bool
	newServer := func() *miniredis.Miniredis {
		srv, err := miniredis.Run()
		if err != nil {
			t.Fatal(err)
		}
		return srv
	}
	install := func(srv *miniredis.Miniredis) { // (Restart makes a new server object: the hook has to be installed again)
		srv.Server().SetPreHook(func(p *server.Peer, _ string, _ ...string) bool {
			if dropping.Load() {
				p.Close()
				return true
			}
			return false
		})
	}
	s := newServer()
	install(s)
	defer func() { s.Close() }()
	other := newServer()
	defer other.Close()
	cancelled, cancel := context.WithCancel(context.Background())
	cancel()
	// sample arguments per entry point: the first row of the wire table (VERIF_WIRE) that sends something
	sample := map[string]kit.M{}
	if rows, err := kit.LoadCases(kit.Env("VERIF_WIRE", "")); err == nil {
		for _, row := range rows {
			m := kit.Str(row.Steps[0]["m"])
			if _, ok := sample[m]; !ok && len(kit.List(row.Steps[0]["w"])) > 0 {
				sample[m] = row.Steps[0]["a"].(kit.M)
			}
		}
	} else {
		t.Fatal(err)
	}
	// one call through entry point m in the manner `kind`
	const nilScript = "return false"
	nilSha := ""
	entryCall := func(r *redis.Redis, m, kind string, j int) (error, bool) {
		ctx, uc := context.Background(), j%2 == 1
		if kind == "cancel" {
			ctx, uc = cancelled, true
		}
		if kind == "nil" {
			switch m {
			case "Eval":
				if uc {
					_, err := r.EvalCtx(ctx, nilScript, []string{"missing"})
					return err, true
				}
				_, err := r.Eval(nilScript, []string{"missing"})
				return err, true
			case "EvalSha":
				if uc {
					_, err := r.EvalShaCtx(ctx, nilSha, []string{"missing"})
					return err, true
				}
				_, err := r.EvalSha(nilSha, []string{"missing"})
				return err, true
			case "Pipelined":
				fn := func(p redis.Pipeliner) error {
					p.Get(ctx, "missing")
					return nil
				}
				if uc {
					return r.PipelinedCtx(ctx, fn), true
				}
				return r.Pipelined(fn), true
			}
		}
		a, ok := sample[m]
		if !ok {
			return nil, false
		}
		known, err := c12CallCtx(ctx, r, m, a, uc)
		return err, known
	}
	// runCase replays one history; drop = how its outages are made.  lost = the listener could not be reopened.
	runCase := func(c kit.Case, drop bool) (v kit.Verdict, lost bool) {
		s.FlushAll()
		s.Set("present", "1")
		if sha, err := redis.New(s.Addr()).ScriptLoad(nilScript); err == nil {
			nilSha = sha
		}
		// a fresh wrapper object = a fresh breaker for the address
		r, ro := redis.New(s.Addr()), redis.New(other.Addr())
		v = kit.Verdict{Case: c.Index, OK: true}
		var trail []string
	steps:
		for i, st := range c.Steps {
			kind, n, expect, m := kit.Str(st["kind"]), kit.Num(st["n"]), kit.Str(st["expect"]), kit.Str(st["m"])
			wantErr := kit.Str(st["err"])
			if m == "" {
				trail = append(trail, fmt.Sprintf("%s*%d", kind, n))
			} else {
				trail = append(trail, fmt.Sprintf("%s:%s*%d", kind, m, n))
			}
			if kind == "down" {
				if drop {
					dropping.Store(true)
				} else {
					s.Close()
				}
			}
			rejected := 0
			for j := 0; j < n; j++ {
				var err error
				began := time.Now()
				switch {
				case m != "":
					var known bool
					if err, known = entryCall(r, m, kind, j); !known {
						v = kit.Verdict{Case: c.Index, Infra: true, Msg: "breaker-guarded entry point without a driver call: " + m}
						break steps
					}
					rep.Count("entry."+kind, 1)
				default:
				}
				switch {
				case m != "":
				case kind == "ok":
					_, err = r.Get("present")
				case kind == "nil":
					_, err = r.HGet("missing", "f")
				case kind == "cancel":
					_, err = r.GetCtx(cancelled, "present")
				case kind == "down":
					_, err = r.Get("present")
				}
				v.Steps++
				if kind == "down" && !drop && err != breaker.ErrServiceUnavailable && time.Since(began) > 2*time.Second {
					// a dial to a closed listener is refused at once; a call that hangs has reached a listener of
					// another process that has been given the port: the address is lost
					rep.Count("outage.listener-lost", 1)
					return v, true
				}
				if err == breaker.ErrServiceUnavailable {
					rejected++
				} else {
					// what a call of this burst returns is part of the prediction
					got := "other"
					switch {
					case err == nil || err == errPingFalse:
						got = ""
					case err == redis.Nil:
						got = "nil"
					case errors.Is(err, context.Canceled):
						got = "canceled"
					case wantErr == "conn":
						got = "conn" // any failure of a call against a closed server
					}
					if got != wantErr {
						name := m
						if name == "" {
							name = map[string]string{"ok": "Get", "nil": "HGet", "cancel": "Get", "down": "Get"}[kind]
						}
						switch {
						case kind == "down" && !drop:
							// the listener is closed and yet the call was answered: another process has been given
							// the port and answers there - the address is lost, the history has to start again
							rep.Count("outage.listener-lost", 1)
							return v, true
						case kind == "down":
							// the server drops every connection, go-redis reports a failure for this call: a wrapper
							// method that reports success has swallowed it
							v.OK, v.Step, v.Key = false, i, "C12:breaker:outage-call-succeeded:"+name
							v.Msg = fmt.Sprintf("history %s: call %d of the outage burst through %s returned %v although the server dropped the connection", strings.Join(trail, " "), j+1, name, err)
							break steps
						case kind == "ok":
							v = kit.Verdict{Case: c.Index, Infra: true, Msg: fmt.Sprintf("step %d %s burst through %s: unexpected result %v", i, kind, name, err)}
							break steps
						case name == "Pipelined":
							v.Key = "C12:pipeline:error-shape"
						case kind == "cancel" && err == nil:
							v.Key = "C12:ctx-form:ignores-context:" + name
						case kind == "cancel":
							v.Key = "C12:ctx-form:error:" + name
						default:
							v.Key = "C12:nil-reply:" + name
						}
						v.OK, v.Step = false, i
						v.Msg = fmt.Sprintf("history %s: call %d of the %s burst through %s returned %v, specification: %s", strings.Join(trail, " "), j+1, kind, name,
							err, map[string]string{"nil": "redis.Nil", "canceled": "an error that is context.Canceled", "": "no error"}[wantErr])
						break steps
					}
				}
				if (expect == "never-reject" && err == breaker.ErrServiceUnavailable) || (expect == "must-reject" && err != breaker.ErrServiceUnavailable) {
					v.OK, v.Step, v.Key = false, i, "C12:breaker:"+expect+":after-"+strings.Join(kinds(trail[:len(trail)-1]), "+")+":on-"+kind
					if m != "" {
						v.Key += ":" + m
					}
					v.Msg = fmt.Sprintf("history %s: command %d of the %s burst returned %v, specification %s", strings.Join(trail, " "), j+1, kind, err, expect)
					break steps
				}
			}
			rep.Count("burst."+kind, 1)
			rep.Count("rejected."+expect, rejected)
			if kind == "down" {
				if drop {
					dropping.Store(false)
					rep.Count("outage.dropped-connections", 1)
				} else {
					var err error
					for try := 0; try < 30; try++ { // another process may hold the port for a moment
						if err = s.Restart(); err == nil {
							break
						}
						time.Sleep(100 * time.Millisecond)
					}
					if err != nil { // ... or for good
						rep.Count("outage.listener-lost", 1)
						return v, true
					}
					install(s)
					rep.Count("outage.closed-listener", 1)
				}
				// go-redis' pool answers with its cached dial error until its background re-dial
				// (1 s period) succeeds: wait, through a wrapper object with its own fresh breaker
				if !kit.WaitFor(30*time.Second, func() bool { return redis.New(s.Addr()).Ping() }) {
					v = kit.Verdict{Case: c.Index, Infra: true, Msg: "server not reachable again 30 s after the outage"}
					break
				}
			}
			if _, err := ro.Get("x"); err == breaker.ErrServiceUnavailable {
				v.OK, v.Step, v.Key = false, i, "C12:breaker:other-address"
				v.Msg = fmt.Sprintf("history %s: a command to another address was rejected", strings.Join(trail, " "))
				break
			}
		}
		dropping.Store(false)
		return v, false
	}
	for _, c := range cases {
		if c.Index%shards != shard {
			continue
		}
		v, lost := runCase(c, (int64(c.Index)+kit.Seed())%2 == 0)
		if lost {
			// the port went to another process while the listener was closed: fresh server, fresh address
			// (= fresh breaker), the history again from its start with outages that keep the listener
			s = newServer()
			install(s)
			v, _ = runCase(c, true)
		}
		rep.Put(v)
	}
}

func kinds(trail []string) []string {
	seen := map[string]bool{}
	var out []string
	for _, t := range trail {
		k := strings.SplitN(t, "*", 2)[0]
		if !seen[k] {
			seen[k] = true
			out = append(out, k)
		}
	}
	if len(out) == 0 {
		return []string{"nothing"}
	}
	return out
}
