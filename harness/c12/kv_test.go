package kv

// Replay driver for property C12 (overlaid into lib/store/kv by /verif/bin/check).
//
// TestVerifC12 executes TLC-generated histories of spec/RedisKVGen.tla
//   (i)  through redis.Redis on one miniredis server and
//   (ii) through kv.Store (kv.New) on 1, 2 and 3 miniredis shards with different weights,
// choosing the plain or the ...Ctx form of every method pseudo-randomly, and compares the reply
// of every command (after the wrapper's conversion) with the model's prediction; at the end the
// union of the servers' keyspaces (type, value, TTL read through miniredis' inspection API) must
// equal the model's final keyspace, every key living on exactly one shard.
// miniredis is the environment; the expected values all come from the specification.
//
// Families beyond the classic data types: bitmaps (a string whose model value is a byte sequence is
// compared byte by byte: c12Align), HyperLogLogs (snapshot = miniredis' PfCount), the three fixed
// scripts of the specification through Eval / EvalSha / ScriptLoad (the servers' script caches are
// flushed between histories and compared with the model's cache state through SCRIPT EXISTS), and the
// scan family, where one model step is a complete iteration (scanAll: cursor 0 until cursor 0).

import (
	"context"
	"errors"
	"fmt"
	"sort"
	"strings"
	"sync/atomic"
	"testing"
	"time"

	"github.com/alicebob/miniredis/v2"
	"github.com/alicebob/miniredis/v2/server"
	red "github.com/go-redis/redis/v8"
	kit "github.com/gotid/god/internal/verifkit"
	"github.com/gotid/god/lib/breaker"
	"github.com/gotid/god/lib/logx"
	"github.com/gotid/god/lib/mathx"
	"github.com/gotid/god/lib/store/cache"
	"github.com/gotid/god/lib/store/redis"
)

// redisAsStore lets the common single-key commands of redis.Redis be driven through the Store
// interface; only the methods whose signature differs between the two APIs are adapted.
type redisAsStore struct{ *redis.Redis }

func (r redisAsStore) HDel(key, field string) (bool, error) { return r.Redis.HDel(key, field) }
func (r redisAsStore) HDelCtx(ctx context.Context, key, field string) (bool, error) {
	return r.Redis.HDelCtx(ctx, key, field)
}
func (r redisAsStore) HSetNx(key, field, value string) (bool, error) {
	return r.Redis.HSetNX(key, field, value)
}
func (r redisAsStore) HSetNxCtx(ctx context.Context, key, field, value string) (bool, error) {
	return r.Redis.HSetNXCtx(ctx, key, field, value)
}
func (r redisAsStore) Eval(script, key string, args ...any) (any, error) {
	return r.Redis.Eval(script, []string{key}, args...)
}
func (r redisAsStore) EvalCtx(ctx context.Context, script, key string, args ...any) (any, error) {
	return r.Redis.EvalCtx(ctx, script, []string{key}, args...)
}

var _ Store = redisAsStore{}

type c12Target struct {
	name    string
	api     Store
	rds     *redis.Redis // non-nil: the wrapper itself (multi-key commands available)
	servers []*miniredis.Miniredis
	ncmd    atomic.Int64  // commands that reached any of the servers (pre-hook)
	raw     []*red.Client // harness access to the servers' script caches (SCRIPT FLUSH / SCRIPT EXISTS)
	scripts bool          // a script command has run since the caches were last flushed
}

// flushScripts empties the servers' script caches (miniredis' FlushAll leaves them alone).
func (t *c12Target) flushScripts() error {
	if !t.scripts {
		return nil
	}
	for _, c := range t.raw {
		if err := c.ScriptFlush(context.Background()).Err(); err != nil {
			return err
		}
	}
	t.scripts = false
	return nil
}

func (t *c12Target) hook() {
	for _, s := range t.servers {
		s.Server().SetPreHook(func(*server.Peer, string, ...string) bool {
			t.ncmd.Add(1)
			return false
		})
	}
}

// go-redis retries a command whose reply did not arrive in time (MaxRetries = 3 in the wrapper's
// client); on an overloaded machine a non-idempotent command may then be executed twice.  The
// driver sees it (more commands reached the servers than the call can explain) and replays the
// history from scratch; only a duplicate that shows in every attempt is reported.
const c12Disturbed = "disturbed"

const c12Base = 1_700_000_000

func c12NewTargets() ([]*c12Target, error) {
	var out []*c12Target
	mk := func(n int) ([]*miniredis.Miniredis, error) {
		var ss []*miniredis.Miniredis
		for i := 0; i < n; i++ {
			s, err := miniredis.Run()
			if err != nil {
				return nil, err
			}
			ss = append(ss, s)
		}
		return ss, nil
	}
	ss, err := mk(1)
	if err != nil {
		return nil, err
	}
	raws := func(ss []*miniredis.Miniredis) []*red.Client {
		var cs []*red.Client
		for _, s := range ss {
			cs = append(cs, red.NewClient(&red.Options{Addr: s.Addr()}))
		}
		return cs
	}
	r := redis.New(ss[0].Addr())
	out = append(out, &c12Target{name: "redis", api: redisAsStore{r}, rds: r, servers: ss, raw: raws(ss)})
	out[0].hook()
	weights := [][]int{{100}, {100, 40}, {30, 100, 60}}
	for _, ws := range weights {
		ss, err := mk(len(ws))
		if err != nil {
			return nil, err
		}
		var conf Config
		for i, w := range ws {
			conf = append(conf, cache.NodeConfig{Config: redis.Config{Host: ss[i].Addr(), Type: redis.NodeType}, Weight: w})
		}
		out = append(out, &c12Target{name: fmt.Sprintf("kv%d", len(ws)), api: New(conf), servers: ss, raw: raws(ss)})
		out[len(out)-1].hook()
	}
	return out, nil
}

func c12ErrClass(err error) string {
	switch {
	case err == nil:
		return ""
	case err == redis.Nil:
		return "nil"
	case err == breaker.ErrServiceUnavailable:
		return "breaker-open"
	case errors.Is(err, context.Canceled) || allLines(err, context.Canceled.Error()):
		return "canceled"
	case errors.Is(err, context.DeadlineExceeded) || allLines(err, context.DeadlineExceeded.Error()):
		return "deadline"
	case strings.HasPrefix(err.Error(), "WRONGTYPE"):
		return "wrongtype"
	case strings.HasPrefix(err.Error(), "ERR Error") && strings.Contains(err.Error(), "WRONGTYPE"):
		return "wrongtype" // raised by redis.call inside a script: the server wraps the cause ("ERR Error running script ...")
	case strings.HasPrefix(err.Error(), "NOSCRIPT"):
		return "noscript"
	case strings.Contains(err.Error(), "not an integer"):
		return "notint"
	case strings.HasPrefix(err.Error(), "ERR wrong number of arguments"):
		return "arity"
	}
	return "other:" + err.Error()
}

// allLines: a batch of errors (kv.Store.Del over several shards) that all are the same error
func allLines(err error, msg string) bool {
	for _, l := range strings.Split(err.Error(), "\n") {
		if l != msg {
			return false
		}
	}
	return true
}

var (
	c12Cancelled context.Context
	c12Expired   context.Context
)

func init() {
	var cancel context.CancelFunc
	c12Cancelled, cancel = context.WithCancel(context.Background())
	cancel()
	c12Expired, cancel = context.WithDeadline(context.Background(), time.Now().Add(-time.Hour))
	_ = cancel
}

// c12Queue queues one model command on a pipeline and returns its Cmder.
func c12Queue(ctx context.Context, p redis.Pipeliner, x *c12Run, q kit.M) red.Cmder {
	k := x.key(q["k"])
	switch kit.Str(q["op"]) {
	case "get":
		return p.Get(ctx, k)
	case "set":
		return p.Set(ctx, k, kit.Str(q["v"]), 0)
	case "incrby":
		return p.Incr(ctx, k)
	case "del":
		return p.Del(ctx, x.keys(q["ks"])...)
	case "exists":
		return p.Exists(ctx, k)
	case "hget":
		return p.HGet(ctx, k, kit.Str(q["f"]))
	case "hset":
		return p.HSet(ctx, k, kit.Str(q["f"]), kit.Str(q["v"]))
	case "lpop":
		return p.LPop(ctx, k)
	case "llen":
		return p.LLen(ctx, k)
	case "rpush":
		return p.RPush(ctx, k, kit.List(q["vs"])...)
	case "sadd":
		return p.SAdd(ctx, k, kit.List(q["ms"])...)
	case "scard":
		return p.SCard(ctx, k)
	case "zadd":
		return p.ZAdd(ctx, k, &red.Z{Score: float64(kit.Num(q["s"])), Member: kit.Str(q["m"])})
	case "zscore":
		return p.ZScore(ctx, k, kit.Str(q["m"]))
	}
	return nil
}

// c12CmderReply: what one command of a pipeline reports through its Cmder, in the model's shape
func c12CmderReply(op string, c red.Cmder) (any, error) {
	switch cc := c.(type) {
	case *red.StringCmd:
		return cc.Val(), cc.Err()
	case *red.StatusCmd:
		return 0, cc.Err()
	case *red.FloatCmd:
		return int64(cc.Val()), cc.Err()
	case *red.IntCmd:
		if op == "exists" || op == "zadd" {
			return cc.Val() == 1, cc.Err()
		}
		return cc.Val(), cc.Err()
	}
	return nil, fmt.Errorf("verif: unexpected Cmder %T", c)
}

func pick[T any](useCtx bool, plain, withCtx func() (T, error)) (any, error) {
	if useCtx {
		v, err := withCtx()
		return v, err
	}
	v, err := plain()
	return v, err
}

func pickE(useCtx bool, plain, withCtx func() error) (any, error) {
	if useCtx {
		return 0, withCtx()
	}
	return 0, plain()
}

func strs(v any) []string {
	var out []string
	for _, e := range kit.List(v) {
		out = append(out, kit.Str(e))
	}
	return out
}

func anys(ss []string) []any {
	out := make([]any, 0, len(ss))
	for _, s := range ss {
		out = append(out, s)
	}
	return out
}

// c12Shaped builds the trailing `...any` arguments of a variadic method (LPush RPush SAdd SRem ZRem PFAdd Eval
// EvalSha) from the elements and the argument shape that the specification names (RedisKV.tla, "argument
// shapes"): every element an argument of its own, or ONE argument holding them all - a []string, a []any or a
// single-entry map.  An unknown shape is a harness problem.
func c12Shaped(els []any, sh string) ([]any, error) {
	text := func(e any) string {
		if f, ok := e.(float64); ok {
			return fmt.Sprint(int64(f))
		}
		return kit.Str(e)
	}
	plain := make([]any, 0, len(els))
	for _, e := range els {
		if f, ok := e.(float64); ok {
			plain = append(plain, int64(f)) // the model's integers are Go integers
		} else {
			plain = append(plain, e)
		}
	}
	switch sh {
	case "", "flat":
		if len(plain) == 0 {
			return nil, nil
		}
		return plain, nil
	case "strs":
		ss := make([]string, 0, len(els))
		for _, e := range els {
			ss = append(ss, text(e))
		}
		return []any{ss}, nil
	case "anys":
		return []any{plain}, nil
	case "smap", "amap":
		if len(els) != 2 {
			return nil, fmt.Errorf("verif: shape %s with %d elements", sh, len(els))
		}
		if sh == "smap" {
			return []any{map[string]string{text(els[0]): text(els[1])}}, nil
		}
		return []any{map[string]any{text(els[0]): plain[1]}}, nil
	}
	return nil, fmt.Errorf("verif: unknown argument shape %q", sh)
}

// c12Variadic: the variadic ops of the model and the field that holds their elements
var c12Variadic = map[string]string{"lpush": "vs", "rpush": "vs", "sadd": "ms", "srem": "ms", "zrem": "ms", "pfadd": "es"}

// opsNoValue: the wrapper method returns only an error
var c12NoValue = map[string]bool{"set": true, "setex": true, "hset": true, "hmset": true, "expire": true,
	"expireat": true, "ltrim": true, "advance": true, "pfmerge": true}

// opsUnordered: the reply is a collection without order
var c12Unordered = map[string]bool{"keys": true, "hgetall": true, "hkeys": true, "hvals": true, "smembers": true,
	"sunion": true, "sinter": true, "sdiff": true, "scanall": true, "sscanall": true, "hscanall": true}

// commands that kv.Store does not offer
var c12NotInStore = map[string]bool{"mget": true, "keys": true, "sunion": true, "sinter": true, "sdiff": true,
	"sunionstore": true, "sinterstore": true, "sdiffstore": true, "zunionstore": true,
	"bitcount": true, "bitpos": true, "bitopand": true, "bitopor": true, "bitopxor": true, "bitopnot": true,
	"pfmerge": true, "evalsha": true, "scriptload": true, "scanall": true, "hscanall": true}

// commands that touch the servers' script caches
var c12ScriptOps = map[string]bool{"eval": true, "evalsha": true, "scriptload": true}

type c12Run struct {
	t      *c12Target
	prefix string
	clock  int
	ctx    context.Context
	calls  int // wrapper calls made by the last exec (a complete scan iteration makes several)
}

// a complete iteration of the scan family makes at most this many calls in the model's small keyspaces
const c12ScanRounds = 64

// scanAll iterates one of Scan / SScan / HScan from cursor 0 until the cursor comes back as 0 and returns
// everything the calls returned, in order.
func (x *c12Run) scanAll(call func(cursor uint64) ([]string, uint64, error)) ([]string, error) {
	var all []string
	var cur uint64
	x.calls = 0
	for {
		if x.calls >= c12ScanRounds {
			return all, fmt.Errorf("scan: no cursor 0 after %d calls (last cursor %d)", x.calls, cur)
		}
		keys, next, err := call(cur)
		x.calls++
		if err != nil {
			return all, err
		}
		all = append(all, keys...)
		if next == 0 {
			return all, nil
		}
		cur = next
	}
}

// dedup: the elements of a scan as a set (Redis may return an element more than once)
func dedup(l []any) []any {
	seen := map[string]bool{}
	out := []any{}
	for _, e := range l {
		if c := kit.Canon(e); !seen[c] {
			seen[c] = true
			out = append(out, e)
		}
	}
	return out
}

// c12Align puts a reply into the model's form where the model describes a string by its bytes.
func c12Align(got, want any) any {
	switch w := want.(type) {
	case kit.M:
		if _, ok := w["bytes"]; ok {
			if s, ok := got.(string); ok {
				bs := make([]any, 0, len(s))
				for i := 0; i < len(s); i++ {
					bs = append(bs, float64(s[i]))
				}
				return kit.M{"bytes": bs}
			}
			return got
		}
		if g, ok := got.(kit.M); ok {
			out := kit.M{}
			for k, v := range g {
				out[k] = c12Align(v, w[k])
			}
			return out
		}
	case []any:
		if g, ok := got.([]any); ok && len(g) == len(w) {
			out := make([]any, len(g))
			for i := range g {
				out[i] = c12Align(g[i], w[i])
			}
			return out
		}
	}
	return got
}

func (x *c12Run) key(k any) string { return x.prefix + kit.Str(k) }
func (x *c12Run) keys(v any) []string {
	var out []string
	for _, k := range kit.List(v) {
		out = append(out, x.key(k))
	}
	return out
}

func pairsOf(ps []redis.Pair) []any {
	out := make([]any, 0, len(ps))
	for _, p := range ps {
		out = append(out, kit.M{"m": p.Member, "s": p.Score})
	}
	return out
}

// exec runs one model command through the target and returns the reply in the model's shape.
func (x *c12Run) exec(c kit.M, uc bool) (any, error) {
	a, ctx := x.t.api, x.ctx
	x.calls = 1
	op := kit.Str(c["op"])
	k := x.key(c["k"])
	v := kit.Str(c["v"])
	f := kit.Str(c["f"])
	m := kit.Str(c["m"])
	n := kit.Num(c["n"])
	sec := kit.Num(c["sec"])
	start, stop := int64(kit.Num(c["start"])), int64(kit.Num(c["stop"]))
	lo, hi := int64(kit.Num(c["lo"])), int64(kit.Num(c["hi"]))
	page, size := kit.Num(c["page"]), kit.Num(c["size"])
	// the trailing arguments of the variadic (...any) methods, in the shape the specification asks for
	var va []any
	if fld, ok := c12Variadic[op]; ok {
		var err error
		if va, err = c12Shaped(kit.List(c[fld]), kit.Str(c["sh"])); err != nil {
			return nil, err
		}
	}
	switch op {
	// ------------------------------------------------------------ strings
	case "get":
		return pick(uc, func() (string, error) { return a.Get(k) }, func() (string, error) { return a.GetCtx(ctx, k) })
	case "set":
		return pickE(uc, func() error { return a.Set(k, v) }, func() error { return a.SetCtx(ctx, k, v) })
	case "setex":
		return pickE(uc, func() error { return a.SetEx(k, v, sec) }, func() error { return a.SetExCtx(ctx, k, v, sec) })
	case "setnx":
		return pick(uc, func() (bool, error) { return a.SetNX(k, v) }, func() (bool, error) { return a.SetNXCtx(ctx, k, v) })
	case "setnxex":
		return pick(uc, func() (bool, error) { return a.SetNXEx(k, v, sec) }, func() (bool, error) { return a.SetNXExCtx(ctx, k, v, sec) })
	case "getset":
		return pick(uc, func() (string, error) { return a.GetSet(k, v) }, func() (string, error) { return a.GetSetCtx(ctx, k, v) })
	case "incrby":
		switch kit.Str(c["form"]) {
		case "incr":
			return pick(uc, func() (int64, error) { return a.Incr(k) }, func() (int64, error) { return a.IncrCtx(ctx, k) })
		case "decr":
			return pick(uc, func() (int64, error) { return a.Decr(k) }, func() (int64, error) { return a.DecrCtx(ctx, k) })
		case "incrby":
			return pick(uc, func() (int64, error) { return a.IncrBy(k, int64(n)) }, func() (int64, error) { return a.IncrByCtx(ctx, k, int64(n)) })
		case "decrby":
			return pick(uc, func() (int64, error) { return a.DecrBy(k, int64(-n)) }, func() (int64, error) { return a.DecrByCtx(ctx, k, int64(-n)) })
		}
	// ------------------------------------------------------------ keys
	case "mget":
		kk := x.keys(c["ks"])
		r, err := pick(uc, func() ([]string, error) { return x.t.rds.MGet(kk...) }, func() ([]string, error) { return x.t.rds.MGetCtx(ctx, kk...) })
		return anys(r.([]string)), err
	case "del":
		kk := x.keys(c["ks"])
		return pick(uc, func() (int, error) { return a.Del(kk...) }, func() (int, error) { return a.DelCtx(ctx, kk...) })
	case "exists":
		return pick(uc, func() (bool, error) { return a.Exists(k) }, func() (bool, error) { return a.ExistsCtx(ctx, k) })
	case "expire":
		return pickE(uc, func() error { return a.Expire(k, sec) }, func() error { return a.ExpireCtx(ctx, k, sec) })
	case "expireat":
		at := int64(c12Base + x.clock + kit.Num(c["d"]))
		return pickE(uc, func() error { return a.ExpireAt(k, at) }, func() error { return a.ExpireAtCtx(ctx, k, at) })
	case "persist":
		return pick(uc, func() (bool, error) { return a.Persist(k) }, func() (bool, error) { return a.PersistCtx(ctx, k) })
	case "ttl":
		return pick(uc, func() (int, error) { return a.TTL(k) }, func() (int, error) { return a.TTLCtx(ctx, k) })
	case "keys":
		r, err := pick(uc, func() ([]string, error) { return x.t.rds.Keys(x.prefix + "*") }, func() ([]string, error) { return x.t.rds.KeysCtx(ctx, x.prefix+"*") })
		var out []any
		for _, s := range r.([]string) {
			out = append(out, strings.TrimPrefix(s, x.prefix))
		}
		return out, err
	// ------------------------------------------------------------ hashes
	case "hset":
		return pickE(uc, func() error { return a.HSet(k, f, v) }, func() error { return a.HSetCtx(ctx, k, f, v) })
	case "hsetnx":
		return pick(uc, func() (bool, error) { return a.HSetNx(k, f, v) }, func() (bool, error) { return a.HSetNxCtx(ctx, k, f, v) })
	case "hget":
		return pick(uc, func() (string, error) { return a.HGet(k, f) }, func() (string, error) { return a.HGetCtx(ctx, k, f) })
	case "hexists":
		return pick(uc, func() (bool, error) { return a.HExists(k, f) }, func() (bool, error) { return a.HExistsCtx(ctx, k, f) })
	case "hmget":
		fs := strs(c["fs"])
		r, err := pick(uc, func() ([]string, error) { return a.HMGet(k, fs...) }, func() ([]string, error) { return a.HMGetCtx(ctx, k, fs...) })
		return anys(r.([]string)), err
	case "hdel":
		fs := strs(c["fs"])
		if len(fs) == 1 {
			return pick(uc, func() (bool, error) { return a.HDel(k, fs[0]) }, func() (bool, error) { return a.HDelCtx(ctx, k, fs[0]) })
		}
		return pick(uc, func() (bool, error) { return x.t.rds.HDel(k, fs...) }, func() (bool, error) { return x.t.rds.HDelCtx(ctx, k, fs...) })
	case "hmset":
		fv := map[string]string{}
		for _, p := range kit.List(c["fv"]) {
			fv[kit.Str(p.(kit.M)["f"])] = kit.Str(p.(kit.M)["v"])
		}
		return pickE(uc, func() error { return a.HMSet(k, fv) }, func() error { return a.HMSetCtx(ctx, k, fv) })
	case "hgetall":
		r, err := pick(uc, func() (map[string]string, error) { return a.HGetAll(k) }, func() (map[string]string, error) { return a.HGetAllCtx(ctx, k) })
		out := []any{}
		for hf, hv := range r.(map[string]string) {
			out = append(out, kit.M{"f": hf, "v": hv})
		}
		return out, err
	case "hkeys":
		r, err := pick(uc, func() ([]string, error) { return a.HKeys(k) }, func() ([]string, error) { return a.HKeysCtx(ctx, k) })
		return anys(r.([]string)), err
	case "hvals":
		r, err := pick(uc, func() ([]string, error) { return a.HVals(k) }, func() ([]string, error) { return a.HValsCtx(ctx, k) })
		return anys(r.([]string)), err
	case "hlen":
		return pick(uc, func() (int, error) { return a.HLen(k) }, func() (int, error) { return a.HLenCtx(ctx, k) })
	case "hincrby":
		return pick(uc, func() (int, error) { return a.HIncrBy(k, f, n) }, func() (int, error) { return a.HIncrByCtx(ctx, k, f, n) })
	// ------------------------------------------------------------ lists
	case "lpush":
		return pick(uc, func() (int, error) { return a.LPush(k, va...) }, func() (int, error) { return a.LPushCtx(ctx, k, va...) })
	case "rpush":
		return pick(uc, func() (int, error) { return a.RPush(k, va...) }, func() (int, error) { return a.RPushCtx(ctx, k, va...) })
	case "lpop":
		return pick(uc, func() (string, error) { return a.LPop(k) }, func() (string, error) { return a.LPopCtx(ctx, k) })
	case "rpop":
		return pick(uc, func() (string, error) { return a.RPop(k) }, func() (string, error) { return a.RPopCtx(ctx, k) })
	case "llen":
		return pick(uc, func() (int, error) { return a.LLen(k) }, func() (int, error) { return a.LLenCtx(ctx, k) })
	case "lindex":
		i := int64(kit.Num(c["i"]))
		return pick(uc, func() (string, error) { return a.LIndex(k, i) }, func() (string, error) { return a.LIndexCtx(ctx, k, i) })
	case "lrange":
		r, err := pick(uc, func() ([]string, error) { return a.LRange(k, int(start), int(stop)) }, func() ([]string, error) { return a.LRangeCtx(ctx, k, int(start), int(stop)) })
		return anys(r.([]string)), err
	case "lrem":
		cnt := kit.Num(c["cnt"])
		return pick(uc, func() (int, error) { return a.LRem(k, cnt, v) }, func() (int, error) { return a.LRemCtx(ctx, k, cnt, v) })
	case "ltrim":
		return pickE(uc, func() error { return a.LTrim(k, start, stop) }, func() error { return a.LTrimCtx(ctx, k, start, stop) })
	// ------------------------------------------------------------ sets
	case "sadd":
		return pick(uc, func() (int, error) { return a.SAdd(k, va...) }, func() (int, error) { return a.SAddCtx(ctx, k, va...) })
	case "srem":
		return pick(uc, func() (int, error) { return a.SRem(k, va...) }, func() (int, error) { return a.SRemCtx(ctx, k, va...) })
	case "scard":
		return pick(uc, func() (int64, error) { return a.SCard(k) }, func() (int64, error) { return a.SCardCtx(ctx, k) })
	case "sismember":
		return pick(uc, func() (bool, error) { return a.SIsMember(k, m) }, func() (bool, error) { return a.SIsMemberCtx(ctx, k, m) })
	case "smembers":
		r, err := pick(uc, func() ([]string, error) { return a.SMembers(k) }, func() ([]string, error) { return a.SMembersCtx(ctx, k) })
		return anys(r.([]string)), err
	case "sunion", "sinter", "sdiff":
		kk := x.keys(c["ks"])
		r := x.t.rds
		fns := map[string][2]func() ([]string, error){
			"sunion": {func() ([]string, error) { return r.SUnion(kk...) }, func() ([]string, error) { return r.SUnionCtx(ctx, kk...) }},
			"sinter": {func() ([]string, error) { return r.SInter(kk...) }, func() ([]string, error) { return r.SInterCtx(ctx, kk...) }},
			"sdiff":  {func() ([]string, error) { return r.SDiff(kk...) }, func() ([]string, error) { return r.SDiffCtx(ctx, kk...) }},
		}[op]
		res, err := pick(uc, fns[0], fns[1])
		return anys(res.([]string)), err
	case "sunionstore", "sinterstore", "sdiffstore":
		kk, dst := x.keys(c["ks"]), x.key(c["dst"])
		r := x.t.rds
		fns := map[string][2]func() (int, error){
			"sunionstore": {func() (int, error) { return r.SUnionStore(dst, kk...) }, func() (int, error) { return r.SUnionStoreCtx(ctx, dst, kk...) }},
			"sinterstore": {func() (int, error) { return r.SInterStore(dst, kk...) }, func() (int, error) { return r.SInterStoreCtx(ctx, dst, kk...) }},
			"sdiffstore":  {func() (int, error) { return r.SDiffStore(dst, kk...) }, func() (int, error) { return r.SDiffStoreCtx(ctx, dst, kk...) }},
		}[op]
		return pick(uc, fns[0], fns[1])
	// ------------------------------------------------------------ sorted sets
	case "zadd":
		sc := int64(kit.Num(c["s"]))
		if kit.Str(c["form"]) == "zaddfloat" {
			return pick(uc, func() (bool, error) { return a.ZAddFloat(k, float64(sc), m) }, func() (bool, error) { return a.ZAddFloatCtx(ctx, k, float64(sc), m) })
		}
		return pick(uc, func() (bool, error) { return a.ZAdd(k, sc, m) }, func() (bool, error) { return a.ZAddCtx(ctx, k, sc, m) })
	case "zadds":
		var ps []redis.Pair
		for _, p := range kit.List(c["ps"]) {
			ps = append(ps, redis.Pair{Member: kit.Str(p.(kit.M)["m"]), Score: int64(kit.Num(p.(kit.M)["s"]))})
		}
		return pick(uc, func() (int64, error) { return a.ZAdds(k, ps...) }, func() (int64, error) { return a.ZAddsCtx(ctx, k, ps...) })
	case "zscore":
		return pick(uc, func() (int64, error) { return a.ZScore(k, m) }, func() (int64, error) { return a.ZScoreCtx(ctx, k, m) })
	case "zrank":
		return pick(uc, func() (int64, error) { return a.ZRank(k, m) }, func() (int64, error) { return a.ZRankCtx(ctx, k, m) })
	case "zrevrank":
		return pick(uc, func() (int64, error) { return a.ZRevRank(k, m) }, func() (int64, error) { return a.ZRevRankCtx(ctx, k, m) })
	case "zincrby":
		return pick(uc, func() (int64, error) { return a.ZIncrBy(k, int64(n), m) }, func() (int64, error) { return a.ZIncrByCtx(ctx, k, int64(n), m) })
	case "zcard":
		return pick(uc, func() (int, error) { return a.ZCard(k) }, func() (int, error) { return a.ZCardCtx(ctx, k) })
	case "zcount":
		return pick(uc, func() (int, error) { return a.ZCount(k, lo, hi) }, func() (int, error) { return a.ZCountCtx(ctx, k, lo, hi) })
	case "zrem":
		return pick(uc, func() (int, error) { return a.ZRem(k, va...) }, func() (int, error) { return a.ZRemCtx(ctx, k, va...) })
	case "zrange":
		r, err := pick(uc, func() ([]string, error) { return a.ZRange(k, start, stop) }, func() ([]string, error) { return a.ZRangeCtx(ctx, k, start, stop) })
		return anys(r.([]string)), err
	case "zrevrange":
		r, err := pick(uc, func() ([]string, error) { return a.ZRevRange(k, start, stop) }, func() ([]string, error) { return a.ZRevRangeCtx(ctx, k, start, stop) })
		return anys(r.([]string)), err
	case "zrangews":
		r, err := pick(uc, func() ([]redis.Pair, error) { return a.ZRangeWithScores(k, start, stop) }, func() ([]redis.Pair, error) { return a.ZRangeWithScoresCtx(ctx, k, start, stop) })
		return pairsOf(r.([]redis.Pair)), err
	case "zrevrangews":
		r, err := pick(uc, func() ([]redis.Pair, error) { return a.ZRevRangeWithScores(k, start, stop) }, func() ([]redis.Pair, error) { return a.ZRevRangeWithScoresCtx(ctx, k, start, stop) })
		return pairsOf(r.([]redis.Pair)), err
	case "zrangebyscore":
		r, err := pick(uc, func() ([]redis.Pair, error) { return a.ZRangeByScoreWithScores(k, lo, hi) }, func() ([]redis.Pair, error) { return a.ZRangeByScoreWithScoresCtx(ctx, k, lo, hi) })
		return pairsOf(r.([]redis.Pair)), err
	case "zrevrangebyscore":
		r, err := pick(uc, func() ([]redis.Pair, error) { return a.ZRevRangeByScoreWithScores(k, lo, hi) }, func() ([]redis.Pair, error) { return a.ZRevRangeByScoreWithScoresCtx(ctx, k, lo, hi) })
		return pairsOf(r.([]redis.Pair)), err
	case "zrangebyscorelimit":
		r, err := pick(uc, func() ([]redis.Pair, error) { return a.ZRangeByScoreWithScoresAndLimit(k, lo, hi, page, size) }, func() ([]redis.Pair, error) { return a.ZRangeByScoreWithScoresAndLimitCtx(ctx, k, lo, hi, page, size) })
		return pairsOf(r.([]redis.Pair)), err
	case "zrevrangebyscorelimit":
		r, err := pick(uc, func() ([]redis.Pair, error) { return a.ZRevRangeByScoreWithScoresAndLimit(k, lo, hi, page, size) }, func() ([]redis.Pair, error) {
			return a.ZRevRangeByScoreWithScoresAndLimitCtx(ctx, k, lo, hi, page, size)
		})
		return pairsOf(r.([]redis.Pair)), err
	case "zremrangebyscore":
		return pick(uc, func() (int, error) { return a.ZRemRangeByScore(k, lo, hi) }, func() (int, error) { return a.ZRemRangeByScoreCtx(ctx, k, lo, hi) })
	case "zremrangebyrank":
		return pick(uc, func() (int, error) { return a.ZRemRangeByRank(k, start, stop) }, func() (int, error) { return a.ZRemRangeByRankCtx(ctx, k, start, stop) })
	case "zunionstore":
		zs := &redis.ZStore{Keys: x.keys(c["ks"])}
		dst := x.key(c["dst"])
		return pick(uc, func() (int64, error) { return x.t.rds.ZUnionStore(dst, zs) }, func() (int64, error) { return x.t.rds.ZUnionStoreCtx(ctx, dst, zs) })
	// ------------------------------------------------------------ bitmaps
	case "setbit":
		off, bit := int64(kit.Num(c["off"])), kit.Num(c["bit"])
		return pick(uc, func() (int, error) { return a.SetBit(k, off, bit) }, func() (int, error) { return a.SetBitCtx(ctx, k, off, bit) })
	case "getbit":
		off := int64(kit.Num(c["off"]))
		return pick(uc, func() (int, error) { return a.GetBit(k, off) }, func() (int, error) { return a.GetBitCtx(ctx, k, off) })
	case "bitcount":
		r := x.t.rds
		return pick(uc, func() (int64, error) { return r.BitCount(k, start, stop) }, func() (int64, error) { return r.BitCountCtx(ctx, k, start, stop) })
	case "bitpos":
		r, bit := x.t.rds, int64(kit.Num(c["bit"]))
		return pick(uc, func() (int64, error) { return r.BitPos(k, bit, start, stop) }, func() (int64, error) { return r.BitPosCtx(ctx, k, bit, start, stop) })
	case "bitopand", "bitopor", "bitopxor", "bitopnot":
		kk, dst := x.keys(c["ks"]), x.key(c["dst"])
		r := x.t.rds
		fns := map[string][2]func() (int64, error){
			"bitopand": {func() (int64, error) { return r.BitOpAnd(dst, kk...) }, func() (int64, error) { return r.BitOpAndCtx(ctx, dst, kk...) }},
			"bitopor":  {func() (int64, error) { return r.BitOpOr(dst, kk...) }, func() (int64, error) { return r.BitOpOrCtx(ctx, dst, kk...) }},
			"bitopxor": {func() (int64, error) { return r.BitOpXor(dst, kk...) }, func() (int64, error) { return r.BitOpXorCtx(ctx, dst, kk...) }},
			"bitopnot": {func() (int64, error) { return r.BitOpNot(dst, kk[0]) }, func() (int64, error) { return r.BitOpNotCtx(ctx, dst, kk[0]) }},
		}[op]
		return pick(uc, fns[0], fns[1])
	// ------------------------------------------------------------ HyperLogLog
	case "pfadd":
		return pick(uc, func() (bool, error) { return a.PFAdd(k, va...) }, func() (bool, error) { return a.PFAddCtx(ctx, k, va...) })
	case "pfcount":
		return pick(uc, func() (int64, error) { return a.PFCount(k) }, func() (int64, error) { return a.PFCountCtx(ctx, k) })
	case "pfmerge":
		kk, dst := x.keys(c["ks"]), x.key(c["dst"])
		return pickE(uc, func() error { return x.t.rds.PFMerge(dst, kk...) }, func() error { return x.t.rds.PFMergeCtx(ctx, dst, kk...) })
	// ------------------------------------------------------------ scripts
	case "eval", "evalsha":
		// ARGV: what the script reads, then c.extra elements that it does not read; handed over in the shape c.sh
		var argv []any
		switch kit.Str(c["s"]) {
		case "sset":
			argv = []any{v}
		case "sincr":
			argv = []any{float64(n)}
		}
		for i := 0; i < kit.Num(c["extra"]); i++ {
			argv = append(argv, "pad")
		}
		args, err := c12Shaped(argv, kit.Str(c["sh"]))
		if err != nil {
			return nil, err
		}
		x.t.scripts = true
		if op == "eval" {
			src := kit.Str(c["src"])
			return pick(uc, func() (any, error) { return a.Eval(src, k, args...) }, func() (any, error) { return a.EvalCtx(ctx, src, k, args...) })
		}
		sha := kit.Str(c["sha"])
		return pick(uc, func() (any, error) { return x.t.rds.EvalSha(sha, []string{k}, args...) }, func() (any, error) { return x.t.rds.EvalShaCtx(ctx, sha, []string{k}, args...) })
	case "scriptload":
		src := kit.Str(c["src"])
		x.t.scripts = true
		return pick(uc, func() (string, error) { return x.t.rds.ScriptLoad(src) }, func() (string, error) { return x.t.rds.ScriptLoadCtx(ctx, src) })
	// ------------------------------------------------------------ the scan family: one complete iteration
	case "scanall":
		cnt, match := int64(kit.Num(c["cnt"])), x.prefix+"*"
		if lit := kit.Str(c["match"]); lit != "" {
			match = x.prefix + lit
		}
		r := x.t.rds
		all, err := x.scanAll(func(cur uint64) ([]string, uint64, error) {
			if uc {
				return r.ScanCtx(ctx, cur, match, cnt)
			}
			return r.Scan(cur, match, cnt)
		})
		var out []any
		for _, s := range all {
			out = append(out, strings.TrimPrefix(s, x.prefix))
		}
		return dedup(out), err
	case "sscanall":
		cnt, match := int64(kit.Num(c["cnt"])), kit.Str(c["match"])
		all, err := x.scanAll(func(cur uint64) ([]string, uint64, error) {
			if uc {
				return a.SScanCtx(ctx, k, cur, match, cnt)
			}
			return a.SScan(k, cur, match, cnt)
		})
		return dedup(anys(all)), err
	case "hscanall":
		cnt, match := int64(kit.Num(c["cnt"])), kit.Str(c["match"])
		r := x.t.rds
		all, err := x.scanAll(func(cur uint64) ([]string, uint64, error) {
			if uc {
				return r.HScanCtx(ctx, k, cur, match, cnt)
			}
			return r.HScan(k, cur, match, cnt)
		})
		var out []any
		for i := 0; i < len(all); i += 2 { // field, value, field, value ...
			p := kit.M{"f": all[i]}
			if i+1 < len(all) {
				p["v"] = all[i+1]
			}
			out = append(out, p)
		}
		return dedup(out), err
	}
	return nil, fmt.Errorf("verif: unknown op %q", op)
}

func canonUnordered(v any) string {
	l, ok := v.([]any)
	if !ok {
		return kit.Canon(v)
	}
	return kit.CanonSet(l)
}

func canonOrdered(v any) string {
	if l, ok := v.([]any); ok && len(l) == 0 {
		return "[]"
	}
	if v == nil {
		return "[]"
	}
	return kit.Canon(v)
}

// snapshot reads one key from the servers in the shape of RedisKVGen!Snap.
func c12Snap(servers []*miniredis.Miniredis, real, model string) (kit.M, error) {
	var holder *miniredis.Miniredis
	for _, s := range servers {
		if s.Exists(real) {
			if holder != nil {
				return nil, fmt.Errorf("key %s lives on more than one shard", model)
			}
			holder = s
		}
	}
	if holder == nil {
		return kit.M{"k": model, "t": "none"}, nil
	}
	ttl := -1
	if d := holder.TTL(real); d > 0 {
		ttl = int(d / time.Second)
	}
	out := kit.M{"k": model, "ttl": ttl}
	switch typ := holder.Type(real); typ {
	case "string":
		s, _ := holder.Get(real)
		out["t"], out["s"] = "str", s
	case "hash":
		fs, _ := holder.HKeys(real)
		sort.Strings(fs)
		h := []any{}
		for _, f := range fs {
			h = append(h, kit.M{"f": f, "v": holder.HGet(real, f)})
		}
		out["t"], out["h"] = "hash", h
	case "list":
		l, _ := holder.List(real)
		out["t"], out["l"] = "list", anys(l)
	case "set":
		ms, _ := holder.Members(real)
		sort.Strings(ms)
		out["t"], out["m"] = "set", anys(ms)
	case "hll":
		n, _ := holder.PfCount(real)
		out["t"], out["n"] = "hll", n
	case "zset":
		zs, _ := holder.SortedSet(real)
		type ms struct {
			m string
			s float64
		}
		var l []ms
		for m, s := range zs {
			l = append(l, ms{m, s})
		}
		sort.Slice(l, func(i, j int) bool { return l[i].s < l[j].s || (l[i].s == l[j].s && l[i].m < l[j].m) })
		z := []any{}
		for _, e := range l {
			z = append(z, kit.M{"m": e.m, "s": e.s})
		}
		out["t"], out["z"] = "zset", z
	default:
		out["t"] = typ
	}
	return out, nil
}

func c12KVCompatible(steps []any) bool {
	for _, st := range steps {
		if st.(kit.M)["p"] != nil {
			return false // kv.Store has no pipelines
		}
		c := st.(kit.M)["c"].(kit.M)
		op := kit.Str(c["op"])
		if c12NotInStore[op] || (op == "hdel" && len(kit.List(c["fs"])) != 1) {
			return false
		}
	}
	return true
}

func runC12CaseRetry(c kit.Case, targets []*c12Target, seed int64, rep *kit.Reporter) kit.Verdict {
	var v kit.Verdict
	for attempt := 0; attempt < 3; attempt++ {
		v = runC12Case(c, targets, seed, rep, attempt == 2)
		if v.Msg != c12Disturbed {
			return v
		}
		rep.Count("disturbed-reruns", 1)
	}
	return v
}

// commands one call may put on the wire
func c12Budget(t *c12Target, cmd kit.M, x *c12Run) int64 {
	switch op := kit.Str(cmd["op"]); {
	case op == "scanall" || op == "sscanall" || op == "hscanall":
		return int64(x.calls)
	case op == "eval" || op == "evalsha":
		return 2 // the command itself and the one command its script calls (the pre-hook sees both)
	case op == "del" && t.rds == nil:
		return int64(len(kit.List(cmd["ks"])))
	case (op == "zrangebyscorelimit" || op == "zrevrangebyscorelimit") && kit.Num(cmd["size"]) <= 0:
		return 0
	}
	return 1
}

func runC12Case(c kit.Case, targets []*c12Target, seed int64, rep *kit.Reporter, last bool) (v kit.Verdict) {
	v = kit.Verdict{Case: c.Index, OK: true}
	fail := func(step int, key, msg string) kit.Verdict {
		v.OK, v.Step, v.Key, v.Msg = false, step, key, msg
		return v
	}
	steps := kit.List(c.Steps[0]["steps"])
	final := kit.List(c.Steps[0]["final"])
	kvOK := c12KVCompatible(steps)
	for _, t := range targets {
		if t.rds == nil && !kvOK {
			rep.Count("kv.skipped-history", 1)
			continue
		}
		for _, s := range t.servers {
			s.FlushAll()
			s.SetTime(time.Unix(c12Base, 0))
		}
		if err := t.flushScripts(); err != nil {
			return kit.Verdict{Case: c.Index, Infra: true, Msg: "script flush: " + err.Error()}
		}
		x := &c12Run{t: t, prefix: fmt.Sprintf("c%d:", c.Index), ctx: context.Background()}
		trail := []string{}
		for i := 0; i < len(steps); i++ {
			st := steps[i]
			cmd := st.(kit.M)["c"].(kit.M)
			want := st.(kit.M)["r"].(kit.M)
			op := kit.Str(cmd["op"])
			if pm, ok := st.(kit.M)["p"].(kit.M); ok {
				// a pipeline: this and the following n-1 steps are queued in one Pipelined call
				n := kit.Num(pm["n"])
				if kit.Num(pm["i"]) != 1 || i+n > len(steps) {
					return kit.Verdict{Case: c.Index, Infra: true, Msg: "malformed pipeline in the behaviour"}
				}
				uc := (seed+int64(c.Index)+int64(i))%2 == 0
				var cmders []red.Cmder
				fn := func(p redis.Pipeliner) error {
					cmders = cmders[:0]
					for j := 0; j < n; j++ {
						cmders = append(cmders, c12Queue(x.ctx, p, x, steps[i+j].(kit.M)["c"].(kit.M)))
					}
					return nil
				}
				n0 := t.ncmd.Load()
				var perr error
				form := "Pipelined"
				if uc {
					form = "PipelinedCtx"
					perr = t.rds.PipelinedCtx(x.ctx, fn)
				} else {
					perr = t.rds.Pipelined(fn)
				}
				if sent := t.ncmd.Load() - n0; sent > int64(n) {
					if !last {
						return kit.Verdict{Case: c.Index, Infra: true, Msg: c12Disturbed}
					}
					return fail(i, "C12:pipeline:commands-sent", fmt.Sprintf("%s of %d commands: %d commands reached the server in three attempts", form, n, sent))
				}
				var desc []string
				for j := 0; j < n; j++ {
					desc = append(desc, kit.Canon(steps[i+j].(kit.M)["c"]))
				}
				where := fmt.Sprintf("%s step %d %s{%s}", t.name, i, form, strings.Join(desc, "; "))
				for j := 0; j < n; j++ {
					q := steps[i+j].(kit.M)["c"].(kit.M)
					qw := steps[i+j].(kit.M)["r"].(kit.M)
					qop := kit.Str(q["op"])
					if j >= len(cmders) || cmders[j] == nil {
						return kit.Verdict{Case: c.Index, Infra: true, Msg: "no Cmder for queued command " + qop}
					}
					got, err := c12CmderReply(qop, cmders[j])
					if err != nil && strings.HasPrefix(err.Error(), "verif:") {
						return kit.Verdict{Case: c.Index, Infra: true, Msg: err.Error()}
					}
					v.Steps++
					rep.Count(t.name+".pipe."+qop, 1)
					if g, w := c12ErrClass(err), kit.Str(qw["err"]); g != w {
						return fail(i+j, "C12:pipeline:"+qop+":err",
							fmt.Sprintf("%s: command %d (%s) reports error %q through its Cmder, specification %q", where, j+1, qop, g, w))
					}
					if err != nil || c12NoValue[qop] {
						continue
					}
					if g, w := canonOrdered(got), canonOrdered(qw["v"]); g != w {
						return fail(i+j, "C12:pipeline:"+qop+":reply",
							fmt.Sprintf("%s: command %d (%s) reports %s through its Cmder, specification %s", where, j+1, qop, g, w))
					}
				}
				wantErr := kit.Str(steps[i+n-1].(kit.M)["p"].(kit.M)["perr"])
				if g := c12ErrClass(perr); g != wantErr {
					return fail(i, "C12:pipeline:error-shape",
						fmt.Sprintf("%s returned error %q (%v), specification %q (the error of the first failed command)", where, g, perr, wantErr))
				}
				i += n - 1
				continue
			}
			if mode := kit.Str(st.(kit.M)["ctx"]); mode != "" {
				// the Ctx form with a context that is already dead: the context's error, nothing sent
				x.ctx = c12Cancelled
				if mode == "deadline" {
					x.ctx = c12Expired
				}
				n0 := t.ncmd.Load()
				_, err := x.exec(cmd, true)
				x.ctx = context.Background()
				sent := t.ncmd.Load() - n0
				v.Steps++
				rep.Count(t.name+".ctx."+mode, 1)
				where := fmt.Sprintf("%s step %d %s [Ctx form, context %s]", t.name, i, kit.Canon(cmd), mode)
				if err != nil && strings.HasPrefix(err.Error(), "verif:") {
					return kit.Verdict{Case: c.Index, Infra: true, Msg: err.Error()}
				}
				if sent > 0 {
					return fail(i, fmt.Sprintf("C12:ctx-form:ignores-context:%s", op),
						fmt.Sprintf("%s: %d command(s) reached the server (error %q), specification: error %q, server untouched", where, sent, c12ErrClass(err), mode))
				}
				if g, w := c12ErrClass(err), kit.Str(want["err"]); g != w {
					return fail(i, fmt.Sprintf("C12:ctx-form:error:%s", op), fmt.Sprintf("%s: error %q, specification %q", where, g, w))
				}
				continue
			}
			trail = append(trail, kit.Canon(cmd))
			if len(trail) > 6 {
				trail = trail[1:]
			}
			if op == "advance" {
				d := kit.Num(cmd["d"])
				x.clock += d
				for _, s := range t.servers {
					s.FastForward(time.Duration(d) * time.Second)
					s.SetTime(time.Unix(int64(c12Base+x.clock), 0))
				}
				v.Steps++
				continue
			}
			uc := (seed+int64(c.Index)+int64(i))%2 == 0
			form := "plain"
			if uc {
				form = "ctx"
			}
			n0 := t.ncmd.Load()
			got, err := x.exec(cmd, uc)
			if sent, budget := t.ncmd.Load()-n0, c12Budget(t, cmd, x); sent > budget {
				if !last {
					return kit.Verdict{Case: c.Index, Infra: true, Msg: c12Disturbed}
				}
				return fail(i, fmt.Sprintf("C12:%s:%s:commands-sent", tKind(t), op),
					fmt.Sprintf("%s step %d %s: %d commands reached the servers in three attempts, at most %d expected", t.name, i, kit.Canon(cmd), sent, budget))
			}
			v.Steps++
			rep.Count(t.name+"."+op, 1)
			if err != nil && strings.HasPrefix(err.Error(), "verif:") {
				return kit.Verdict{Case: c.Index, Infra: true, Msg: err.Error()}
			}
			// the shape in which a variadic method was handed its arguments is part of the failure class
			shape := ""
			if sh := kit.Str(cmd["sh"]); sh != "" {
				rep.Count(t.name+"."+op+".shape."+sh, 1)
				if sh != "flat" {
					shape = ":args-as-" + sh
				}
				if fld, ok := c12Variadic[op]; (ok && len(kit.List(cmd[fld])) == 0) || (!ok && kit.Str(cmd["s"]) == "sget" && kit.Num(cmd["extra"]) == 0) {
					rep.Count(t.name+"."+op+".shape."+sh+".empty", 1)
				}
			}
			where := fmt.Sprintf("%s[%s form] step %d %s", t.name, form, i, kit.Canon(cmd))
			if g, w := c12ErrClass(err), kit.Str(want["err"]); g != w {
				return fail(i, fmt.Sprintf("C12:%s:%s:err%s", tKind(t), op, shape),
					fmt.Sprintf("%s: error %q, specification %q; last commands %s", where, g, w, strings.Join(trail, " ")))
			}
			if err != nil {
				rep.Count(t.name+"."+op+"!"+c12ErrClass(err), 1)
			}
			if x.calls > 1 {
				rep.Count(t.name+"."+op+".multi-call", 1)
			}
			if err != nil || c12NoValue[op] {
				continue
			}
			var g, w string
			if wm, ok := want["v"].(kit.M); ok && wm["bytes"] != nil {
				rep.Count(t.name+"."+op+".bytes", 1)
			}
			got = c12Align(got, want["v"])
			if c12Unordered[op] {
				g, w = canonUnordered(got), canonUnordered(want["v"])
			} else {
				g, w = canonOrdered(got), canonOrdered(want["v"])
			}
			if op == "ttl" && g != w && g == "0" && (w == "-1" || w == "-2") {
				// go-redis reports the -1/-2 sentinels as time.Duration(-1/-2); converted to whole
				// seconds that is 0: the statement's "same result after the documented conversion"
				// admits both, see META note of the check
				rep.Count("ttl.sentinel-as-0", 1)
				continue
			}
			if g != w {
				return fail(i, fmt.Sprintf("C12:%s:%s:reply%s", tKind(t), op, shape),
					fmt.Sprintf("%s: reply %s, specification %s; last commands %s", where, g, w, strings.Join(trail, " ")))
			}
		}
		// final keyspace
		known := map[string]bool{}
		for _, f := range final {
			fm := f.(kit.M)
			mk := kit.Str(fm["k"])
			known[x.prefix+mk] = true
			snap, err := c12Snap(t.servers, x.prefix+mk, mk)
			if err != nil {
				return fail(len(steps), fmt.Sprintf("C12:%s:final:placement", tKind(t)), t.name+": "+err.Error())
			}
			if g, w := kit.Canon(c12Align(snap, fm)), kit.Canon(fm); g != w {
				return fail(len(steps), fmt.Sprintf("C12:%s:final:%s", tKind(t), kit.Str(fm["t"])),
					fmt.Sprintf("%s: final keyspace has %s, specification %s; last commands %s", t.name, g, w, strings.Join(trail, " ")))
			}
		}
		for _, s := range t.servers {
			for _, rk := range s.Keys() {
				if !known[rk] {
					return fail(len(steps), fmt.Sprintf("C12:%s:final:extra-key", tKind(t)),
						fmt.Sprintf("%s: server holds key %q that the specification does not; last commands %s", t.name, rk, strings.Join(trail, " ")))
				}
			}
		}
		// the server's script cache (the wrapper's own server only: kv.Store offers no EvalSha)
		if cache := kit.List(c.Steps[0]["cache"]); t.rds != nil && len(cache) > 0 {
			var shas []string
			for _, e := range cache {
				shas = append(shas, kit.Str(e.(kit.M)["sha"]))
			}
			known, err := t.raw[0].ScriptExists(context.Background(), shas...).Result()
			if err != nil || len(known) != len(shas) {
				return kit.Verdict{Case: c.Index, Infra: true, Msg: fmt.Sprintf("script exists: %v %v", known, err)}
			}
			for i, e := range cache {
				// "evalfail": cached by Redis, not by miniredis (named deviation MiniredisCachesOnlySuccessfulEval)
				if st := kit.Str(e.(kit.M)["st"]); st != "evalfail" && known[i] != (st == "loaded") {
					return fail(len(steps), "C12:redis:final:script-cache",
						fmt.Sprintf("%s: the server knows script %s: %v, specification: %s; last commands %s", t.name, shas[i], known[i], st, strings.Join(trail, " ")))
				}
			}
		}
		rep.Count(t.name+".histories", 1)
	}
	return v
}

func tKind(t *c12Target) string {
	if t.rds != nil {
		return "redis"
	}
	return "kv"
}

func c12Setup(t *testing.T) ([]kit.Case, *kit.Reporter, int, int) {
	logx.Disable()
	cases, err := kit.LoadCases(kit.Env("VERIF_CASES", ""))
	if err != nil {
		t.Fatal(err)
	}
	rep, err := kit.NewReporter(kit.Env("VERIF_OUT", ""))
	if err != nil {
		t.Fatal(err)
	}
	return cases, rep, kit.EnvInt("VERIF_SHARD", 0), kit.EnvInt("VERIF_SHARDS", 1)
}

func TestVerifC12(t *testing.T) {
	cases, rep, shard, shards := c12Setup(t)
	defer rep.Close()
	// transparency runs: the per-address breaker (C01) never rejects, so WRONGTYPE replies that
	// the model produces on purpose cannot make the wrapper stop sending commands
	mathx.SetVerifCoin(func(float64) (bool, bool) { return false, true })
	targets, err := c12NewTargets()
	if err != nil {
		t.Fatal(err)
	}
	seed := kit.Seed()
	for _, c := range cases {
		if c.Index%shards != shard {
			continue
		}
		v := runC12CaseRetry(c, targets, seed, rep)
		if v.OK && kit.Env("VERIF_FORMS", "") == "both" {
			// replay of a single history: also the other choice of plain / Ctx forms
			v = runC12CaseRetry(c, targets, seed+1, rep)
		}
		rep.Put(v)
	}
}
