package kv

// Fault histories of the sharded store's multi-key delete (property C12, overlaid into lib/store/kv
// by /verif/bin/check).  Behaviours come from spec/ShardedDel.tla: some keys are set, one of three
// miniredis shards goes down (drops every connection), one Del names 1..3 keys in some order, the shard comes back, every
// key is read back.  The driver finds real key names for the model's (key, home shard) pairs by
// probing through the store, and compares the Del's count / error and the read-back with the model.

import (
	"context"
	"fmt"
	"strings"
	"sync/atomic"
	"testing"
	"time"

	"github.com/alicebob/miniredis/v2"
	"github.com/alicebob/miniredis/v2/server"
	kit "github.com/gotid/god/internal/verifkit"
	"github.com/gotid/god/lib/mathx"
	"github.com/gotid/god/lib/store/cache"
	"github.com/gotid/god/lib/store/redis"
)

func TestVerifC12ShardDel(t *testing.T) {
	cases, rep, shard, shards := c12Setup(t)
	defer rep.Close()
	mathx.SetVerifCoin(func(float64) (bool, bool) { return false, true })
	const nshards = 3
	// a shard that is "down" accepts connections and drops them at the first command (pre-hook): every
	// command to it fails at connection level, without go-redis' pool caching dial errors for a second
	// after the shard is back (which a closed listener would cause)
	var dead [nshards]atomic.Bool
	var servers []*miniredis.Miniredis
	var conf Config
	for i, w := range []int{60, 100, 80} {
		s, err := miniredis.Run()
		if err != nil {
			t.Fatal(err)
		}
		defer s.Close()
		idx := i
		s.Server().SetPreHook(func(p *server.Peer, _ string, _ ...string) bool {
			if dead[idx].Load() {
				p.Close()
				return true
			}
			return false
		})
		servers = append(servers, s)
		conf = append(conf, cache.NodeConfig{Config: redis.Config{Host: s.Addr(), Type: redis.NodeType}, Weight: w})
	}
	store := New(conf)
	// names per home shard, found by writing through the store and looking where the key landed
	names := make([][]string, nshards)
	for n := 0; n < 400; n++ {
		name := fmt.Sprintf("sd-%d", n)
		if err := store.Set(name, "x"); err != nil {
			t.Fatal(err)
		}
		for h, s := range servers {
			if s.Exists(name) {
				names[h] = append(names[h], name)
			}
		}
	}
	for h := range names {
		if len(names[h]) < 4 {
			t.Fatalf("no key names found for shard %d", h+1)
		}
	}
	reachable := func(s *miniredis.Miniredis) bool {
		if redis.New(s.Addr()).Ping() {
			return true
		}
		time.Sleep(20 * time.Millisecond)
		return false
	}
	for _, c := range cases {
		if c.Index%shards != shard {
			continue
		}
		for _, s := range servers {
			s.FlushAll()
		}
		v := kit.Verdict{Case: c.Index, OK: true}
		name := map[string]string{}
		used := make([]int, nshards)
		real := func(k string, home int) string {
			if n, ok := name[k]; ok {
				return n
			}
			name[k] = names[home-1][used[home-1]]
			used[home-1]++
			return name[k]
		}
		var trail []string
		closed := -1
	steps:
		for i, st := range c.Steps {
			switch op := kit.Str(st["op"]); op {
			case "set":
				k, home := kit.Str(st["k"]), kit.Num(st["home"])
				if err := store.Set(real(k, home), "v"); err != nil || !servers[home-1].Exists(name[k]) {
					v = kit.Verdict{Case: c.Index, Infra: true, Msg: fmt.Sprintf("step %d set %s on shard %d: %v", i, k, home, err)}
					break steps
				}
				trail = append(trail, fmt.Sprintf("set %s@%d", k, home))
			case "down":
				closed = kit.Num(st["shard"]) - 1
				dead[closed].Store(true)
				trail = append(trail, fmt.Sprintf("shard %d down", closed+1))
			case "up":
				dead[closed].Store(false)
				if !kit.WaitFor(30*time.Second, func() bool { return reachable(servers[closed]) }) {
					v = kit.Verdict{Case: c.Index, Infra: true, Msg: fmt.Sprintf("step %d: shard %d not reachable again", i, closed+1)}
					break steps
				}
				trail = append(trail, fmt.Sprintf("shard %d up", closed+1))
				closed = -1
			case "del":
				ks, homes := kit.List(st["ks"]), kit.List(st["homes"])
				var args, desc []string
				for j := range ks {
					args = append(args, real(kit.Str(ks[j]), kit.Num(homes[j])))
					desc = append(desc, fmt.Sprintf("%s@%d", kit.Str(ks[j]), kit.Num(homes[j])))
				}
				var n int
				var err error
				form := "Del"
				if (c.Index+int(kit.Seed()))%2 == 0 {
					form = "DelCtx"
					n, err = store.DelCtx(context.Background(), args...)
				} else {
					n, err = store.Del(args...)
				}
				v.Steps++
				rep.Count("del", 1)
				trail = append(trail, fmt.Sprintf("%s(%s) = %d, %v", form, strings.Join(desc, ", "), n, err != nil))
				if want := kit.Num(st["count"]); n != want {
					v.OK, v.Step, v.Key = false, i, "C12:kv:del-fault:count"
					v.Msg = fmt.Sprintf("%s: %d keys reported removed, specification %d (every named key whose shard answers)", strings.Join(trail, "; "), n, want)
					break steps
				}
				wantFail := kit.Bool(st["failed"])
				if (err != nil) != wantFail {
					v.OK, v.Step, v.Key = false, i, "C12:kv:del-fault:error"
					v.Msg = fmt.Sprintf("%s: error %v, specification: an error is reported iff a named key's shard is down (%v)", strings.Join(trail, "; "), err, wantFail)
					break steps
				}
				if wantFail {
					rep.Count("del.with-shard-down", 1)
				}
			case "read":
				for _, e := range kit.List(st["exists"]) {
					k, want := kit.Str(e.(kit.M)["k"]), kit.Bool(e.(kit.M)["e"])
					n, ok := name[k]
					if !ok {
						continue // never set, never named
					}
					got, err := store.Exists(n)
					if err != nil {
						v = kit.Verdict{Case: c.Index, Infra: true, Msg: fmt.Sprintf("step %d read-back of %s: %v", i, k, err)}
						break steps
					}
					onServer := false
					for _, s := range servers {
						onServer = onServer || s.Exists(n)
					}
					v.Steps++
					if got != want || onServer != want {
						v.OK, v.Step = false, i
						v.Key = "C12:kv:del-fault:left-behind"
						if want {
							v.Key = "C12:kv:del-fault:lost"
						}
						v.Msg = fmt.Sprintf("%s: afterwards key %s exists = %v (on a server: %v), specification %v", strings.Join(trail, "; "), k, got, onServer, want)
						break steps
					}
				}
			default:
				v = kit.Verdict{Case: c.Index, Infra: true, Msg: "unknown op " + op}
				break steps
			}
		}
		if closed >= 0 { // leave all shards up for the next behaviour
			dead[closed].Store(false)
			kit.WaitFor(30*time.Second, func() bool { return reachable(servers[closed]) })
		}
		rep.Put(v)
	}
}
