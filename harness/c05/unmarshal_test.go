package mapping_test

// Driver for property C05 (overlaid into lib/mapping as an external test package by
// /verif/bin/check).  Every case is one line printed by TLC from spec/UnmarshalContractGen.tla:
// a struct type descriptor, a document in abstract form and, per field and for the struct,
// the set of outcomes that spec/UnmarshalContract.tla allows.  The driver
//   - builds the Go type with reflect.StructOf (one type per tag key),
//   - renders the document as JSON text, YAML text, map[string]any, conf documents with the
//     three key spellings, form / path / header values, or a client request (round trip),
//   - calls the real functions inside recover(),
//   - and only checks membership of what came back in the allowed set, plus the equalities
//     JSON = YAML, exact key = snake_case key = other-initial-case key.
// Container-shape family ("shapes"): the member type is built from a word over S / M / P around an
// element kind, the document is a tree rendered as structure or as its JSON text (string member,
// form / path / header value); disagreements carry the source and the class of the shape in their
// key (C05:panic:<source>:<shape-class>, C05:rejected-valid:..., C05:accepted:<why>:..., C05:wrong-value:...).
// Nothing about expected values is computed here except the reference conversion of a decimal
// text into the Go value it denotes (math/big for integers, strconv.ParseFloat for the
// correctly rounded float).

import (
	"bufio"
	"context"
	"encoding/json"
	"fmt"
	"math/big"
	"math/rand"
	"net/http"
	"net/http/httptest"
	"net/url"
	"os"
	"reflect"
	"sort"
	"strconv"
	"strings"
	"testing"
	"time"

	"github.com/gotid/god/api/httpc"
	"github.com/gotid/god/api/httpx"
	"github.com/gotid/god/api/pathvar"
	"github.com/gotid/god/api/router"
	"github.com/gotid/god/lib/conf"
	"github.com/gotid/god/lib/logx"
	"github.com/gotid/god/lib/mapping"

	kit "github.com/gotid/god/internal/verifkit"
)

// ---------------------------------------------------------------- case model (decoded JSON)

type c05Name struct{ Exact, Snake, Initial string }

type c05Val struct {
	V     string // none | zero | any | int | float | str | bool | dur | sub | list | dict (members keyed by position)
	Text  string
	Ms    int
	Items []c05Val
}

type c05Out struct {
	Err, Ok, Any bool
	Val, Alt     c05Val
	Why          string
}

type c05Item struct{ Key, Text, Class string }

// c05Node is a document tree of the container-shape family: a leaf (literal), an array, an object
// (the keys of an object are c05TreeKeys by position).
type c05Node struct {
	N     string // leaf | arr | obj
	Text  string
	Class string
	Items []*c05Node
}

var c05TreeKeys = []string{"kx", "ky", "kz"}

type c05Doc struct {
	D     string // absent | lit | arr | obj | sub | tree
	Text  string
	Class string
	Items []c05Item
	// tree documents: Form = tree (structure) | text (the JSON text of the tree inside one string)
	Form string
	Node *c05Node
}

type c05Opts struct {
	Optional bool
	Def      string
	Options  []string
	Range    struct {
		Lo, Hi string
		Li, Ri bool
		On     bool
	}
	Str bool
	Env string
}

type c05Field struct {
	Name    c05Name
	Shape   string // prim | slice | map | struct | embedded | deep | tree
	Kind    string
	Ty      []string // shape "tree": the type word over S (slice of) / M (map[string] of) / P (pointer to) around Kind
	Ptr     bool
	Opts    c05Opts
	Inherit bool
	Part    string
	Doc     c05Doc
	Out     c05Out
	Sub     []c05Field
	// DefItems: elements of a slice default declared in the tag (default=[e1,e2])
	DefItems []string
}

type c05Case struct {
	Family string
	Src    string
	Yaml   bool
	Focus  string // rtcons: the request part whose member carries the full catalogue
	Fields []c05Field
	Out    struct{ Err, Ok, Any bool }
}

// c05Text expands the specification's names for runes outside ASCII: "<U+4F60>" is the rune U+4F60.
func c05Text(s string) string {
	if !strings.Contains(s, "<U+") {
		return s
	}
	var b strings.Builder
	for len(s) > 0 {
		if strings.HasPrefix(s, "<U+") {
			if j := strings.IndexByte(s, '>'); j > 3 {
				if n, err := strconv.ParseUint(s[3:j], 16, 32); err == nil {
					b.WriteRune(rune(n))
					s = s[j+1:]
					continue
				}
			}
		}
		b.WriteByte(s[0])
		s = s[1:]
	}
	return b.String()
}

func decVal(m kit.M) c05Val {
	v := c05Val{V: kit.Str(m["v"]), Text: c05Text(kit.Str(m["text"])), Ms: kit.Num(m["ms"])}
	for _, it := range kit.List(m["items"]) {
		v.Items = append(v.Items, decVal(it.(kit.M)))
	}
	return v
}

func decNode(m kit.M) *c05Node {
	n := &c05Node{N: kit.Str(m["n"]), Text: c05Text(kit.Str(m["text"])), Class: kit.Str(m["class"])}
	for _, it := range kit.List(m["items"]) {
		n.Items = append(n.Items, decNode(it.(kit.M)))
	}
	if len(n.Items) > len(c05TreeKeys) {
		panic("object node with more members than c05TreeKeys")
	}
	return n
}

func decOut(m kit.M) c05Out {
	o := c05Out{Err: kit.Bool(m["err"]), Ok: kit.Bool(m["ok"]), Any: kit.Bool(m["any"]), Why: kit.Str(m["why"])}
	if x, ok := m["val"].(kit.M); ok {
		o.Val = decVal(x)
	}
	if x, ok := m["alt"].(kit.M); ok {
		o.Alt = decVal(x)
	}
	return o
}

func decField(m kit.M) c05Field {
	f := c05Field{Shape: kit.Str(m["shape"]), Kind: kit.Str(m["kind"]), Ptr: kit.Bool(m["ptr"]),
		Inherit: kit.Bool(m["inherit"]), Part: kit.Str(m["part"])}
	n := m["name"].(kit.M)
	f.Name = c05Name{kit.Str(n["exact"]), kit.Str(n["snake"]), kit.Str(n["initial"])}
	o := m["opts"].(kit.M)
	f.Opts.Optional, f.Opts.Def, f.Opts.Str, f.Opts.Env = kit.Bool(o["optional"]), kit.Str(o["def"]), kit.Bool(o["str"]), kit.Str(o["env"])
	if f.Opts.Env != "" {
		// lib/proc caches an environment variable per NAME for the life of the process, so every
		// distinct value lives in a variable of its own, set before any unmarshal can read it
		os.Setenv(c05EnvPrefix+f.Opts.Env, f.Opts.Env)
	}
	for _, x := range kit.List(o["options"]) {
		f.Opts.Options = append(f.Opts.Options, kit.Str(x))
	}
	sort.Strings(f.Opts.Options)
	r := o["range"].(kit.M)
	f.Opts.Range.Lo, f.Opts.Range.Hi = kit.Str(r["lo"]), kit.Str(r["hi"])
	f.Opts.Range.Li, f.Opts.Range.Ri, f.Opts.Range.On = kit.Bool(r["li"]), kit.Bool(r["ri"]), kit.Bool(r["on"])
	d := m["doc"].(kit.M)
	f.Doc = c05Doc{D: kit.Str(d["d"]), Text: c05Text(kit.Str(d["text"])), Class: kit.Str(d["class"])}
	for _, x := range kit.List(d["items"]) {
		xm := x.(kit.M)
		f.Doc.Items = append(f.Doc.Items, c05Item{kit.Str(xm["key"]), c05Text(kit.Str(xm["text"])), kit.Str(xm["class"])})
	}
	f.Doc.Form = kit.Str(d["form"])
	if nm, ok := d["node"].(kit.M); ok {
		f.Doc.Node = decNode(nm)
	}
	for _, x := range kit.List(m["ty"]) {
		f.Ty = append(f.Ty, kit.Str(x))
	}
	for _, x := range kit.List(m["defitems"]) {
		f.DefItems = append(f.DefItems, c05Text(kit.Str(x)))
	}
	f.Out = decOut(m["out"].(kit.M))
	for _, s := range kit.List(m["sub"]) {
		f.Sub = append(f.Sub, decField(s.(kit.M)))
	}
	return f
}

func decCase(m kit.M) c05Case {
	c := c05Case{Family: kit.Str(m["family"]), Src: kit.Str(m["src"]), Yaml: kit.Bool(m["yaml"]), Focus: kit.Str(m["focus"])}
	for _, f := range kit.List(m["fields"]) {
		c.Fields = append(c.Fields, decField(f.(kit.M)))
	}
	o := m["out"].(kit.M)
	c.Out.Err, c.Out.Ok, c.Out.Any = kit.Bool(o["err"]), kit.Bool(o["ok"]), kit.Bool(o["any"])
	return c
}

// ---------------------------------------------------------------- Go types from descriptors

var c05Kinds = map[string]reflect.Type{
	"bool": reflect.TypeOf(false), "int8": reflect.TypeOf(int8(0)), "int16": reflect.TypeOf(int16(0)),
	"int32": reflect.TypeOf(int32(0)), "int64": reflect.TypeOf(int64(0)), "int": reflect.TypeOf(int(0)),
	"uint8": reflect.TypeOf(uint8(0)), "uint16": reflect.TypeOf(uint16(0)), "uint32": reflect.TypeOf(uint32(0)),
	"uint64": reflect.TypeOf(uint64(0)), "uint": reflect.TypeOf(uint(0)), "float32": reflect.TypeOf(float32(0)),
	"float64": reflect.TypeOf(float64(0)), "string": reflect.TypeOf(""), "duration": reflect.TypeOf(time.Duration(0)),
}

const c05EnvPrefix = "VERIF_C05_ENV_"

func c05Tag(tagKey string, f c05Field) string {
	if f.Shape == "embedded" {
		return ""
	}
	var b strings.Builder
	b.WriteString(f.Name.Exact)
	if f.Opts.Optional {
		b.WriteString(",optional")
	}
	if f.Opts.Def != "" {
		b.WriteString(",default=" + f.Opts.Def)
	}
	if len(f.DefItems) > 0 {
		b.WriteString(",default=[" + strings.Join(f.DefItems, ",") + "]")
	}
	if len(f.Opts.Options) > 0 {
		b.WriteString(",options=" + strings.Join(f.Opts.Options, "|"))
	}
	if f.Opts.Range.On {
		l, r := "(", ")"
		if f.Opts.Range.Li {
			l = "["
		}
		if f.Opts.Range.Ri {
			r = "]"
		}
		b.WriteString(",range=" + l + f.Opts.Range.Lo + ":" + f.Opts.Range.Hi + r)
	}
	if f.Opts.Str {
		b.WriteString(",string")
	}
	if f.Opts.Env != "" {
		b.WriteString(",env=" + c05EnvPrefix + f.Opts.Env)
	}
	if f.Inherit {
		b.WriteString(",inherit")
	}
	return tagKey + `:"` + b.String() + `"`
}

func c05FieldType(tagKey string, f c05Field) (reflect.Type, error) {
	var t reflect.Type
	switch f.Shape {
	case "prim":
		t = c05Kinds[f.Kind]
	case "slice":
		if e := c05Kinds[f.Kind]; e != nil {
			t = reflect.SliceOf(e)
		}
	case "map":
		if e := c05Kinds[f.Kind]; e != nil {
			t = reflect.MapOf(reflect.TypeOf(""), e)
		}
	case "struct", "embedded":
		st, err := c05StructType(tagKey, f.Sub, false)
		if err != nil {
			return nil, err
		}
		t = st
	case "tree": // the word f.Ty around the element kind
		t = c05Kinds[f.Kind]
		for i := len(f.Ty) - 1; i >= 0 && t != nil; i-- {
			switch f.Ty[i] {
			case "S":
				t = reflect.SliceOf(t)
			case "M":
				t = reflect.MapOf(reflect.TypeOf(""), t)
			case "P":
				t = reflect.PtrTo(t)
			default:
				t = nil
			}
		}
	case "deep": // f.Kind names the container shape around T = struct(f.Sub)
		st, err := c05StructType(tagKey, f.Sub, false)
		if err != nil {
			return nil, err
		}
		str := reflect.TypeOf("")
		switch f.Kind {
		case "ss":
			t = reflect.SliceOf(reflect.SliceOf(st))
		case "sm":
			t = reflect.SliceOf(reflect.MapOf(str, st))
		case "ms":
			t = reflect.MapOf(str, reflect.SliceOf(st))
		case "ssm":
			t = reflect.SliceOf(reflect.SliceOf(reflect.MapOf(str, st)))
		case "sp0":
			t = reflect.SliceOf(reflect.PtrTo(st))
		case "sx":
			t = reflect.SliceOf(st)
		}
	}
	if t == nil {
		return nil, fmt.Errorf("unknown field shape/kind %q/%q", f.Shape, f.Kind)
	}
	if f.Ptr {
		t = reflect.PtrTo(t)
	}
	return t, nil
}

var c05TypeCache = map[string]reflect.Type{}

// c05StructType builds struct{ F0 T0 `tag`; F1 T1 `tag` ... }.  In a round-trip struct every
// field carries the tag key of its own request part.
func c05StructType(tagKey string, fs []c05Field, perPart bool) (t reflect.Type, err error) {
	defer func() {
		if r := recover(); r != nil {
			err = fmt.Errorf("reflect.StructOf: %v", r)
		}
	}()
	var sfs []reflect.StructField
	var sig strings.Builder
	for i, f := range fs {
		tk := tagKey
		if perPart {
			tk = f.Part
		}
		ft, e := c05FieldType(tagKey, f)
		if e != nil {
			return nil, e
		}
		sf := reflect.StructField{Name: fmt.Sprintf("F%d", i), Type: ft, Tag: reflect.StructTag(c05Tag(tk, f))}
		if f.Shape == "embedded" {
			sf.Anonymous = true
			sf.Name = "Emb"
		}
		sfs = append(sfs, sf)
		fmt.Fprintf(&sig, "%s|%v|%s;", sf.Name, ft, sf.Tag)
	}
	if c, ok := c05TypeCache[sig.String()]; ok {
		return c, nil
	}
	t = reflect.StructOf(sfs)
	c05TypeCache[sig.String()] = t
	return t, nil
}

// ---------------------------------------------------------------- document renderings

func spell(n c05Name, sp string) string {
	switch sp {
	case "snake":
		return n.Snake
	case "initial":
		return n.Initial
	}
	return n.Exact
}

func jsonNumber(s string) json.Number { return json.Number(s) }

func jsonScalar(text, class string) string {
	if class == "string" {
		return strconv.Quote(text)
	}
	return text
}

// anyScalar is the value encoding/json with UseNumber yields for the literal.
func anyScalar(text, class string) any {
	switch class {
	case "string":
		return text
	case "bool":
		return text == "true"
	case "null":
		return nil
	case "array":
		return []any{jsonNumber("1")}
	case "object":
		return map[string]any{"x": jsonNumber("1")}
	}
	return jsonNumber(text)
}

// nodeJSON writes a document tree as JSON text (sep = ", " / ": " gives the spelling that is also
// YAML flow syntax).
func nodeJSON(n *c05Node, spaced bool) string {
	comma, colon := ",", ":"
	if spaced {
		comma, colon = ", ", ": "
	}
	switch n.N {
	case "arr":
		var it []string
		for _, x := range n.Items {
			it = append(it, nodeJSON(x, spaced))
		}
		return "[" + strings.Join(it, comma) + "]"
	case "obj":
		var it []string
		for i, x := range n.Items {
			it = append(it, strconv.Quote(c05TreeKeys[i])+colon+nodeJSON(x, spaced))
		}
		return "{" + strings.Join(it, comma) + "}"
	}
	return jsonScalar(n.Text, n.Class)
}

// nodeAny is what encoding/json with UseNumber yields for the tree.
func nodeAny(n *c05Node) any {
	switch n.N {
	case "arr":
		it := make([]any, 0, len(n.Items))
		for _, x := range n.Items {
			it = append(it, nodeAny(x))
		}
		return it
	case "obj":
		it := map[string]any{}
		for i, x := range n.Items {
			it[c05TreeKeys[i]] = nodeAny(x)
		}
		return it
	}
	return anyScalar(n.Text, n.Class)
}

// treeText: the tree as the characters a text source carries / a string member holds.
func treeText(f c05Field) string { return nodeJSON(f.Doc.Node, false) }

// deepWrap puts the one T object of a "deep" field into its containers (JSON flow syntax, which is
// also valid YAML flow syntax when written with ": " and ", ").
func deepWrap(shape, obj string) string {
	switch shape {
	case "ss":
		return "[[" + obj + "]]"
	case "sm":
		return `[{"kx": ` + obj + `}]`
	case "ms":
		return `{"kx": [` + obj + `]}`
	case "ssm":
		return `[[{"kx": ` + obj + `}]]`
	case "sp0":
		return "[null, " + obj + "]"
	case "sx":
		return "[5, " + obj + "]"
	}
	return obj
}

func deepWrapAny(shape string, obj any) any {
	switch shape {
	case "ss":
		return []any{[]any{obj}}
	case "sm":
		return []any{map[string]any{"kx": obj}}
	case "ms":
		return map[string]any{"kx": []any{obj}}
	case "ssm":
		return []any{[]any{map[string]any{"kx": obj}}}
	case "sp0":
		return []any{nil, obj}
	case "sx":
		return []any{jsonNumber("5"), obj}
	}
	return obj
}

// deepElem navigates from the container value to its one T element ("" = reached).
func deepElem(shape string, v reflect.Value) (reflect.Value, string) {
	idx := func(v reflect.Value, n, i int) (reflect.Value, string) {
		if v.Kind() != reflect.Slice || v.Len() != n {
			return v, fmt.Sprintf("a slice of %d element(s), got %s", n, render(v))
		}
		return v.Index(i), ""
	}
	key := func(v reflect.Value) (reflect.Value, string) {
		if v.Kind() != reflect.Map || v.Len() != 1 || !v.MapIndex(reflect.ValueOf("kx")).IsValid() {
			return v, "a map with the one key kx, got " + render(v)
		}
		return v.MapIndex(reflect.ValueOf("kx")), ""
	}
	var bad string
	switch shape {
	case "ss":
		if v, bad = idx(v, 1, 0); bad == "" {
			v, bad = idx(v, 1, 0)
		}
	case "sm":
		if v, bad = idx(v, 1, 0); bad == "" {
			v, bad = key(v)
		}
	case "ms":
		if v, bad = key(v); bad == "" {
			v, bad = idx(v, 1, 0)
		}
	case "ssm":
		if v, bad = idx(v, 1, 0); bad == "" {
			if v, bad = idx(v, 1, 0); bad == "" {
				v, bad = key(v)
			}
		}
	case "sp0":
		var first reflect.Value
		if first, bad = idx(v, 2, 0); bad == "" {
			if !first.IsNil() {
				return v, "a nil pointer for the null element, got " + render(first)
			}
			if v, bad = idx(v, 2, 1); bad == "" {
				if v.IsNil() {
					return v, "a filled second element, got nil"
				}
				v = v.Elem()
			}
		}
	}
	return v, bad
}

func renderJSON(fs []c05Field, sp string) string {
	var parts []string
	for _, f := range fs {
		if f.Shape == "embedded" {
			if inner := renderJSON(f.Sub, sp); inner != "{}" {
				parts = append(parts, inner[1:len(inner)-1])
			}
			continue
		}
		key := strconv.Quote(spell(f.Name, sp))
		if f.Shape == "deep" {
			parts = append(parts, key+":"+deepWrap(f.Kind, renderJSON(f.Sub, sp)))
			continue
		}
		switch f.Doc.D {
		case "absent":
		case "lit":
			parts = append(parts, key+":"+jsonScalar(f.Doc.Text, f.Doc.Class))
		case "arr":
			var it []string
			for _, x := range f.Doc.Items {
				it = append(it, jsonScalar(x.Text, x.Class))
			}
			parts = append(parts, key+":["+strings.Join(it, ",")+"]")
		case "obj":
			var it []string
			for _, x := range f.Doc.Items {
				it = append(it, strconv.Quote(x.Key)+":"+jsonScalar(x.Text, x.Class))
			}
			parts = append(parts, key+":{"+strings.Join(it, ",")+"}")
		case "sub":
			parts = append(parts, key+":"+renderJSON(f.Sub, sp))
		case "tree":
			if f.Doc.Form == "text" {
				parts = append(parts, key+":"+strconv.Quote(treeText(f)))
			} else {
				parts = append(parts, key+":"+nodeJSON(f.Doc.Node, false))
			}
		}
	}
	return "{" + strings.Join(parts, ",") + "}"
}

func renderYAML(fs []c05Field, indent string) string {
	var b strings.Builder
	for _, f := range fs {
		if f.Shape == "embedded" {
			b.WriteString(renderYAML(f.Sub, indent))
			continue
		}
		key := indent + f.Name.Exact + ":"
		if f.Shape == "deep" { // flow style: {"k": v, ...}
			obj := strings.NewReplacer(`":`, `": `, `,"`, `, "`).Replace(renderJSON(f.Sub, "exact"))
			b.WriteString(key + " " + deepWrap(f.Kind, obj) + "\n")
			continue
		}
		switch f.Doc.D {
		case "absent":
		case "lit":
			b.WriteString(key + " " + jsonScalar(f.Doc.Text, f.Doc.Class) + "\n")
		case "arr":
			if len(f.Doc.Items) == 0 {
				b.WriteString(key + " []\n")
				break
			}
			b.WriteString(key + "\n")
			for _, x := range f.Doc.Items {
				b.WriteString(indent + "  - " + jsonScalar(x.Text, x.Class) + "\n")
			}
		case "obj":
			if len(f.Doc.Items) == 0 {
				b.WriteString(key + " {}\n")
				break
			}
			b.WriteString(key + "\n")
			for _, x := range f.Doc.Items {
				b.WriteString(indent + "  " + x.Key + ": " + jsonScalar(x.Text, x.Class) + "\n")
			}
		case "tree":
			if f.Doc.Form == "text" {
				b.WriteString(key + " " + strconv.Quote(treeText(f)) + "\n")
			} else {
				b.WriteString(key + " " + nodeJSON(f.Doc.Node, true) + "\n")
			}
		case "sub":
			inner := renderYAML(f.Sub, indent+"  ")
			if inner == "" {
				b.WriteString(key + " {}\n")
			} else {
				b.WriteString(key + "\n" + inner)
			}
		}
	}
	return b.String()
}

func renderMap(fs []c05Field) map[string]any {
	m := map[string]any{}
	for _, f := range fs {
		if f.Shape == "embedded" {
			for k, v := range renderMap(f.Sub) {
				m[k] = v
			}
			continue
		}
		if f.Shape == "deep" {
			m[f.Name.Exact] = deepWrapAny(f.Kind, renderMap(f.Sub))
			continue
		}
		switch f.Doc.D {
		case "lit":
			m[f.Name.Exact] = anyScalar(f.Doc.Text, f.Doc.Class)
		case "arr":
			it := make([]any, 0, len(f.Doc.Items))
			for _, x := range f.Doc.Items {
				it = append(it, anyScalar(x.Text, x.Class))
			}
			m[f.Name.Exact] = it
		case "obj":
			it := map[string]any{}
			for _, x := range f.Doc.Items {
				it[x.Key] = anyScalar(x.Text, x.Class)
			}
			m[f.Name.Exact] = it
		case "sub":
			m[f.Name.Exact] = renderMap(f.Sub)
		case "tree":
			if f.Doc.Form == "text" {
				m[f.Name.Exact] = treeText(f)
			} else {
				m[f.Name.Exact] = nodeAny(f.Doc.Node)
			}
		}
	}
	return m
}

// text sources: name -> characters
func renderText(fs []c05Field) map[string]string {
	m := map[string]string{}
	for _, f := range fs {
		if f.Shape == "embedded" {
			for k, v := range renderText(f.Sub) {
				m[k] = v
			}
			continue
		}
		if f.Doc.D == "lit" {
			m[f.Name.Exact] = f.Doc.Text
		}
		if f.Doc.D == "tree" {
			m[f.Name.Exact] = treeText(f)
		}
	}
	return m
}

// ---------------------------------------------------------------- calling the real code

type c05Result struct {
	Panic string
	Err   error
	Val   reflect.Value // pointer to the struct
}

func (r c05Result) class() string {
	switch {
	case r.Panic != "":
		return "panic"
	case r.Err != nil:
		return "err"
	}
	return "val"
}

func c05Call(t reflect.Type, f func(v any) error) (res c05Result) {
	v := reflect.New(t)
	res.Val = v
	defer func() {
		if r := recover(); r != nil {
			res.Panic = fmt.Sprint(r)
		}
	}()
	res.Err = f(v.Interface())
	return
}

// ---------------------------------------------------------------- comparing with the allowed set

func refInt(text string) *big.Int {
	n, ok := new(big.Int).SetString(text, 10)
	if !ok {
		return nil
	}
	return n
}

func show(v reflect.Value) string {
	if !v.IsValid() {
		return "<invalid>"
	}
	return render(v)
}

// render prints a value with pointers dereferenced (stable across runs).
func render(v reflect.Value) string {
	switch v.Kind() {
	case reflect.Ptr:
		if v.IsNil() {
			return "nil"
		}
		return "&" + render(v.Elem())
	case reflect.Struct:
		var p []string
		for i := 0; i < v.NumField(); i++ {
			p = append(p, v.Type().Field(i).Name+":"+render(v.Field(i)))
		}
		return "{" + strings.Join(p, " ") + "}"
	case reflect.Slice:
		if v.IsNil() {
			return "[]"
		}
		var p []string
		for i := 0; i < v.Len(); i++ {
			p = append(p, render(v.Index(i)))
		}
		return "[" + strings.Join(p, " ") + "]"
	case reflect.Map:
		var p []string
		for _, k := range v.MapKeys() {
			p = append(p, fmt.Sprint(k.Interface())+":"+render(v.MapIndex(k)))
		}
		sort.Strings(p)
		return "map[" + strings.Join(p, " ") + "]"
	case reflect.String:
		return strconv.Quote(v.String())
	}
	return fmt.Sprintf("%v", v.Interface())
}

func isZeroish(v reflect.Value) bool {
	switch v.Kind() {
	case reflect.Slice, reflect.Map:
		return v.Len() == 0
	}
	return v.IsZero()
}

// matchVal: does the Go value equal the value the specification names?
func matchVal(v reflect.Value, want c05Val, f c05Field) (bool, string) {
	switch want.V {
	case "any":
		return true, ""
	case "zero":
		if f.Shape == "tree" && !f.Opts.Optional {
			// a required container that is absent: "absent = empty" is tolerated, also behind pointers
			for v.Kind() == reflect.Ptr && !v.IsNil() {
				v = v.Elem()
			}
		}
		return isZeroish(v), "zero value"
	case "none":
		return false, "no value"
	}
	if f.Shape == "tree" {
		return matchTree(v, want, f)
	}
	if v.Kind() == reflect.Ptr {
		if v.IsNil() {
			return false, "non-nil pointer"
		}
		v = v.Elem()
	}
	switch want.V {
	case "int":
		w := refInt(want.Text)
		if w == nil {
			return false, "bad reference integer " + want.Text
		}
		var g *big.Int
		switch v.Kind() {
		case reflect.Int, reflect.Int8, reflect.Int16, reflect.Int32, reflect.Int64:
			g = big.NewInt(v.Int())
		case reflect.Uint, reflect.Uint8, reflect.Uint16, reflect.Uint32, reflect.Uint64:
			g = new(big.Int).SetUint64(v.Uint())
		default:
			return false, "integer " + want.Text
		}
		return g.Cmp(w) == 0, want.Text
	case "float":
		bits := 64
		if v.Kind() == reflect.Float32 {
			bits = 32
		}
		w, err := strconv.ParseFloat(want.Text, bits)
		if err != nil {
			return false, "bad reference float " + want.Text
		}
		if v.Kind() != reflect.Float32 && v.Kind() != reflect.Float64 {
			return false, "float " + want.Text
		}
		return v.Float() == w, fmt.Sprintf("%v (the float%d nearest to %s)", w, bits, want.Text)
	case "str":
		return v.Kind() == reflect.String && v.String() == want.Text, strconv.Quote(want.Text)
	case "bool":
		return v.Kind() == reflect.Bool && v.Bool() == (want.Text == "true"), want.Text
	case "dur":
		w := time.Duration(want.Ms) * time.Millisecond
		return v.Kind() == reflect.Int64 && time.Duration(v.Int()) == w, w.String()
	case "list":
		if v.Kind() == reflect.Slice {
			if v.Len() != len(want.Items) {
				return false, fmt.Sprintf("%d elements", len(want.Items))
			}
			ef := f
			ef.Shape, ef.Ptr = "prim", false
			for i, it := range want.Items {
				if ok, w := matchVal(v.Index(i), it, ef); !ok {
					return false, fmt.Sprintf("element %d = %s", i, w)
				}
			}
			return true, ""
		}
		if v.Kind() == reflect.Map {
			if v.Len() != len(want.Items) {
				return false, fmt.Sprintf("%d members", len(want.Items))
			}
			ef := f
			ef.Shape, ef.Ptr = "prim", false
			for i, it := range want.Items {
				e := v.MapIndex(reflect.ValueOf(f.Doc.Items[i].Key))
				if !e.IsValid() {
					return false, "member " + f.Doc.Items[i].Key
				}
				if ok, w := matchVal(e, it, ef); !ok {
					return false, fmt.Sprintf("member %s = %s", f.Doc.Items[i].Key, w)
				}
			}
			return true, ""
		}
		return false, "a container"
	case "sub":
		if f.Shape == "deep" {
			e, bad := deepElem(f.Kind, v)
			if bad != "" {
				return false, "field " + f.Name.Exact + ": " + bad
			}
			v = e
		}
		if v.Kind() != reflect.Struct {
			return false, "a struct"
		}
		if bad := matchFields(v, f.Sub); bad != "" {
			return false, bad
		}
		return true, ""
	}
	return false, "unknown value form " + want.V
}

// matchTree compares a value of a container-shape member with the value tree the specification
// names: list = slice with exactly these elements, dict = map with exactly these members (keys by
// position), pointers hold the address of what the tree names (an empty container may also be a nil
// pointer / nil container: the document names no element), leaves as for a plain field.
func matchTree(v reflect.Value, want c05Val, f c05Field) (bool, string) {
	if want.V == "any" {
		return true, ""
	}
	for v.Kind() == reflect.Ptr {
		if v.IsNil() {
			if (want.V == "list" || want.V == "dict") && len(want.Items) == 0 {
				return true, ""
			}
			return false, "a non-nil pointer to " + treeWant(want)
		}
		v = v.Elem()
	}
	switch want.V {
	case "list":
		if v.Kind() != reflect.Slice || v.Len() != len(want.Items) {
			return false, treeWant(want)
		}
		for i, it := range want.Items {
			if ok, _ := matchTree(v.Index(i), it, f); !ok {
				return false, treeWant(want)
			}
		}
		return true, ""
	case "dict":
		if v.Kind() != reflect.Map || v.Len() != len(want.Items) {
			return false, treeWant(want)
		}
		for i, it := range want.Items {
			e := v.MapIndex(reflect.ValueOf(c05TreeKeys[i]))
			if !e.IsValid() {
				return false, treeWant(want)
			}
			if ok, _ := matchTree(e, it, f); !ok {
				return false, treeWant(want)
			}
		}
		return true, ""
	}
	ef := f
	ef.Shape, ef.Ptr = "prim", false
	return matchVal(v, want, ef)
}

// treeWant prints a value tree of the specification.
func treeWant(w c05Val) string {
	switch w.V {
	case "list":
		var p []string
		for _, it := range w.Items {
			p = append(p, treeWant(it))
		}
		return "[" + strings.Join(p, " ") + "]"
	case "dict":
		var p []string
		for i, it := range w.Items {
			p = append(p, c05TreeKeys[i]+":"+treeWant(it))
		}
		return "map[" + strings.Join(p, " ") + "]"
	case "any":
		return "<any>"
	case "dur":
		return (time.Duration(w.Ms) * time.Millisecond).String()
	case "str":
		return strconv.Quote(w.Text)
	}
	return w.Text
}

// shapeClass names the class of a type word: <<M,P,S>> = map-of-ptr-to-slice (the element kind is
// not part of the class).
func shapeClass(ty []string) string {
	var b strings.Builder
	for i, c := range ty {
		w := map[string]string{"S": "slice", "M": "map", "P": "ptr"}[c]
		if i > 0 {
			if ty[i-1] == "P" {
				b.WriteString("-to-")
			} else {
				b.WriteString("-of-")
			}
		}
		b.WriteString(w)
	}
	return b.String()
}

// shapeSource names how the tree reaches the member: typed (structure in a typed document),
// typed-string (its JSON text as a string member of a typed document), form / path / header.
func shapeSource(c *c05Case, tk string) string {
	if c.Src == "text" {
		return tk
	}
	if c.Fields[0].Doc.Form == "text" {
		return "typed-string"
	}
	return "typed"
}

// matchFields compares every field of a struct value with its allowed values; "" = all match.
func matchFields(sv reflect.Value, fs []c05Field) string {
	for i, f := range fs {
		fv := sv.Field(i)
		if f.Shape == "embedded" {
			if bad := matchFields(fv, f.Sub); bad != "" {
				return bad
			}
			continue
		}
		if f.Out.Any {
			continue
		}
		ok, want := matchVal(fv, f.Out.Val, f)
		if !ok && f.Out.Alt.V != "" && f.Out.Alt.V != "none" {
			var w2 string
			ok, w2 = matchVal(fv, f.Out.Alt, f)
			want += " or " + w2
		}
		if !ok {
			if f.Out.Val.V == "sub" || strings.Contains(want, "field ") {
				return want
			}
			return fmt.Sprintf("field %s (%s%s) = %s, the document's value is %s", f.Name.Exact, ptrMark(f), kindName(f), show(fv), want)
		}
	}
	return ""
}

func ptrMark(f c05Field) string {
	if f.Ptr {
		return "*"
	}
	return ""
}

func kindName(f c05Field) string {
	switch f.Shape {
	case "slice":
		return "[]" + f.Kind
	case "map":
		return "map[string]" + f.Kind
	case "struct":
		return "struct"
	case "tree":
		s := ""
		for _, c := range f.Ty {
			s += map[string]string{"S": "[]", "M": "map[string]", "P": "*"}[c]
		}
		return s + f.Kind
	case "deep":
		return map[string]string{"ss": "[][]T", "sm": "[]map[string]T", "ms": "map[string][]T", "ssm": "[][]map[string]T", "sp0": "[]*T", "sx": "[]T"}[f.Kind]
	}
	return f.Kind
}

// firstMustErr finds the (leaf) field whose outcome must be an error, for the diagnostic.
func firstMustErr(fs []c05Field) *c05Field {
	for i := range fs {
		f := &fs[i]
		if len(f.Sub) > 0 && (f.Doc.D == "sub" || f.Shape == "embedded") {
			if x := firstMustErr(f.Sub); x != nil {
				return x
			}
		}
		if f.Out.Err && !f.Out.Ok && !f.Out.Any {
			return f
		}
	}
	return nil
}

func valueAt(sv reflect.Value, fs []c05Field, target *c05Field) (reflect.Value, bool) {
	for i := range fs {
		fv := sv.Field(i)
		if &fs[i] == target {
			return fv, true
		}
		if len(fs[i].Sub) > 0 {
			x := fv
			if x.Kind() == reflect.Ptr {
				if x.IsNil() {
					continue
				}
				x = x.Elem()
			}
			if x.Kind() == reflect.Struct {
				if r, ok := valueAt(x, fs[i].Sub, target); ok {
					return r, true
				}
			}
		}
	}
	return reflect.Value{}, false
}

type c05Bad struct{ Key, Msg string }

// panicClass is a short stable slug of a panic message (class of the failure, not its text).
func panicClass(msg string) string {
	var b strings.Builder
	dash := false
	for _, r := range msg {
		switch {
		case r >= 'a' && r <= 'z' || r >= 'A' && r <= 'Z' || r >= '0' && r <= '9':
			b.WriteRune(r)
			dash = false
		default:
			if !dash {
				b.WriteByte('-')
				dash = true
			}
		}
		if b.Len() >= 27 {
			break
		}
	}
	return strings.Trim(b.String(), "-")
}

// judge: is the result of one call a member of the allowed set of the case?
func judge(c *c05Case, api, tk string, r c05Result, input string) *c05Bad {
	via := c.Src // the key names the class of failure and the source class, not the shape or the API
	where := fmt.Sprintf("%s [%s] (%s) into %s", api, c.Family, input, describeAs(tk, c.Fields))
	if c.Family == "shapes" {
		// container shapes: the key names the source and the class of the shape (what a repair is about)
		via = shapeSource(c, tk) + ":" + shapeClass(c.Fields[0].Ty)
		if r.class() == "panic" {
			return &c05Bad{"C05:panic:" + via, fmt.Sprintf("%s panicked: %s", where, r.Panic)}
		}
	}
	switch r.class() {
	case "panic":
		return &c05Bad{"C05:panic:" + panicClass(r.Panic) + ":" + via, fmt.Sprintf("%s panicked: %s", where, r.Panic)}
	case "err":
		if c.Out.Err || c.Out.Any {
			return nil
		}
		return &c05Bad{"C05:rejected-valid:" + via, fmt.Sprintf("%s failed with %q, the specification allows only the exact value", where, r.Err)}
	}
	sv := r.Val.Elem()
	if !c.Out.Ok && !c.Out.Any {
		f := firstMustErr(c.Fields)
		why, detail := "must-fail", ""
		if f != nil {
			why = f.Out.Why
			if fv, ok := valueAt(sv, c.Fields, f); ok {
				detail = fmt.Sprintf("; field %s (%s%s) became %s", f.Name.Exact, ptrMark(*f), kindName(*f), show(fv))
			}
		}
		return &c05Bad{"C05:accepted:" + why + ":" + via, fmt.Sprintf("%s returned nil error, the specification requires an error (%s)%s", where, why, detail)}
	}
	if bad := matchFields(sv, c.Fields); bad != "" {
		return &c05Bad{"C05:wrong-value:" + via, fmt.Sprintf("%s: %s", where, bad)}
	}
	return nil
}

func describe(fs []c05Field) string { return describeAs("json", fs) }

func describeAs(tk0 string, fs []c05Field) string {
	var p []string
	for _, f := range fs {
		if f.Shape == "embedded" {
			p = append(p, "embedded{"+describeAs(tk0, f.Sub)+"}")
			continue
		}
		s := ptrMark(f) + kindName(f)
		if f.Shape == "struct" {
			s = ptrMark(f) + "struct{" + describeAs(tk0, f.Sub) + "}"
		}
		if f.Shape == "deep" {
			s = kindName(f) + " with T = struct{" + describeAs(tk0, f.Sub) + "}"
		}
		tk := tk0
		if f.Part != "" {
			tk = f.Part
		}
		p = append(p, s+" `"+c05Tag(tk, f)+"`")
	}
	return strings.Join(p, "; ")
}

// ---------------------------------------------------------------- one case, all renderings

type c05Runner struct {
	rep    *kit.Reporter
	srv    *httptest.Server
	cur    *c05RT
	first  map[int]string // case index -> outcome signature of the first pass
	passNo int
	primed bool
}

type c05RT struct {
	typ reflect.Type
	res c05Result
	hit bool
}

func sig(rs []c05Result) string {
	var b strings.Builder
	for _, r := range rs {
		b.WriteString(r.class())
		if r.class() == "val" {
			b.WriteString("=" + render(r.Val.Elem()))
		}
		b.WriteByte(';')
	}
	return b.String()
}

func sameStruct(a, b c05Result) bool {
	return reflect.DeepEqual(a.Val.Elem().Interface(), b.Val.Elem().Interface())
}

func (rn *c05Runner) runTyped(c *c05Case) (bads []*c05Bad, results []c05Result, n int) {
	tJSON, err := c05StructType("json", c.Fields, false)
	if err != nil {
		return []*c05Bad{{"infra", err.Error()}}, nil, 0
	}
	tKey, err := c05StructType("key", c.Fields, false)
	if err != nil {
		return []*c05Bad{{"infra", err.Error()}}, nil, 0
	}
	add := func(api string, r c05Result, input string, v string) {
		n++
		results = append(results, r)
		rn.rep.Count("call."+api+"."+r.class(), 1)
		if b := judge(c, api, v, r, input); b != nil {
			bads = append(bads, b)
		}
	}
	js := renderJSON(c.Fields, "exact")
	rJSON := c05Call(tJSON, func(v any) error { return mapping.UnmarshalJsonBytes([]byte(js), v) })
	add("mapping.UnmarshalJsonBytes", rJSON, js, "json")

	m := renderMap(c.Fields)
	rKey := c05Call(tKey, func(v any) error { return mapping.UnmarshalKey(m, v) })
	add("mapping.UnmarshalKey", rKey, js, "key")

	var rYAML c05Result
	ys := renderYAML(c.Fields, "")
	if ys == "" {
		ys = "{}\n" // an empty mapping (an empty YAML text would be a null document)
	}
	if c.Yaml {
		rYAML = c05Call(tJSON, func(v any) error { return mapping.UnmarshalYamlBytes([]byte(ys), v) })
		add("mapping.UnmarshalYamlBytes", rYAML, strconv.Quote(ys), "json")
		if !c.Out.Any && rJSON.class() == "val" && rYAML.class() == "val" && !sameStruct(rJSON, rYAML) {
			bads = append(bads, &c05Bad{"C05:json-yaml-differ", fmt.Sprintf("the same content into %s: JSON %s gives %s, YAML %q gives %s",
				describe(c.Fields), js, render(rJSON.Val.Elem()), ys, render(rYAML.Val.Elem()))})
		}
	}
	// conf.Load*: exact, snake_case and other-initial-case keys
	var confRes []c05Result
	for _, sp := range []string{"exact", "snake", "initial"} {
		cj := renderJSON(c.Fields, sp)
		r := c05Call(tJSON, func(v any) error { return conf.LoadFromJsonBytes([]byte(cj), v) })
		add("conf.LoadFromJsonBytes["+sp+"]", r, cj, "json")
		confRes = append(confRes, r)
	}
	for i := 1; i < len(confRes); i++ {
		a, b := confRes[0], confRes[i]
		if a.class() == "val" && b.class() == "err" {
			bads = append(bads, &c05Bad{"C05:spelling-rejected", fmt.Sprintf("conf.LoadFromJsonBytes into %s accepts the exact keys %s but fails for the respelt keys %s: %v",
				describe(c.Fields), js, renderJSON(c.Fields, []string{"exact", "snake", "initial"}[i]), b.Err)})
		}
		if a.class() == "val" && b.class() == "val" && !sameStruct(a, b) {
			bads = append(bads, &c05Bad{"C05:spelling-differ", fmt.Sprintf("conf.LoadFromJsonBytes into %s: exact keys give %s, respelt keys (%s) give %s",
				describe(c.Fields), render(a.Val.Elem()), renderJSON(c.Fields, []string{"exact", "snake", "initial"}[i]), render(b.Val.Elem()))})
		}
	}
	if c.Yaml {
		r := c05Call(tJSON, func(v any) error { return conf.LoadFromYamlBytes([]byte(ys), v) })
		add("conf.LoadFromYamlBytes", r, strconv.Quote(ys), "json")
		if !c.Out.Any && confRes[0].class() == "val" && r.class() == "val" && !sameStruct(confRes[0], r) {
			bads = append(bads, &c05Bad{"C05:json-yaml-differ", fmt.Sprintf("conf: the same content into %s: JSON %s gives %s, YAML %q gives %s",
				describe(c.Fields), js, render(confRes[0].Val.Elem()), ys, render(r.Val.Elem()))})
		}
	}
	return
}

// mutate edits every reachable slice and map element of v in place and appends / adds one more:
// what a caller may legitimately do with a struct it got back.
func mutate(v reflect.Value) {
	switch v.Kind() {
	case reflect.Ptr:
		if !v.IsNil() {
			mutate(v.Elem())
		}
	case reflect.Struct:
		for i := 0; i < v.NumField(); i++ {
			mutate(v.Field(i))
		}
	case reflect.Slice:
		for i := 0; i < v.Len(); i++ {
			poison(v.Index(i))
		}
		if v.CanSet() && !v.IsNil() {
			// write through spare capacity too, then keep the longer slice
			e := reflect.New(v.Type().Elem()).Elem()
			poison(e)
			v.Set(reflect.Append(v, e))
		}
	case reflect.Map:
		if v.IsNil() {
			return
		}
		for _, k := range v.MapKeys() {
			e := reflect.New(v.Type().Elem()).Elem()
			e.Set(v.MapIndex(k))
			poison(e)
			v.SetMapIndex(k, e)
		}
		if v.Type().Key().Kind() == reflect.String {
			e := reflect.New(v.Type().Elem()).Elem()
			poison(e)
			v.SetMapIndex(reflect.ValueOf("zzMutated").Convert(v.Type().Key()), e)
		}
	}
}

func poison(e reflect.Value) {
	switch e.Kind() {
	case reflect.String:
		e.SetString("MUTATED-" + e.String())
	case reflect.Bool:
		e.SetBool(!e.Bool())
	case reflect.Int, reflect.Int8, reflect.Int16, reflect.Int32, reflect.Int64:
		e.SetInt(e.Int() ^ 0x55)
	case reflect.Uint, reflect.Uint8, reflect.Uint16, reflect.Uint32, reflect.Uint64:
		e.SetUint(e.Uint() ^ 0x55)
	case reflect.Float32, reflect.Float64:
		e.SetFloat(e.Float() + 0.5)
	default:
		mutate(e)
	}
}

// runTwice: the same document into the same type twice; the first result is edited in place in
// between.  Both results must be members of the allowed set (AllowedAgain = Allowed): in particular
// an absent field takes its declared default both times.
func (rn *c05Runner) runTwice(c *c05Case) (bads []*c05Bad, results []c05Result, n int) {
	tJSON, err := c05StructType("json", c.Fields, false)
	if err != nil {
		return []*c05Bad{{"infra", err.Error()}}, nil, 0
	}
	tKey, err := c05StructType("key", c.Fields, false)
	if err != nil {
		return []*c05Bad{{"infra", err.Error()}}, nil, 0
	}
	js := renderJSON(c.Fields, "exact")
	ys := renderYAML(c.Fields, "")
	if ys == "" {
		ys = "{}\n"
	}
	type api struct {
		name, tk, input string
		t               reflect.Type
		call            func(v any) error
	}
	apis := []api{
		{"mapping.UnmarshalJsonBytes", "json", js, tJSON, func(v any) error { return mapping.UnmarshalJsonBytes([]byte(js), v) }},
		// a freshly rendered map for every call: aliasing between the caller's map and the result is not claimed
		{"mapping.UnmarshalKey", "key", js, tKey, func(v any) error { return mapping.UnmarshalKey(renderMap(c.Fields), v) }},
		{"conf.LoadFromJsonBytes", "json", js, tJSON, func(v any) error { return conf.LoadFromJsonBytes([]byte(js), v) }},
	}
	if c.Yaml {
		apis = append(apis,
			api{"mapping.UnmarshalYamlBytes", "json", strconv.Quote(ys), tJSON, func(v any) error { return mapping.UnmarshalYamlBytes([]byte(ys), v) }},
			api{"conf.LoadFromYamlBytes", "json", strconv.Quote(ys), tJSON, func(v any) error { return conf.LoadFromYamlBytes([]byte(ys), v) }})
	}
	for _, a := range apis {
		for call := 1; call <= 2; call++ {
			r := c05Call(a.t, a.call)
			n++
			results = append(results, r)
			rn.rep.Count("call."+a.name+"."+r.class(), 1)
			if b := judge(c, a.name, a.tk, r, a.input); b != nil {
				if call == 2 && !strings.HasPrefix(b.Key, "C05:panic") {
					b.Key = "C05:second-call:" + strings.TrimPrefix(b.Key, "C05:")
					b.Msg = "second call with the same document, after the first result was edited in place by the caller: " + b.Msg
				}
				bads = append(bads, b)
				break
			}
			if call == 1 && r.class() == "val" {
				mutate(r.Val.Elem())
				rn.rep.Count("twice.mutated", 1)
			}
		}
	}
	return
}

// primeConf loads a configuration once, as a service does at start-up: from then on the process
// has used conf.Load* (and whatever options it installs) before any request is parsed.
func (rn *c05Runner) primeConf() {
	type cfg struct {
		Name string `json:"name"`
		Port int    `json:"listen_port,default=8080"`
	}
	var v cfg
	if err := conf.LoadFromJsonBytes([]byte(`{"name":"svc","listen_port":9}`), &v); err != nil || v.Port != 9 {
		rn.rep.Count("prime.conf.unexpected", 1)
	}
	var w cfg
	if err := conf.LoadFromYamlBytes([]byte("name: svc\nlisten_port: 9\n"), &w); err != nil || w.Port != 9 {
		rn.rep.Count("prime.conf.unexpected", 1)
	}
	rn.rep.Count("prime.conf", 1)
}

// runHistory: a config load first, then every option-less API on a field whose key is spelt in
// snake_case / Upper-initial / mixed / lowerCamel.  Same allowed set as for a single call.
func (rn *c05Runner) runHistory(c *c05Case) (bads []*c05Bad, results []c05Result, n int) {
	tJSON, err := c05StructType("json", c.Fields, false)
	if err != nil {
		return []*c05Bad{{"infra", err.Error()}}, nil, 0
	}
	tKey, err := c05StructType("key", c.Fields, false)
	if err != nil {
		return []*c05Bad{{"infra", err.Error()}}, nil, 0
	}
	js := renderJSON(c.Fields, "exact")
	ys := renderYAML(c.Fields, "")
	if ys == "" {
		ys = "{}\n"
	}
	add := func(api, tk string, r c05Result, input string, after bool) {
		n++
		results = append(results, r)
		rn.rep.Count("call."+api+"."+r.class(), 1)
		if b := judge(c, api, tk, r, input); b != nil {
			if after && !strings.HasPrefix(b.Key, "C05:panic") {
				b.Key = "C05:after-conf:" + strings.TrimPrefix(b.Key, "C05:")
				b.Msg = "after a conf.Load* in the same process: " + b.Msg
			}
			bads = append(bads, b)
		}
	}
	// history: the config loads (judged like any other call)
	rn.primeConf()
	add("conf.LoadFromJsonBytes[exact]", "json", c05Call(tJSON, func(v any) error { return conf.LoadFromJsonBytes([]byte(js), v) }), js, false)
	if c.Yaml {
		add("conf.LoadFromYamlBytes", "json", c05Call(tJSON, func(v any) error { return conf.LoadFromYamlBytes([]byte(ys), v) }), strconv.Quote(ys), false)
	}
	// then the option-less calls
	rJSON := c05Call(tJSON, func(v any) error { return mapping.UnmarshalJsonBytes([]byte(js), v) })
	add("mapping.UnmarshalJsonBytes", "json", rJSON, js, true)
	add("mapping.UnmarshalKey", "key", c05Call(tKey, func(v any) error { return mapping.UnmarshalKey(renderMap(c.Fields), v) }), js, true)
	if c.Yaml {
		rYAML := c05Call(tJSON, func(v any) error { return mapping.UnmarshalYamlBytes([]byte(ys), v) })
		add("mapping.UnmarshalYamlBytes", "json", rYAML, strconv.Quote(ys), true)
		if !c.Out.Any && rJSON.class() == "val" && rYAML.class() == "val" && !sameStruct(rJSON, rYAML) {
			bads = append(bads, &c05Bad{"C05:after-conf:json-yaml-differ", fmt.Sprintf("after a conf.Load*: the same content into %s: JSON %s gives %s, YAML %q gives %s",
				describe(c.Fields), js, render(rJSON.Val.Elem()), ys, render(rYAML.Val.Elem()))})
		}
	}
	add("httpx.Parse[json body]", "json", c05Call(tJSON, func(v any) error {
		r := httptest.NewRequest(http.MethodPost, "/x", strings.NewReader(js))
		r.Header.Set("Content-Type", "application/json")
		return httpx.Parse(r, v)
	}), js, true)
	return
}

func (rn *c05Runner) runText(c *c05Case) (bads []*c05Bad, results []c05Result, n int) {
	vals := renderText(c.Fields)
	add := func(api string, r c05Result, input string, v string) {
		n++
		results = append(results, r)
		rn.rep.Count("call."+api+"."+r.class(), 1)
		if b := judge(c, api, v, r, input); b != nil {
			bads = append(bads, b)
		}
	}
	q := url.Values{}
	for k, v := range vals {
		q.Set(k, v)
	}
	input := fmt.Sprintf("%v", vals)
	// form
	tForm, err := c05StructType("form", c.Fields, false)
	if err != nil {
		return []*c05Bad{{"infra", err.Error()}}, nil, 0
	}
	add("httpx.ParseForm", c05Call(tForm, func(v any) error {
		return httpx.ParseForm(httptest.NewRequest(http.MethodGet, "/x?"+q.Encode(), nil), v)
	}), input, "form")
	add("httpx.Parse[form]", c05Call(tForm, func(v any) error {
		return httpx.Parse(httptest.NewRequest(http.MethodGet, "/x?"+q.Encode(), nil), v)
	}), input, "form")
	// path
	tPath, err := c05StructType("path", c.Fields, false)
	if err != nil {
		return []*c05Bad{{"infra", err.Error()}}, nil, 0
	}
	add("httpx.ParsePath", c05Call(tPath, func(v any) error {
		return httpx.ParsePath(pathvar.WithVars(httptest.NewRequest(http.MethodGet, "/x", nil), vals), v)
	}), input, "path")
	// header
	tHdr, err := c05StructType("header", c.Fields, false)
	if err != nil {
		return []*c05Bad{{"infra", err.Error()}}, nil, 0
	}
	add("httpx.ParseHeaders", c05Call(tHdr, func(v any) error {
		r := httptest.NewRequest(http.MethodGet, "/x", nil)
		for k, v := range vals {
			r.Header.Set(k, v)
		}
		return httpx.ParseHeaders(r, v)
	}), input, "header")
	return
}

// setFromLiteral fills a request field with the value its literal names (reference conversion).
func setFromLiteral(fv reflect.Value, f c05Field) error {
	text := f.Doc.Text
	if fv.Kind() == reflect.Ptr { // a pointer member holds the address of the value
		fv.Set(reflect.New(fv.Type().Elem()))
		fv = fv.Elem()
	}
	switch fv.Kind() {
	case reflect.Int, reflect.Int8, reflect.Int16, reflect.Int32, reflect.Int64:
		n := refInt(text)
		if n == nil || !n.IsInt64() || fv.OverflowInt(n.Int64()) {
			return fmt.Errorf("literal %s does not fit %s", text, f.Kind)
		}
		fv.SetInt(n.Int64())
	case reflect.Uint, reflect.Uint8, reflect.Uint16, reflect.Uint32, reflect.Uint64:
		n := refInt(text)
		if n == nil || !n.IsUint64() || fv.OverflowUint(n.Uint64()) {
			return fmt.Errorf("literal %s does not fit %s", text, f.Kind)
		}
		fv.SetUint(n.Uint64())
	case reflect.Float32, reflect.Float64:
		bits := 64
		if fv.Kind() == reflect.Float32 {
			bits = 32
		}
		x, err := strconv.ParseFloat(text, bits)
		if err != nil {
			return err
		}
		fv.SetFloat(x)
	case reflect.String:
		fv.SetString(text)
	case reflect.Bool:
		fv.SetBool(text == "true")
	default:
		return fmt.Errorf("unsupported round-trip kind %s", f.Kind)
	}
	return nil
}

func (rn *c05Runner) runRoundTrip(c *c05Case) (bads []*c05Bad, results []c05Result, n int) {
	t, err := c05StructType("", c.Fields, true)
	if err != nil {
		return []*c05Bad{{"infra", err.Error()}}, nil, 0
	}
	req := reflect.New(t)
	var pathName string
	for i, f := range c.Fields {
		if err := setFromLiteral(req.Elem().Field(i), f); err != nil {
			return []*c05Bad{{"infra", err.Error()}}, nil, 0
		}
		if f.Part == "path" {
			pathName = f.Name.Exact
		}
	}
	if !rn.primed { // the server process has loaded its configuration before it parses requests
		rn.primeConf()
		rn.primed = true
	}
	rn.cur = &c05RT{typ: t}
	var resp *http.Response
	var doErr error
	var pan string
	func() {
		defer func() {
			if r := recover(); r != nil {
				pan = fmt.Sprint(r)
			}
		}()
		resp, doErr = httpc.Do(context.Background(), http.MethodPost, rn.srv.URL+"/rt/:"+pathName, req.Interface())
	}()
	if resp != nil {
		resp.Body.Close()
	}
	n = 1
	input := render(req.Elem())
	where := fmt.Sprintf("httpc.Do(POST /rt/:%s, %s) of %s", pathName, input, describe(c.Fields))
	fam := "rt." + c.Family + "."
	// mustFail: some member's value is outside its own options= / range= (and not an unset optional)
	mustFail := !c.Out.Ok && !c.Out.Any
	why := "must-fail"
	if f := firstMustErr(c.Fields); f != nil {
		why = f.Out.Why
	}
	switch {
	case pan != "":
		rn.rep.Count("call.roundtrip.panic", 1)
		return []*c05Bad{{"C05:panic:" + panicClass(pan) + ":roundtrip:client", where + " panicked: " + pan}}, nil, n
	case doErr != nil:
		rn.rep.Count("call.roundtrip.clienterr", 1)
		if mustFail {
			rn.rep.Count(fam+"outside.client-refused", 1)
		}
		if c.Out.Err {
			return nil, nil, n
		}
		return []*c05Bad{{"C05:roundtrip:client-error", where + " failed: " + doErr.Error()}}, nil, n
	case !rn.cur.hit:
		return []*c05Bad{{"infra", where + ": the request did not reach the handler (status " + resp.Status + ")"}}, nil, n
	}
	r := rn.cur.res
	results = append(results, r)
	rn.rep.Count("call.roundtrip."+r.class(), 1)
	switch r.class() {
	case "panic":
		return []*c05Bad{{"C05:panic:" + panicClass(r.Panic) + ":roundtrip:server", where + ": httpx.Parse panicked: " + r.Panic}}, results, n
	case "err":
		if mustFail {
			rn.rep.Count(fam+"outside.server-refused", 1)
		}
		if c.Out.Err {
			if !mustFail {
				rn.rep.Count(fam+"open.server-refused", 1)
			}
			return nil, results, n
		}
		return []*c05Bad{{"C05:roundtrip:rejected", where + ": httpx.Parse failed with " + strconv.Quote(r.Err.Error())}}, results, n
	}
	if mustFail {
		// neither side refused a value outside the declared constraint: equal or not, the server holds
		// a struct the unmarshalling clause forbids
		detail := ""
		if f := firstMustErr(c.Fields); f != nil {
			if fv, ok := valueAt(r.Val.Elem(), c.Fields, f); ok {
				detail = fmt.Sprintf("; %s member %s (%s%s) arrived as %s", f.Part, f.Name.Exact, ptrMark(*f), kindName(*f), show(fv))
			}
		}
		return []*c05Bad{{"C05:roundtrip:accepted:" + why, fmt.Sprintf("%s: neither the client helper nor httpx.Parse returned an error, the specification requires one (%s)%s; parsed back %s",
			where, why, detail, render(r.Val.Elem()))}}, results, n
	}
	if !reflect.DeepEqual(r.Val.Elem().Interface(), req.Elem().Interface()) {
		return []*c05Bad{{"C05:roundtrip:not-equal", fmt.Sprintf("%s: parsed back %s", where, render(r.Val.Elem()))}}, results, n
	}
	// the equal struct is also what the specification names, field by field
	if bad := matchFields(r.Val.Elem(), c.Fields); bad != "" {
		return []*c05Bad{{"C05:roundtrip:not-equal", where + ": " + bad}}, results, n
	}
	rn.rep.Count(fam+"equal", 1)
	for _, f := range c.Fields { // vacuity guards of the constraint family: equal structs that sit on a bound
		if f.Opts.Range.On && ((f.Opts.Range.Li && f.Doc.Text == f.Opts.Range.Lo) || (f.Opts.Range.Ri && f.Doc.Text == f.Opts.Range.Hi)) {
			rn.rep.Count(fam+"equal.on-included-bound."+f.Part, 1)
		}
		if len(f.Opts.Options) > 0 {
			rn.rep.Count(fam+"equal.in-options."+f.Part, 1)
		}
	}
	return nil, results, n
}

// checkAxioms re-derives the numeric facts the specification takes as given.  A mismatch is an
// error of the specification (Infra), never a verdict about the code.
func checkAxioms(m kit.M) string {
	exactBase := func(text string, base int) *big.Float {
		f, _, err := big.ParseFloat(text, base, 4000, big.ToNearestEven)
		if err != nil {
			return nil
		}
		return f
	}
	exact := func(text string) *big.Float {
		f, _, err := big.ParseFloat(text, 10, 4000, big.ToNearestEven)
		if err != nil {
			return nil
		}
		return f
	}
	pts := kit.List(m["points"])
	for i := 1; i < len(pts); i++ {
		a, b := exact(kit.Str(pts[i-1])), exact(kit.Str(pts[i]))
		if a == nil || b == nil || a.Cmp(b) >= 0 {
			return fmt.Sprintf("Points not increasing at %v < %v", pts[i-1], pts[i])
		}
	}
	isPoint := map[string]bool{}
	for _, p := range pts {
		isPoint[kit.Str(p)] = true
	}
	for _, x := range kit.List(m["lits"]) {
		l := x.(kit.M)
		text, at := kit.Str(l["text"]), kit.Str(l["at"])
		if at == "" {
			continue
		}
		v, a := exact(text), exact(at)
		if kit.Str(l["syn"]) == "go" { // the number the spelling denotes in Go syntax
			v = exactBase(text, 0)
			if _, err := strconv.ParseInt(text, 10, 64); err == nil {
				return fmt.Sprintf("literal %s: marked as Go syntax but is a plain decimal", text)
			}
		}
		if v == nil || a == nil || v.Cmp(a) != 0 || !isPoint[at] {
			return fmt.Sprintf("literal %s: at=%s is not its value / not a point", text, at)
		}
		if v.IsInt() != kit.Bool(l["integral"]) {
			return fmt.Sprintf("literal %s: integral=%v", text, l["integral"])
		}
		if kit.Str(l["syn"]) == "int" && kit.Str(l["class"]) == "num" && text != at {
			return fmt.Sprintf("literal %s: int syntax but at=%s", text, at)
		}
		if kit.Str(l["syn"]) == "int" && text != at { // zero-padded: the decimal reading, digit for digit
			if n, err := strconv.ParseInt(text, 10, 64); err != nil || strconv.FormatInt(n, 10) != at {
				return fmt.Sprintf("literal %s: decimal reading is not %s", text, at)
			}
		}
		for _, bits := range []int{32, 64} {
			if kit.Str(l["syn"]) == "go" {
				break
			}
			r, err := strconv.ParseFloat(text, bits)
			if err != nil { // out of range of the float kind: exactness is not used
				continue
			}
			isExact := new(big.Float).SetPrec(4000).SetFloat64(r).Cmp(v) == 0
			if want := kit.Str(l[fmt.Sprintf("f%d", bits)]) == "exact"; want != isExact {
				return fmt.Sprintf("literal %s: f%d=%v but exactly representable=%v", text, bits, l[fmt.Sprintf("f%d", bits)], isExact)
			}
		}
	}
	ref := map[string][2]string{
		"int8": {"-128", "127"}, "int16": {"-32768", "32767"}, "int32": {"-2147483648", "2147483647"},
		"int64": {"-9223372036854775808", "9223372036854775807"}, "int": {strconv.Itoa(-1 << (strconv.IntSize - 1)), strconv.Itoa(1<<(strconv.IntSize-1) - 1)},
		"uint8": {"0", "255"}, "uint16": {"0", "65535"}, "uint32": {"0", "4294967295"},
		"uint64": {"0", "18446744073709551615"}, "uint": {"0", strconv.FormatUint(^uint64(0)>>(64-strconv.IntSize), 10)},
	}
	b := m["bounds"].(kit.M)
	for k, want := range ref {
		kb, ok := b[k].(kit.M)
		if !ok || kit.Str(kb["lo"]) != want[0] || kit.Str(kb["hi"]) != want[1] {
			return fmt.Sprintf("bounds of %s: specification %v, Go %v", k, b[k], want)
		}
	}
	for _, f := range [][2]string{{"-3.4028235e38", "3.4028235e38"}} { // the float32 fence of FitsFloat
		for _, t := range f {
			if r, err := strconv.ParseFloat(t, 32); err != nil || r > 3.4028234663852886e38 || r < -3.4028234663852886e38 {
				return "float32 fence " + t + " is not finite in float32"
			}
		}
	}
	return ""
}

func (rn *c05Runner) runCase(kc kit.Case) kit.Verdict {
	v := kit.Verdict{Case: kc.Index, OK: true}
	if kit.Str(kc.Steps[0]["family"]) == "axioms" {
		if bad := checkAxioms(kc.Steps[0]); bad != "" {
			return kit.Verdict{Case: kc.Index, Infra: true, Msg: "specification axiom does not hold: " + bad}
		}
		rn.rep.Count("axioms.checked", 1)
		v.Steps = 1
		return v
	}
	var c c05Case
	func() {
		defer func() {
			if r := recover(); r != nil {
				v = kit.Verdict{Case: kc.Index, Infra: true, Msg: fmt.Sprintf("cannot decode case: %v", r)}
			}
		}()
		c = decCase(kc.Steps[0])
	}()
	if v.Infra {
		return v
	}
	var bads []*c05Bad
	var results []c05Result
	var n int
	switch {
	case c.Family == "roundtrip" || c.Family == "rtopt" || c.Family == "rtcons":
		bads, results, n = rn.runRoundTrip(&c)
	case c.Family == "twice":
		bads, results, n = rn.runTwice(&c)
	case c.Family == "history":
		bads, results, n = rn.runHistory(&c)
	case c.Src == "text":
		bads, results, n = rn.runText(&c)
	default:
		bads, results, n = rn.runTyped(&c)
	}
	v.Steps = n
	rn.rep.Count("family."+c.Family+"."+c.Src, 1)
	if c.Family == "shapes" && rn.passNo == 0 {
		// vacuity guard of the container-shape family: per class and source, cases run / calls that
		// produced a value
		tag := shapeClass(c.Fields[0].Ty) + "." + map[bool]string{true: "text", false: "typed"}[c.Src == "text"]
		rn.rep.Count("shapes.cases."+tag, 1)
		for _, r := range results {
			if r.class() == "val" {
				rn.rep.Count("shapes.val."+tag, 1)
			}
		}
	}
	for _, b := range bads {
		if b.Key == "infra" {
			return kit.Verdict{Case: kc.Index, Infra: true, Msg: b.Msg}
		}
	}
	// second pass (other order, warm tag caches): the outcome of a case must not depend on
	// what was unmarshalled before it
	s := sig(results)
	if rn.passNo == 0 {
		rn.first[kc.Index] = s
	} else if prev, ok := rn.first[kc.Index]; ok && prev != s && c.Family != "roundtrip" && c.Family != "rtopt" && c.Family != "rtcons" {
		bads = append(bads, &c05Bad{"C05:order-dependent", fmt.Sprintf("into %s: first pass %s, second pass (other order) %s", describe(c.Fields), prev, s)})
	}
	if len(bads) > 0 {
		v.OK, v.Key, v.Msg = false, bads[0].Key, bads[0].Msg
		if len(bads) > 1 {
			v.Msg += fmt.Sprintf(" [+%d further disagreements of this case, e.g. %s]", len(bads)-1, bads[1].Key)
		}
	}
	return v
}

// c05LoadShard reads the ndjson case file like kit.LoadCases but decodes only the lines of this
// shard (the thorough tier has several hundred thousand cases; every shard decoding all of them
// costs more than replaying them).
func c05LoadShard(path string, shard, shards int) ([]kit.Case, error) {
	f, err := os.Open(path)
	if err != nil {
		return nil, err
	}
	defer f.Close()
	var out []kit.Case
	sc := bufio.NewScanner(f)
	sc.Buffer(make([]byte, 1<<20), 1<<26)
	i := 0
	for sc.Scan() {
		line := sc.Bytes()
		if len(line) == 0 {
			continue
		}
		if i%shards == shard {
			var one kit.M
			if err := json.Unmarshal(line, &one); err != nil {
				return nil, fmt.Errorf("case %d: %v", i, err)
			}
			out = append(out, kit.Case{Index: i, Steps: []kit.M{one}})
		}
		i++
	}
	return out, sc.Err()
}

func TestVerifC05(t *testing.T) {
	casesPath := os.Getenv("VERIF_CASES")
	outPath := os.Getenv("VERIF_OUT")
	if casesPath == "" || outPath == "" {
		t.Skip("VERIF_CASES / VERIF_OUT not set")
	}
	logx.Disable()
	for _, e := range []string{"5", "300"} {
		os.Setenv(c05EnvPrefix+e, e)
	}
	shard, shards := kit.EnvInt("VERIF_SHARD", 0), kit.EnvInt("VERIF_SHARDS", 1)
	mine, err := c05LoadShard(casesPath, shard, shards)
	if err != nil {
		t.Fatal(err)
	}
	rep, err := kit.NewReporter(outPath)
	if err != nil {
		t.Fatal(err)
	}
	defer rep.Close()
	rn := &c05Runner{rep: rep, first: map[int]string{}}
	rt := router.NewRouter()
	if err := rt.Handle(http.MethodPost, "/rt/:alphaKey", http.HandlerFunc(func(w http.ResponseWriter, r *http.Request) {
		cur := rn.cur
		if cur == nil {
			return
		}
		cur.hit = true
		cur.res = c05Call(cur.typ, func(v any) error { return httpx.Parse(r, v) })
	})); err != nil {
		t.Fatal(err)
	}
	rn.srv = httptest.NewServer(rt)
	defer rn.srv.Close()

	rng := rand.New(rand.NewSource(kit.Seed()*7919 + int64(shard)))
	passes := 2
	if len(mine) > 0 {
		switch kit.Str(mine[0].Steps[0]["family"]) {
		case "roundtrip", "rtopt", "rtcons":
			passes = 1
		}
	}
	bad := map[int]bool{}
	// The reporter writes at most 2000 failing verdicts per process in full (the rest is only counted).
	// So that no CLASS of disagreement is lost when one class is very frequent, the first verdicts of
	// every key are written at once and the repetitions of a key only after all cases have run.
	const perKeyAtOnce = 10
	keySeen := map[string]int{}
	var repeated []kit.Verdict
	defer func() {
		for _, v := range repeated {
			rep.Put(v)
		}
	}()
	for pass := 0; pass < passes; pass++ {
		rn.passNo = pass
		order := rng.Perm(len(mine))
		for _, i := range order {
			c := mine[i]
			if bad[c.Index] {
				continue
			}
			v := rn.runCase(c)
			if !v.OK {
				bad[c.Index] = true
			}
			// every case is counted once; the second pass only adds new disagreements
			if pass == 0 || !v.OK {
				if !v.OK && !v.Infra {
					if keySeen[v.Key]++; keySeen[v.Key] > perKeyAtOnce {
						repeated = append(repeated, v)
						continue
					}
				}
				rep.Put(v)
			}
		}
	}
}
