package api

// Replay driver for property C03 on api.Server (overlaid into api/ by /verif/bin/check).
// The tables of spec/RouterGen.tla are registered with Server.AddRoute, bound with
// engine.bindRoutes (what Server.Start does before listening; in-package access is needed only
// for that call) and the requests go through the server's router, so that the engine's
// not-found wrapper (engine.notFoundHandler) and the default middleware chain are on the path.

import (
	"net/http"
	"testing"

	c03 "github.com/gotid/god/internal/verifc03"
	kit "github.com/gotid/god/internal/verifkit"
	"github.com/gotid/god/lib/logx"
)

type c03Server struct{ s *Server }

func (t c03Server) Handle(method, path string, h http.Handler) error {
	t.s.AddRoute(Route{Method: method, Path: path, Handler: h.ServeHTTP})
	return nil
}
func (c03Server) Deferred() bool  { return true }
func (t c03Server) Finish() error { return t.s.ng.bindRoutes(t.s.router) }
func (t c03Server) ServeHTTP(w http.ResponseWriter, r *http.Request) {
	t.s.router.ServeHTTP(w, r)
}

func TestVerifC03Engine(t *testing.T) {
	logx.Disable()
	c03.Drive("C03:engine:", kit.EnvInt("VERIF_EVERY", 1), func(notFound http.Handler) (c03.Target, error) {
		var opts []Option
		if notFound != nil {
			opts = append(opts, WithNotFoundHandler(notFound))
		}
		s, err := NewServer(Config{}, opts...)
		if err != nil {
			return nil, err
		}
		return c03Server{s}, nil
	})
}
