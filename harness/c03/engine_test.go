package api

// Replay driver for property C03 on api.Server (overlaid into api/ by /verif/bin/check).
// The tables of spec/RouterGen.tla are registered with Server.AddRoute, bound with
// engine.bindRoutes (what Server.Start does before listening; in-package access is needed only
// for that call) and the requests go through the server's router, so that the engine's
// not-found wrapper (engine.notFoundHandler) and the default middleware chain are on the path.

import (
	"net/http"
	"testing"

	c03 "github.com/gotid/god/internal/verifc03"
	kit "github.com/gotid/god/internal/verifkit"
	"github.com/gotid/god/lib/logx"
)

type c03Server struct{ s *Server }

func (t c03Server) Handle(method, path string, h http.Handler) error {
	t.s.AddRoute(Route{Method: method, Path: path, Handler: h.ServeHTTP})
	return nil
}
func (c03Server) Deferred() bool  { return true }
func (t c03Server) Finish() error { return t.s.ng.bindRoutes(t.s.router) }
func (t c03Server) ServeHTTP(w http.ResponseWriter, r *http.Request) {
	t.s.router.ServeHTTP(w, r)
}

func TestVerifC03Engine(t *testing.T) {
	logx.Disable()
	c03.Drive("C03:engine:", kit.EnvInt("VERIF_EVERY", 1), func(notFound http.Handler) (c03.Target, error) {
		var opts []Option
		if notFound != nil {
			opts = append(opts, WithNotFoundHandler(notFound))
		}
		s, err := NewServer(Config{}, opts...)
		if err != nil {
			return nil, err
		}
		return c03Server{s}, nil
	})
}

// Mount driver (spec/RouterMount.tla): the caller's slices are real []Route values that live for
// the whole case; every mount passes them (or one element) to the public AddRoutes / AddRoute
// with WithPrefix options, exactly as an application would, on one server after the other.
type c03World struct {
	slices [][]Route
	s      *Server
}

func (w *c03World) MakeSlice(routes []c03.RouteSpec) {
	rs := make([]Route, 0, len(routes))
	for _, r := range routes {
		rs = append(rs, Route{Method: r.Method, Path: r.Path, Handler: r.Handler})
	}
	w.slices = append(w.slices, rs)
}

func (w *c03World) NewServer(notFound http.Handler) error {
	var opts []Option
	if notFound != nil {
		opts = append(opts, WithNotFoundHandler(notFound))
	}
	s, err := NewServer(Config{}, opts...)
	w.s = s
	return err
}

func c03Prefixes(groups []string) []RouteOption {
	var opts []RouteOption
	for _, g := range groups {
		opts = append(opts, WithPrefix(g))
	}
	return opts
}

func (w *c03World) AddRoutes(s int, groups []string) {
	w.s.AddRoutes(w.slices[s], c03Prefixes(groups)...)
}

func (w *c03World) AddRoute(s, j int, groups []string) {
	w.s.AddRoute(w.slices[s][j], c03Prefixes(groups)...)
}

func (w *c03World) Bind() error { return w.s.ng.bindRoutes(w.s.router) }

func (w *c03World) ServeHTTP(rw http.ResponseWriter, r *http.Request) { w.s.router.ServeHTTP(rw, r) }

func (w *c03World) Look(s, j int) (string, string) { return w.slices[s][j].Method, w.slices[s][j].Path }

func TestVerifC03Mount(t *testing.T) {
	logx.Disable()
	c03.DriveMounts("C03:mount:", func() c03.World { return &c03World{} })
}
