package router_test

// Replay driver for property C03 on api/router (overlaid into api/router by /verif/bin/check as
// an external test package: the router is used through its public API only). The comparison
// code lives in harness/c03/lib (overlaid as internal/verifc03).

import (
	"net/http"
	"testing"

	"github.com/gotid/god/api/httpx"
	"github.com/gotid/god/api/router"
	c03 "github.com/gotid/god/internal/verifc03"
)

type c03Router struct{ httpx.Router }

func (c03Router) Deferred() bool { return false }
func (c03Router) Finish() error  { return nil }

func TestVerifC03(t *testing.T) {
	c03.Drive("C03:", 1, func(notFound http.Handler) (c03.Target, error) {
		rt := router.NewRouter()
		if notFound != nil {
			rt.SetNotFoundHandler(notFound)
		}
		return c03Router{rt}, nil
	})
}
