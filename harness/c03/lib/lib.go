// Package verifc03 is overlaid into /repo as internal/verifc03 by /verif/checks/c03.py.
// It is the comparison half of the C03 replay drivers (api/router black-box driver and the
// api.Server driver share it).
//
// Input: the cases printed by spec/RouterGen.tla. Line 0 is the request universe
// {"reqs":[[method,[raw tokens]],...]}; every other line is one route table:
//
//	regs : registrations (method, pattern segments, abs = text starts with '/') with the
//	       specification's accept/reject prediction
//	res  : for every request whose predicted answer is not 404 its 1-based index in reqs and
//	       k="h" (set c of acceptable registrations r with the binding b of each) or
//	       k="a" (405 with the Allow set); every request not listed is predicted 404.
//
// Nothing is computed here about matching: the code only turns tokens into text, drives the
// target and compares what it observes with the prediction.
package verifc03

import (
	"bufio"
	"encoding/json"
	"fmt"
	"net/http"
	"net/http/httptest"
	"os"
	"sort"
	"strings"

	"github.com/gotid/god/api/pathvar"
	kit "github.com/gotid/god/internal/verifkit"
)

// Target is the routing front end under test.
type Target interface {
	// Handle registers a route. A deferred target (api.Server) returns nil here and reports
	// the first registration error from Finish.
	Handle(method, path string, h http.Handler) error
	Deferred() bool
	Finish() error
	ServeHTTP(w http.ResponseWriter, r *http.Request)
}

// Req is one request of the universe.
type Req struct {
	Method string
	Path   string
}

type obs struct {
	ran      []int               // registrations whose handler ran, in order
	vars     []map[string]string // pathvar.Vars seen by each
	notFound int                 // custom not-found handler invocations
}

func pathText(abs bool, toks []string) string {
	s := strings.Join(toks, "/")
	if abs {
		return "/" + s
	}
	return s
}

func patternText(reg kit.M) string {
	var toks []string
	for _, e := range kit.List(reg["p"]) {
		seg := e.(map[string]any)
		if kit.Bool(seg["par"]) {
			toks = append(toks, ":"+kit.Str(seg["s"]))
		} else {
			toks = append(toks, kit.Str(seg["s"]))
		}
	}
	return pathText(kit.Bool(reg["abs"]), toks)
}

// Requests decodes the header line.
func Requests(header kit.M) []Req {
	var out []Req
	for _, e := range kit.List(header["reqs"]) {
		pair := e.([]any)
		var toks []string
		for _, t := range kit.List(pair[1]) {
			toks = append(toks, kit.Str(t))
		}
		out = append(out, Req{Method: kit.Str(pair[0]), Path: pathText(true, toks)})
	}
	return out
}

func setText(v []string) string {
	s := append([]string(nil), v...)
	sort.Strings(s)
	return "{" + strings.Join(s, ",") + "}"
}

func varsText(m map[string]string) string {
	var s []string
	for k, v := range m {
		s = append(s, k+"="+v)
	}
	return setText(s)
}

func wantVars(b any) string {
	var s []string
	for _, e := range kit.List(b) {
		kv := e.(map[string]any)
		s = append(s, kit.Str(kv["n"])+"="+kit.Str(kv["v"]))
	}
	return setText(s)
}

// Supported holds the methods the specification's constants call supported (only used to name
// the class of a missing rejection).
var Supported = map[string]bool{}

func rejectClass(reg kit.M) string {
	switch {
	case !kit.Bool(reg["abs"]):
		return "relative-path"
	case !Supported[kit.Str(reg["m"])]:
		// naming only: another spelling of a supported verb ("get", "Post") is its own class
		if m := kit.Str(reg["m"]); Supported[strings.ToUpper(m)] {
			return "unsupported-method:case-variant"
		}
		return "unsupported-method"
	}
	return "duplicate"
}

func safeHandle(rt Target, method, text string, h http.Handler) (err error, pv any) {
	defer func() { pv = recover() }()
	return rt.Handle(method, text, h), nil
}

func safeServe(rt http.Handler, w http.ResponseWriter, r *http.Request) (pv any) {
	defer func() { pv = recover() }()
	rt.ServeHTTP(w, r)
	return nil
}

// RunCase replays one table. mk builds the target; nf (may be nil) is the custom not-found
// handler the target must install. pfx distinguishes the drivers in disagreement keys.
func RunCase(c kit.Case, reqs []Req, pfx string, customNotFound bool, mk func(notFound http.Handler) (Target, error)) (v kit.Verdict) {
	v = kit.Verdict{Case: c.Index, OK: true}
	tc := c.Steps[0]
	regs := kit.List(tc["regs"])
	fail := func(step int, key, msg string) kit.Verdict {
		v.OK, v.Step, v.Key, v.Msg = false, step, pfx+key, msg
		return v
	}
	o := &obs{}
	var nf http.Handler
	if customNotFound {
		nf = http.HandlerFunc(func(w http.ResponseWriter, r *http.Request) {
			o.notFound++
			w.WriteHeader(http.StatusNotFound)
		})
	}
	rt, err := mk(nf)
	if err != nil {
		return kit.Verdict{Case: c.Index, Infra: true, Msg: "cannot build the target: " + err.Error()}
	}
	var table []string
	anyRejected := false
	for i, e := range regs {
		reg := e.(map[string]any)
		idx := i + 1
		text := patternText(reg)
		method := kit.Str(reg["m"])
		table = append(table, method+" "+text)
		err, pv := safeHandle(rt, method, text, http.HandlerFunc(func(w http.ResponseWriter, r *http.Request) {
			o.ran = append(o.ran, idx)
			o.vars = append(o.vars, pathvar.Vars(r))
			w.WriteHeader(http.StatusOK)
		}))
		if pv != nil {
			return fail(i, "panic:handle", fmt.Sprintf("Handle(%q, %q) after %v panicked: %v", method, text, table[:i], pv))
		}
		v.Steps++
		want := kit.Bool(reg["err"])
		anyRejected = anyRejected || want
		if rt.Deferred() {
			continue
		}
		if (err != nil) != want {
			if want {
				return fail(i, "handle:missing-error:"+rejectClass(reg),
					fmt.Sprintf("Handle(%q, %q) after %v was accepted; the specification rejects it (%s)", method, text, table[:i], rejectClass(reg)))
			}
			return fail(i, "handle:spurious-error",
				fmt.Sprintf("Handle(%q, %q) after %v returned %v; the specification accepts it", method, text, table[:i], err))
		}
	}
	if rt.Deferred() {
		err := rt.Finish()
		if (err != nil) != anyRejected {
			if anyRejected {
				return fail(len(regs)-1, "handle:missing-error:bind", fmt.Sprintf("binding %v succeeded; the specification rejects one of the routes", table))
			}
			return fail(len(regs)-1, "handle:spurious-error", fmt.Sprintf("binding %v returned %v; the specification accepts every route", table, err))
		}
		if anyRejected {
			return v // binding stops at the first rejected route: nothing further is promised
		}
	}
	return checkRequests(v, pfx, rt, reqs, tc["res"], len(regs), table, o, customNotFound,
		func(reg int) int { return reg }, func(id int) string { return table[id-1] })
}

// checkRequests sends every request of the universe and compares the answer with the
// specification's. o.ran holds the ids the handlers recorded; owner maps a registration (1-based
// index into regs) to the id its handler records and name describes an id (in RunCase both are
// the registration itself; in the mount driver an id is a slice element shared by several
// registrations).
func checkRequests(v kit.Verdict, pfx string, rt http.Handler, reqs []Req, res any,
	nregs int, table []string, o *obs, customNotFound bool, owner func(reg int) int, name func(id int) string) kit.Verdict {
	fail := func(step int, key, msg string) kit.Verdict {
		v.OK, v.Step, v.Key, v.Msg = false, step, pfx+key, msg
		return v
	}
	want := map[int]map[string]any{}
	for _, e := range kit.List(res) {
		r := e.(map[string]any)
		want[kit.Num(r["i"])] = r
	}
	for i, rq := range reqs {
		o.ran, o.vars, o.notFound = o.ran[:0], o.vars[:0], 0
		req := httptest.NewRequest(rq.Method, "http://verif.local"+rq.Path, nil)
		rec := httptest.NewRecorder()
		pv := safeServe(rt, rec, req)
		v.Steps++
		step := nregs + i
		where := fmt.Sprintf("table %v, request %s %q", table, rq.Method, rq.Path)
		if pv != nil {
			return fail(step, "panic:serve", fmt.Sprintf("%s: ServeHTTP panicked: %v", where, pv))
		}
		w := want[i+1]
		kind := "n"
		if w != nil {
			kind = kit.Str(w["k"])
		}
		switch kind {
		case "h":
			var cands []string
			var match map[string]any
			allLit := true
			for _, ce := range kit.List(w["c"]) {
				cm := ce.(map[string]any)
				cands = append(cands, table[kit.Num(cm["r"])-1])
				if len(o.ran) == 1 && owner(kit.Num(cm["r"])) == o.ran[0] {
					// several registrations may share the handler: prefer the one whose binding was seen
					if match == nil || varsText(o.vars[0]) == wantVars(cm["b"]) {
						match = cm
					}
				}
				if len(kit.List(cm["b"])) > 0 {
					allLit = false
				}
			}
			switch {
			case len(o.ran) == 0:
				return fail(step, fmt.Sprintf("dispatch:no-handler:got-%d", rec.Code),
					fmt.Sprintf("%s: no handler ran (status %d); the specification dispatches to one of %v", where, rec.Code, cands))
			case len(o.ran) > 1:
				return fail(step, "dispatch:several-handlers", fmt.Sprintf("%s: handlers %v ran", where, o.ran))
			case match == nil:
				key := "dispatch:wrong-handler"
				if allLit {
					key = "dispatch:literal-lost"
				}
				return fail(step, key, fmt.Sprintf("%s: handler of %q ran; the specification allows only %v", where, name(o.ran[0]), cands))
			}
			if g, e := varsText(o.vars[0]), wantVars(match["b"]); g != e {
				return fail(step, "dispatch:binding",
					fmt.Sprintf("%s: handler of %q saw path variables %s; the specification binds %s", where, name(o.ran[0]), g, e))
			}
			if rec.Code != http.StatusOK {
				return fail(step, "dispatch:status", fmt.Sprintf("%s: status %d after the handler wrote 200", where, rec.Code))
			}
		case "a":
			var allow []string
			for _, a := range kit.List(w["allow"]) {
				allow = append(allow, kit.Str(a))
			}
			if len(o.ran) > 0 {
				return fail(step, "dispatch:spurious-handler",
					fmt.Sprintf("%s: handler of %q ran; the specification answers 405 Allow=%s", where, name(o.ran[0]), setText(allow)))
			}
			if rec.Code != http.StatusMethodNotAllowed {
				return fail(step, fmt.Sprintf("405:status:got-%d", rec.Code),
					fmt.Sprintf("%s: status %d; the specification answers 405 Allow=%s", where, rec.Code, setText(allow)))
			}
			var got []string
			for _, hv := range rec.Header().Values("Allow") {
				for _, m := range strings.Split(hv, ",") {
					if m = strings.TrimSpace(m); m != "" {
						got = append(got, m)
					}
				}
			}
			if g, e := setText(got), setText(allow); g != e {
				return fail(step, "405:allow-set", fmt.Sprintf("%s: Allow=%s; the specification lists %s", where, g, e))
			}
		case "n":
			if len(o.ran) > 0 {
				return fail(step, "dispatch:spurious-handler",
					fmt.Sprintf("%s: handler of %q ran (vars %s); the specification answers 404", where, name(o.ran[0]), varsText(o.vars[0])))
			}
			if rec.Code != http.StatusNotFound {
				return fail(step, fmt.Sprintf("404:status:got-%d", rec.Code),
					fmt.Sprintf("%s: status %d (Allow=%q); the specification answers 404", where, rec.Code, rec.Header().Get("Allow")))
			}
			if customNotFound && o.notFound != 1 {
				return fail(step, "404:not-found-handler",
					fmt.Sprintf("%s: the not-found handler ran %d times", where, o.notFound))
			}
		default:
			return kit.Verdict{Case: v.Case, Infra: true, Msg: "unknown result kind " + kind}
		}
	}
	return v
}

// Stream reads the cases file line by line and hands the lines of this shard to fn without
// retaining them (the thorough tier's files hold > 10^5 tables).
func Stream(path string, shard, shards int, onHeader func(kit.M), fn func(c kit.Case)) error {
	f, err := os.Open(path)
	if err != nil {
		return err
	}
	defer f.Close()
	sc := bufio.NewScanner(f)
	sc.Buffer(make([]byte, 1<<20), 1<<28)
	for i := 0; sc.Scan(); i++ {
		line := sc.Bytes()
		if i > 0 && i%shards != shard {
			continue
		}
		var one kit.M
		if err := json.Unmarshal(line, &one); err != nil {
			return fmt.Errorf("case %d: %v", i, err)
		}
		if i == 0 {
			if one["reqs"] == nil {
				return fmt.Errorf("cases file has no request-universe header")
			}
			onHeader(one)
			continue
		}
		fn(kit.Case{Index: i, Steps: []kit.M{one}})
	}
	return sc.Err()
}

// Drive is the common main loop of both drivers.
func Drive(pfx string, every int, mk func(notFound http.Handler) (Target, error)) {
	rep, err := kit.NewReporter(kit.Env("VERIF_OUT", ""))
	if err != nil {
		panic(err)
	}
	defer rep.Close()
	for _, m := range strings.Split(kit.Env("VERIF_METHODS", "GET,POST,PUT"), ",") {
		Supported[m] = true
	}
	shard, shards := kit.EnvInt("VERIF_SHARD", 0), kit.EnvInt("VERIF_SHARDS", 1)
	seed := int(kit.Seed())
	both := kit.EnvInt("VERIF_BOTH", 0) == 1
	var reqs []Req
	err = Stream(kit.Env("VERIF_CASES", ""), shard, shards, func(h kit.M) { reqs = Requests(h) }, func(c kit.Case) {
		n := c.Index / shards
		if every > 1 && (n+seed)%every != 0 {
			return
		}
		ev := every
		if ev < 1 {
			ev = 1
		}
		custom := (n/ev+seed)%2 == 0
		if both {
			if v := RunCase(c, reqs, pfx, !custom, mk); !v.OK {
				rep.Put(v)
				return
			}
		}
		if custom {
			rep.Count("custom_notfound", 1)
		}
		rep.Put(RunCase(c, reqs, pfx, custom, mk))
	})
	if err != nil {
		rep.Put(kit.Verdict{Infra: true, Msg: err.Error()})
	}
}

// ---------------------------------------------------------------------------------------------
// Server-level wiring (spec/RouterMount.tla, cases of spec/RouterMountGen.tla).
//
// A case holds the caller's slices, a mount program and the registrations the program stands for
// (regs, each owned by a slice element) with the predicted answers. The World keeps the slices
// as real []Route values for the whole case; the program is executed on `rounds` fresh servers
// one after the other with those same values.

// RouteSpec is one element of a caller's slice.
type RouteSpec struct {
	Method  string
	Path    string
	Handler http.HandlerFunc
}

// World is the application side of the server under test.
type World interface {
	// MakeSlice builds the caller's next []Route value; it lives as long as the World.
	MakeSlice(routes []RouteSpec)
	// NewServer replaces the current server by a fresh one.
	NewServer(notFound http.Handler) error
	// AddRoutes mounts slice s (0-based) with one WithPrefix option per group, in order.
	AddRoutes(s int, groups []string)
	// AddRoute mounts element j (0-based) of slice s the same way.
	AddRoute(s, j int, groups []string)
	// Bind does what Server.Start does before listening.
	Bind() error
	ServeHTTP(w http.ResponseWriter, r *http.Request)
	// Look returns method and path of element j of slice s as the caller reads them now.
	Look(s, j int) (string, string)
}

// MountStats classifies a program for the vacuity counters.
type MountStats struct {
	Shared    bool // some slice is mounted more than once
	Rejecting bool // the specification rejects one of the registrations
}

func segsText(segs any) string {
	var toks []string
	for _, e := range kit.List(segs) {
		seg := e.(map[string]any)
		if kit.Bool(seg["par"]) {
			toks = append(toks, ":"+kit.Str(seg["s"]))
		} else {
			toks = append(toks, kit.Str(seg["s"]))
		}
	}
	return pathText(true, toks)
}

func safely(f func() error) (err error, pv any) {
	defer func() { pv = recover() }()
	return f(), nil
}

// RunMountCase replays one mount program.
func RunMountCase(c kit.Case, reqs []Req, pfx string, customNotFound bool, mk func() World) (v kit.Verdict, st MountStats) {
	v = kit.Verdict{Case: c.Index, OK: true}
	tc := c.Steps[0]
	o := &obs{}
	var nf http.Handler
	if customNotFound {
		nf = http.HandlerFunc(func(w http.ResponseWriter, r *http.Request) {
			o.notFound++
			w.WriteHeader(http.StatusNotFound)
		})
	}
	w := mk()
	// the caller's slices; the handler of element j of slice s records the id base[s]+j+1
	type elem struct {
		s, j         int
		method, path string
	}
	var elems []elem
	var base []int
	for s, se := range kit.List(tc["slices"]) {
		base = append(base, len(elems))
		var routes []RouteSpec
		for j, re := range kit.List(se) {
			r := re.(map[string]any)
			id := len(elems) + 1
			e := elem{s: s, j: j, method: kit.Str(r["m"]), path: segsText(r["p"])}
			elems = append(elems, e)
			routes = append(routes, RouteSpec{Method: e.method, Path: e.path, Handler: func(w http.ResponseWriter, r *http.Request) {
				o.ran = append(o.ran, id)
				o.vars = append(o.vars, pathvar.Vars(r))
				w.WriteHeader(http.StatusOK)
			}})
		}
		w.MakeSlice(routes)
	}
	name := func(id int) string {
		e := elems[id-1]
		return fmt.Sprintf("slice%d[%d] = %s %s", e.s+1, e.j, e.method, e.path)
	}
	// what the caller's slices read now, when it is not what the caller wrote (message only)
	drift := func() string {
		var d []string
		for id, e := range elems {
			if m, p := w.Look(e.s, e.j); m != e.method || p != e.path {
				d = append(d, fmt.Sprintf("%s now reads %s %s", name(id+1), m, p))
			}
		}
		if d == nil {
			return ""
		}
		return " [the caller's slices were modified: " + strings.Join(d, "; ") + "]"
	}
	regs := kit.List(tc["regs"])
	var table []string
	owner := make([]int, len(regs)+1)
	for i, e := range regs {
		reg := e.(map[string]any)
		table = append(table, kit.Str(reg["m"])+" "+patternText(reg))
		owner[i+1] = base[kit.Num(reg["s"])-1] + kit.Num(reg["j"])
		st.Rejecting = st.Rejecting || kit.Bool(reg["err"])
	}
	var prog []string
	mounts := map[int]int{}
	ops := kit.List(tc["ops"])
	for _, e := range ops {
		op := e.(map[string]any)
		mounts[kit.Num(op["s"])]++
		var gs []string
		for _, g := range kit.List(op["pre"]) {
			gs = append(gs, fmt.Sprintf("WithPrefix(%q)", segsText(g)))
		}
		if kit.Str(op["k"]) == "routes" {
			prog = append(prog, fmt.Sprintf("AddRoutes(slice%d%s)", kit.Num(op["s"]), strings.Join(append([]string{""}, gs...), ", ")))
		} else {
			prog = append(prog, fmt.Sprintf("AddRoute(slice%d[%d]%s)", kit.Num(op["s"]), kit.Num(op["j"])-1, strings.Join(append([]string{""}, gs...), ", ")))
		}
	}
	for _, n := range mounts {
		st.Shared = st.Shared || n > 1
	}
	rounds := kit.Num(tc["rounds"])
	if rounds < 1 {
		rounds = 1
	}
	for round := 1; round <= rounds; round++ {
		rp := pfx
		if round > 1 {
			rp = pfx + "reuse:"
		}
		fail := func(step int, key, msg string) kit.Verdict {
			v.OK, v.Step, v.Key = false, step, rp+key
			v.Msg = fmt.Sprintf("server %d of %d built from the same slices, program %v: %s%s", round, rounds, prog, msg, drift())
			return v
		}
		if err := w.NewServer(nf); err != nil {
			return kit.Verdict{Case: c.Index, Infra: true, Msg: "cannot build the server: " + err.Error()}, st
		}
		for i, e := range ops {
			op := e.(map[string]any)
			var groups []string
			for _, g := range kit.List(op["pre"]) {
				groups = append(groups, segsText(g))
			}
			_, pv := safely(func() error {
				if kit.Str(op["k"]) == "routes" {
					w.AddRoutes(kit.Num(op["s"])-1, groups)
				} else {
					w.AddRoute(kit.Num(op["s"])-1, kit.Num(op["j"])-1, groups)
				}
				return nil
			})
			if pv != nil {
				return fail(i, "panic:mount", fmt.Sprintf("%s panicked: %v", prog[i], pv)), st
			}
			v.Steps++
		}
		err, pv := safely(w.Bind)
		if pv != nil {
			return fail(len(ops), "panic:bind", fmt.Sprintf("binding %v panicked: %v", table, pv)), st
		}
		v.Steps++
		if (err != nil) != st.Rejecting {
			if st.Rejecting {
				return fail(len(ops), "handle:missing-error:bind", fmt.Sprintf("binding succeeded; the specification's table %v holds a rejected registration", table)), st
			}
			return fail(len(ops), "handle:spurious-error", fmt.Sprintf("binding returned %v; the specification accepts every route of %v", err, table)), st
		}
		if st.Rejecting {
			continue // binding stops at the first rejected route: nothing further is promised
		}
		r := checkRequests(v, rp, w, reqs, tc["res"], len(ops)+1, table, o, customNotFound,
			func(reg int) int { return owner[reg] }, name)
		if r.Infra {
			return r, st
		}
		if !r.OK {
			return fail(r.Step, strings.TrimPrefix(r.Key, rp), r.Msg), st
		}
		v.Steps = r.Steps
	}
	return v, st
}

// DriveMounts is the main loop of the mount driver.
func DriveMounts(pfx string, mk func() World) {
	rep, err := kit.NewReporter(kit.Env("VERIF_OUT", ""))
	if err != nil {
		panic(err)
	}
	defer rep.Close()
	for _, m := range strings.Split(kit.Env("VERIF_METHODS", "GET,POST"), ",") {
		Supported[m] = true
	}
	shard, shards := kit.EnvInt("VERIF_SHARD", 0), kit.EnvInt("VERIF_SHARDS", 1)
	seed := int(kit.Seed())
	both := kit.EnvInt("VERIF_BOTH", 0) == 1
	var reqs []Req
	err = Stream(kit.Env("VERIF_CASES", ""), shard, shards, func(h kit.M) { reqs = Requests(h) }, func(c kit.Case) {
		if c.Steps[0]["ops"] == nil {
			rep.Put(kit.Verdict{Case: c.Index, Infra: true, Msg: "not a mount program"})
			return
		}
		custom := (c.Index/shards+seed)%2 == 0
		if both {
			if v, _ := RunMountCase(c, reqs, pfx, !custom, mk); !v.OK {
				rep.Put(v)
				return
			}
		}
		v, st := RunMountCase(c, reqs, pfx, custom, mk)
		if st.Shared && !st.Rejecting {
			rep.Count("shared_slice_programs", 1)
		}
		if st.Rejecting {
			rep.Count("rejecting_programs", 1)
		} else {
			rep.Count("served_programs", 1)
		}
		rep.Put(v)
	})
	if err != nil {
		rep.Put(kit.Verdict{Infra: true, Msg: err.Error()})
	}
}
