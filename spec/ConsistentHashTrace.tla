------------------------ MODULE ConsistentHashTrace ------------------------
(***************************************************************************)
(* Trace specification for C13 (code -> spec).                             *)
(*                                                                         *)
(* c13trace.ndjson is written by the Go driver (harness/c13): many         *)
(* membership histories executed on the real hash.ConsistentHash,          *)
(* concatenated; every history starts with a "reset" event.  An operation  *)
(* event carries what the driver observed after the operation:             *)
(*   asg   node returned by Get for each probe key          (sequence)     *)
(*   asg2  the same lookups done a second time              (sequence)     *)
(*   cnt   node -> number of keys of a large population it owns            *)
(*   mv    population keys whose node changed, as [f, t, c] = c keys       *)
(*         moved from f to t                                               *)
(*   alt   assignment of the probe keys on a second ring on which every    *)
(*         Add* is executed as an explicit Remove followed by the Add*,    *)
(*   altd  number of population keys on which the two rings differ.        *)
(*   pan   the API calls (get, add, addw, addr, remove; new/set/del for    *)
(*         the cluster recorder) that PANICKED since the previous event -  *)
(*         the drivers run every call under recover(); a lookup that       *)
(*         panicked is logged as "PANIC" in asg/asg2/alt.                  *)
(* A "new" event (first operation of a history, when the replica setting  *)
(* is a dimension) carries `set`, the argument NewCustomConsistentHash was *)
(* called with; the ring is empty after it and every later step is judged  *)
(* with Base = BaseOf(set) (ASSUMEd below for the whole log: a log that    *)
(* mixes bases is a harness problem, TLC stops with an error).             *)
(* An event is accepted iff the contract of ConsistentHash.tla admits the  *)
(* step from the current state to the observed vector; then the observed   *)
(* vector becomes the state.  A rejected event has no successor: the       *)
(* high-water mark of `l` (TLC register 1, -workers 1) stays below the     *)
(* length of the log and Post prints it with the clauses that failed.      *)
(***************************************************************************)
EXTENDS ConsistentHash, Sequences, Json

TraceLog == ndJsonDeserialize("c13trace.ndjson")
N == Len(TraceLog)

ASSUME \A i \in 1..N : TraceLog[i].ev = "new" => BaseOf(TraceLog[i].set) = Base

VARIABLES l       \* number of events matched so far

tvars == <<vars, l>>

OpOf(e) == CASE e.ev = "add"    -> [op |-> "add", n |-> e.n]
             [] e.ev = "addw"   -> [op |-> "addw", n |-> e.n, w |-> e.w]
             [] e.ev = "addr"   -> [op |-> "addr", n |-> e.n, r |-> e.r]
             [] e.ev = "remove" -> [op |-> "remove", n |-> e.n]
             [] e.ev = "lookup" -> [op |-> "lookup"]
             [] e.ev = "build"  -> [op |-> "build", mem |-> e.mem]
             [] e.ev = "new"    -> [op |-> "new", set |-> e.set]

IsReAdd(m, o) == o.op \in AddOps /\ m[o.n] # Absent

\* The statement describes what every call RETURNS ("returns one of the currently added nodes",
\* "reports absence"): a call that panics returns nothing, in no membership is that admitted.
Panic == "PANIC"
Returned(e) == /\ Len(e.pan) = 0
               /\ \A k \in DOMAIN e.asg : e.asg[k] # Panic
               /\ \A k \in DOMAIN e.asg2 : e.asg2[k] # Panic

\* names of the contract clauses that the observation e violates in state (m, a)
Failed(m, a, e) ==
  LET o  == OpOf(e)
      m2 == MemAfter(m, o)
  IN  (IF Returned(e) THEN {} ELSE {"panic"})
      \cup (IF DOMAIN e.asg = Probe /\ DOMAIN e.asg2 = Probe THEN {} ELSE {"shape"})
      \cup (IF \A k \in DOMAIN e.asg : TotalAt(m2, e.asg[k]) THEN {} ELSE {"total"})
      \cup (IF e.asg2 = e.asg THEN {} ELSE {"unstable"})
      \cup (IF \A k \in DOMAIN e.asg : e.asg[k] # a[k] => MoveOK(m, o, a[k], e.asg[k])
              THEN {} ELSE {"move"})
      \cup (IF /\ \A n \in Nodes : m2[n] <= 0 => e.cnt[n] = 0
               /\ Live(m2) # {} => e.cnt[None] = 0
              THEN {} ELSE {"pop-total"})
      \cup (IF \A i \in DOMAIN e.mv : MoveOK(m, o, e.mv[i].f, e.mv[i].t) THEN {} ELSE {"pop-move"})
      \cup (IF IsReAdd(m, o) => (e.alt = e.asg /\ e.altd = 0) THEN {} ELSE {"readd"})

TInit == /\ l = 0 /\ Init
         /\ TLCSet(1, 0)
         /\ TLCSet(2, <<InitMem, InitAsg>>)

Reset ==
  /\ TraceLog[l + 1].ev = "reset"
  /\ mem' = InitMem /\ asg' = InitAsg /\ out' = [op |-> "init"]

StepEv ==
  LET e == TraceLog[l + 1] IN
  /\ e.ev # "reset"
  /\ Failed(mem, asg, e) = {}
  /\ mem' = MemAfter(mem, OpOf(e))
  /\ asg' = e.asg
  /\ out' = OpOf(e)

TNext ==
  /\ l < N
  /\ (Reset \/ StepEv)
  /\ l' = l + 1
  /\ TLCSet(1, l')
  /\ TLCSet(2, <<mem', asg'>>)

TSpec == TInit /\ [][TNext]_tvars

\* evaluated once, when the state space (a single chain) is exhausted
Post ==
  LET hw == TLCGet(1)
      s  == TLCGet(2)
  IN PrintT(ToJson([hw |-> hw, n |-> N,
                    failed |-> IF hw < N THEN Failed(s[1], s[2], TraceLog[hw + 1]) ELSE {}]))
=============================================================================
