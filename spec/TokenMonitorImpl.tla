-------------------------- MODULE TokenMonitorImpl --------------------------
(***************************************************************************)
(* Mechanism model of the token limiter's fallback switch (property C08:   *)
(* "... and returns to Redis once it answers again";                       *)
(* lib/limit/tokenlimit.go reserveN / startMonitor / waitForRedis).        *)
(*                                                                         *)
(* Processes: the callers of reserveN, the monitor goroutine, the Redis    *)
(* server going down and up.  One action per atomic step of the code:      *)
(*   caller   load redisAlive; if 0 decide in process, else issue the      *)
(*            script call whose outcome is fixed when it is issued and     *)
(*            *seen later* (a failing call returns late, after retries);   *)
(*            on failure startMonitor:                                     *)
(*              lock rescueLock; if monitorStarted then unlock and return; *)
(*              monitorStarted := true; redisAlive := 0; go waitForRedis;  *)
(*              unlock                                                     *)
(*   monitor  on every tick Ping; on success redisAlive := 1, then (in the *)
(*            deferred function) lock; monitorStarted := false; unlock.    *)
(*                                                                         *)
(* Variant = "asis" is the code as written.  Variant = "hoisted" stores    *)
(* redisAlive := 0 *before* taking the lock and checking monitorStarted;   *)
(* it is kept as a vacuity guard: TLC must reject it (a late failing call  *)
(* lands between the monitor's redisAlive := 1 and its monitorStarted :=   *)
(* false: the flag goes back to 0 and nobody is left to set it to 1).      *)
(* Variant = "deadline" is the second guard, for the liveness property: a  *)
(* monitor whose pings succeed only for a limited time after its start     *)
(* (one context with a deadline shared by all pings, a bounded number of   *)
(* attempts ...).  Real time is not part of the model, so the expiry is an *)
(* environment step that may happen at any moment while the monitor waits  *)
(* for its tick; TLC must reject NeverStuck and Return for it (outage that  *)
(* outlasts the budget: Redis up for good, redisAlive = 0 for good).  On   *)
(* the real code this is the outage-duration dimension of the replay       *)
(* (TokenLimit!Wait).                                                      *)
(***************************************************************************)
EXTENDS Integers, FiniteSets, TLC

CONSTANTS Callers,   \* caller goroutines
          Variant    \* "asis" | "hoisted" | "deadline"

VARIABLES up,        \* Redis answers
          alive,     \* redisAlive (atomic)
          started,   \* monitorStarted (guarded by rescueLock)
          lock,      \* holder of rescueLock: a caller, "mon" or "free"
          pc,        \* [Callers -> program counter]
          mon        \* monitor: "none" | "tick" | "spent" | "store1" | "lock" | "clear"

vars == <<up, alive, started, lock, pc, mon>>

Init ==
  /\ up = TRUE /\ alive = 1 /\ started = FALSE /\ lock = "free"
  /\ pc = [c \in Callers |-> "idle"]
  /\ mon = "none"

(* ----------------------------------------------------------- callers *)
\* reserveN: atomic.LoadUint32(&tl.redisAlive)
Load(c) ==
  /\ pc[c] = "idle"
  /\ pc' = [pc EXCEPT ![c] = IF alive = 0 THEN "idle"                  \* rescue limiter decides
                             ELSE IF up THEN "call_ok" ELSE "call_fail"] \* outcome fixed when issued
  /\ UNCHANGED <<up, alive, started, lock, mon>>

\* the script call returns
RetOk(c) ==
  /\ pc[c] = "call_ok"
  /\ pc' = [pc EXCEPT ![c] = "idle"]
  /\ UNCHANGED <<up, alive, started, lock, mon>>

RetFail(c) ==
  /\ pc[c] = "call_fail"
  /\ pc' = [pc EXCEPT ![c] = IF Variant = "hoisted" THEN "sm_store0_early" ELSE "sm_lock"]
  /\ UNCHANGED <<up, alive, started, lock, mon>>

\* hoisted variant only: the store before the lock
Store0Early(c) ==
  /\ pc[c] = "sm_store0_early"
  /\ alive' = 0
  /\ pc' = [pc EXCEPT ![c] = "sm_lock"]
  /\ UNCHANGED <<up, started, lock, mon>>

SmLock(c) ==
  /\ pc[c] = "sm_lock" /\ lock = "free"
  /\ lock' = c
  /\ pc' = [pc EXCEPT ![c] = "sm_check"]
  /\ UNCHANGED <<up, alive, started, mon>>

SmCheck(c) ==
  /\ pc[c] = "sm_check"
  /\ IF started
       THEN /\ lock' = "free" /\ pc' = [pc EXCEPT ![c] = "idle"] /\ UNCHANGED started
       ELSE /\ started' = TRUE
            /\ pc' = [pc EXCEPT ![c] = IF Variant = "hoisted" THEN "sm_spawn" ELSE "sm_store0"]
            /\ UNCHANGED lock
  /\ UNCHANGED <<up, alive, mon>>

SmStore0(c) ==
  /\ pc[c] = "sm_store0"
  /\ alive' = 0
  /\ pc' = [pc EXCEPT ![c] = "sm_spawn"]
  /\ UNCHANGED <<up, started, lock, mon>>

\* go tl.waitForRedis(); the deferred Unlock
SmSpawn(c) ==
  /\ pc[c] = "sm_spawn"
  /\ mon = "none"
  /\ mon' = "tick"
  /\ lock' = "free"
  /\ pc' = [pc EXCEPT ![c] = "idle"]
  /\ UNCHANGED <<up, alive, started>>

CallerStep(c) == Load(c) \/ RetOk(c) \/ RetFail(c) \/ Store0Early(c) \/ SmLock(c) \/ SmCheck(c) \/ SmStore0(c) \/ SmSpawn(c)

(* ----------------------------------------------------------- monitor *)
Ping ==
  /\ mon = "tick"
  /\ mon' = IF up THEN "store1" ELSE "tick"
  /\ UNCHANGED <<up, alive, started, lock, pc>>

MonStore1 ==
  /\ mon = "store1"
  /\ alive' = 1
  /\ mon' = "lock"
  /\ UNCHANGED <<up, started, lock, pc>>

MonLock ==
  /\ mon = "lock" /\ lock = "free"
  /\ lock' = "mon"
  /\ mon' = "clear"
  /\ UNCHANGED <<up, alive, started, pc>>

MonClear ==
  /\ mon = "clear"
  /\ started' = FALSE
  /\ lock' = "free"
  /\ mon' = "none"
  /\ UNCHANGED <<up, alive, pc>>

MonStep == Ping \/ MonStore1 \/ MonLock \/ MonClear

\* deadline variant only: real time passes, the monitor's budget is used up (no fairness: it may never happen);
\* in "spent" the monitor keeps ticking but no ping of it can succeed any more - it has no further step
Expire ==
  /\ Variant = "deadline" /\ mon = "tick"
  /\ mon' = "spent"
  /\ UNCHANGED <<up, alive, started, lock, pc>>

(* ----------------------------------------------------------- Redis *)
Down == up /\ up' = FALSE /\ UNCHANGED <<alive, started, lock, pc, mon>>
Up   == ~up /\ up' = TRUE /\ UNCHANGED <<alive, started, lock, pc, mon>>

Next == (\E c \in Callers : CallerStep(c)) \/ MonStep \/ Expire \/ Down \/ Up

\* every goroutine keeps running (strong fairness: taking the lock is enabled only intermittently);
\* a caller may stay idle, the server may stay up or down
Internal(c) == RetOk(c) \/ RetFail(c) \/ Store0Early(c) \/ SmLock(c) \/ SmCheck(c) \/ SmStore0(c) \/ SmSpawn(c)
Spec == Init /\ [][Next]_vars /\ SF_vars(MonStep) /\ \A c \in Callers : SF_vars(Internal(c))

(* ----------------------------------------------------------- properties *)
TypeOK ==
  /\ up \in BOOLEAN /\ alive \in {0, 1} /\ started \in BOOLEAN
  /\ lock \in Callers \cup {"mon", "free"}
  /\ mon \in {"none", "tick", "spent", "store1", "lock", "clear"}

\* the monitor runs only while monitorStarted is set
MonitorMatchesFlag == (mon # "none") => started

\* Safety form of Return, quiescent: the limiter is never left in fallback mode with nobody there to bring
\* it back (with redisAlive = 0 no request touches Redis again, so this state would be final).
NoDeadFallback == ~(alive = 0 /\ mon = "none" /\ \A c \in Callers : pc[c] = "idle")

\* ... and the reason it holds in the code as written: redisAlive = 0 is only ever written inside the
\* critical section that also starts the monitor, and the monitor sets it back before it leaves
NeverStuck == (alive = 0) => (mon \in {"tick", "store1"} \/ \E c \in Callers : pc[c] = "sm_spawn")

\* Liveness form: if Redis stays up from some point on, the limiter ends up using Redis for good
Return == (<>[]up) => <>[](alive = 1)

=============================================================================
