------------------------------ MODULE RedisBrk ------------------------------
(***************************************************************************)
(* Breaker clause of property C12: "connection-level failures trip the     *)
(* per-address breaker whereas redis.Nil and context cancellation never    *)
(* do".                                                                    *)
(*                                                                         *)
(* A history is a sequence of bursts of commands against one address:      *)
(*   ok      Burst commands that succeed                                   *)
(*   nil     Burst commands answered with redis.Nil (HGet of a missing key)*)
(*   cancel  Burst commands issued with an already cancelled context       *)
(*   down    Outage commands while the server is closed (then restarted)   *)
(* The driver forces the breaker's coin to "reject whenever the breaker    *)
(* asks" and freezes the breaker's clock, so the real breaker rejects as   *)
(* soon as its drop ratio is positive.  What the statement fixes:          *)
(*   never   as long as no connection-level failure has happened on this   *)
(*           address no command may be rejected, whatever number of Nil    *)
(*           replies and cancellations came before;                        *)
(*   must    after an outage long enough to outweigh the earlier successes *)
(*           (Outage > 5 + 0.5 * Burst * MaxLen: the C01 formula with      *)
(*           protection 5, k = 1.5) every command is rejected;             *)
(*   other   a second address is never affected.                           *)
(***************************************************************************)
EXTENDS Integers, Sequences, TLC, Json

CONSTANT MaxLen

VARIABLES hist, bad

Burst == 8
Outage == 5 + (Burst * MaxLen) \div 2 + 3

Kinds == {"ok", "nil", "cancel", "down"}

Init == hist = <<>> /\ bad = FALSE

Ev(k) ==
  /\ Len(hist) < MaxLen
  /\ hist' = Append(hist, [kind |-> k,
                           n |-> IF k = "down" THEN Outage ELSE Burst,
                           \* verdict on the commands of this burst that reach the breaker
                           expect |-> IF bad THEN "must-reject" ELSE IF k = "down" THEN "any" ELSE "never-reject",
                           other |-> "never-reject"])
  /\ bad' = (bad \/ k = "down")

Next == \E k \in Kinds : Ev(k)
Spec == Init /\ [][Next]_<<hist, bad>>

Emit == (Len(hist) = MaxLen) => PrintT(ToJson(hist))
=============================================================================
