------------------------------ MODULE RedisBrk ------------------------------
(***************************************************************************)
(* Breaker clause of property C12: "connection-level failures trip the     *)
(* per-address breaker whereas redis.Nil and context cancellation never    *)
(* do".  The clause ranges over every entry point of the wrapper that goes *)
(* through the breaker: `Methods` is the list that the check derives from  *)
(* the source (every method whose body, or whose delegate's body, calls    *)
(* a method of r.brk), so an entry point with another breaker call shape   *)
(* cannot be missed.                                                       *)
(*                                                                         *)
(* A history is a sequence of bursts of calls against one address; a burst *)
(* is made through one entry point m in one manner:                        *)
(*   ok      calls that succeed                                            *)
(*   nil     calls answered with redis.Nil (only entry points that can     *)
(*           return it: NilCapable)                                        *)
(*   cancel  calls (Ctx form) with an already cancelled context            *)
(*   down    Outage calls while the server is closed (then restarted)      *)
(* The driver forces the breaker's coin to "reject whenever the breaker    *)
(* asks" and freezes the breaker's clock, so the real breaker rejects as   *)
(* soon as its drop ratio is positive.  What the statement fixes:          *)
(*   never-reject  as long as no connection-level failure has happened on  *)
(*           this address no call may be rejected, whatever number of Nil  *)
(*           replies and cancellations came before, through whichever      *)
(*           entry point;                                                  *)
(*   must-reject   after an outage long enough to outweigh the earlier     *)
(*           successes (Outage > 5 + 0.5 * accepted calls: the C01 formula *)
(*           with protection 5, k = 1.5) every call is rejected;           *)
(*   other   a second address is never affected.                           *)
(* Two kinds of histories: (A) all sequences of MaxLen bursts of ordinary  *)
(* commands (Get / HGet); (B) for every entry point and every manner one   *)
(* burst through it followed by a probe burst of ordinary commands.        *)
(***************************************************************************)
EXTENDS Integers, Sequences, FiniteSets, TLC, Json

CONSTANTS MaxLen,
          Methods       \* breaker-guarded entry points (method names without the Ctx suffix)

VARIABLES hist, bad, closed

Burst == 8
Outage == 5 + (Burst * MaxLen) \div 2 + 3

Kinds == {"ok", "nil", "cancel", "down"}

\* entry points that can answer redis.Nil (the wrapper hands it on, or - Pipelined - go-redis reports
\* it as the pipeline's error)
NilCapable == {"HGet", "LPop", "RPop", "LIndex", "ZScore", "ZRank", "ZRevRank", "SPop", "Eval", "EvalSha", "Pipelined"}
\* Ping reports a bool and ignores errors by design: an outage seen only through it need not trip
Swallowing == {"Ping"}

Ev(k, m) ==
  [kind |-> k, m |-> m,
   n |-> IF k = "down" THEN Outage ELSE Burst,
   \* what every call of the burst that is not rejected by the breaker returns
   err |-> IF m \in Swallowing THEN "" ELSE
           CASE k = "ok" -> "" [] k = "nil" -> "nil" [] k = "cancel" -> "canceled" [] k = "down" -> "conn",
   \* verdict on the calls of this burst that reach the breaker
   expect |-> IF bad THEN "must-reject" ELSE IF k = "down" THEN "any" ELSE "never-reject",
   other |-> "never-reject"]

Init == hist = <<>> /\ bad = FALSE /\ closed = FALSE

\* (A) ordinary commands
Plain(k) ==
  /\ ~closed /\ Len(hist) < MaxLen
  /\ (hist # <<>> => hist[1].m = "")
  /\ hist' = Append(hist, Ev(k, ""))
  /\ bad' = (bad \/ k = "down")
  /\ closed' = (Len(hist) + 1 = MaxLen)

\* (B) one burst through entry point m, then the probe
Entry(m, k) ==
  /\ hist = <<>>
  /\ (k = "nil" => m \in NilCapable)
  /\ hist' = <<Ev(k, m)>>
  /\ bad' = (k = "down" /\ m \notin Swallowing)
  /\ closed' = FALSE

Probe ==
  /\ Len(hist) = 1 /\ hist[1].m # "" /\ ~closed
  /\ hist' = Append(hist, [Ev("ok", "") EXCEPT !.expect =
                              IF bad THEN "must-reject"
                              ELSE IF hist[1].kind = "down" THEN "any" ELSE "never-reject"])
  /\ closed' = TRUE
  /\ UNCHANGED bad

Next == (\E k \in Kinds : Plain(k)) \/ (\E m \in Methods, k \in Kinds \ {"ok"} : Entry(m, k)) \/ Probe
Spec == Init /\ [][Next]_<<hist, bad, closed>>

Emit == closed => PrintT(ToJson(hist))
=============================================================================
