----------------------------- MODULE CacheAside -----------------------------
(***************************************************************************)
(* Cache-aside coherence of the cached SQL connection (property C06;       *)
(* lib/store/sqlc/cachedsql.go over lib/store/cache/{node,cluster,cleaner}) *)
(*                                                                         *)
(* The state is what the statement talks about:                            *)
(*   db     the model database: id -> row [name, data] (or NoRow); `name`   *)
(*          is a unique index                                              *)
(*   cache  the Redis contents: key -> row | "*" placeholder | primary id, *)
(*          each with its absolute expiry second.  Keys are PK(id) for the *)
(*          primary key and IK(name) for the unique index                  *)
(*   up     which Redis node is reachable (one node, or the nodes of the   *)
(*          consistent-hash cluster; Place says where a key lives)         *)
(*   tasks  removals that failed and wait for their background retry:      *)
(*          [seq, node, keys, rung, due]; the rung indexes Ladder (the     *)
(*          increasing delays), due is the second of the next attempt      *)
(*   dirty  keys whose last removal failed and that have not been removed  *)
(*          successfully since: the only keys that may be stale            *)
(*   clk    seconds; one second = one tick of the cleaner's timing wheel   *)
(*          = one second of Redis expiry time                              *)
(*   cfg    how the expiry options were configured (each one unset, or set  *)
(*          to a possibly non-positive number of seconds) and e, nf: the    *)
(*          expiry in effect -- the configured value if it is positive,    *)
(*          the default (DefE / DefNF) otherwise                           *)
(*                                                                         *)
(* A write through Exec may carry a complete read `pre` that runs INSIDE the  *)
(* write's statement callback before the statement itself (the database     *)
(* still has the old row): the smallest overlap of a read with a write that  *)
(* needs no racing.  The read is judged against the database as it is then;  *)
(* because the removal of the named keys follows the statement, whatever the  *)
(* read stored is gone when the write returns (CacheTruth, Coherent).        *)
(*                                                                         *)
(* Writes (Exec, DelCache) carry the caller's context `cx`: the background  *)
(* context, one that is cancelled as soon as the call has returned, or one  *)
(* whose deadline passes before the first background retry.  The context    *)
(* is an argument of the operation only: nothing in the next state depends  *)
(* on it (CtxFree), in particular not the retry ladder of a removal that    *)
(* failed during the call.                                                  *)
(*                                                                         *)
(* All operations are written as pure functions  state -> [s, out fields]  *)
(* so that the generator (CacheAsideGen) can chain several of them in one  *)
(* step.  `out` is observation only: the operation, its arguments and what *)
(* the caller / the Redis server must observe.                             *)
(*                                                                         *)
(* What the statement leaves open stays open: reads that consult a dirty   *)
(* key are marked `loose` (the driver accepts the cached or the current    *)
(* row there); which delays the ladder has is a constant read from the     *)
(* code (only "increasing" is assumed); the TTL jitter is a choice `jit`.  *)
(***************************************************************************)
EXTENDS Integers, Sequences, FiniteSets, TLC

CONSTANTS Ids,       \* primary ids (positive integers)
          Names,     \* values of the unique index column (non-empty strings)
          Datas,     \* payloads
          Nodes,     \* Redis nodes
          Place,     \* [Keys -> Nodes]
          Cfgs,      \* configurations explored: [e |-> opt, nf |-> opt], opt = [set |-> BOOLEAN, v |-> Int]
                     \* (option not given / given with v seconds, v possibly zero or negative)
          DefE,      \* expiry in effect when none (or a non-positive one) is configured (s)
          DefNF,     \* same for the not-found placeholder (s)
          Ctxs,      \* subset of {"bg", "cancel", "deadline"}: caller contexts offered to writes
          Pres,      \* subset of {"none", "qrow", "qindex"}: reads offered inside the statement callback
                     \* of a write, before the statement ("none": a write without such a read)
          Gap,       \* safety gap between index and primary entry (5 s)
          Ladder,    \* retry delays in seconds, e.g. <<1, 5, 60, 300, 3600>>
          Jits,      \* subset of {"lo", "mid", "hi"}: jitter choices explored
          InitDBs,   \* set of initial databases
          Adv,       \* second counts offered to Advance
          MaxFail    \* bound on failed removals per behaviour

VARIABLES s, out

vars == <<s, out>>

PK(i) == "p:" \o ToString(i)
IK(n) == "i:" \o n
PKeys == {PK(i) : i \in Ids}
IKeys == {IK(n) : n \in Names}
Keys  == PKeys \cup IKeys

NoRow    == [name |-> "", data |-> ""]
RowOut(i, r) == [id |-> i, name |-> r.name, data |-> r.data]
NoRowOut == [id |-> 0, name |-> "", data |-> ""]
Absent   == [kind |-> "none", id |-> 0, name |-> "", data |-> "", exp |-> 0]
RowEntry(i, r, exp) == [kind |-> "row", id |-> i, name |-> r.name, data |-> r.data, exp |-> exp]
NfEntry(exp)        == [kind |-> "nf", id |-> 0, name |-> "", data |-> "", exp |-> exp]
PkEntry(i, exp)     == [kind |-> "pk", id |-> i, name |-> "", data |-> "", exp |-> exp]

Lo(b) == (b * 95 + 99) \div 100      \* ceil(0.95 b): the TTL is rounded up to whole seconds
Hi(b) == (b * 105 + 99) \div 100     \* ceil(1.05 b)
TTLof(j, b) == CASE j = "hi" -> Hi(b) [] j = "mid" -> b [] j = "lo" -> Lo(b)

\* the expiry in effect: a configured value counts only if it is positive
Eff(opt, def) == IF opt.set /\ opt.v > 0 THEN opt.v ELSE def

ASSUME /\ DefE >= 1 /\ DefNF >= 1
       /\ \A c \in Cfgs : c.e.set \in BOOLEAN /\ c.nf.set \in BOOLEAN /\ c.e.v \in Int /\ c.nf.v \in Int
       /\ Ctxs # {} /\ Ctxs \subseteq {"bg", "cancel", "deadline"}
       /\ Pres # {} /\ Pres \subseteq {"none", "qrow", "qindex"}
       /\ \A r \in 1..(Len(Ladder) - 1) : Ladder[r] < Ladder[r + 1]     \* "increasing delays"
       /\ Len(Ladder) >= 1 /\ Ladder[1] >= 1

Cum[r \in 0..Len(Ladder)] == IF r = 0 THEN 0 ELSE Cum[r - 1] + Ladder[r]

RowByName(db, n) == {i \in Ids : db[i].name = n}

(* ---------------------------------------------------------------- reads *)

\* cache.Take on the primary key (QueryRow, and the second stage of QueryRowIndex)
TakeP(st, i) ==
  LET k == PK(i)
      c == st.cache[k]
  IN IF ~st.up[Place[k]]
       THEN [s |-> st, res |-> "cacheerr", row |-> NoRowOut, qp |-> 0, sets |-> {}]
     ELSE IF c.kind = "row"
       THEN [s |-> st, res |-> "row", row |-> [id |-> c.id, name |-> c.name, data |-> c.data], qp |-> 0, sets |-> {}]
     ELSE IF c.kind = "nf"
       THEN [s |-> st, res |-> "nf", row |-> NoRowOut, qp |-> 0, sets |-> {}]
     ELSE IF st.db[i] = NoRow
       THEN [s |-> [st EXCEPT !.cache[k] = NfEntry(st.clk + TTLof(st.jit, st.nf))],
             res |-> "nf", row |-> NoRowOut, qp |-> 1,
             sets |-> {[k |-> k, ttl |-> TTLof(st.jit, st.nf), base |-> st.nf, gap |-> 0]}]
       ELSE [s |-> [st EXCEPT !.cache[k] = RowEntry(i, st.db[i], st.clk + TTLof(st.jit, st.e))],
             res |-> "row", row |-> RowOut(i, st.db[i]), qp |-> 1,
             sets |-> {[k |-> k, ttl |-> TTLof(st.jit, st.e), base |-> st.e, gap |-> 0]}]

QueryRowF(st, i) ==
  LET r == TakeP(st, i)
  IN [s |-> r.s, op |-> "qrow", id |-> i, res |-> r.res, row |-> r.row, qp |-> r.qp, qi |-> 0,
      loose |-> (PK(i) \in st.dirty), sets |-> r.sets, dels |-> {}]

QueryIndexF(st, n) ==
  LET k == IK(n)
      c == st.cache[k]
      base == [op |-> "qindex", name |-> n, dels |-> {}]
  IN IF ~st.up[Place[k]]
       THEN base @@ [s |-> st, res |-> "cacheerr", row |-> NoRowOut, qp |-> 0, qi |-> 0,
                     loose |-> (k \in st.dirty), sets |-> {}]
     ELSE IF c.kind = "nf"
       THEN base @@ [s |-> st, res |-> "nf", row |-> NoRowOut, qp |-> 0, qi |-> 0,
                     loose |-> (k \in st.dirty), sets |-> {}]
     ELSE IF c.kind = "pk"
       THEN LET r == TakeP(st, c.id)
            IN base @@ [s |-> r.s, res |-> r.res, row |-> r.row, qp |-> r.qp, qi |-> 0,
                        loose |-> (k \in st.dirty \/ PK(c.id) \in st.dirty), sets |-> r.sets]
     ELSE LET ids == RowByName(st.db, n)
          IN IF ids = {}
               THEN base @@ [s |-> [st EXCEPT !.cache[k] = NfEntry(st.clk + TTLof(st.jit, st.nf))],
                             res |-> "nf", row |-> NoRowOut, qp |-> 0, qi |-> 1, loose |-> (k \in st.dirty),
                             sets |-> {[k |-> k, ttl |-> TTLof(st.jit, st.nf), base |-> st.nf, gap |-> 0]}]
               ELSE LET i  == CHOOSE x \in ids : TRUE
                        pk == PK(i)
                        t  == TTLof(st.jit, st.e)
                    IN IF ~st.up[Place[pk]]
                         \* the row cannot be stored under its primary key: the cache failure is
                         \* returned, nothing is remembered
                         THEN base @@ [s |-> st, res |-> "cacheerr", row |-> NoRowOut, qp |-> 0, qi |-> 1,
                                       loose |-> (k \in st.dirty), sets |-> {}]
                         ELSE base @@ [s |-> [st EXCEPT !.cache[pk] = RowEntry(i, st.db[i], st.clk + t + Gap),
                                                        !.cache[k] = PkEntry(i, st.clk + t)],
                                       res |-> "row", row |-> RowOut(i, st.db[i]), qp |-> 0, qi |-> 1,
                                       loose |-> (k \in st.dirty),
                                       sets |-> {[k |-> pk, ttl |-> t + Gap, base |-> st.e, gap |-> Gap],
                                                 [k |-> k, ttl |-> t, base |-> st.e, gap |-> 0]}]

(* ---------------------------------------------------------------- removals *)

\* cache.Del of a set of keys: one DEL per node that holds some of them; a node that is
\* down gets a retry task on the first rung instead
DelKeysF(st, ks) ==
  LET grp(nd) == {k \in ks : Place[k] = nd}
      okN   == {nd \in Nodes : grp(nd) # {} /\ st.up[nd]}
      badN  == {nd \in Nodes : grp(nd) # {} /\ ~st.up[nd]}
      gone  == UNION {grp(nd) : nd \in okN}
      stale == UNION {grp(nd) : nd \in badN}
      seq   == st.nfail + 1
  IN [s |-> [st EXCEPT !.cache = [k \in Keys |-> IF k \in gone THEN Absent ELSE st.cache[k]],
                       !.dirty = (st.dirty \ gone) \cup stale,
                       !.tasks = st.tasks \cup {[seq |-> seq, node |-> nd, keys |-> grp(nd), rung |-> 1,
                                                 due |-> st.clk + Ladder[1]] : nd \in badN},
                       !.nfail = IF badN = {} THEN st.nfail ELSE seq],
      dels |-> {[node |-> nd, keys |-> grp(nd)] : nd \in okN},
      failed |-> (badN # {})]

DelCacheF(st, ks, cx) ==
  LET r == DelKeysF(st, ks)
  IN [s |-> r.s, op |-> "delcache", cx |-> cx, keys |-> ks, res |-> "ok", row |-> NoRowOut, qp |-> 0, qi |-> 0,
      loose |-> FALSE, sets |-> {}, dels |-> r.dels]

\* keys named by a write of row i: its primary key, the index key of its old and of its new name
Affected(st, i, new) ==
  {PK(i)} \cup (IF st.db[i] # NoRow THEN {IK(st.db[i].name)} ELSE {})
          \cup (IF new # NoRow THEN {IK(new.name)} ELSE {})

\* a read descriptor [op |-> "qrow", id |-> i] / [op |-> "qindex", name |-> n] / [op |-> "none"]
NoRead(st) == [s |-> st, res |-> "none", row |-> NoRowOut, qp |-> 0, qi |-> 0, loose |-> FALSE, sets |-> {}]
ReadF(st, p) == CASE p.op = "qrow"   -> QueryRowF(st, p.id)
                  [] p.op = "qindex" -> QueryIndexF(st, p.name)
                  [] p.op = "none"   -> NoRead(st)

\* Exec: [the read `pre`, inside the statement callback and before the statement;] write the
\* database, then remove the affected keys (cx: the caller's context, see above).  The step's
\* database callbacks and stored entries are those of the inner read.
ExecF(st, i, new, cx, pre) ==
  LET ks == Affected(st, i, new)
  IN \* (bound through singleton sets: evaluated once)
     CHOOSE x \in { [s |-> r.s, op |-> IF new = NoRow THEN "delete" ELSE "put", cx |-> cx, id |-> i,
                     name |-> new.name, data |-> new.data, keys |-> ks, res |-> "ok", row |-> NoRowOut,
                     qp |-> r0.qp, qi |-> r0.qi, loose |-> FALSE, sets |-> r0.sets, dels |-> r.dels,
                     pre |-> pre @@ [res |-> r0.res, row |-> r0.row, qp |-> r0.qp, qi |-> r0.qi, loose |-> r0.loose]]
                    : r0 \in {ReadF(st, pre)}, r \in {DelKeysF([ReadF(st, pre).s EXCEPT !.db[i] = new], ks)} } : TRUE

\* SetCache(PK(i), current row of i)
SetCacheF(st, i) ==
  LET k == PK(i)
      t == TTLof(st.jit, st.e)
      base == [op |-> "setcache", id |-> i, row |-> NoRowOut, qp |-> 0, qi |-> 0, loose |-> FALSE, dels |-> {}]
  IN IF ~st.up[Place[k]]
       THEN base @@ [s |-> st, res |-> "cacheerr", sets |-> {}]
       ELSE base @@ [s |-> [st EXCEPT !.cache[k] = RowEntry(i, st.db[i], st.clk + t)], res |-> "ok",
                     sets |-> {[k |-> k, ttl |-> t, base |-> st.e, gap |-> 0]}]

(* ---------------------------------------------------------------- time *)

\* second of the attempt on rung r2 >= t.rung if every attempt before it fails
DueAt(t, r2) == t.due + Cum[r2] - Cum[t.rung]
\* rungs whose attempt lies beyond the horizon h when the node stays down
Surv(t, h) == {r2 \in t.rung..Len(Ladder) : DueAt(t, r2) > h}
MinOf(S) == CHOOSE x \in S : \A y \in S : x <= y

\* n seconds pass (reachability does not change meanwhile): entries expire; a task that is
\* due on a reachable node removes its keys and is gone for good; a task due on an
\* unreachable node fails and moves up the ladder (possibly several rungs), and is dropped
\* after the last rung.
AdvanceF(st, n) ==
  LET h     == st.clk + n
      fired == {t \in st.tasks : st.up[t.node] /\ t.due <= h}
      wait  == {t \in st.tasks : st.up[t.node] /\ t.due > h}
      down  == {t \in st.tasks : ~st.up[t.node]}
      moved == {[t EXCEPT !.rung = MinOf(Surv(t, h)), !.due = DueAt(t, MinOf(Surv(t, h)))] :
                  t \in {x \in down : Surv(x, h) # {}}}
      gone  == UNION {t.keys : t \in fired}
  IN [s |-> [st EXCEPT !.clk = h,
                       !.tasks = wait \cup moved,
                       !.dirty = st.dirty \ gone,
                       !.cache = [k \in Keys |-> IF k \in gone \/ (st.cache[k].kind # "none" /\ st.cache[k].exp <= h)
                                                   THEN Absent ELSE st.cache[k]]],
      op |-> "adv", n |-> n, res |-> "ok", row |-> NoRowOut, qp |-> 0, qi |-> 0, loose |-> FALSE, sets |-> {},
      dels |-> {},
      fires |-> {[at |-> t.due - st.clk, node |-> t.node, keys |-> t.keys, seq |-> t.seq] : t \in fired}]

SetUpF(st, nd, b) ==
  [s |-> [st EXCEPT !.up[nd] = b], op |-> IF b THEN "up" ELSE "down", node |-> nd, res |-> "ok", row |-> NoRowOut,
   qp |-> 0, qi |-> 0, loose |-> FALSE, sets |-> {}, dels |-> {}]

(* ---------------------------------------------------------------- behaviour *)

NewRows == {[name |-> n, data |-> d] : n \in Names, d \in Datas}

\* a write must keep the index unique, and changes something
ValidPut(st, i, r) == /\ r # st.db[i]
                      /\ \A j \in Ids \ {i} : st.db[j].name # r.name

\* operation descriptors offered in a state (small records), and the step each one denotes
PreReads ==
       (IF "none" \in Pres THEN {[op |-> "none"]} ELSE {})
  \cup (IF "qrow" \in Pres THEN {[op |-> "qrow", id |-> i] : i \in Ids} ELSE {})
  \cup (IF "qindex" \in Pres THEN {[op |-> "qindex", name |-> n] : n \in Names} ELSE {})

OpsOf(st) ==
       {[op |-> "qrow", id |-> i] : i \in Ids}
  \cup {[op |-> "qindex", name |-> n] : n \in Names}
  \cup UNION {{[op |-> "put", id |-> i, row |-> r, cx |-> c, pre |-> p] :
                  r \in {x \in NewRows : ValidPut(st, i, x)}, c \in Ctxs, p \in PreReads} : i \in Ids}
  \cup {[op |-> "delete", id |-> i, cx |-> c, pre |-> p] : i \in {x \in Ids : st.db[x] # NoRow}, c \in Ctxs, p \in PreReads}
  \cup {[op |-> "delcache", k |-> k, cx |-> c] : k \in Keys, c \in Ctxs}
  \cup {[op |-> "setcache", id |-> i] : i \in {x \in Ids : st.db[x] # NoRow}}
  \cup {[op |-> "adv", n |-> n] : n \in Adv}
  \cup {[op |-> IF st.up[nd] THEN "down" ELSE "up", node |-> nd] : nd \in Nodes}

StepOf(st, o) ==
  CASE o.op = "qrow"     -> QueryRowF(st, o.id)
    [] o.op = "qindex"   -> QueryIndexF(st, o.name)
    [] o.op = "put"      -> ExecF(st, o.id, o.row, o.cx, o.pre)
    [] o.op = "delete"   -> ExecF(st, o.id, NoRow, o.cx, o.pre)
    [] o.op = "delcache" -> DelCacheF(st, {o.k}, o.cx)
    [] o.op = "setcache" -> SetCacheF(st, o.id)
    [] o.op = "adv"      -> AdvanceF(st, o.n)
    [] o.op = "down"     -> SetUpF(st, o.node, FALSE)
    [] o.op = "up"       -> SetUpF(st, o.node, TRUE)

InitState(db, j, c) ==
  [db |-> db, cache |-> [k \in Keys |-> Absent], up |-> [nd \in Nodes |-> TRUE], dirty |-> {}, tasks |-> {},
   clk |-> 0, nfail |-> 0, jit |-> j, cfg |-> c, e |-> Eff(c.e, DefE), nf |-> Eff(c.nf, DefNF)]

Init == /\ \E db \in InitDBs, j \in Jits, c \in Cfgs : s = InitState(db, j, c)
        /\ out = [op |-> "init", res |-> "ok", row |-> NoRowOut, qp |-> 0, qi |-> 0, loose |-> FALSE,
                  sets |-> {}, dels |-> {}]

\* the observable part of a step result
Obs(r) == [f \in (DOMAIN r) \ {"s"} |-> r[f]]

Apply(r) == /\ s' = r.s
            /\ out' = Obs(r)

\* (the step is bound through a singleton set so that TLC evaluates it once)
Next == \E o \in OpsOf(s) : \E r \in {StepOf(s, o)} : r.s.nfail <= MaxFail /\ Apply(r)

Spec == Init /\ [][Next]_vars

(* ---------------------------------------------------------------- the property *)

TypeOK ==
  /\ s.db \in [Ids -> NewRows \cup {NoRow}]
  /\ \A i, j \in Ids : (i # j /\ s.db[i] # NoRow) => s.db[i].name # s.db[j].name
  /\ \A k \in Keys : s.cache[k].kind # "none" => s.cache[k].exp > s.clk
  /\ \A k \in PKeys : s.cache[k].kind \in {"none", "row", "nf"}
  /\ \A k \in IKeys : s.cache[k].kind \in {"none", "pk", "nf"}
  /\ s.dirty \subseteq Keys
  /\ s.cfg \in Cfgs /\ s.e >= 1 /\ s.nf >= 1
  /\ (s.cfg.e.set /\ s.cfg.e.v >= 1) => s.e = s.cfg.e.v
  /\ (s.cfg.nf.set /\ s.cfg.nf.v >= 1) => s.nf = s.cfg.nf.v
  /\ \A t \in s.tasks : t.due > s.clk /\ t.rung \in 1..Len(Ladder) /\ t.keys # {}

TruthP(db, i) == IF db[i] = NoRow THEN [res |-> "nf", row |-> NoRowOut] ELSE [res |-> "row", row |-> RowOut(i, db[i])]
TruthI(db, n) == IF RowByName(db, n) = {} THEN [res |-> "nf", row |-> NoRowOut]
                 ELSE LET i == CHOOSE x \in RowByName(db, n) : TRUE IN [res |-> "row", row |-> RowOut(i, db[i])]

\* the reads observed in a step: the step itself, or the read inside a write's statement callback
\* (it runs before the statement: the database it must agree with is that of the state before)
ReadsIn(o) == IF o.op \in {"qrow", "qindex"} THEN {o}
              ELSE IF o.op \in {"put", "delete"} /\ o.pre.op # "none" THEN {o.pre} ELSE {}

\* every read that does not consult a dirty key returns the database's current row (or
\* not-found), unless the cache failed
Coherent ==
  [][\A x \in ReadsIn(out') :
       /\ (x.op = "qrow" /\ ~x.loose /\ x.res # "cacheerr") =>
              [res |-> x.res, row |-> x.row] = TruthP(s.db, x.id)
       /\ (x.op = "qindex" /\ ~x.loose /\ x.res # "cacheerr") =>
              [res |-> x.res, row |-> x.row] = TruthI(s.db, x.name)]_vars

\* coherent cache: outside dirty keys the cache never holds anything but the truth
CacheTruth ==
  /\ \A i \in Ids : PK(i) \notin s.dirty =>
        LET c == s.cache[PK(i)] IN
          /\ c.kind = "row" => s.db[i] = [name |-> c.name, data |-> c.data]
          /\ c.kind = "nf" => s.db[i] = NoRow
  /\ \A n \in Names : IK(n) \notin s.dirty =>
        LET c == s.cache[IK(n)] IN
          /\ c.kind = "pk" => s.db[c.id].name = n
          /\ c.kind = "nf" => RowByName(s.db, n) = {}

\* a value or a placeholder in the cache shields the database
Shield ==
  [][\A x \in ReadsIn(out') :
       /\ (x.op = "qrow" /\ s.up[Place[PK(x.id)]] /\ s.cache[PK(x.id)].kind # "none")
            => x.qp = 0 /\ x.qi = 0
       /\ (x.op = "qindex" /\ s.up[Place[IK(x.name)]] /\ s.cache[IK(x.name)].kind # "none")
            => x.qi = 0]_vars

\* a cache failure is returned, the database is not asked instead
NoFallThrough ==
  [][\A x \in ReadsIn(out') :
       /\ (x.op = "qrow" /\ ~s.up[Place[PK(x.id)]]) => x.res = "cacheerr" /\ x.qp = 0 /\ x.qi = 0
       /\ (x.op = "qindex" /\ ~s.up[Place[IK(x.name)]]) => x.res = "cacheerr" /\ x.qp = 0 /\ x.qi = 0
       /\ x.res = "cacheerr" => x.qp = 0]_vars

\* stored TTLs: configured expiry +-5 % (plus the safety gap for the primary entry written by an index read);
\* whatever the configuration, an entry is never stored without an expiry
TTLRange == \A x \in out.sets : /\ x.ttl - x.gap \in Lo(x.base)..Hi(x.base)
                                 /\ x.base \in {s.e, s.nf} /\ x.ttl >= 1

\* the caller's context is not part of the protocol: a write leads to the same state (cache,
\* pending retries with their rungs and due seconds, dirty keys) whichever context it is given
Ctx0 == CHOOSE c \in Ctxs : TRUE
CtxFree ==
  \A o \in {x \in OpsOf(s) : x.op \in {"put", "delete", "delcache"} /\ x.cx = Ctx0} :
     \E r \in {StepOf(s, o).s} : \A c \in Ctxs \ {Ctx0} : StepOf(s, [o EXCEPT !.cx = c]).s = r

SameTask(t, u) == t.seq = u.seq /\ t.node = u.node
\* a failed removal is retried until it first succeeds and not again afterwards:
\*  - a task only disappears by being executed on a reachable node, or after its last rung failed
\*  - a task that stays keeps its keys, never goes down the ladder, is never due in the past
\*  - tasks only appear through a removal that failed in this very step
RetryLadder ==
  [][/\ \A t \in s.tasks :
          \/ \E u \in s'.tasks : SameTask(t, u) /\ u.keys = t.keys /\ u.rung >= t.rung /\ u.due >= t.due
                                  /\ (u.rung > t.rung => ~s.up[t.node] /\ u.due = DueAt(t, u.rung))
          \/ (out'.op = "adv" /\ s.up[t.node] /\ t.due <= s'.clk
              /\ \E f \in out'.fires : f.seq = t.seq /\ f.node = t.node /\ f.keys = t.keys)
          \/ (out'.op = "adv" /\ ~s.up[t.node] /\ DueAt(t, Len(Ladder)) <= s'.clk)
     /\ \A u \in s'.tasks : (\E t \in s.tasks : SameTask(t, u)) \/ (u.seq = s.nfail + 1 /\ u.rung = 1 /\ ~s.up[u.node])
     /\ (out'.op = "adv" => \A f \in out'.fires : \E t \in s.tasks : f.seq = t.seq /\ f.node = t.node /\ s.up[t.node])]_vars

core == s
=============================================================================
