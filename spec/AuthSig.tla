------------------------------ MODULE AuthSig ------------------------------
(***************************************************************************)
(* Signature gate of a route in strict mode (property C04, second          *)
(* sentence; api/engine.go signatureVerifier, contentsecurityhandler.go,   *)
(* internal/security/contentsecurity.go, lib/codec/{hmac,rsa}.go).         *)
(*                                                                         *)
(* A request is produced by an honest client (X-Content-Security header:   *)
(* fingerprint, RSA-encrypted secret "key/time/type", HMAC signature over  *)
(* timestamp, method, path, query and body hash) and then altered:         *)
(*   fp      "known" | "known2" (second configured key) | "unknown" |      *)
(*           "missing" (no header at all)                                  *)
(*   secret  "ok" | "garbled" (does not decrypt) | "crossed" (encrypted    *)
(*           for the other configured key than the fingerprint names)      *)
(*   ts      offset of the signed timestamp from the server's clock, in    *)
(*           seconds relative to the tolerance tol:                        *)
(*           "now" | "-tol" | "-tol-1" | "+tol" | "+tol+1" | "far" |       *)
(*           "garbage" (not a number), and the extremes a decimal int64    *)
(*           can carry: now +- 2^55 (+- half the tolerance), +- 2^56,      *)
(*           +- 2^62, "zero", "maxint", "minint" - none is within the      *)
(*           tolerance                                                     *)
(*   tamper  set of fields altered AFTER signing:                          *)
(*           "ts" (secret re-encrypted with another, still tolerated       *)
(*           time), "method", "path", "query", "body", "sig"               *)
(*   via     how the request (and its body) reaches the server:           *)
(*           "sized"   recorder, Content-Length known                       *)
(*           "unknown" recorder, body present but ContentLength = -1        *)
(*           "wire"    a real connection; a non-empty body is sent with    *)
(*                     Transfer-Encoding: chunked (length unknown)         *)
(*           The verdict must not depend on it.                            *)
(*   server  how the server builds the chain in front of the gate:         *)
(*           "default" | "chain" (api.WithChain) | "use" (Server.Use) |    *)
(*           "chain+use".  The verdict must not depend on it.              *)
(* The statement: the handler runs iff the header decrypts under a         *)
(* configured key, the timestamp is within the tolerance and the HMAC      *)
(* matches; altering any signed field yields 403.                          *)
(***************************************************************************)
EXTENDS Integers, Sequences, FiniteSets, TLC

CONSTANTS MaxTamper,  \* how many fields may be altered together
          Servers     \* server constructions offered (subset of AllServers)

VARIABLES base, picked, out
vars == <<base, picked, out>>

Methods == {"GET", "POST", "PUT", "DELETE"}
Fps     == {"known", "known2", "unknown", "missing"}
Secrets == {"ok", "garbled", "crossed"}
Extremes == {"+2^55", "-2^55", "+2^55+h", "+2^55-h", "-2^55+h", "-2^55-h", "+2^56", "-2^56", "+2^62", "-2^62",
             "zero", "maxint", "minint"}
Offsets == {"now", "-tol", "-tol-1", "+tol", "+tol+1", "far", "garbage"} \cup Extremes
AllServers == {"default", "chain", "use", "chain+use"}
Fields  == {"ts", "method", "path", "query", "body", "sig"}
Vias    == {"sized", "unknown", "wire"}

Within(ts) == ts \in {"now", "-tol", "+tol"}

Pass(r) ==
  /\ r.fp \in {"known", "known2"}
  /\ r.secret = "ok"
  /\ Within(r.ts)
  /\ r.tamper = {}

\* two steps so that TLC's workers share the enumeration: who sends what (base), then how the
\* timestamp lies and what is altered after signing
NoBase == [method |-> ""]

Init == base = NoBase /\ picked = FALSE /\ out = [op |-> "init"]

PickBase ==
  /\ base = NoBase
  /\ \E m \in Methods, fp \in Fps, s \in Secrets, hasbody \in BOOLEAN, via \in Vias, sv \in Servers :
        /\ (hasbody => m \in {"POST", "PUT", "DELETE"})
        /\ (fp = "missing" => s = "ok")
        /\ (via # "sized" => sv = "default")     \* (keeps the product small; the two are independent)
        /\ base' = [method |-> m, fp |-> fp, secret |-> s, body |-> hasbody, via |-> via, server |-> sv]
  /\ out' = [op |-> "base"]
  /\ UNCHANGED picked

Pick(r) ==
  /\ ~picked /\ picked' = TRUE
  /\ out' = [op |-> "sig", req |-> r, expect |-> IF Pass(r) THEN "pass" ELSE "deny"]
  /\ UNCHANGED base

PickRest ==
  /\ base # NoBase
  /\ \E ts \in Offsets, tm \in SUBSET Fields :
        /\ Cardinality(tm) <= MaxTamper
        /\ (base.fp = "missing" => tm \subseteq {"method", "path", "query", "body"})
        \* the extreme timestamps are offered on otherwise perfect requests only
        /\ (ts \in Extremes => tm = {} /\ base.via = "sized" /\ base.secret = "ok" /\ base.fp \in {"known", "known2"})
        /\ Pick([method |-> base.method, fp |-> base.fp, secret |-> base.secret, ts |-> ts,
                 body |-> base.body, via |-> base.via, server |-> base.server, tamper |-> tm])

Next == PickBase \/ PickRest

Spec == Init /\ [][Next]_vars

\* altering any signed field of an otherwise acceptable request yields 403
AnyTamperDenied == picked /\ out.req.tamper # {} => out.expect = "deny"
\* an untouched request of an honest client with a tolerated clock passes
HonestPasses ==
  picked /\ out.req.tamper = {} /\ out.req.fp \in {"known", "known2"} /\ out.req.secret = "ok"
         /\ out.req.ts \in {"now", "-tol", "+tol"} => out.expect = "pass"
\* the way the body is delivered (known length, unknown length, chunked on a real connection)
\* never enters the verdict
TransportIrrelevant ==
  picked => \A v \in Vias : Pass([out.req EXCEPT !.via = v]) = (out.expect = "pass")
\* the way the server builds its middleware chain never enters the verdict
ServerIrrelevant ==
  picked => \A sv \in AllServers : Pass([out.req EXCEPT !.server = sv]) = (out.expect = "pass")
OutsideToleranceDenied ==
  picked /\ out.req.ts \in {"-tol-1", "+tol+1", "far", "garbage"} \cup Extremes => out.expect = "deny"
=============================================================================
