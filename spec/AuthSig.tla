------------------------------ MODULE AuthSig ------------------------------
(***************************************************************************)
(* Signature gate of a route in strict mode (property C04, second          *)
(* sentence; api/engine.go signatureVerifier, contentsecurityhandler.go,   *)
(* internal/security/contentsecurity.go, lib/codec/{hmac,rsa}.go).         *)
(*                                                                         *)
(* A request is produced by an honest client (X-Content-Security header:   *)
(* fingerprint, RSA-encrypted secret "key/time/type", HMAC signature over  *)
(* timestamp, method, path, query and body hash) and then altered:         *)
(*   fp      "known" | "known2" (second configured key) | "unknown" |      *)
(*           "missing" (no header at all)                                  *)
(*   secret  "ok" | "garbled" (not even base64) | "crossed" (encrypted     *)
(*           for the other configured key than the fingerprint names) |    *)
(*           "corrupt" (an honest secret of which one byte of the last     *)
(*           RSA block was altered in transit: does not decrypt)           *)
(*   slen    length of the secret's PLAINTEXT ("type=..; key=<base64 HMAC  *)
(*           key>; time=..", any further attributes) relative to the       *)
(*           payload B = k-11 bytes of one PKCS#1 v1.5 block of the RSA    *)
(*           key it is encrypted for (k = modulus length in bytes; the two *)
(*           configured keys have different sizes).  The scheme            *)
(*           (lib/codec/rsa.go crypt) is block-wise: the plaintext is cut  *)
(*           into pieces of B bytes, each encrypted to one block of k      *)
(*           bytes, the blocks concatenated; decryption cuts into k bytes. *)
(*           "short" (far below B) | "B-1" | "B" (exactly one full block)  *)
(*           | "B+1" (one byte in a second block) | "2B" | "2B+1" | "long" *)
(*           (3B+7: four blocks).  An honest client with a long HMAC key   *)
(*           or further attributes produces them.  The verdict must not    *)
(*           depend on it.                                                 *)
(*   ts      offset of the signed timestamp from the server's clock, in    *)
(*           seconds relative to the tolerance tol:                        *)
(*           "now" | "-tol" | "-tol-1" | "+tol" | "+tol+1" | "far" |       *)
(*           "garbage" (not a number), and the extremes a decimal int64    *)
(*           can carry: now +- 2^55 (+- half the tolerance), +- 2^56,      *)
(*           +- 2^62, "zero", "maxint", "minint" - none is within the      *)
(*           tolerance                                                     *)
(*   tamper  set of fields altered AFTER signing:                          *)
(*           "ts" (secret re-encrypted with another, still tolerated       *)
(*           time), "method", "path", "query", "body", "sig"               *)
(*   via     how the request (and its body) reaches the server:           *)
(*           "sized"   recorder, Content-Length known                       *)
(*           "unknown" recorder, body present but ContentLength = -1        *)
(*           "wire"    a real connection; a non-empty body is sent with    *)
(*                     Transfer-Encoding: chunked (length unknown)         *)
(*           The verdict must not depend on it.                            *)
(*   server  how the server builds the chain in front of the gate:         *)
(*           "default" | "chain" (api.WithChain) | "use" (Server.Use) |    *)
(*           "chain+use".  The verdict must not depend on it.              *)
(*   layout  which signature-protected route groups the server has and     *)
(*           which keys each of them is configured with (Conf below: route *)
(*           group -> fingerprint name -> RSA key):                        *)
(*           "one"    one group g1 with both keys (fa -> KA, fb -> KB)     *)
(*           "split"  two groups, g1 with fa -> KA, g2 with fb -> KB       *)
(*           "alias"  two groups that use the SAME fingerprint name for    *)
(*                    different keys: g1 fa -> KA, g2 fa -> KB             *)
(*   group   the route group the request is sent to (and signed for)       *)
(*           A key is "configured" for a route when it is in the           *)
(*           PrivateKeys of the route's own group: fp "known" names fa,    *)
(*           "known2" names fb; secret "ok" is encrypted for KA ("known",  *)
(*           "unknown") resp. KB ("known2"), "crossed" for the other one.  *)
(* The statement: the handler runs iff the header decrypts under a         *)
(* configured key, the timestamp is within the tolerance and the HMAC      *)
(* matches; altering any signed field yields 403.                          *)
(***************************************************************************)
EXTENDS Integers, Sequences, FiniteSets, TLC

CONSTANTS MaxTamper,   \* how many fields may be altered together
          Servers,     \* server constructions offered (subset of AllServers)
          Layouts,     \* key layouts offered (subset of DOMAIN Conf)
          SideMethods, \* methods and timestamp offsets offered on the layouts with two groups
          SideOffsets, \* (the full product, and more than one altered field, is driven on layout "one")
          SLens        \* secret lengths offered besides "short" (subset of AllLens \ {"short"}), with the
                       \* methods/offsets of the side product

VARIABLES base, picked, out
vars == <<base, picked, out>>

Methods == {"GET", "POST", "PUT", "DELETE"}
Fps     == {"known", "known2", "unknown", "missing"}
Secrets == {"ok", "garbled", "crossed", "corrupt"}
AllLens == {"short", "B-1", "B", "B+1", "2B", "2B+1", "long"}
\* number of RSA blocks the encrypted secret of an honest client consists of
Blocks(sl) == CASE sl \in {"short", "B-1", "B"} -> 1
                [] sl \in {"B+1", "2B"} -> 2
                [] sl = "2B+1" -> 3
                [] sl = "long" -> 4
Extremes == {"+2^55", "-2^55", "+2^55+h", "+2^55-h", "-2^55+h", "-2^55-h", "+2^56", "-2^56", "+2^62", "-2^62",
             "zero", "maxint", "minint"}
Offsets == {"now", "-tol", "-tol-1", "+tol", "+tol+1", "far", "garbage"} \cup Extremes
AllServers == {"default", "chain", "use", "chain+use"}
Fields  == {"ts", "method", "path", "query", "body", "sig"}
Vias    == {"sized", "unknown", "wire"}

Within(ts) == ts \in {"now", "-tol", "+tol"}

\* route group -> fingerprint name -> RSA key, per layout
Conf == [one   |-> [g1 |-> [fa |-> "KA", fb |-> "KB"]],
         split |-> [g1 |-> [fa |-> "KA"], g2 |-> [fb |-> "KB"]],
         alias |-> [g1 |-> [fa |-> "KA"], g2 |-> [fa |-> "KB"]]]
GroupsOf(l) == DOMAIN Conf[l]

\* the fingerprint name a request carries and the RSA key its secret is encrypted for
FpName(fp) == IF fp = "known" THEN "fa" ELSE IF fp = "known2" THEN "fb" ELSE "fx"
EncKey(fp, sec) == IF (fp = "known2") = (sec # "crossed") THEN "KB" ELSE "KA"

\* the header decrypts under a key configured for group g of the layout
DecryptsIn(r, g) ==
  /\ r.fp # "missing" /\ r.secret \notin {"garbled", "corrupt"}
  /\ FpName(r.fp) \in DOMAIN Conf[r.layout][g]
  /\ Conf[r.layout][g][FpName(r.fp)] = EncKey(r.fp, r.secret)
Decrypts(r) == DecryptsIn(r, r.group)

\* the header decrypts under a key of ANOTHER route group of the same server only
Foreign(r) == ~Decrypts(r) /\ \E g \in GroupsOf(r.layout) \ {r.group} : DecryptsIn(r, g)

Pass(r) ==
  /\ Decrypts(r)
  /\ Within(r.ts)
  /\ r.tamper = {}

\* two steps so that TLC's workers share the enumeration: who sends what (base), then how the
\* timestamp lies and what is altered after signing
NoBase == [method |-> ""]

Init == base = NoBase /\ picked = FALSE /\ out = [op |-> "init"]

PickBase ==
  /\ base = NoBase
  /\ \E m \in Methods, fp \in Fps, s \in Secrets, hasbody \in BOOLEAN, via \in Vias, sv \in Servers,
        l \in Layouts, sl \in {"short"} \cup SLens :
     \E g \in GroupsOf(l) :
        /\ (hasbody => m \in {"POST", "PUT", "DELETE"})
        /\ (fp = "missing" => s = "ok")
        /\ (via # "sized" => sv = "default")     \* (keeps the product small; the two are independent)
        /\ (l # "one" => via = "sized" /\ m \in SideMethods)
        /\ (fp = "missing" => sl = "short")
        /\ (s = "garbled" => sl = "short")      \* (no ciphertext at all)
        /\ (sl # "short" => via = "sized" /\ m \in SideMethods)
        /\ (sl # "short" /\ l # "one" => sv = "default")
        /\ base' = [method |-> m, fp |-> fp, secret |-> s, body |-> hasbody, via |-> via, server |-> sv,
                    layout |-> l, group |-> g, slen |-> sl]
  /\ out' = [op |-> "base"]
  /\ UNCHANGED picked

Pick(r) ==
  /\ ~picked /\ picked' = TRUE
  /\ out' = [op |-> "sig", req |-> r, expect |-> IF Pass(r) THEN "pass" ELSE "deny",
             foreign |-> Foreign(r), conf |-> Conf[r.layout], blocks |-> Blocks(r.slen)]
  /\ UNCHANGED base

PickRest ==
  /\ base # NoBase
  /\ \E ts \in Offsets, tm \in SUBSET Fields :
        /\ Cardinality(tm) <= MaxTamper
        /\ (base.fp = "missing" => tm \subseteq {"method", "path", "query", "body"})
        \* the extreme timestamps are offered on otherwise perfect requests only
        /\ (ts \in Extremes => tm = {} /\ base.via = "sized" /\ base.secret = "ok" /\ base.fp \in {"known", "known2"})
        /\ (base.layout # "one" => ts \in SideOffsets /\ Cardinality(tm) <= 1)
        /\ (base.slen # "short" => ts \in SideOffsets /\ Cardinality(tm) <= 1)
        /\ (base.slen # "short" /\ base.layout # "one" => tm = {})
        /\ (base.secret = "corrupt" => tm = {} /\ ts \notin Extremes)
        /\ Pick([method |-> base.method, fp |-> base.fp, secret |-> base.secret, ts |-> ts,
                 body |-> base.body, via |-> base.via, server |-> base.server, tamper |-> tm,
                 layout |-> base.layout, group |-> base.group, slen |-> base.slen])

Next == PickBase \/ PickRest

Spec == Init /\ [][Next]_vars

\* altering any signed field of an otherwise acceptable request yields 403
AnyTamperDenied == picked /\ out.req.tamper # {} => out.expect = "deny"
\* an untouched request of an honest client with a tolerated clock passes
HonestPasses ==
  picked /\ out.req.tamper = {} /\ Decrypts(out.req)
         /\ out.req.ts \in {"now", "-tol", "+tol"} => out.expect = "pass"
\* with one route group holding both keys the verdict is the one of the plain product:
\* a known fingerprint whose secret is encrypted for the key it names
OneGroupAsBefore ==
  picked /\ out.req.layout = "one" =>
     (Decrypts(out.req) <=> out.req.fp \in {"known", "known2"} /\ out.req.secret = "ok")
\* a route admits only under a key configured for its OWN group: a header that decrypts under
\* another group's key only is denied, whatever else is right about the request
ForeignKeyDenied == picked /\ out.foreign => out.expect = "deny"
OwnGroupOnly ==
  picked /\ out.expect = "pass" =>
     /\ FpName(out.req.fp) \in DOMAIN out.conf[out.req.group]
     /\ out.conf[out.req.group][FpName(out.req.fp)] = EncKey(out.req.fp, out.req.secret)
\* the way the body is delivered (known length, unknown length, chunked on a real connection)
\* never enters the verdict
TransportIrrelevant ==
  picked => \A v \in Vias : Pass([out.req EXCEPT !.via = v]) = (out.expect = "pass")
\* the length of the secret (how many RSA blocks an honest client needed) never enters the verdict:
\* in particular an untouched, timely request with a secret of several blocks is admitted
LengthIrrelevant ==
  picked => \A sl \in AllLens : Pass([out.req EXCEPT !.slen = sl]) = (out.expect = "pass")
\* the way the server builds its middleware chain never enters the verdict
ServerIrrelevant ==
  picked => \A sv \in AllServers : Pass([out.req EXCEPT !.server = sv]) = (out.expect = "pass")
OutsideToleranceDenied ==
  picked /\ out.req.ts \in {"-tol-1", "+tol+1", "far", "garbage"} \cup Extremes => out.expect = "deny"
=============================================================================
