--------------------------- MODULE TokenLimitGen ---------------------------
(***************************************************************************)
(* Behaviour generator for TokenLimit.tla (spec -> code replay, C08).      *)
(* A behaviour is [cfg] followed by MaxLen steps allow/tick/down/up; `up`  *)
(* is the macro-step Up;Ping (the driver waits for the monitor's ping as   *)
(* part of the step when the monitor is running), so a request never falls *)
(* between recovery and ping, where the real code's answer depends on a    *)
(* 100 ms wall-clock ticker.  `hold` (TokenLimit!Wait) lets real time pass *)
(* during an outage, at most once per outage and anywhere between Down and *)
(* Up: before the failure has been noticed, or while the monitor is        *)
(* already pinging (then the monitor is at least that old when Redis comes *)
(* back), followed by requests to the rescue bucket or not.                *)
(***************************************************************************)
EXTENDS TokenLimit, Json

CONSTANTS MaxLen,     \* steps per behaviour
          MaxDown     \* outages per behaviour (0: none)

VARIABLES hist, ndown, held

gvars == <<vars, hist, ndown, held>>

GInit == Init /\ hist = <<out>> /\ ndown = 0 /\ held = FALSE

UpPing ==
  /\ ~alive
  /\ alive' = TRUE
  /\ mode' = "redis" /\ mon' = FALSE
  /\ out' = [op |-> "up", ping |-> mon]
  /\ UNCHANGED <<rate, burst, now, srv, tok, ts, ttlx, rtok, rlast, rused, ib, glog>>

GNext ==
  /\ Len(hist) < MaxLen + 1
  /\ \/ (\E n \in 1..MaxN : Allow(n)) /\ UNCHANGED <<ndown, held>>
     \/ (\E dc \in 1..MaxStep, ds \in 0..MaxStep : ds <= dc /\ Tick(dc, ds)) /\ out.op # "tick" /\ UNCHANGED <<ndown, held>>
     \/ Down /\ ndown < MaxDown /\ ndown' = ndown + 1 /\ held' = FALSE
     \/ UpPing /\ UNCHANGED <<ndown, held>>
     \/ (\E h \in Holds : Wait(h)) /\ ~held /\ held' = TRUE /\ UNCHANGED ndown
  /\ hist' = Append(hist, out')

GSpec == GInit /\ [][GNext]_gvars

Emit == (Len(hist) = MaxLen + 1) => PrintT(ToJson(hist))

=============================================================================
