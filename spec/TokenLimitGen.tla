--------------------------- MODULE TokenLimitGen ---------------------------
(***************************************************************************)
(* Behaviour generator for TokenLimit.tla (spec -> code replay, C08).      *)
(* A behaviour is [cfg] followed by MaxLen steps allow/tick/down/up; `up`  *)
(* is the macro-step Up;Ping (the driver waits for the monitor's ping as   *)
(* part of the step when the monitor is running), so a request never falls *)
(* between recovery and ping, where the real code's answer depends on a    *)
(* 100 ms wall-clock ticker.  `hold` (TokenLimit!Wait) lets real time pass *)
(* during an outage, at most once per outage and anywhere between Down and *)
(* Up: before the failure has been noticed, or while the monitor is        *)
(* already pinging (then the monitor is at least that old when Redis comes *)
(* back), followed by requests to the rescue bucket or not.                *)
(* `step` (TokenLimit!Step) advances the caller clock by milliseconds; a   *)
(* tick may be followed by a step (2 s + 142 ms), otherwise clock steps do *)
(* not follow each other.  (Requests the statement does not decide are not  *)
(* steps of TokenLimit: RescueFirm.)  DownFirst: the behaviour begins with the      *)
(* outage (families about the in-process bucket).                          *)
(***************************************************************************)
EXTENDS TokenLimit, Json

CONSTANTS MaxLen,     \* steps per behaviour
          MaxDown,    \* outages per behaviour (0: none)
          DownFirst   \* BOOLEAN: the first step is Down

VARIABLES hist, ndown, held

gvars == <<vars, hist, ndown, held>>

GInit == Init /\ hist = <<out>> /\ ndown = 0 /\ held = FALSE

UpPing ==
  /\ ~alive
  /\ alive' = TRUE
  /\ mode' = "redis" /\ mon' = FALSE
  /\ out' = [op |-> "up", ping |-> mon]
  /\ UNCHANGED <<rate, burst, now, sub, srv, tok, ts, ttlx, rtok, rlast, rused, rfull, qtok, qlast, ib, glog>>

GNext ==
  /\ Len(hist) < MaxLen + 1
  /\ \/ (\E n \in Sizes : Allow(n)) /\ UNCHANGED <<ndown, held>>
     \/ (\E dc \in Seconds, ds \in {0} \cup Seconds : TickPair(dc, ds) /\ Tick(dc, ds)) /\ out.op \notin {"tick", "step"} /\ UNCHANGED <<ndown, held>>
     \/ (\E d \in StepSizes : Step(d)) /\ out.op # "step" /\ UNCHANGED <<ndown, held>>
     \/ Down /\ ndown < MaxDown /\ ndown' = ndown + 1 /\ held' = FALSE
     \/ UpPing /\ UNCHANGED <<ndown, held>>
     \/ (\E h \in Holds : Wait(h)) /\ ~held /\ held' = TRUE /\ UNCHANGED ndown
  /\ (DownFirst /\ Len(hist) = 1) => out'.op = "down"
  /\ hist' = Append(hist, out')

GSpec == GInit /\ [][GNext]_gvars

Emit == (Len(hist) = MaxLen + 1) => PrintT(ToJson(hist))

=============================================================================
