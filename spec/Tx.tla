--------------------------------- MODULE Tx ---------------------------------
(***************************************************************************)
(* SQL transaction manager (property C11, first sentence;                  *)
(* lib/store/sqlx/tx.go, conn.go; lib/store/sqlc/cachedsql.go).            *)
(*                                                                         *)
(* One call of Transact(fn) is a little protocol between four parties: the *)
(* caller, the supplied function fn (the "body"), the transaction manager  *)
(* and the database driver, which may fail at Begin, at any statement, at  *)
(* Commit and at Rollback.  The environment's choices (driver faults, what *)
(* the body does and how it ends) are separate actions, so that TLC        *)
(* enumerates every fault sequence; what the manager must do in answer is  *)
(* what the statement promises, nothing else:                              *)
(*                                                                         *)
(*   Begin fails          -> that error; nothing to commit or roll back    *)
(*   body returns nil     -> exactly one Commit, no Rollback;              *)
(*                           result = the Commit's own error (nil if none) *)
(*   body returns an error-> exactly one Rollback, no Commit; result = the *)
(*                           body's error (when the Rollback itself fails  *)
(*                           the statement only requires a non-nil result) *)
(*   body panics          -> exactly one Rollback, no Commit; the caller   *)
(*                           learns of it: non-nil error or the panic      *)
(*                                                                         *)
(* result classes: "nil" | "begin" | "commit" | "fn" | "nonnil" | "learn". *)
(* `out` is observation only (VIEW core hides it).                         *)
(***************************************************************************)
EXTENDS Integers, Sequences, FiniteSets, TLC

CONSTANTS MaxStmts,   \* statements a body may issue
          MaxCalls,   \* Transact calls per behaviour (on one Conn)
          Apis,       \* entry points offered to the caller
          Kinds       \* statement kinds the body may issue ("exec", "query")

VARIABLES phase,      \* "idle" | "begin" | "body" | "end" | "ret"
          tx,         \* "none" | "open" | "committed" | "rolledback" | "commitfailed" | "rollbackfailed"
          nst,        \* statements issued by the running body
          faulted,    \* the last statement failed (the body stops issuing statements)
          bend,       \* how the body ended: "none" | "nil" | "err" | "panic"
          commits,    \* Commit calls that reached the driver during this call
          rollbacks,  \* Rollback calls that reached the driver during this call
          result,     \* result class of this call ("none" while running)
          ncalls,
          out

core == <<phase, tx, nst, faulted, bend, commits, rollbacks, result, ncalls>>
vars == <<core, out>>

Phases  == {"idle", "begin", "body", "end", "ret"}
TxSt    == {"none", "open", "committed", "rolledback", "commitfailed", "rollbackfailed"}
Ends    == {"nil", "err", "panic"}
Results == {"none", "nil", "begin", "commit", "fn", "nonnil", "learn"}

TypeOK ==
  /\ phase \in Phases /\ tx \in TxSt /\ nst \in 0..MaxStmts /\ faulted \in BOOLEAN
  /\ bend \in Ends \cup {"none"} /\ commits \in 0..2 /\ rollbacks \in 0..2
  /\ result \in Results /\ ncalls \in 0..MaxCalls

Init ==
  /\ phase = "idle" /\ tx = "none" /\ nst = 0 /\ faulted = FALSE /\ bend = "none"
  /\ commits = 0 /\ rollbacks = 0 /\ result = "none" /\ ncalls = 0
  /\ out = [op |-> "init"]

(* ------------------------------------------------------------------ caller *)

Call(api) ==
  /\ phase = "idle" /\ ncalls < MaxCalls
  /\ phase' = "begin" /\ ncalls' = ncalls + 1
  /\ tx' = "none" /\ nst' = 0 /\ faulted' = FALSE /\ bend' = "none"
  /\ commits' = 0 /\ rollbacks' = 0 /\ result' = "none"
  /\ out' = [op |-> "call", api |-> api]

\* the call returns (or re-raises): this is where the driver compares
Return ==
  /\ phase = "ret"
  /\ phase' = "idle"
  /\ out' = [op |-> "return", result |-> result, commits |-> commits, rollbacks |-> rollbacks,
             begun |-> (tx # "none")]
  /\ UNCHANGED <<tx, nst, faulted, bend, commits, rollbacks, result, ncalls>>

(* ------------------------------------------------------------------ driver: Begin *)

Begin(ok) ==
  /\ phase = "begin"
  /\ IF ok THEN /\ phase' = "body" /\ tx' = "open" /\ UNCHANGED result
           ELSE /\ phase' = "ret" /\ result' = "begin" /\ UNCHANGED tx
  /\ out' = [op |-> "begin", ok |-> ok]
  /\ UNCHANGED <<nst, faulted, bend, commits, rollbacks, ncalls>>

(* ------------------------------------------------------------------ the body *)

\* the body issues one more statement through the session; the driver lets it succeed or fail
Stmt(kind, ok) ==
  /\ phase = "body" /\ ~faulted /\ nst < MaxStmts
  /\ nst' = nst + 1 /\ faulted' = ~ok
  /\ out' = [op |-> "stmt", kind |-> kind, ok |-> ok]
  /\ UNCHANGED <<phase, tx, bend, commits, rollbacks, result, ncalls>>

\* the body ends: returns nil (possibly swallowing a statement error), returns an error
\* (the failed statement's error if there was one, else its own), or panics
BodyEnd(e) ==
  /\ phase = "body"
  /\ phase' = "end" /\ bend' = e
  /\ out' = [op |-> "bodyend", how |-> e]
  /\ UNCHANGED <<tx, nst, faulted, commits, rollbacks, result, ncalls>>

(* ------------------------------------------------------------------ manager + driver: the end *)

Commit(ok) ==
  /\ phase = "end" /\ bend = "nil"
  /\ commits' = commits + 1
  /\ tx' = IF ok THEN "committed" ELSE "commitfailed"
  /\ result' = IF ok THEN "nil" ELSE "commit"
  /\ phase' = "ret"
  /\ out' = [op |-> "commit", ok |-> ok]
  /\ UNCHANGED <<nst, faulted, bend, rollbacks, ncalls>>

Rollback(ok) ==
  /\ phase = "end" /\ bend \in {"err", "panic"}
  /\ rollbacks' = rollbacks + 1
  /\ tx' = IF ok THEN "rolledback" ELSE "rollbackfailed"
  /\ result' = IF bend = "panic" THEN "learn" ELSE IF ok THEN "fn" ELSE "nonnil"
  /\ phase' = "ret"
  /\ out' = [op |-> "rollback", ok |-> ok]
  /\ UNCHANGED <<nst, faulted, bend, commits, ncalls>>

Next ==
  \/ \E a \in Apis : Call(a)
  \/ \E ok \in BOOLEAN : Begin(ok)
  \/ \E k \in Kinds, ok \in BOOLEAN : Stmt(k, ok)
  \/ \E e \in Ends : BodyEnd(e)
  \/ \E ok \in BOOLEAN : Commit(ok)
  \/ \E ok \in BOOLEAN : Rollback(ok)
  \/ Return

Spec == Init /\ [][Next]_vars

(* ------------------------------------------------------------------ the property *)

Returned == phase \in {"ret", "idle"} /\ ncalls > 0

\* "a nil result always means exactly one Commit ..."
NilMeansCommitted ==
  Returned /\ result = "nil" => commits = 1 /\ rollbacks = 0 /\ tx = "committed" /\ bend = "nil"

\* "... and anything else exactly one Rollback" (once a transaction was begun and the body did
\* not return nil; a failed Commit is the remaining non-nil case and has no Rollback to make)
ElseRolledBack ==
  Returned /\ result # "nil" /\ tx # "none" /\ bend # "nil" => rollbacks = 1 /\ commits = 0

\* Commit iff the body returned nil
CommitIffNil ==
  Returned /\ tx # "none" => ((commits = 1) <=> (bend = "nil")) /\ ((rollbacks = 1) <=> (bend # "nil"))

\* never both, never twice, and no transaction is left open when the call is over
OneEnding  == commits + rollbacks <= 1
NoDangling == Returned => tx # "open"
NoTxNoEnd  == tx = "none" => commits = 0 /\ rollbacks = 0

\* a panic or an error of the body is never turned into success
FailureIsReported == Returned /\ bend \in {"err", "panic"} => result \in {"fn", "nonnil", "learn"}

\* counters move only in the manager's ending step, by one
EndsOnlyAtEnd ==
  [][(commits' # commits \/ rollbacks' # rollbacks) =>
        \/ out'.op = "call"
        \/ (phase = "end" /\ commits' + rollbacks' = commits + rollbacks + 1)]_vars

=============================================================================
