--------------------------------- MODULE Tx ---------------------------------
(***************************************************************************)
(* SQL transaction manager (property C11, first sentence;                  *)
(* lib/store/sqlx/tx.go, conn.go; lib/store/sqlc/cachedsql.go).            *)
(*                                                                         *)
(* One call of Transact(fn) is a little protocol between four parties: the *)
(* caller, the supplied function fn (the "body"), the transaction manager  *)
(* and the database driver, which may fail at Begin, at any statement, at  *)
(* Commit and at Rollback.  The environment's choices (driver faults, what *)
(* the body does and how it ends) are separate actions, so that TLC        *)
(* enumerates every fault sequence; what the manager must do in answer is  *)
(* what the statement promises, nothing else:                              *)
(*                                                                         *)
(*   Begin fails          -> that error; nothing to commit or roll back    *)
(*   body returns nil     -> exactly one Commit, no Rollback;              *)
(*                           result = the Commit's own error (nil if none) *)
(*   body returns an error-> exactly one Rollback, no Commit; result = the *)
(*                           body's error (when the Rollback itself fails  *)
(*                           the statement only requires a non-nil result) *)
(*   body panics          -> exactly one Rollback, no Commit; the caller   *)
(*                           learns of it: non-nil error or the panic      *)
(*                                                                         *)
(* The caller's context (TransactCtx) is a scenario dimension: "live",      *)
(* "cancelled" / "expired" before the call, or "bodycancel" (the body       *)
(* cancels it just before it ends).  The statement does not mention the    *)
(* context, so it changes nothing in what must hold once a transaction has *)
(* begun: commit iff the body returns nil, else exactly one Rollback.  The  *)
(* only freedom left to a manager that is handed a dead context is to       *)
(* refuse BEFORE beginning (action Refuse: non-nil result, no transaction)  *)
(* or to skip the body - which then has not returned nil - and roll back    *)
(* (action SkipBody).                                                      *)
(* What the body sees: with a dead context its context-bound statements    *)
(* fail without reaching the database driver (why = "ctx").                *)
(*                                                                         *)
(* Two layers of "exactly one": `ccalls` / `rcalls` are the Commit / Rollback *)
(* calls the manager makes on the transaction handle it holds (the session  *)
(* layer), `commits` / `rollbacks` the ones that reach the database driver. *)
(* A finished handle answers a further ending call by itself ("transaction  *)
(* has already been committed or rolled back") without troubling the        *)
(* driver, so the driver's count alone cannot tell one Rollback from two:   *)
(* the statement's "exactly one Rollback" is required at both layers, and   *)
(* no result may carry a finished handle's refusal (`late` is always 0).    *)
(*                                                                         *)
(* result classes: "nil" | "begin" | "commit" | "fn" | "nonnil" | "learn". *)
(* `out` is observation only (VIEW core hides it).                         *)
(***************************************************************************)
EXTENDS Integers, Sequences, FiniteSets, TLC

CONSTANTS MaxStmts,   \* statements a body may issue
          MaxCalls,   \* Transact calls per behaviour (on one Conn)
          Apis,       \* entry points offered to the caller
          Kinds,      \* statement kinds the body may issue ("exec", "query")
          Ctxs,       \* context scenarios offered to the context-taking entry points
          CtxApis     \* the entry points that take a context

VARIABLES phase,      \* "idle" | "begin" | "body" | "end" | "ret"
          tx,         \* "none" | "open" | "committed" | "rolledback" | "commitfailed" | "rollbackfailed"
          nst,        \* statements issued by the running body
          faulted,    \* the last statement failed (the body stops issuing statements)
          bend,       \* how the body ended: "none" | "nil" | "err" | "panic" | "skipped" (never run)
          commits,    \* Commit calls that reached the driver during this call
          rollbacks,  \* Rollback calls that reached the driver during this call
          ccalls,     \* Commit calls the manager made on the transaction handle during this call
          rcalls,     \* Rollback calls the manager made on the transaction handle during this call
          result,     \* result class of this call ("none" while running)
          ncalls,
          ctx,        \* context scenario of the running call
          out

core == <<phase, tx, nst, faulted, bend, commits, rollbacks, ccalls, rcalls, result, ncalls, ctx>>
vars == <<core, out>>

Phases  == {"idle", "begin", "body", "end", "ret"}
TxSt    == {"none", "open", "committed", "rolledback", "commitfailed", "rollbackfailed"}
Ends    == {"nil", "err", "panic"}
Results == {"none", "nil", "begin", "commit", "fn", "nonnil", "learn"}

TypeOK ==
  /\ phase \in Phases /\ tx \in TxSt /\ nst \in 0..MaxStmts /\ faulted \in BOOLEAN
  /\ bend \in Ends \cup {"none", "skipped"} /\ commits \in 0..2 /\ rollbacks \in 0..2
  /\ ccalls \in 0..2 /\ rcalls \in 0..2
  /\ result \in Results /\ ncalls \in 0..MaxCalls
  /\ ctx \in {"live", "cancelled", "expired", "bodycancel"}

Init ==
  /\ phase = "idle" /\ tx = "none" /\ nst = 0 /\ faulted = FALSE /\ bend = "none"
  /\ commits = 0 /\ rollbacks = 0 /\ ccalls = 0 /\ rcalls = 0 /\ result = "none" /\ ncalls = 0 /\ ctx = "live"
  /\ out = [op |-> "init"]

\* the context is already dead when the call is made (and stays so)
DeadCtx == ctx \in {"cancelled", "expired"}

\* ending calls made on a handle that was already finished (answered by the handle, not the driver)
LateCalls == IF ccalls + rcalls > 1 THEN ccalls + rcalls - 1 ELSE 0

(* ------------------------------------------------------------------ caller *)

Call(api, cx) ==
  /\ phase = "idle" /\ ncalls < MaxCalls
  /\ (api \notin CtxApis => cx = "live")
  /\ ctx' = cx
  /\ phase' = "begin" /\ ncalls' = ncalls + 1
  /\ tx' = "none" /\ nst' = 0 /\ faulted' = FALSE /\ bend' = "none"
  /\ commits' = 0 /\ rollbacks' = 0 /\ ccalls' = 0 /\ rcalls' = 0 /\ result' = "none"
  /\ out' = [op |-> "call", api |-> api, ctx |-> cx]

\* the call returns (or re-raises): this is where the driver compares
Return ==
  /\ phase = "ret"
  /\ phase' = "idle"
  /\ out' = [op |-> "return", result |-> result, commits |-> commits, rollbacks |-> rollbacks,
             ccalls |-> ccalls, rcalls |-> rcalls, late |-> LateCalls,
             begun |-> (tx # "none"), mayrefuse |-> DeadCtx]
  /\ UNCHANGED <<tx, nst, faulted, bend, commits, rollbacks, ccalls, rcalls, result, ncalls, ctx>>

(* ------------------------------------------------------------------ driver: Begin *)

Begin(ok) ==
  /\ phase = "begin"
  /\ IF ok THEN /\ phase' = "body" /\ tx' = "open" /\ UNCHANGED result
           ELSE /\ phase' = "ret" /\ result' = "begin" /\ UNCHANGED tx
  /\ out' = [op |-> "begin", ok |-> ok]
  /\ UNCHANGED <<nst, faulted, bend, commits, rollbacks, ccalls, rcalls, ncalls, ctx>>

\* handed a dead context, the manager may decline before anything is begun
Refuse ==
  /\ phase = "begin" /\ DeadCtx
  /\ phase' = "ret" /\ result' = "nonnil"
  /\ out' = [op |-> "refuse"]
  /\ UNCHANGED <<tx, nst, faulted, bend, commits, rollbacks, ccalls, rcalls, ncalls, ctx>>

(* ------------------------------------------------------------------ the body *)

\* the body issues one more statement through the session; the driver lets it succeed or fail
\* (under a dead context a context-bound statement cannot succeed and never reaches the driver)
Stmt(kind, ok) ==
  /\ phase = "body" /\ ~faulted /\ nst < MaxStmts
  /\ (DeadCtx => ~ok)
  /\ nst' = nst + 1 /\ faulted' = ~ok
  /\ out' = [op |-> "stmt", kind |-> kind, ok |-> ok, why |-> IF DeadCtx THEN "ctx" ELSE "driver"]
  /\ UNCHANGED <<phase, tx, bend, commits, rollbacks, ccalls, rcalls, result, ncalls, ctx>>

\* the body ends: returns nil (possibly swallowing a statement error), returns an error
\* (the failed statement's error if there was one, else its own), or panics
BodyEnd(e) ==
  /\ phase = "body"
  /\ phase' = "end" /\ bend' = e
  /\ out' = [op |-> "bodyend", how |-> e, cancel |-> (ctx = "bodycancel")]
  /\ UNCHANGED <<tx, nst, faulted, commits, rollbacks, ccalls, rcalls, result, ncalls, ctx>>

\* handed a dead context, the manager may also begin, not run the body at all and roll back
SkipBody ==
  /\ phase = "body" /\ DeadCtx /\ nst = 0
  /\ phase' = "end" /\ bend' = "skipped"
  /\ out' = [op |-> "skipbody"]
  /\ UNCHANGED <<tx, nst, faulted, commits, rollbacks, ccalls, rcalls, result, ncalls, ctx>>

(* ------------------------------------------------------------------ manager + driver: the end *)

Commit(ok) ==
  /\ phase = "end" /\ bend = "nil"
  /\ commits' = commits + 1 /\ ccalls' = ccalls + 1
  /\ tx' = IF ok THEN "committed" ELSE "commitfailed"
  /\ result' = IF ok THEN "nil" ELSE "commit"
  /\ phase' = "ret"
  /\ out' = [op |-> "commit", ok |-> ok]
  /\ UNCHANGED <<nst, faulted, bend, rollbacks, rcalls, ncalls, ctx>>

Rollback(ok) ==
  /\ phase = "end" /\ bend \in {"err", "panic", "skipped"}
  /\ rollbacks' = rollbacks + 1 /\ rcalls' = rcalls + 1
  /\ tx' = IF ok THEN "rolledback" ELSE "rollbackfailed"
  /\ result' = IF bend = "panic" THEN "learn" ELSE IF bend = "skipped" THEN "nonnil" ELSE IF ok THEN "fn" ELSE "nonnil"
  /\ phase' = "ret"
  /\ out' = [op |-> "rollback", ok |-> ok]
  /\ UNCHANGED <<nst, faulted, bend, commits, ccalls, ncalls, ctx>>

\* everything but Refuse / SkipBody: the steps a behaviour script can prescribe (TxGen.tla)
Scripted ==
  \/ \E a \in Apis, cx \in Ctxs : Call(a, cx)
  \/ \E ok \in BOOLEAN : Begin(ok)
  \/ \E k \in Kinds, ok \in BOOLEAN : Stmt(k, ok)
  \/ \E e \in Ends : BodyEnd(e)
  \/ \E ok \in BOOLEAN : Commit(ok)
  \/ \E ok \in BOOLEAN : Rollback(ok)
  \/ Return

Next == Scripted \/ Refuse \/ SkipBody

Spec == Init /\ [][Next]_vars

(* ------------------------------------------------------------------ the property *)

Returned == phase \in {"ret", "idle"} /\ ncalls > 0

\* "a nil result always means exactly one Commit ..."
NilMeansCommitted ==
  Returned /\ result = "nil" => commits = 1 /\ rollbacks = 0 /\ tx = "committed" /\ bend = "nil"

\* "... and anything else exactly one Rollback" (once a transaction was begun and the body did
\* not return nil; a failed Commit is the remaining non-nil case and has no Rollback to make)
ElseRolledBack ==
  Returned /\ result # "nil" /\ tx # "none" /\ bend # "nil" => rollbacks = 1 /\ commits = 0

\* Commit iff the body returned nil
CommitIffNil ==
  Returned /\ tx # "none" => ((commits = 1) <=> (bend = "nil")) /\ ((rollbacks = 1) <=> (bend # "nil"))

\* never both, never twice, and no transaction is left open when the call is over
OneEnding  == commits + rollbacks <= 1
NoDangling == Returned => tx # "open"
NoTxNoEnd  == tx = "none" => commits = 0 /\ rollbacks = 0

\* the same at the session layer: the manager ends the handle it holds exactly once (a second
\* Commit/Rollback on a finished handle never reaches the driver, but it is a second Rollback all
\* the same), with the call the body's ending asks for; every such call is forwarded to the driver
OneEndingCall ==
  Returned => /\ ccalls + rcalls = (IF tx = "none" THEN 0 ELSE 1)
              /\ LateCalls = 0
              /\ (ccalls = 1 <=> (tx # "none" /\ bend = "nil"))
CallsReachDriver == commits = ccalls /\ rollbacks = rcalls

\* whatever the context: once a transaction has begun, a call that does not report success has
\* rolled it back (or failed to commit it); in particular a begun transaction whose body never ran
\* is not abandoned
BegunIsEnded == Returned /\ tx # "none" => commits + rollbacks = 1

\* a panic or an error of the body is never turned into success
FailureIsReported == Returned /\ bend \in {"err", "panic"} => result \in {"fn", "nonnil", "learn"}

\* counters move only in the manager's ending step, by one
EndsOnlyAtEnd ==
  [][(commits' # commits \/ rollbacks' # rollbacks \/ ccalls' # ccalls \/ rcalls' # rcalls) =>
        \/ out'.op = "call"
        \/ (phase = "end" /\ commits' + rollbacks' = commits + rollbacks + 1
                          /\ ccalls' + rcalls' = ccalls + rcalls + 1)]_vars

=============================================================================
