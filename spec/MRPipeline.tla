----------------------------- MODULE MRPipeline -----------------------------
(***************************************************************************)
(* Property C07 - mechanism model of lib/mr/mapreduce.go, one channel /    *)
(* atomic / once operation per step, model-checked over all interleavings  *)
(* against MRContract.tla for every scenario of the configured family.     *)
(*                                                                         *)
(* Processes (goroutines of one call):                                     *)
(*   Caller  mapReduceWithPanicChan's final select, drain(output), the     *)
(*           deferred `for range output` (ForEach: its select loop)        *)
(*   Gen     buildSource's goroutine around the user's generate function   *)
(*   Disp    executeMappers (pool tokens, failed flag, wg.Wait, close of   *)
(*           the collector, final drain(source))                           *)
(*   1..n    the mapper goroutine of item i (user function, recover,       *)
(*           failed++, onceChan.write, wg.Done, <-pool)                    *)
(*   Red     the reducer goroutine (user function, drain(collector),       *)
(*           onceChan.write, finish())                                     *)
(* Shared:   source (cap 0), collector (cap workers; ForEach 0), output    *)
(*           (cap 0), done, panicChan (cap 0) + its CAS flag, pool, wg,    *)
(*           failed, retErr, the once around cancel, the once in finish,   *)
(*           the context.                                                  *)
(* Unbuffered channels are rendezvous: one step moves sender and receiver. *)
(* guardedWriter.Write is two steps (check done/ctx, then send).           *)
(* cancel = once{ retErr.Set; drain(source); finish() };                   *)
(* finish = once{ close(done); close(output) } (a second caller of a       *)
(* running sync.Once blocks until the first has finished).                 *)
(*                                                                         *)
(* pc label -> line of lib/mr/mapreduce.go AS IT WAS BEFORE commit ea11f3e *)
(* (the tree on which the blocked states were reproduced) where the        *)
(* goroutine then sits:                                                    *)
(*   c_select 237  c_drainout 243  c_defer 181  x_once 307  x_drain 207    *)
(*   f_once 195  g_send (user)  g_pw/m_pw/r_pw 352  d_select 268           *)
(*   d_recv 274  d_wait 259  d_drain 261  m_wsend 377  r_recv 221 (user    *)
(*   reducer reading the pipe)  r_wsend 377  r_defer 214  e_select 119     *)
(*                                                                         *)
(* Repairs selects the variant of the code that is modelled:               *)
(*  {}                       mapreduce.go before /repo commit ea11f3e      *)
(*                           (kept as the recorded lead: TLC must still    *)
(*                           exhibit the blocked states of the fixed leak) *)
(*  {"panicbuf","deadline"}  THE CODE UNDER TEST since commits ea11f3e     *)
(*                           and c6d89a0; checked with every invariant,    *)
(*                           Tolerate = {"rt"} (open known finding         *)
(*                           C07:result:send-on-closed-output)             *)
(*  + "outclose"             lead: the full repair (/tmp/fixes/C07-3.patch,*)
(*                           not taken); nothing needs to be tolerated     *)
(* The repairs (each validated here before it was tried on the code):      *)
(*  "panicbuf"  panicChan gets capacity 1 and onceChan.write becomes a     *)
(*     non-blocking send - the first panic is kept, later ones are dropped,*)
(*     nobody ever blocks; the caller polls panicChan once more before it  *)
(*     uses what it got from output / before ForEach returns, so that a    *)
(*     panic written before the pipeline completed is still re-raised.     *)
(*  "deadline"  when output was closed without a value and without a       *)
(*     cancel error while the context is done, the caller returns          *)
(*     DeadlineExceeded instead of ErrReduceNoOutput.                      *)
(*  "outclose"  `output` is closed only by the reducer goroutine after the *)
(*     reducer function has returned (its only sender); cancel / finish    *)
(*     close only `done`; the caller's select and its deferred loop also   *)
(*     watch `done`; guardedWriter's send becomes                          *)
(*     select { <-ctx.Done / <-done / channel <- v }; the deferred loop    *)
(*     runs only when a value was returned.  Removes the                   *)
(*     close(output)-versus-send race ("send on closed channel").          *)
(***************************************************************************)
EXTENDS MRContract

CONSTANTS Repairs,    \* subset of {"panicbuf", "deadline", "outclose"}: see the header ({"panicbuf","deadline"} = the code under test)
          Tolerate    \* subset of {"rt", "noout"}: result deviations of the model that are tolerated in ResultOK

Repair == "panicbuf" \in Repairs
RepairD == "deadline" \in Repairs
RepairO == "outclose" \in Repairs

Caller == 0
Gen  == 100
Disp == 101
Red  == 102
MaxItems == MaxN
Procs == {Caller, Gen, Disp, Red} \cup 1..MaxItems

VARIABLES sc,          \* the scenario (never changes)
          pc, cret, fret, pval,
          gi, srcClosed, pool, wg, failed, coll, collClosed, outClosed, doneClosed,
          pcWrote, pcBuf, retErr, cancelSt, finSt, ctxDone,
          res, cval, cok, cpanic,
          mapped, mk, rcnt, recv, dup, rk,
          eacc         \* history variable: retErr at the moment the caller's select accepted a reducer value

vars == <<sc, pc, cret, fret, pval, gi, srcClosed, pool, wg, failed, coll, collClosed, outClosed, doneClosed,
          pcWrote, pcBuf, retErr, cancelSt, finSt, ctxDone, res, cval, cok, cpanic, mapped, mk, rcnt, recv, dup, rk, eacc>>

NoRes == [kind |-> "none", val |-> ""]
RNextW(k) == IF k < sc.rw THEN "r_wchk" ELSE "r_end"
CollCap == IF IsFE(sc) THEN 0 ELSE sc.workers
GenLimit == IF sc.genk >= 0 THEN sc.genk ELSE sc.n
WTarget(i) == CASE sc.mb[i] = "w1" -> 1 [] sc.mb[i] = "w2" -> 2 [] OTHER -> 0
CallerReturned == pc[Caller] = "done"
MErr(p) == IF p = Caller THEN "DEADLINE" ELSE IF p = Red THEN "ER" ELSE ErrOf(sc, p)

Init ==
  /\ IsScenario(sc)
  /\ pc = [p \in Procs |->
             CASE p = Caller -> IF IsFE(sc) THEN "e_select" ELSE "c_select"
               [] p = Gen -> "g_send"
               [] p = Disp -> "d_loop"
               [] p = Red -> IF IsFE(sc) THEN "done" ELSE IF sc.rstop = 0 THEN RNextW(0) ELSE "r_recv"
               [] OTHER -> "idle"]
  /\ cret = [p \in Procs |-> ""] /\ fret = [p \in Procs |-> ""] /\ pval = [p \in Procs |-> ""]
  /\ gi = 1 /\ srcClosed = FALSE /\ pool = 0 /\ wg = 0 /\ failed = 0
  /\ coll = <<>> /\ collClosed = FALSE /\ outClosed = FALSE /\ doneClosed = FALSE
  /\ pcWrote = FALSE /\ pcBuf = <<>> /\ retErr = "" /\ cancelSt = "idle" /\ finSt = "idle"
  /\ ctxDone = (sc.ctx = "before")
  /\ res = NoRes /\ cval = "" /\ cok = FALSE /\ cpanic = ""
  /\ mapped = [i \in 1..MaxItems |-> 0] /\ mk = [i \in 1..MaxItems |-> 0]
  /\ rcnt = 0 /\ recv = {} /\ dup = FALSE /\ rk = 0 /\ eacc = ""

Go(p, l) == pc' = [pc EXCEPT ![p] = l]
MAfterWrite(i, k) == IF k = WTarget(i) THEN "m_exit" ELSE "m_wchk"

\* ---------------------------------------------------------------- context
CtxFire == /\ sc.ctx = "during" /\ ~ctxDone /\ ctxDone' = TRUE
           /\ UNCHANGED <<sc, eacc, pc, cret, fret, pval, gi, srcClosed, pool, wg, failed, coll, collClosed, outClosed, doneClosed,
                          pcWrote, pcBuf, retErr, cancelSt, finSt, res, cval, cok, cpanic, mapped, mk, rcnt, recv, dup, rk>>

\* ---------------------------------------------------------------- source (cap 0)
SrcRecvPcs == {"d_recv", "d_drain", "x_drain"}

\* where the mapper goroutine of item i starts (the user function's first visible operation)
MFirst(i) == CASE sc.mb[i] = "w0" -> "m_exit"
               [] sc.mb[i] \in {"w1", "w2"} -> "m_wchk"
               [] sc.mb[i] \in {"cancelE", "cancelNil"} -> "x_once"
               [] sc.mb[i] = "panic" -> "m_fail"
               [] OTHER -> "m_late"

\* generator hands item gi to a process that is receiving from source
SrcHandoff(p) ==
  /\ pc[Gen] = "g_send" /\ gi <= GenLimit /\ pc[p] \in SrcRecvPcs
  /\ gi' = gi + 1
  /\ IF pc[p] = "d_recv"
       THEN /\ wg' = wg + 1                                  \* wg.Add(1); go func() {...}
            /\ mapped' = [mapped EXCEPT ![gi] = @ + 1]
            /\ pc' = [pc EXCEPT ![p] = "d_loop", ![gi] = MFirst(gi)]
            /\ cret' = [cret EXCEPT ![gi] = "m_exit"]
            /\ pval' = [pval EXCEPT ![gi] = IF sc.mb[gi] \in {"panic", "latepanic"} THEN PanOf(gi) ELSE ""]
       ELSE UNCHANGED <<wg, mapped, pc, cret, pval>>         \* drained
  /\ UNCHANGED <<sc, eacc, fret, srcClosed, pool, failed, coll, collClosed, outClosed, doneClosed,
                 pcWrote, pcBuf, retErr, cancelSt, finSt, ctxDone, res, cval, cok, cpanic, mk, rcnt, recv, dup, rk>>

SrcClosedRecv(p) ==
  /\ srcClosed /\ pc[p] \in SrcRecvPcs
  /\ pc' = [pc EXCEPT ![p] = CASE pc[p] = "d_recv" -> "d_wait" [] pc[p] = "d_drain" -> "done" [] OTHER -> "f_once"]
  /\ pool' = IF pc[p] = "d_recv" THEN pool - 1 ELSE pool     \* `<-pool` before returning (nobody else looks at it any more)
  /\ fret' = IF pc[p] = "x_drain" THEN [fret EXCEPT ![p] = "x_ret"] ELSE fret
  /\ UNCHANGED <<sc, eacc, cret, pval, gi, srcClosed, wg, failed, coll, collClosed, outClosed, doneClosed,
                 pcWrote, pcBuf, retErr, cancelSt, finSt, ctxDone, res, cval, cok, cpanic, mapped, mk, rcnt, recv, dup, rk>>

\* the user's generate function returns or panics
GenEnd ==
  /\ pc[Gen] = "g_send" /\ gi > GenLimit
  /\ IF sc.genk >= 0 THEN /\ pval' = [pval EXCEPT ![Gen] = "PGEN"] /\ Go(Gen, "g_cas")
                     ELSE /\ UNCHANGED pval /\ Go(Gen, "g_close")
  /\ UNCHANGED <<sc, eacc, cret, fret, gi, srcClosed, pool, wg, failed, coll, collClosed, outClosed, doneClosed,
                 pcWrote, pcBuf, retErr, cancelSt, finSt, ctxDone, res, cval, cok, cpanic, mapped, mk, rcnt, recv, dup, rk>>

GenClose ==
  /\ pc[Gen] = "g_close" /\ srcClosed' = TRUE /\ Go(Gen, "done")
  /\ UNCHANGED <<sc, eacc, cret, fret, pval, gi, pool, wg, failed, coll, collClosed, outClosed, doneClosed,
                 pcWrote, pcBuf, retErr, cancelSt, finSt, ctxDone, res, cval, cok, cpanic, mapped, mk, rcnt, recv, dup, rk>>

\* ---------------------------------------------------------------- onceChan.write
CasPcs == {"g_cas", "m_cas", "r_cas"}
PwPcs  == {"g_pw", "m_pw", "r_pw"}
PwOf(l) == CASE l = "g_cas" -> "g_pw" [] l = "m_cas" -> "m_pw" [] OTHER -> "r_pw"
AfterPw(l) == CASE l \in {"g_cas", "g_pw"} -> "g_close" [] l \in {"m_cas", "m_pw"} -> "m_exit" [] OTHER -> "r_finish"

Cas(p) ==   \* as is: atomic.CompareAndSwapInt32(&c.wrote, 0, 1), the winner then sends (blocking, g_pw/m_pw/r_pw)
  /\ ~Repair /\ pc[p] \in CasPcs
  /\ IF pcWrote THEN /\ Go(p, AfterPw(pc[p])) /\ UNCHANGED pcWrote
                ELSE /\ pcWrote' = TRUE /\ Go(p, PwOf(pc[p]))
  /\ UNCHANGED <<sc, eacc, cret, fret, pval, gi, srcClosed, pool, wg, failed, coll, collClosed, outClosed, doneClosed,
                 pcBuf, retErr, cancelSt, finSt, ctxDone, res, cval, cok, cpanic, mapped, mk, rcnt, recv, dup, rk>>

PwBuffered(p) ==   \* Repair: select { case c.channel <- v: default: } on a channel of capacity 1 - one atomic step
  /\ Repair /\ pc[p] \in CasPcs
  /\ pcBuf' = IF pcBuf = <<>> THEN <<pval[p]>> ELSE pcBuf
  /\ Go(p, AfterPw(pc[p]))
  /\ UNCHANGED <<sc, eacc, cret, fret, pval, gi, srcClosed, pool, wg, failed, coll, collClosed, outClosed, doneClosed,
                 pcWrote, retErr, cancelSt, finSt, ctxDone, res, cval, cok, cpanic, mapped, mk, rcnt, recv, dup, rk>>

\* the caller's select takes the panic value (as is: rendezvous with the blocked writer q)
CallerRecvPanic(q) ==
  /\ ~Repair /\ pc[Caller] \in {"c_select", "e_select"} /\ pc[q] \in PwPcs
  /\ IF pc[Caller] = "c_select"
       THEN /\ cpanic' = pval[q] /\ UNCHANGED res
            /\ pc' = [pc EXCEPT ![Caller] = "c_drainout", ![q] = AfterPw(pc[q])]
       ELSE /\ res' = Pan(pval[q]) /\ UNCHANGED cpanic
            /\ pc' = [pc EXCEPT ![Caller] = "done", ![q] = AfterPw(pc[q])]
  /\ UNCHANGED <<sc, eacc, cret, fret, pval, gi, srcClosed, pool, wg, failed, coll, collClosed, outClosed, doneClosed,
                 pcWrote, pcBuf, retErr, cancelSt, finSt, ctxDone, cval, cok, mapped, mk, rcnt, recv, dup, rk>>

CallerTakePanic ==   \* Repair: buffered value; also the extra polls c_prio / e_prio
  /\ Repair /\ pc[Caller] \in {"c_select", "e_select", "c_prio", "e_prio"} /\ pcBuf # <<>>
  /\ pcBuf' = <<>>
  /\ IF pc[Caller] \in {"c_select", "c_prio"}
       THEN /\ cpanic' = Head(pcBuf) /\ UNCHANGED res /\ Go(Caller, "c_drainout")
       ELSE /\ res' = Pan(Head(pcBuf)) /\ UNCHANGED cpanic /\ Go(Caller, "done")
  /\ UNCHANGED <<sc, eacc, cret, fret, pval, gi, srcClosed, pool, wg, failed, coll, collClosed, outClosed, doneClosed,
                 pcWrote, retErr, cancelSt, finSt, ctxDone, cval, cok, mapped, mk, rcnt, recv, dup, rk>>

PrioEmpty ==   \* Repair: the poll finds nothing
  /\ Repair /\ pc[Caller] \in {"c_prio", "e_prio"} /\ pcBuf = <<>>
  /\ IF pc[Caller] = "c_prio" THEN /\ Go(Caller, "c_eval") /\ UNCHANGED res
                              ELSE /\ Go(Caller, "done") /\ res' = Ret("NIL")
  /\ UNCHANGED <<sc, eacc, cret, fret, pval, gi, srcClosed, pool, wg, failed, coll, collClosed, outClosed, doneClosed,
                 pcWrote, pcBuf, retErr, cancelSt, finSt, ctxDone, cval, cok, cpanic, mapped, mk, rcnt, recv, dup, rk>>

\* ---------------------------------------------------------------- caller (MapReduce family)
CallerCtx ==   \* case <-ctx.Done(): cancel(context.DeadlineExceeded)
  /\ pc[Caller] = "c_select" /\ ctxDone
  /\ Go(Caller, "x_once") /\ cret' = [cret EXCEPT ![Caller] = "c_ctxret"]
  /\ UNCHANGED <<sc, eacc, fret, pval, gi, srcClosed, pool, wg, failed, coll, collClosed, outClosed, doneClosed,
                 pcWrote, pcBuf, retErr, cancelSt, finSt, ctxDone, res, cval, cok, cpanic, mapped, mk, rcnt, recv, dup, rk>>

CallerCtxRet ==
  /\ pc[Caller] = "c_ctxret" /\ res' = Err("DEADLINE") /\ Go(Caller, IF RepairO THEN "done" ELSE "c_defer")
  /\ UNCHANGED <<sc, eacc, cret, fret, pval, gi, srcClosed, pool, wg, failed, coll, collClosed, outClosed, doneClosed,
                 pcWrote, pcBuf, retErr, cancelSt, finSt, ctxDone, cval, cok, cpanic, mapped, mk, rcnt, recv, dup, rk>>

\* output (cap 0): the reducer's guarded send meets one of the caller's three receive sites
OutHandoff ==
  /\ pc[Red] = "r_wsend" /\ ~outClosed /\ pc[Caller] \in {"c_select", "c_drainout", "c_defer"}
  /\ rk' = rk + 1
  /\ CASE pc[Caller] = "c_select" ->
            /\ cval' = "R" \o ToString(rk + 1) /\ cok' = TRUE /\ UNCHANGED res
            /\ eacc' = retErr      \* history: what cancel had recorded when the value was accepted
            /\ pc' = [pc EXCEPT ![Caller] = IF Repair THEN "c_prio" ELSE "c_eval", ![Red] = RNextW(rk + 1)]
       [] pc[Caller] = "c_drainout" ->
            /\ UNCHANGED <<cval, cok, res, eacc>>
            /\ pc' = [pc EXCEPT ![Red] = RNextW(rk + 1)]
       [] OTHER ->    \* deferred `for range output { panic(...) }`
            /\ UNCHANGED <<cval, cok, eacc>> /\ res' = Pan("FOREIGN")
            /\ pc' = [pc EXCEPT ![Caller] = "done", ![Red] = RNextW(rk + 1)]
  /\ UNCHANGED <<sc, cret, fret, pval, gi, srcClosed, pool, wg, failed, coll, collClosed, outClosed, doneClosed,
                 pcWrote, pcBuf, retErr, cancelSt, finSt, ctxDone, cpanic, mapped, mk, rcnt, recv, dup>>

OutClosedRecv ==
  /\ outClosed /\ pc[Caller] \in {"c_select", "c_drainout", "c_defer"}
  /\ CASE pc[Caller] = "c_select" ->
            /\ cok' = FALSE /\ UNCHANGED <<cval, res>> /\ Go(Caller, IF Repair THEN "c_prio" ELSE "c_eval")
       [] pc[Caller] = "c_drainout" ->
            /\ res' = Pan(cpanic) /\ UNCHANGED <<cval, cok>> /\ Go(Caller, IF RepairO THEN "done" ELSE "c_defer")
       [] OTHER ->
            /\ UNCHANGED <<cval, cok, res>> /\ Go(Caller, "done")
  /\ UNCHANGED <<sc, eacc, cret, fret, pval, gi, srcClosed, pool, wg, failed, coll, collClosed, outClosed, doneClosed,
                 pcWrote, pcBuf, retErr, cancelSt, finSt, ctxDone, cpanic, mapped, mk, rcnt, recv, dup, rk>>

CallerEval ==   \* retErr.Load() decides what the received value means
  /\ pc[Caller] = "c_eval"
  /\ res' = IF retErr # "" THEN Err(retErr)
            ELSE IF cok THEN Ret(cval)
            ELSE IF RepairD /\ ctxDone THEN Err("DEADLINE")   \* repair "deadline": ctx.Err() # nil
            ELSE Err("NOOUTPUT")
  \* "outclose": the deferred double-write detection runs only after a value was taken as the result
  /\ Go(Caller, IF RepairO /\ (retErr # "" \/ ~cok) THEN "done" ELSE "c_defer")
  /\ UNCHANGED <<sc, eacc, cret, fret, pval, gi, srcClosed, pool, wg, failed, coll, collClosed, outClosed, doneClosed,
                 pcWrote, pcBuf, retErr, cancelSt, finSt, ctxDone, cval, cok, cpanic, mapped, mk, rcnt, recv, dup, rk>>

\* ---------------------------------------------------------------- caller (ForEach)
ForEachCollClosed ==
  /\ pc[Caller] = "e_select" /\ collClosed
  /\ IF Repair THEN /\ Go(Caller, "e_prio") /\ UNCHANGED res
               ELSE /\ Go(Caller, "done") /\ res' = Ret("NIL")
  /\ UNCHANGED <<sc, eacc, cret, fret, pval, gi, srcClosed, pool, wg, failed, coll, collClosed, outClosed, doneClosed,
                 pcWrote, pcBuf, retErr, cancelSt, finSt, ctxDone, cval, cok, cpanic, mapped, mk, rcnt, recv, dup, rk>>

\* ---------------------------------------------------------------- cancel / finish (sync.Once each)
XOnce(p) ==
  /\ pc[p] = "x_once" /\ cancelSt # "run"
  /\ IF cancelSt = "idle" THEN /\ cancelSt' = "run" /\ Go(p, "x_set")
                          ELSE /\ UNCHANGED cancelSt /\ Go(p, cret[p])
  /\ UNCHANGED <<sc, eacc, cret, fret, pval, gi, srcClosed, pool, wg, failed, coll, collClosed, outClosed, doneClosed,
                 pcWrote, pcBuf, retErr, finSt, ctxDone, res, cval, cok, cpanic, mapped, mk, rcnt, recv, dup, rk>>

XSet(p) ==
  /\ pc[p] = "x_set" /\ retErr' = MErr(p) /\ Go(p, "x_drain")
  /\ UNCHANGED <<sc, eacc, cret, fret, pval, gi, srcClosed, pool, wg, failed, coll, collClosed, outClosed, doneClosed,
                 pcWrote, pcBuf, cancelSt, finSt, ctxDone, res, cval, cok, cpanic, mapped, mk, rcnt, recv, dup, rk>>

XRet(p) ==
  /\ pc[p] = "x_ret" /\ cancelSt' = "done" /\ Go(p, cret[p])
  /\ UNCHANGED <<sc, eacc, cret, fret, pval, gi, srcClosed, pool, wg, failed, coll, collClosed, outClosed, doneClosed,
                 pcWrote, pcBuf, retErr, finSt, ctxDone, res, cval, cok, cpanic, mapped, mk, rcnt, recv, dup, rk>>

FOnce(p) ==
  /\ pc[p] = "f_once" /\ finSt # "run"
  /\ IF finSt = "idle" THEN /\ finSt' = "run" /\ Go(p, "f_cdone")
                       ELSE /\ UNCHANGED finSt /\ Go(p, fret[p])
  /\ UNCHANGED <<sc, eacc, cret, fret, pval, gi, srcClosed, pool, wg, failed, coll, collClosed, outClosed, doneClosed,
                 pcWrote, pcBuf, retErr, cancelSt, ctxDone, res, cval, cok, cpanic, mapped, mk, rcnt, recv, dup, rk>>

FCloseDone(p) ==
  /\ pc[p] = "f_cdone" /\ doneClosed' = TRUE
  /\ IF RepairO THEN /\ finSt' = "done" /\ Go(p, fret[p])    \* "outclose": the once closes `done` only
                 ELSE /\ UNCHANGED finSt /\ Go(p, "f_cout")
  /\ UNCHANGED <<sc, eacc, cret, fret, pval, gi, srcClosed, pool, wg, failed, coll, collClosed, outClosed,
                 pcWrote, pcBuf, retErr, cancelSt, ctxDone, res, cval, cok, cpanic, mapped, mk, rcnt, recv, dup, rk>>

RCloseOut ==   \* "outclose": the reducer goroutine, after the reducer function returned and `done` is closed
  /\ pc[Red] = "r_closeout" /\ outClosed' = TRUE /\ Go(Red, "done")
  /\ UNCHANGED <<sc, eacc, cret, fret, pval, gi, srcClosed, pool, wg, failed, coll, collClosed, doneClosed,
                 pcWrote, pcBuf, retErr, cancelSt, finSt, ctxDone, res, cval, cok, cpanic, mapped, mk, rcnt, recv, dup, rk>>

CallerSeesDone ==   \* "outclose": case <-done in the caller's select / in its deferred loop
  /\ RepairO /\ doneClosed /\ pc[Caller] \in {"c_select", "c_defer"}
  /\ IF pc[Caller] = "c_select" THEN /\ cok' = FALSE /\ Go(Caller, IF Repair THEN "c_prio" ELSE "c_eval")
                                 ELSE /\ UNCHANGED cok /\ Go(Caller, "done")
  /\ UNCHANGED <<sc, eacc, cret, fret, pval, gi, srcClosed, pool, wg, failed, coll, collClosed, outClosed, doneClosed,
                 pcWrote, pcBuf, retErr, cancelSt, finSt, ctxDone, res, cval, cpanic, mapped, mk, rcnt, recv, dup, rk>>

WriteAbandon(p) ==   \* "outclose": the blocking send of guardedWriter gives up when done / ctx is signalled
  /\ RepairO /\ (doneClosed \/ ctxDone) /\ pc[p] \in {"m_wsend", "r_wsend"}
  /\ IF p = Red THEN /\ rk' = rk + 1 /\ Go(Red, RNextW(rk + 1)) /\ UNCHANGED mk
                 ELSE /\ mk' = [mk EXCEPT ![p] = @ + 1] /\ Go(p, MAfterWrite(p, mk[p] + 1)) /\ UNCHANGED rk
  /\ UNCHANGED <<sc, eacc, cret, fret, pval, gi, srcClosed, pool, wg, failed, coll, collClosed, outClosed, doneClosed,
                 pcWrote, pcBuf, retErr, cancelSt, finSt, ctxDone, res, cval, cok, cpanic, mapped, rcnt, recv, dup>>

FCloseOut(p) ==
  /\ pc[p] = "f_cout" /\ outClosed' = TRUE /\ finSt' = "done" /\ Go(p, fret[p])
  /\ UNCHANGED <<sc, eacc, cret, fret, pval, gi, srcClosed, pool, wg, failed, coll, collClosed, doneClosed,
                 pcWrote, pcBuf, retErr, cancelSt, ctxDone, res, cval, cok, cpanic, mapped, mk, rcnt, recv, dup, rk>>

\* ---------------------------------------------------------------- executeMappers
DLoop ==
  /\ pc[Disp] = "d_loop" /\ Go(Disp, IF failed > 0 THEN "d_wait" ELSE "d_select")
  /\ UNCHANGED <<sc, eacc, cret, fret, pval, gi, srcClosed, pool, wg, failed, coll, collClosed, outClosed, doneClosed,
                 pcWrote, pcBuf, retErr, cancelSt, finSt, ctxDone, res, cval, cok, cpanic, mapped, mk, rcnt, recv, dup, rk>>

DSelect ==
  /\ pc[Disp] = "d_select"
  /\ \/ /\ (ctxDone \/ doneClosed) /\ Go(Disp, "d_wait") /\ UNCHANGED pool
     \/ /\ pool < sc.workers /\ pool' = pool + 1 /\ Go(Disp, "d_recv")
  /\ UNCHANGED <<sc, eacc, cret, fret, pval, gi, srcClosed, wg, failed, coll, collClosed, outClosed, doneClosed,
                 pcWrote, pcBuf, retErr, cancelSt, finSt, ctxDone, res, cval, cok, cpanic, mapped, mk, rcnt, recv, dup, rk>>

DWait ==
  /\ pc[Disp] = "d_wait" /\ wg = 0 /\ Go(Disp, "d_closecoll")
  /\ UNCHANGED <<sc, eacc, cret, fret, pval, gi, srcClosed, pool, wg, failed, coll, collClosed, outClosed, doneClosed,
                 pcWrote, pcBuf, retErr, cancelSt, finSt, ctxDone, res, cval, cok, cpanic, mapped, mk, rcnt, recv, dup, rk>>

DCloseColl ==
  /\ pc[Disp] = "d_closecoll" /\ collClosed' = TRUE /\ Go(Disp, "d_drain")
  /\ UNCHANGED <<sc, eacc, cret, fret, pval, gi, srcClosed, pool, wg, failed, coll, outClosed, doneClosed,
                 pcWrote, pcBuf, retErr, cancelSt, finSt, ctxDone, res, cval, cok, cpanic, mapped, mk, rcnt, recv, dup, rk>>

\* ---------------------------------------------------------------- mapper of item i
Active(i) == pc[i] \notin {"idle", "done"}    \* goroutine of item i exists (it holds a pool token until its last step)

MLate(i) ==
  /\ pc[i] = "m_late" /\ CallerReturned
  /\ Go(i, "m_fail")
  /\ UNCHANGED <<sc, eacc, cret, fret, pval, gi, srcClosed, pool, wg, failed, coll, collClosed, outClosed, doneClosed,
                 pcWrote, pcBuf, retErr, cancelSt, finSt, ctxDone, res, cval, cok, cpanic, mapped, mk, rcnt, recv, dup, rk>>

MWChk(i) ==   \* guardedWriter.Write: select { <-ctx.Done / <-done / default }
  /\ pc[i] = "m_wchk"
  /\ IF ctxDone \/ doneClosed
       THEN /\ mk' = [mk EXCEPT ![i] = @ + 1] /\ Go(i, MAfterWrite(i, mk[i] + 1))
       ELSE /\ UNCHANGED mk /\ Go(i, "m_wsend")
  /\ UNCHANGED <<sc, eacc, cret, fret, pval, gi, srcClosed, pool, wg, failed, coll, collClosed, outClosed, doneClosed,
                 pcWrote, pcBuf, retErr, cancelSt, finSt, ctxDone, res, cval, cok, cpanic, mapped, rcnt, recv, dup, rk>>

MWSend(i) ==  \* collector <- v
  /\ pc[i] = "m_wsend" /\ Len(coll) < CollCap /\ ~collClosed
  /\ coll' = Append(coll, i * 10 + mk[i] + 1)
  /\ mk' = [mk EXCEPT ![i] = @ + 1] /\ Go(i, MAfterWrite(i, mk[i] + 1))
  /\ UNCHANGED <<sc, eacc, cret, fret, pval, gi, srcClosed, pool, wg, failed, collClosed, outClosed, doneClosed,
                 pcWrote, pcBuf, retErr, cancelSt, finSt, ctxDone, res, cval, cok, cpanic, mapped, rcnt, recv, dup, rk>>

MFail(i) ==
  /\ pc[i] = "m_fail" /\ failed' = failed + 1 /\ Go(i, "m_cas")
  /\ UNCHANGED <<sc, eacc, cret, fret, pval, gi, srcClosed, pool, wg, coll, collClosed, outClosed, doneClosed,
                 pcWrote, pcBuf, retErr, cancelSt, finSt, ctxDone, res, cval, cok, cpanic, mapped, mk, rcnt, recv, dup, rk>>

MExit(i) ==
  /\ pc[i] = "m_exit" /\ wg' = wg - 1 /\ Go(i, "m_unpool")
  /\ UNCHANGED <<sc, eacc, cret, fret, pval, gi, srcClosed, pool, failed, coll, collClosed, outClosed, doneClosed,
                 pcWrote, pcBuf, retErr, cancelSt, finSt, ctxDone, res, cval, cok, cpanic, mapped, mk, rcnt, recv, dup, rk>>

MUnpool(i) ==
  /\ pc[i] = "m_unpool" /\ pool' = pool - 1 /\ Go(i, "done")
  /\ UNCHANGED <<sc, eacc, cret, fret, pval, gi, srcClosed, wg, failed, coll, collClosed, outClosed, doneClosed,
                 pcWrote, pcBuf, retErr, cancelSt, finSt, ctxDone, res, cval, cok, cpanic, mapped, mk, rcnt, recv, dup, rk>>

\* ---------------------------------------------------------------- reducer
RAfterFinish == IF RepairO THEN "r_closeout" ELSE "done"

RRecv ==
  /\ pc[Red] = "r_recv"
  /\ \/ /\ coll # <<>>
        /\ coll' = Tail(coll) /\ recv' = recv \cup {Head(coll)} /\ dup' = (dup \/ Head(coll) \in recv)
        /\ rcnt' = rcnt + 1
        /\ Go(Red, IF sc.rstop >= 0 /\ rcnt + 1 >= sc.rstop THEN RNextW(0) ELSE "r_recv")
     \/ /\ coll = <<>> /\ collClosed
        /\ UNCHANGED <<coll, recv, dup, rcnt>> /\ Go(Red, RNextW(0))
  /\ UNCHANGED <<sc, eacc, cret, fret, pval, gi, srcClosed, pool, wg, failed, collClosed, outClosed, doneClosed,
                 pcWrote, pcBuf, retErr, cancelSt, finSt, ctxDone, res, cval, cok, cpanic, mapped, mk, rk>>

RWChk ==
  /\ pc[Red] = "r_wchk"
  /\ IF ctxDone \/ doneClosed THEN /\ rk' = rk + 1 /\ Go(Red, RNextW(rk + 1))
                              ELSE /\ UNCHANGED rk /\ Go(Red, "r_wsend")
  /\ UNCHANGED <<sc, eacc, cret, fret, pval, gi, srcClosed, pool, wg, failed, coll, collClosed, outClosed, doneClosed,
                 pcWrote, pcBuf, retErr, cancelSt, finSt, ctxDone, res, cval, cok, cpanic, mapped, mk, rcnt, recv, dup>>

RSendClosed ==   \* output was closed by finish() after the check: "send on closed channel" in the reducer goroutine
  /\ pc[Red] = "r_wsend" /\ outClosed
  /\ pval' = [pval EXCEPT ![Red] = "RT"] /\ Go(Red, "r_defer")
  /\ UNCHANGED <<sc, eacc, cret, fret, gi, srcClosed, pool, wg, failed, coll, collClosed, outClosed, doneClosed,
                 pcWrote, pcBuf, retErr, cancelSt, finSt, ctxDone, res, cval, cok, cpanic, mapped, mk, rcnt, recv, dup, rk>>

REnd ==
  /\ pc[Red] = "r_end"
  /\ CASE sc.rend = "ret" -> /\ Go(Red, "r_defer") /\ UNCHANGED <<pval, cret>>
       [] sc.rend = "panic" -> /\ Go(Red, "r_defer") /\ pval' = [pval EXCEPT ![Red] = "PRED"] /\ UNCHANGED cret
       [] sc.rend = "latepanic" -> /\ Go(Red, "r_late") /\ UNCHANGED <<pval, cret>>
       [] OTHER -> /\ Go(Red, "x_once") /\ cret' = [cret EXCEPT ![Red] = "r_defer"] /\ UNCHANGED pval
  /\ UNCHANGED <<sc, eacc, fret, gi, srcClosed, pool, wg, failed, coll, collClosed, outClosed, doneClosed,
                 pcWrote, pcBuf, retErr, cancelSt, finSt, ctxDone, res, cval, cok, cpanic, mapped, mk, rcnt, recv, dup, rk>>

RLate ==
  /\ pc[Red] = "r_late" /\ CallerReturned
  /\ Go(Red, "r_defer") /\ pval' = [pval EXCEPT ![Red] = "PRED"]
  /\ UNCHANGED <<sc, eacc, cret, fret, gi, srcClosed, pool, wg, failed, coll, collClosed, outClosed, doneClosed,
                 pcWrote, pcBuf, retErr, cancelSt, finSt, ctxDone, res, cval, cok, cpanic, mapped, mk, rcnt, recv, dup, rk>>

RDefer ==   \* drain(collector); then recover -> panicChan.write; then finish()
  /\ pc[Red] = "r_defer"
  /\ \/ /\ coll # <<>> /\ coll' = Tail(coll) /\ UNCHANGED <<pc, fret>>
     \/ /\ coll = <<>> /\ collClosed /\ UNCHANGED coll
        /\ IF pval[Red] # "" THEN /\ Go(Red, "r_cas") /\ UNCHANGED fret
                             ELSE /\ Go(Red, "f_once") /\ fret' = [fret EXCEPT ![Red] = RAfterFinish]
  /\ UNCHANGED <<sc, eacc, cret, pval, gi, srcClosed, pool, wg, failed, collClosed, outClosed, doneClosed,
                 pcWrote, pcBuf, retErr, cancelSt, finSt, ctxDone, res, cval, cok, cpanic, mapped, mk, rcnt, recv, dup, rk>>

RFinish ==
  /\ pc[Red] = "r_finish" /\ Go(Red, "f_once") /\ fret' = [fret EXCEPT ![Red] = RAfterFinish]
  /\ UNCHANGED <<sc, eacc, cret, pval, gi, srcClosed, pool, wg, failed, coll, collClosed, outClosed, doneClosed,
                 pcWrote, pcBuf, retErr, cancelSt, finSt, ctxDone, res, cval, cok, cpanic, mapped, mk, rcnt, recv, dup, rk>>

\* ----------------------------------------------------------------
Step ==
  \/ CtxFire \/ GenEnd \/ GenClose
  \/ \E p \in Procs : SrcHandoff(p) \/ SrcClosedRecv(p) \/ Cas(p) \/ PwBuffered(p) \/ CallerRecvPanic(p)
                      \/ XOnce(p) \/ XSet(p) \/ XRet(p) \/ FOnce(p) \/ FCloseDone(p) \/ FCloseOut(p)
  \/ RCloseOut \/ CallerSeesDone \/ (\E p \in Procs : WriteAbandon(p))
  \/ CallerTakePanic \/ PrioEmpty \/ CallerCtx \/ CallerCtxRet \/ OutHandoff \/ OutClosedRecv \/ CallerEval
  \/ ForEachCollClosed
  \/ DLoop \/ DSelect \/ DWait \/ DCloseColl
  \/ \E i \in 1..MaxItems : MLate(i) \/ MWChk(i) \/ MWSend(i) \/ MFail(i) \/ MExit(i) \/ MUnpool(i)
  \/ RRecv \/ RWChk \/ RSendClosed \/ REnd \/ RLate \/ RDefer \/ RFinish

Spec == Init /\ [][Step]_vars
FairSpec == Spec /\ WF_vars(Step)

\* ---------------------------------------------------------------- properties
Terminal == ~ENABLED Step
AllDone == \A p \in Procs : pc[p] \in {"done", "idle"}
BlockedOnPanicWrite == \E p \in Procs : pc[p] \in PwPcs

Tolerated == (IF "rt" \in Tolerate THEN {Pan("RT")} ELSE {})
             \cup (IF "noout" \in Tolerate /\ sc.ctx # "bg" THEN {MapOut(sc.api, Err("NOOUTPUT"))} ELSE {})

\* the caller's result is one the contract allows
ResultOK == CallerReturned => MapOut(sc.api, res) \in Outcomes(sc) \cup Tolerated
\* the code before ea11f3e (Repairs = {}): the same, except in states where a goroutine sits in the blocking onceChan.write - when
\* two panics race, the loser of the CAS carries on as if its panic had been delivered, and the caller's select
\* may then take `output` although the winner is offering its panic (the winner stays blocked: LeakOnlyByPanicWrite)
ResultOKAsIs == (CallerReturned /\ ~BlockedOnPanicWrite) => MapOut(sc.api, res) \in Outcomes(sc) \cup Tolerated
\* "cancel(err) makes the call return that error": a reducer value that the caller accepted AFTER a cancel had
\* recorded its error is not returned as the result (the caller consults the recorded error after receiving)
OrderOK == (CallerReturned /\ eacc # "") => res.kind # "ret"
\* never more than `workers` mapper goroutines exist (so never more than that inside the user's function)
Bounded == Cardinality({i \in 1..MaxItems : Active(i)}) <= sc.workers
\* no item mapped twice, no value delivered twice, nothing delivered that was not written
AtMostOnce == /\ \A i \in 1..MaxItems : mapped[i] <= 1
              /\ ~dup /\ recv \subseteq Written(sc)
\* without cancellation: when everything has come to rest, every item was mapped and every value delivered
ExactlyOnce == (Terminal /\ MustMapAll(sc)) =>
                  /\ \A i \in 1..sc.n : mapped[i] = 1
                  /\ MustDeliverAll(sc) => recv = Written(sc)
\* ... and already when the call returns
ExactlyOnceAtReturn == (CallerReturned /\ MustMapAll(sc)) =>
                  /\ \A i \in 1..sc.n : mapped[i] = 1
                  /\ MustDeliverAll(sc) => recv = Written(sc)
\* nobody ever sends on the closed output channel (holds with repair "outclose")
NoSendOnClosed == pval[Red] # "RT"
\* the call returns, and no goroutine of the call is blocked forever
Returns  == Terminal => CallerReturned
LeakFree == Terminal => AllDone
\* the code before ea11f3e (Repairs = {}): every state in which something is blocked forever contains a goroutine blocked in
\* onceChan.write (mapreduce.go:352) - i.e. that send is the only root cause of leaks and hangs
LeakOnlyByPanicWrite == (Terminal /\ ~AllDone) => BlockedOnPanicWrite
\* every behaviour comes to rest (checked with FairSpec)
Termination == <>[](~ENABLED Step)

\* for counterexample reports
Blocked == {<<p, pc[p]>> : p \in {q \in Procs : pc[q] \notin {"done", "idle"}}}
\* where in lib/mr/mapreduce.go a goroutine at label l sits (see the table in the header)
LineOf(l) == CASE l = "c_select" -> 237 [] l = "c_drainout" -> 243 [] l = "c_defer" -> 181 [] l = "x_once" -> 307
               [] l = "x_drain" -> 207 [] l = "f_once" -> 195 [] l \in PwPcs -> 352 [] l = "d_select" -> 268
               [] l = "d_recv" -> 274 [] l = "d_wait" -> 259 [] l = "d_drain" -> 261 [] l = "m_wsend" -> 377
               [] l = "r_recv" -> 221 [] l \in {"r_wsend", "r_closeout"} -> 377 [] l = "r_defer" -> 214 [] l = "e_select" -> 119
               [] l \in {"m_late", "r_late"} -> -1 [] l = "g_send" -> -2 [] OTHER -> 0
BlockedLines == {LineOf(pc[p]) : p \in {q \in Procs : pc[q] \notin {"done", "idle"}}}
Brief == [scenario |-> sc, at |-> Blocked, lines |-> BlockedLines, result |-> res, retErr |-> retErr, coll |-> coll, panicBuf |-> pcBuf,
          closed |-> [source |-> srcClosed, collector |-> collClosed, done |-> doneClosed, output |-> outClosed],
          ctxDone |-> ctxDone, pool |-> pool, wg |-> wg, failed |-> failed]
=============================================================================
