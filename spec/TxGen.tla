------------------------------- MODULE TxGen -------------------------------
(***************************************************************************)
(* Behaviour generator for Tx.tla (spec -> code replay, property C11).     *)
(* A behaviour is MaxCalls complete Transact calls on one Conn; every step *)
(* of Tx.tla is recorded: "call", "begin", "stmt"*, "bodyend", "commit" or *)
(* "rollback", "return".  The environment steps tell the driver how to     *)
(* script the database driver and the body; the "return" step carries what *)
(* the caller and the database must have seen.                             *)
(***************************************************************************)
EXTENDS Tx, Json

VARIABLE hist
gvars == <<vars, hist>>

GInit == Init /\ hist = <<>>
\* Refuse / SkipBody are the implementation's choice, not the script's: the "return" step says when it is allowed
GNext == Scripted /\ bend' # "skipped" /\ hist' = Append(hist, out')
GSpec == GInit /\ [][GNext]_gvars

Emit == (phase = "idle" /\ ncalls = MaxCalls) => PrintT(ToJson(hist))
=============================================================================
