----------------------------- MODULE AuthSigGen -----------------------------
(* Case generator for AuthSig.tla (property C04). *)
EXTENDS AuthSig, Json
Emit == picked => PrintT(ToJson(out))
=============================================================================
