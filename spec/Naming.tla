------------------------------- MODULE Naming -------------------------------
(***************************************************************************)
(* Generator naming rule (property C20; tools/god/util/format/format.go,   *)
(* tools/god/util/stringx/string.go).                                      *)
(*                                                                         *)
(* TLC strings are atomic, so identifiers, templates and file names are    *)
(* sequences of *characters*, each character a one-letter string ("a",     *)
(* "B", "1", "_", "-", ...) or a named token for a non-ASCII rune ("zh" =  *)
(* U+4E2D, "di" = U+0131 dotless i, "ta" = U+0250 turned a, "ls" = U+017F  *)
(* long s, "Id" = U+0130 dotted capital I, "ax" = U+2C65 a with stroke);   *)
(* the Go driver only maps tokens to runes and concatenates.  Casing is    *)
(* given by the explicit table Letters (lower, upper) - characters outside *)
(* the table have no case and are no spelling of any letter of the two     *)
(* template words: "de<ls>igner" is not the word 'designer', whatever a    *)
(* Unicode case mapping makes of U+017F.                                   *)
(*                                                                         *)
(* The state is the identifier under construction (one character is added  *)
(* per step, so the reachable states are exactly the identifiers up to     *)
(* MaxLen over IdChars); `out` holds what the statement promises for it:   *)
(* the rendered file name (or "rejected") for every template of Templates, *)
(* whether the camel/snake round trip is promised, and the snake / camel   *)
(* form where the conventional conversion is defined.                      *)
(*                                                                         *)
(* Via = "direct": the template is handed to FileNamingFormat as it is.    *)
(* Via = "config": the template goes the way of the generators' --style    *)
(* flag, through config.NewConfig: no template at all (the empty one)      *)
(* stands for the default "godesigner", every other template is the        *)
(* template - white space included, so a prefix/suffix of blanks is        *)
(* rendered and a blank template lacks both words and is rejected.         *)
(*                                                                         *)
(* Further tokens: white space "sp" " ", "tb" TAB, "nl" LF, "nb" U+00A0,   *)
(* "is" U+3000; letters with a case mapping of another UTF-8 length, used  *)
(* by the conversion families only: "Ax" U+023A / "ax" U+2C65, "Tx" U+023E *)
(* / "tx" U+2C66 (lower case one byte longer), "Ee" U+00C9 / "ee" U+00E9   *)
(* (same length), "Id" U+0130 -> "i", "Kv" U+212A -> "k" (shorter);        *)
(* "xff", "xc3" = the single bytes 0xFF / 0xC3, which are no UTF-8: they   *)
(* are characters without case that no rule touches (an implementation may *)
(* keep the byte or put U+FFFD in its place - the driver compares modulo   *)
(* that replacement).                                                      *)
(***************************************************************************)
EXTENDS Integers, Sequences, FiniteSets, SequencesExt, FiniteSetsExt, TLC

CONSTANTS IdChars,     \* characters offered to identifiers
          MaxLen,      \* longest identifier
          Templates,   \* sequence of templates (each a sequence of characters)
          Via          \* "direct" | "config": how a template reaches FileNamingFormat

VARIABLES id, out
vars == <<id, out>>

(* ------------------------------------------------------------ characters *)

Letters == {<<"a", "A">>, <<"b", "B">>, <<"c", "C">>, <<"d", "D">>, <<"e", "E">>, <<"g", "G">>, <<"i", "I">>,
            <<"n", "N">>, <<"o", "O">>, <<"r", "R">>, <<"s", "S">>, <<"x", "X">>, <<"y", "Y">>, <<"z", "Z">>}
IsLower(c) == \E p \in Letters : p[1] = c
IsUpper(c) == \E p \in Letters : p[2] = c
Up(c)  == IF IsLower(c) THEN (CHOOSE p \in Letters : p[1] = c)[2] ELSE c
Low(c) == IF IsUpper(c) THEN (CHOOSE p \in Letters : p[2] = c)[1] ELSE c
UpSeq(s)  == [i \in 1..Len(s) |-> Up(s[i])]
LowSeq(s) == [i \in 1..Len(s) |-> Low(s[i])]
TitleSeq(s) == IF s = <<>> THEN <<>> ELSE <<Up(s[1])>> \o LowSeq(Tail(s))

IsDigit(c) == c \in {"0", "1", "2", "3", "4", "5", "6", "7", "8", "9"}

WhiteSpace == {"sp", "tb", "nl", "nb", "is"}
InvalidBytes == {"xff", "xc3"}
HasSpace(s) == \E i \in 1..Len(s) : s[i] \in WhiteSpace
HasInvalid(s) == \E i \in 1..Len(s) : s[i] \in InvalidBytes

\* Unicode letters beyond the ASCII table, for the camel/snake conversions (which cut before every
\* upper-case *letter*, not only before A-Z): (lower, upper) pairs, and upper-case letters whose lower-case
\* form is an ASCII letter.  The UTF-8 length of the two forms differs except for ee/Ee.
ULetters == {<<"ax", "Ax">>, <<"tx", "Tx">>, <<"ee", "Ee">>}
UToAscii == {<<"i", "Id">>, <<"k", "Kv">>}
IsUpperU(c) == IsUpper(c) \/ \E p \in ULetters \cup UToAscii : p[2] = c
IsLowerU(c) == IsLower(c) \/ \E p \in ULetters : p[1] = c
LowU(c) == IF \E p \in ULetters \cup UToAscii : p[2] = c
             THEN (CHOOSE p \in ULetters \cup UToAscii : p[2] = c)[1] ELSE Low(c)
UpU(c)  == IF \E p \in ULetters : p[1] = c THEN (CHOOSE p \in ULetters : p[1] = c)[2] ELSE Up(c)
LowUSeq(s) == [i \in 1..Len(s) |-> LowU(s[i])]
\* the lower-case form of the identifier is longer in bytes than the identifier (coverage report)
Grows(s) == \E i \in 1..Len(s) : s[i] \in {"Ax", "Tx"}

(* ------------------------------------------------------------ identifier -> words *)

\* "split at underscores and before upper-case letters": a word starts at every character that
\* is not an underscore and is the first one, follows an underscore, or is upper-case; it runs up
\* to the next underscore / upper-case letter / end.  Empty words do not exist by construction.
Breaks(s, i) == s[i] = "_" \/ IsUpper(s[i])
Starts(s) == {i \in 1..Len(s) : s[i] # "_" /\ (i = 1 \/ s[i - 1] = "_" \/ IsUpper(s[i]))}
EndOf(s, i) == CHOOSE j \in i..Len(s) :
                 /\ \A k \in (i + 1)..j : ~Breaks(s, k)
                 /\ j = Len(s) \/ Breaks(s, j + 1)
Words(s) == LET ss == SetToSortSeq(Starts(s), <)
            IN [n \in 1..Len(ss) |-> SubSeq(s, ss[n], EndOf(s, ss[n]))]

\* a word that starts with a digit and goes on with letters ("2fa", "1st"): its first character has no
\* case, so its title casing is the word itself (used by the generators to report what they covered)
DigitLed(w) == Len(w) >= 2 /\ IsDigit(w[1]) /\ \E k \in 2..Len(w) : IsLower(w[k])

(* ------------------------------------------------------------ template -> style *)

GoWord == <<"G", "O">>
DesignerWord == <<"D", "E", "S", "I", "G", "N", "E", "R">>

OccursAt(w, s, i) == i + Len(w) - 1 <= Len(s) /\ \A j \in 1..Len(w) : s[i + j - 1] = w[j]
\* first occurrence of word w (given in upper case) in s, in any casing; 0 if none
FirstIndex(w, s) == LET I == {i \in 1..Len(s) : OccursAt(w, UpSeq(s), i)}
                    IN IF I = {} THEN 0 ELSE Min(I)

StyleOf(w) == IF w = LowSeq(w) THEN "lower"
              ELSE IF w = UpSeq(w) THEN "upper"
              ELSE IF w = TitleSeq(w) THEN "title"
              ELSE "mixed"

Parse(t) ==
  LET ig == FirstIndex(GoWord, t)
      dg == FirstIndex(DesignerWord, t)
  IN IF ig = 0 \/ dg = 0 \/ ig > dg
       THEN [valid |-> FALSE, why |-> IF ig = 0 \/ dg = 0 THEN "missing" ELSE "order"]
     ELSE LET gs == StyleOf(SubSeq(t, ig, ig + 1))
              ds == StyleOf(SubSeq(t, dg, dg + 7))
          IN IF gs = "mixed" \/ ds = "mixed"
               THEN [valid |-> FALSE, why |-> "mixed"]
             ELSE [valid |-> TRUE, gs |-> gs, ds |-> ds,
                   prefix |-> SubSeq(t, 1, ig - 1),
                   through |-> SubSeq(t, ig + 2, dg - 1),
                   suffix |-> SubSeq(t, dg + 8, Len(t))]

Cased(w, style) == CASE style = "lower" -> LowSeq(w)
                     [] style = "upper" -> UpSeq(w)
                     [] style = "title" -> TitleSeq(w)

JoinWith(ws, sep) == FlattenSeq([i \in 1..Len(ws) |-> IF i = 1 THEN ws[i] ELSE sep \o ws[i]])

\* the file name the statement promises, or "rejected"
Render(t, s) ==
  LET p == Parse(t)
  IN IF ~p.valid THEN [e |-> TRUE]
     ELSE LET ws == Words(s)
              cs == [i \in 1..Len(ws) |-> Cased(ws[i], IF i = 1 THEN p.gs ELSE p.ds)]
          IN [e |-> FALSE, s |-> p.prefix \o JoinWith(cs, p.through) \o p.suffix]

(* ------------------------------------------------------------ through the generators' configuration *)

DefaultTemplate == <<"g", "o", "d", "e", "s", "i", "g", "n", "e", "r">>
\* the template FileNamingFormat is given: config.NewConfig turns "no template" into the default and leaves
\* every other template alone
Effective(t) == IF Via = "config" /\ t = <<>> THEN DefaultTemplate ELSE t
\* (TLC passes operator arguments by name: the effective template is bound to its value once per pair)
Promise(t, s) == CHOOSE r \in {Render(e, s) : e \in {Effective(t)}} : TRUE

IsBlank(t) == t # <<>> /\ \A i \in 1..Len(t) : t[i] \in WhiteSpace

(* ------------------------------------------------------------ camel / snake *)

\* identifiers for which the round trip is promised: lower-case ASCII words separated by
\* single underscores (the empty identifier has no words and is included)
IsSnakeId(s) ==
  /\ \A i \in 1..Len(s) : IsLower(s[i]) \/ s[i] = "_"
  /\ s # <<>> => s[1] # "_" /\ s[Len(s)] # "_"
  /\ \A i \in 1..(Len(s) - 1) : ~(s[i] = "_" /\ s[i + 1] = "_")

\* the conventional conversions on that domain (used only to show that the promise is
\* satisfiable: RoundTripModel below; the code is compared on the round trip itself)
PartsBy(s, isBreak(_), keep) ==
  LET st == {i \in 1..Len(s) : (keep \/ ~isBreak(s[i])) /\ (i = 1 \/ isBreak(s[i]) \/ (~keep /\ isBreak(s[i - 1])))}
      en(i) == CHOOSE j \in i..Len(s) : (\A k \in (i + 1)..j : ~isBreak(s[k])) /\ (j = Len(s) \/ isBreak(s[j + 1]))
      ss == SetToSortSeq(st, <)
  IN [n \in 1..Len(ss) |-> SubSeq(s, ss[n], en(ss[n]))]
Camel(s) == LET ps == PartsBy(s, LAMBDA c : c = "_", FALSE)
            IN FlattenSeq([i \in 1..Len(ps) |-> <<Up(ps[i][1])>> \o Tail(ps[i])])
Snake(s) == LET ps == PartsBy(s, IsUpper, TRUE)
            IN JoinWith([i \in 1..Len(ps) |-> LowSeq(ps[i])], <<"_">>)

\* the same conventional conversions over all letters of the model (ASCII and ULetters/UToAscii); on ASCII
\* identifiers they are Camel / Snake
CamelU(s) == LET ps == PartsBy(s, LAMBDA c : c = "_", FALSE)
             IN FlattenSeq([i \in 1..Len(ps) |-> <<UpU(ps[i][1])>> \o Tail(ps[i])])
SnakeU(s) == LET ps == PartsBy(s, IsUpperU, TRUE)
             IN JoinWith([i \in 1..Len(ps) |-> LowUSeq(ps[i])], <<"_">>)

\* where the conventional conversion says what comes out ("these conversions never fail ... on any string":
\* no letter is lost, nothing is cut off).  Snake: every string without white space (a blank string has no
\* words; what a word is next to a blank is not fixed).  Camel: additionally every underscore-separated part
\* begins with a letter and consists of letters and digits (the title casing of a part that begins with a
\* digit or contains another character is not fixed by the statement).
PlainPart(w) == /\ IsUpperU(w[1]) \/ IsLowerU(w[1])
                /\ \A k \in 1..Len(w) : IsUpperU(w[k]) \/ IsLowerU(w[k]) \/ IsDigit(w[k])
SnakePromise(s) == IF HasSpace(s) THEN [d |-> FALSE] ELSE [d |-> TRUE, s |-> SnakeU(s)]
CamelPromise(s) == LET ps == PartsBy(s, LAMBDA c : c = "_", FALSE)
                   IN IF HasSpace(s) \/ \E n \in 1..Len(ps) : ~PlainPart(ps[n])
                        THEN [d |-> FALSE] ELSE [d |-> TRUE, s |-> CamelU(s)]

(* ------------------------------------------------------------ behaviour *)

Observe(s) == [id |-> s,
               names |-> [k \in 1..Len(Templates) |-> Promise(Templates[k], s)],
               rt |-> IsSnakeId(s),
               sn |-> SnakePromise(s),
               cm |-> CamelPromise(s)]

Init == id = <<>> /\ out = Observe(<<>>)

Extend(c) ==
  /\ Len(id) < MaxLen
  /\ id' = Append(id, c)
  /\ out' = Observe(id')

Next == \E c \in IdChars : Extend(c)
Spec == Init /\ [][Next]_vars

(* ------------------------------------------------------------ properties of the rule *)

NoUnderscore(s) == SelectSeq(s, LAMBDA c : c # "_")

\* the words are exactly the identifier without its underscores, cut into non-empty pieces that
\* contain an upper-case letter only at their first position, and no cut is missing
WordsPartition ==
  LET ws == Words(id)
  IN /\ FlattenSeq(ws) = NoUnderscore(id)
     /\ \A n \in 1..Len(ws) :
          /\ ws[n] # <<>>
          /\ \A k \in 1..Len(ws[n]) : ws[n][k] # "_" /\ (k > 1 => ~IsUpper(ws[n][k]))
     /\ Len(ws) = Cardinality(Starts(id))

\* rendering only changes casing and inserts the template's texts
RenderShape ==
  \A k \in 1..Len(Templates) :
    LET p == Parse(Effective(Templates[k]))
        r == out.names[k]
        ws == Words(id)
    IN IF ~p.valid THEN r.e
       ELSE /\ ~r.e
            /\ Len(r.s) = Len(p.prefix) + Len(p.suffix) + Len(NoUnderscore(id))
                          + (IF Len(ws) > 0 THEN (Len(ws) - 1) * Len(p.through) ELSE 0)
            /\ SubSeq(r.s, 1, Len(p.prefix)) = p.prefix
            /\ SubSeq(r.s, Len(r.s) - Len(p.suffix) + 1, Len(r.s)) = p.suffix
            /\ (p.through = <<>> =>
                  UpSeq(SubSeq(r.s, Len(p.prefix) + 1, Len(r.s) - Len(p.suffix))) = UpSeq(NoUnderscore(id)))

\* a valid template is put together again from its parsed pieces
ParseRebuilds ==
  \A k \in 1..Len(Templates) :
    LET t == Templates[k]
        p == Parse(t)
    IN p.valid =>
         /\ UpSeq(t) = UpSeq(p.prefix) \o GoWord \o UpSeq(p.through) \o DesignerWord \o UpSeq(p.suffix)
         /\ FirstIndex(GoWord, p.prefix) = 0

\* the camel/snake promise is satisfiable by the conventional conversions
RoundTripModel == IsSnakeId(id) => Snake(Camel(id)) = id

\* the conversions over all letters agree with the ASCII ones on the round-trip domain, lose no character
\* (the snake form is the identifier, lower-cased, plus one underscore per cut) and keep the round trip
ConversionShape ==
  /\ IsSnakeId(id) => CamelU(id) = Camel(id) /\ SnakeU(CamelU(id)) = id
  /\ LET sn == SnakePromise(id)
     IN sn.d => /\ SelectSeq(sn.s, LAMBDA c : c # "_") = LowUSeq(NoUnderscore(id))
                /\ Len(sn.s) = Len(id) + Cardinality({i \in 2..Len(id) : IsUpperU(id[i])})
  /\ LET cm == CamelPromise(id)
     IN cm.d => /\ Len(cm.s) = Len(NoUnderscore(id))
                /\ LowUSeq(cm.s) = LowUSeq(NoUnderscore(id))

\* through the configuration a template is the template: only "no template" is replaced (by the default), so
\* white space around the two words is rendered and a blank template is rejected
ConfigPassThrough ==
  Via = "config" =>
    \A k \in 1..Len(Templates) :
      LET t == Templates[k]
      IN /\ t # <<>> => out.names[k] = Render(t, id)
         /\ t = <<>> => out.names[k] = Render(DefaultTemplate, id) /\ ~out.names[k].e
         /\ IsBlank(t) => out.names[k].e

\* the result is a function of (template, identifier): re-evaluating gives the same value
Deterministic == out = Observe(id)

=============================================================================
