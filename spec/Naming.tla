------------------------------- MODULE Naming -------------------------------
(***************************************************************************)
(* Generator naming rule (property C20; tools/god/util/format/format.go,   *)
(* tools/god/util/stringx/string.go).                                      *)
(*                                                                         *)
(* TLC strings are atomic, so identifiers, templates and file names are    *)
(* sequences of *characters*, each character a one-letter string ("a",     *)
(* "B", "1", "_", "-", ...) or a named token for a non-ASCII rune ("zh" =  *)
(* U+4E2D, "di" = U+0131 dotless i, "ta" = U+0250 turned a, "ls" = U+017F  *)
(* long s, "Id" = U+0130 dotted capital I, "ax" = U+2C65 a with stroke);   *)
(* the Go driver only maps tokens to runes and concatenates.  Casing is    *)
(* given by the explicit table Letters (lower, upper) - characters outside *)
(* the table have no case and are no spelling of any letter of the two     *)
(* template words: "de<ls>igner" is not the word 'designer', whatever a    *)
(* Unicode case mapping makes of U+017F.                                   *)
(*                                                                         *)
(* The state is the identifier under construction (one character is added  *)
(* per step, so the reachable states are exactly the identifiers up to     *)
(* MaxLen over IdChars); `out` holds what the statement promises for it:   *)
(* the rendered file name (or "rejected") for every template of Templates, *)
(* and whether the camel/snake round trip is promised.                     *)
(***************************************************************************)
EXTENDS Integers, Sequences, FiniteSets, SequencesExt, FiniteSetsExt, TLC

CONSTANTS IdChars,     \* characters offered to identifiers
          MaxLen,      \* longest identifier
          Templates    \* sequence of templates (each a sequence of characters)

VARIABLES id, out
vars == <<id, out>>

(* ------------------------------------------------------------ characters *)

Letters == {<<"a", "A">>, <<"b", "B">>, <<"c", "C">>, <<"d", "D">>, <<"e", "E">>, <<"g", "G">>, <<"i", "I">>,
            <<"n", "N">>, <<"o", "O">>, <<"r", "R">>, <<"s", "S">>, <<"x", "X">>, <<"y", "Y">>, <<"z", "Z">>}
IsLower(c) == \E p \in Letters : p[1] = c
IsUpper(c) == \E p \in Letters : p[2] = c
Up(c)  == IF IsLower(c) THEN (CHOOSE p \in Letters : p[1] = c)[2] ELSE c
Low(c) == IF IsUpper(c) THEN (CHOOSE p \in Letters : p[2] = c)[1] ELSE c
UpSeq(s)  == [i \in 1..Len(s) |-> Up(s[i])]
LowSeq(s) == [i \in 1..Len(s) |-> Low(s[i])]
TitleSeq(s) == IF s = <<>> THEN <<>> ELSE <<Up(s[1])>> \o LowSeq(Tail(s))

IsDigit(c) == c \in {"0", "1", "2", "3", "4", "5", "6", "7", "8", "9"}

(* ------------------------------------------------------------ identifier -> words *)

\* "split at underscores and before upper-case letters": a word starts at every character that
\* is not an underscore and is the first one, follows an underscore, or is upper-case; it runs up
\* to the next underscore / upper-case letter / end.  Empty words do not exist by construction.
Breaks(s, i) == s[i] = "_" \/ IsUpper(s[i])
Starts(s) == {i \in 1..Len(s) : s[i] # "_" /\ (i = 1 \/ s[i - 1] = "_" \/ IsUpper(s[i]))}
EndOf(s, i) == CHOOSE j \in i..Len(s) :
                 /\ \A k \in (i + 1)..j : ~Breaks(s, k)
                 /\ j = Len(s) \/ Breaks(s, j + 1)
Words(s) == LET ss == SetToSortSeq(Starts(s), <)
            IN [n \in 1..Len(ss) |-> SubSeq(s, ss[n], EndOf(s, ss[n]))]

\* a word that starts with a digit and goes on with letters ("2fa", "1st"): its first character has no
\* case, so its title casing is the word itself (used by the generators to report what they covered)
DigitLed(w) == Len(w) >= 2 /\ IsDigit(w[1]) /\ \E k \in 2..Len(w) : IsLower(w[k])

(* ------------------------------------------------------------ template -> style *)

GoWord == <<"G", "O">>
DesignerWord == <<"D", "E", "S", "I", "G", "N", "E", "R">>

OccursAt(w, s, i) == i + Len(w) - 1 <= Len(s) /\ \A j \in 1..Len(w) : s[i + j - 1] = w[j]
\* first occurrence of word w (given in upper case) in s, in any casing; 0 if none
FirstIndex(w, s) == LET I == {i \in 1..Len(s) : OccursAt(w, UpSeq(s), i)}
                    IN IF I = {} THEN 0 ELSE Min(I)

StyleOf(w) == IF w = LowSeq(w) THEN "lower"
              ELSE IF w = UpSeq(w) THEN "upper"
              ELSE IF w = TitleSeq(w) THEN "title"
              ELSE "mixed"

Parse(t) ==
  LET ig == FirstIndex(GoWord, t)
      dg == FirstIndex(DesignerWord, t)
  IN IF ig = 0 \/ dg = 0 \/ ig > dg
       THEN [valid |-> FALSE, why |-> IF ig = 0 \/ dg = 0 THEN "missing" ELSE "order"]
     ELSE LET gs == StyleOf(SubSeq(t, ig, ig + 1))
              ds == StyleOf(SubSeq(t, dg, dg + 7))
          IN IF gs = "mixed" \/ ds = "mixed"
               THEN [valid |-> FALSE, why |-> "mixed"]
             ELSE [valid |-> TRUE, gs |-> gs, ds |-> ds,
                   prefix |-> SubSeq(t, 1, ig - 1),
                   through |-> SubSeq(t, ig + 2, dg - 1),
                   suffix |-> SubSeq(t, dg + 8, Len(t))]

Cased(w, style) == CASE style = "lower" -> LowSeq(w)
                     [] style = "upper" -> UpSeq(w)
                     [] style = "title" -> TitleSeq(w)

JoinWith(ws, sep) == FlattenSeq([i \in 1..Len(ws) |-> IF i = 1 THEN ws[i] ELSE sep \o ws[i]])

\* the file name the statement promises, or "rejected"
Render(t, s) ==
  LET p == Parse(t)
  IN IF ~p.valid THEN [e |-> TRUE]
     ELSE LET ws == Words(s)
              cs == [i \in 1..Len(ws) |-> Cased(ws[i], IF i = 1 THEN p.gs ELSE p.ds)]
          IN [e |-> FALSE, s |-> p.prefix \o JoinWith(cs, p.through) \o p.suffix]

(* ------------------------------------------------------------ camel / snake *)

\* identifiers for which the round trip is promised: lower-case ASCII words separated by
\* single underscores (the empty identifier has no words and is included)
IsSnakeId(s) ==
  /\ \A i \in 1..Len(s) : IsLower(s[i]) \/ s[i] = "_"
  /\ s # <<>> => s[1] # "_" /\ s[Len(s)] # "_"
  /\ \A i \in 1..(Len(s) - 1) : ~(s[i] = "_" /\ s[i + 1] = "_")

\* the conventional conversions on that domain (used only to show that the promise is
\* satisfiable: RoundTripModel below; the code is compared on the round trip itself)
PartsBy(s, isBreak(_), keep) ==
  LET st == {i \in 1..Len(s) : (keep \/ ~isBreak(s[i])) /\ (i = 1 \/ isBreak(s[i]) \/ (~keep /\ isBreak(s[i - 1])))}
      en(i) == CHOOSE j \in i..Len(s) : (\A k \in (i + 1)..j : ~isBreak(s[k])) /\ (j = Len(s) \/ isBreak(s[j + 1]))
      ss == SetToSortSeq(st, <)
  IN [n \in 1..Len(ss) |-> SubSeq(s, ss[n], en(ss[n]))]
Camel(s) == LET ps == PartsBy(s, LAMBDA c : c = "_", FALSE)
            IN FlattenSeq([i \in 1..Len(ps) |-> <<Up(ps[i][1])>> \o Tail(ps[i])])
Snake(s) == LET ps == PartsBy(s, IsUpper, TRUE)
            IN JoinWith([i \in 1..Len(ps) |-> LowSeq(ps[i])], <<"_">>)

(* ------------------------------------------------------------ behaviour *)

Observe(s) == [id |-> s,
               names |-> [k \in 1..Len(Templates) |-> Render(Templates[k], s)],
               rt |-> IsSnakeId(s)]

Init == id = <<>> /\ out = Observe(<<>>)

Extend(c) ==
  /\ Len(id) < MaxLen
  /\ id' = Append(id, c)
  /\ out' = Observe(id')

Next == \E c \in IdChars : Extend(c)
Spec == Init /\ [][Next]_vars

(* ------------------------------------------------------------ properties of the rule *)

NoUnderscore(s) == SelectSeq(s, LAMBDA c : c # "_")

\* the words are exactly the identifier without its underscores, cut into non-empty pieces that
\* contain an upper-case letter only at their first position, and no cut is missing
WordsPartition ==
  LET ws == Words(id)
  IN /\ FlattenSeq(ws) = NoUnderscore(id)
     /\ \A n \in 1..Len(ws) :
          /\ ws[n] # <<>>
          /\ \A k \in 1..Len(ws[n]) : ws[n][k] # "_" /\ (k > 1 => ~IsUpper(ws[n][k]))
     /\ Len(ws) = Cardinality(Starts(id))

\* rendering only changes casing and inserts the template's texts
RenderShape ==
  \A k \in 1..Len(Templates) :
    LET p == Parse(Templates[k])
        r == out.names[k]
        ws == Words(id)
    IN IF ~p.valid THEN r.e
       ELSE /\ ~r.e
            /\ Len(r.s) = Len(p.prefix) + Len(p.suffix) + Len(NoUnderscore(id))
                          + (IF Len(ws) > 0 THEN (Len(ws) - 1) * Len(p.through) ELSE 0)
            /\ SubSeq(r.s, 1, Len(p.prefix)) = p.prefix
            /\ SubSeq(r.s, Len(r.s) - Len(p.suffix) + 1, Len(r.s)) = p.suffix
            /\ (p.through = <<>> =>
                  UpSeq(SubSeq(r.s, Len(p.prefix) + 1, Len(r.s) - Len(p.suffix))) = UpSeq(NoUnderscore(id)))

\* a valid template is put together again from its parsed pieces
ParseRebuilds ==
  \A k \in 1..Len(Templates) :
    LET t == Templates[k]
        p == Parse(t)
    IN p.valid =>
         /\ UpSeq(t) = UpSeq(p.prefix) \o GoWord \o UpSeq(p.through) \o DesignerWord \o UpSeq(p.suffix)
         /\ FirstIndex(GoWord, p.prefix) = 0

\* the camel/snake promise is satisfiable by the conventional conversions
RoundTripModel == IsSnakeId(id) => Snake(Camel(id)) = id

\* the result is a function of (template, identifier): re-evaluating gives the same value
Deterministic == out = Observe(id)

=============================================================================
