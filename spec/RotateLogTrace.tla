--------------------------- MODULE RotateLogTrace ---------------------------
(***************************************************************************)
(* Trace specification for C19 (code -> spec).                             *)
(*                                                                         *)
(* c19trace.ndjson is written by the Go driver (harness/c19): many write   *)
(* histories executed on the real logx.RotateLogger, concatenated; every   *)
(* history starts with an "init" event carrying the configuration and the  *)
(* directory as the logger found it.  After each Write (followed by a      *)
(* barrier: the writer goroutine and the post-rotation goroutine are idle) *)
(* and after Close the driver reads the directory back:                    *)
(*   cur, cb   record ids in the current file (a truncated or malformed    *)
(*             record shows as a negative id) and its size in bytes,       *)
(*   files     the backups, oldest first: [ts, ageh, recs, gz]; size rule: *)
(*             ts / ageh = the TRUE instant the backup stands for (start   *)
(*             of its file: the instant its name was handed out, or the    *)
(*             instant a pre-existing backup was created for) - not the    *)
(*             name decoded by the logger's own layout - in seconds        *)
(*             relative to / hours before the start of the history,        *)
(*   junk      bytes in any file that are not a complete record.           *)
(* "burst" = several writes without a barrier in between, "closeq" = Close *)
(* called with records still queued (RotateLogRel!BurstFailed).  An event  *)
(* is                                                                      *)
(* accepted iff RotateLogRel!StepFailed names no clause; then the observed *)
(* directory becomes the state.  A rejected event has no successor: the    *)
(* high-water mark of `l` (TLC register 1, -workers 1) stays below the     *)
(* length of the log and Post prints it with the clauses that failed.      *)
(***************************************************************************)
EXTENDS RotateLogRel, Json

TraceLog == ndJsonDeserialize("c19trace.ndjson")
N == Len(TraceLog)

VARIABLES l, cfg, cur, cb, bks, closed

tvars == <<l, cfg, cur, cb, bks, closed>>

NoCfg == [rule |-> "none", maxSize |-> 0, maxBackups |-> 0, days |-> 0, gzip |-> FALSE, slack |-> 0]

Garbage(e) == IF e.junk = 0 THEN {} ELSE {"garbage"}

Failed(c, k, kb, bs, cl, e) ==
  CASE e.ev = "write" ->
         (IF cl THEN {"write-after-close"} ELSE {})
         \cup StepFailed(c, k, kb, bs, e.id, e.size, e.cur, e.cb, e.files) \cup Garbage(e)
    [] e.ev = "burst" ->
         (IF cl THEN {"write-after-close"} ELSE {})
         \cup BurstFailed(c, k, bs, e.ids, TRUE, e.cur, e.cb, e.clast, e.files) \cup Garbage(e)
    [] e.ev = "closeq" ->
         BurstFailed(c, k, bs, e.ids, FALSE, e.cur, e.cb, e.clast, e.files)
    [] e.ev = "close" ->
         (IF e.cur = k /\ e.cb = kb /\ SameFiles(e.files, bs) THEN {} ELSE {"changed-by-close"}) \cup Garbage(e)
    [] e.ev = "daychange" -> {}
    [] e.ev = "init" -> {}
    [] OTHER -> {"unknown-event"}

TInit == /\ l = 0 /\ cfg = NoCfg /\ cur = << >> /\ cb = 0 /\ bks = << >> /\ closed = FALSE
         /\ TLCSet(1, 0)
         /\ TLCSet(2, <<NoCfg, << >>, 0, << >>, FALSE>>)

StartEv ==
  LET e == TraceLog[l + 1] IN
  /\ e.ev = "init"
  /\ cfg' = e.cfg /\ cur' = e.cur /\ cb' = e.cb /\ bks' = e.files /\ closed' = FALSE

ObsEv ==
  LET e == TraceLog[l + 1] IN
  /\ e.ev \in {"write", "close", "burst", "closeq"}
  /\ Failed(cfg, cur, cb, bks, closed, e) = {}
  /\ cur' = e.cur /\ cb' = e.cb /\ bks' = e.files
  /\ closed' = (e.ev \in {"close", "closeq"})
  /\ UNCHANGED cfg

DayEv == TraceLog[l + 1].ev = "daychange" /\ UNCHANGED <<cfg, cur, cb, bks, closed>>

TNext ==
  /\ l < N
  /\ (StartEv \/ ObsEv \/ DayEv)
  /\ l' = l + 1
  /\ TLCSet(1, l')
  /\ TLCSet(2, <<cfg', cur', cb', bks', closed'>>)

TSpec == TInit /\ [][TNext]_tvars

\* the backups are kept ordered by the time their name carries, names are unique
Ordered == \A i, j \in DOMAIN bks : i < j => bks[i].ts < bks[j].ts

Post ==
  LET hw == TLCGet(1)
      s  == TLCGet(2)
  IN PrintT(ToJson([hw |-> hw, n |-> N,
                    failed |-> IF hw < N THEN Failed(s[1], s[2], s[3], s[4], s[5], TraceLog[hw + 1]) ELSE {}]))
=============================================================================
