---------------------------- MODULE MemCacheTake ----------------------------
(***************************************************************************)
(* Concurrent Take on the in-memory cache (property C17), written as a     *)
(* TRACE ACCEPTOR: the module reads recorded histories (trace.ndjson, file *)
(* order = global sequence number taken by the driver) and TLC decides     *)
(* whether each history is a behaviour of the call-level contract          *)
(*                                                                         *)
(*   Take returns the cached value when present and otherwise runs the     *)
(*   fetch function at most once among concurrent callers of the same key, *)
(*   giving all of them its result and caching it only on success.         *)
(*                                                                         *)
(* The contract is a contract of ONE cache: a history may use several      *)
(* cache instances at the same time (event field c, the cache id), and     *)
(* every piece of state below - what is cached, which flight is            *)
(* registered, "a successful fetch has ended" - exists once per cache      *)
(* instance.  The callers of cache c that "share a fetch" are the callers  *)
(* of c: a Take on c can only be answered from c's entries or by a run of  *)
(* the fetch function handed to a Take on c, and whatever a Take on c      *)
(* fetched successfully is found by a later Get on c.  Nothing that        *)
(* happens on another instance is an explanation for a result on c.        *)
(*                                                                         *)
(* Logged events: inv (before the call), fb / fe (first and last statement *)
(* of the caller's fetch function, fe carries its outcome), ret (after the *)
(* call, with the returned value or error), gi / gr (before and after a    *)
(* Get, gr carries hit and value).  The histories contain only Take and    *)
(* Get calls (no Set, Del, eviction or expiry), so an entry, once cached,  *)
(* stays.                                                                  *)
(*                                                                         *)
(* Rules for the fetch function (event fb of caller p, cache c, key k):    *)
(*   F1  no flight is registered for (c,k): fetch executions of one key of *)
(*       one cache never overlap (a flight is registered from its fb until *)
(*       its owner publishes);                                             *)
(*   F2  nothing is cached for (c,k);                                      *)
(*   F3  no successful fetch of (c,k) has ENDED earlier in the history     *)
(*       (done[c][k]): fe is logged inside the fetch function, i.e. before *)
(*       the owner stores the value and before its flight is removed; a    *)
(*       later owner can only register after that removal and looks the    *)
(*       key up again, so in a correct cache no fb for (c,k) follows a     *)
(*       successful fe for (c,k).  (F3 follows from F1+F2 and the          *)
(*       placement of Finish below; it is stated on its own because it is  *)
(*       the clause "at most once among concurrent callers" for callers    *)
(*       that missed the cache before the value was stored but reached the *)
(*       flight group after the flight was removed.)                       *)
(* NOT logged, placed by TLC:                                              *)
(*   Finish(p)  the moment the flight's owner publishes: the value is      *)
(*              cached (in the owner's cache) iff the fetch succeeded, the *)
(*              flight is unregistered.                                    *)
(* What a caller that does not fetch may return: while it is invoked the   *)
(* acceptor collects its options - a value that was cached IN ITS CACHE at *)
(* some moment of the call, or the result of a flight that was registered  *)
(* FOR ITS CACHE at some moment of the call (resolved when it returns).  A *)
(* failed flight hands its callers the fetch function's own error and      *)
(* caches nothing, so a later caller has no option but to fetch.           *)
(* What a Get may return: the content of (c,k) at some moment between gi   *)
(* and gr (a miss iff nothing was cached at such a moment).  Because a     *)
(* successful Take on (c,k) returns only after (c,k) holds a value, a Get  *)
(* on c that starts after it hits.                                         *)
(* A history is accepted iff some placement of the Finish steps explains   *)
(* every logged event.  (The only nondeterminism is that placement, so the *)
(* acceptor scales to histories with dozens of concurrent callers.)        *)
(*                                                                         *)
(* Histories are concatenated; `reset` (legal only at quiescence)          *)
(* re-establishes empty caches.  Acceptance: the high-water mark of l      *)
(* (TLC register 1) reaches Len(TraceLog) + 1.                             *)
(***************************************************************************)
EXTENDS Integers, Sequences, FiniteSets, TLC, Json

TraceLog == ndJsonDeserialize("trace.ndjson")

VARIABLES l,        \* next event to consume
          cached,   \* [Caches -> [Keys -> Int]], 0 = nothing cached
          flight,   \* [Caches -> [Keys -> Nat]], id of the registered flight, 0 = none
          nf,       \* flights created so far in this history
          fres,     \* flight id -> [ok, v] once published
          done,     \* [Caches -> [Keys -> BOOLEAN]]: a successful fetch of the key has ended
          pc        \* per process call state

vars == <<l, cached, flight, nf, fres, done, pc>>

Keys == {"a", "b"}
Caches == 1..2
Procs == 0..63
Idle == [s |-> "idle"]
Ev == TraceLog[l]
Is(name) == l <= Len(TraceLog) /\ TraceLog[l].e = name
Consume == l' = l + 1
P == Ev.p
C == IF "c" \in DOMAIN Ev THEN Ev.c ELSE 1      \* histories of one cache may leave the id out

PerKey(x) == [c \in Caches |-> [k \in Keys |-> x]]

\* what a caller of cache c looking at key k right now would get without fetching
Avail(cd, fl, c, k) == IF cd[c][k] # 0 THEN {[t |-> "hit", x |-> cd[c][k]]}
                       ELSE IF fl[c][k] # 0 THEN {[t |-> "join", x |-> fl[c][k]]} ELSE {}

\* process p takes state r; every other caller waiting on key k OF CACHE c learns the options
\* `add`, every Get in progress on (c,k) the contents `see`
Update(p, r, c, k, add, see) ==
  pc' = [q \in Procs |->
           IF q = p THEN r
           ELSE IF pc[q].s = "inv" /\ pc[q].c = c /\ pc[q].k = k THEN [pc[q] EXCEPT !.opts = @ \cup add]
           ELSE IF pc[q].s = "get" /\ pc[q].c = c /\ pc[q].k = k THEN [pc[q] EXCEPT !.seen = @ \cup see]
           ELSE pc[q]]

Init ==
  /\ l = 1
  /\ cached = PerKey(0)
  /\ flight = PerKey(0)
  /\ nf = 0
  /\ fres = <<>>
  /\ done = PerKey(FALSE)
  /\ pc = [p \in Procs |-> Idle]
  /\ TLCSet(1, 1)

Reset ==
  /\ Is("reset")
  /\ \A p \in Procs : pc[p] = Idle
  /\ cached' = PerKey(0)
  /\ flight' = PerKey(0)
  /\ nf' = 0
  /\ fres' = <<>>
  /\ done' = PerKey(FALSE)
  /\ UNCHANGED pc
  /\ Consume

Inv ==
  /\ Is("inv") /\ pc[P] = Idle /\ C \in Caches
  /\ pc' = [pc EXCEPT ![P] = [s |-> "inv", c |-> C, k |-> Ev.k, opts |-> Avail(cached, flight, C, Ev.k)]]
  /\ UNCHANGED <<cached, flight, nf, fres, done>> /\ Consume

FetchBegin ==
  /\ Is("fb") /\ pc[P].s = "inv" /\ pc[P].c = C /\ pc[P].k = Ev.k
  /\ flight[C][Ev.k] = 0                 \* F1
  /\ cached[C][Ev.k] = 0                 \* F2
  /\ ~done[C][Ev.k]                      \* F3
  /\ nf' = nf + 1
  /\ flight' = [flight EXCEPT ![C][Ev.k] = nf + 1]
  /\ Update(P, [s |-> "lead", c |-> C, k |-> Ev.k, id |-> nf + 1, ph |-> "run", ok |-> FALSE, v |-> 0],
            C, Ev.k, {[t |-> "join", x |-> nf + 1]}, {})
  /\ UNCHANGED <<cached, fres, done>> /\ Consume

FetchEnd ==
  /\ Is("fe") /\ pc[P].s = "lead" /\ pc[P].ph = "run" /\ pc[P].c = C /\ pc[P].k = Ev.k
  /\ pc' = [pc EXCEPT ![P] = [@ EXCEPT !.ph = "ran", !.ok = Ev.ok, !.v = Ev.v]]
  /\ done' = [done EXCEPT ![C][Ev.k] = @ \/ Ev.ok]
  /\ UNCHANGED <<cached, flight, nf, fres>> /\ Consume

Finish(p) ==                                 \* internal
  /\ pc[p].s = "lead" /\ pc[p].ph = "ran"
  /\ LET c == pc[p].c
         k == pc[p].k
         c1 == IF pc[p].ok THEN [cached EXCEPT ![c][k] = pc[p].v] ELSE cached
         f1 == [flight EXCEPT ![c][k] = 0] IN
       /\ cached' = c1
       /\ flight' = f1
       /\ Update(p, [pc[p] EXCEPT !.ph = "fin"], c, k, Avail(c1, f1, c, k), {c1[c][k]})
  /\ fres' = (pc[p].id :> [ok |-> pc[p].ok, v |-> pc[p].v]) @@ fres
  /\ UNCHANGED <<l, nf, done>>

\* a failed flight hands its callers the fetch function's own error
Matches(r) == IF r.ok THEN Ev.err = FALSE /\ Ev.v = r.v ELSE Ev.err = TRUE /\ Ev.own = TRUE

Explains(o) ==
  \/ o.t = "hit" /\ Ev.err = FALSE /\ Ev.v = o.x
  \/ o.t = "join" /\ o.x \in DOMAIN fres /\ Matches(fres[o.x])

Ret ==
  /\ Is("ret") /\ pc[P].s \in {"inv", "lead"} /\ pc[P].c = C /\ pc[P].k = Ev.k
  /\ \/ pc[P].s = "inv" /\ \E o \in pc[P].opts : Explains(o)
     \/ pc[P].s = "lead" /\ pc[P].ph = "fin" /\ Matches(fres[pc[P].id])
  /\ pc' = [pc EXCEPT ![P] = Idle]
  /\ UNCHANGED <<cached, flight, nf, fres, done>> /\ Consume

GetInv ==
  /\ Is("gi") /\ pc[P] = Idle /\ C \in Caches
  /\ pc' = [pc EXCEPT ![P] = [s |-> "get", c |-> C, k |-> Ev.k, seen |-> {cached[C][Ev.k]}]]
  /\ UNCHANGED <<cached, flight, nf, fres, done>> /\ Consume

GetRet ==
  /\ Is("gr") /\ pc[P].s = "get" /\ pc[P].c = C /\ pc[P].k = Ev.k
  /\ IF Ev.hit THEN Ev.v # 0 /\ Ev.v \in pc[P].seen ELSE 0 \in pc[P].seen
  /\ pc' = [pc EXCEPT ![P] = Idle]
  /\ UNCHANGED <<cached, flight, nf, fres, done>> /\ Consume

Next ==
  \/ Reset \/ Inv \/ FetchBegin \/ FetchEnd \/ Ret \/ GetInv \/ GetRet
  \/ \E p \in Procs : Finish(p)

Spec == Init /\ [][Next]_vars

\* the registered flight of a key of a cache is owned by exactly one caller (of that cache) that has
\* not yet published
FlightsDisjoint ==
  \A c \in Caches, k \in Keys :
    Cardinality({p \in Procs : pc[p].s = "lead" /\ pc[p].c = c /\ pc[p].k = k /\ pc[p].ph # "fin"})
      = (IF flight[c][k] = 0 THEN 0 ELSE 1)

\* a value is cached in a cache only after a successful fetch of that key BY THAT CACHE has ended
CachedOnlyOnSuccess == \A c \in Caches, k \in Keys : cached[c][k] # 0 => done[c][k]

HighWater == IF l > TLCGet(1) THEN TLCSet(1, l) ELSE TRUE     \* used as CONSTRAINT (always TRUE)
Accepted  == /\ PrintT(<<"VREG", "hw", TLCGet(1)>>)
             /\ TLCGet(1) = Len(TraceLog) + 1

=============================================================================
