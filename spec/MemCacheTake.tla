---------------------------- MODULE MemCacheTake ----------------------------
(***************************************************************************)
(* Concurrent Take on the in-memory cache (property C17), written as a     *)
(* TRACE ACCEPTOR: the module reads recorded histories (trace.ndjson, file *)
(* order = global sequence number taken by the driver) and TLC decides     *)
(* whether each history is a behaviour of the call-level contract          *)
(*                                                                         *)
(*   Take returns the cached value when present and otherwise runs the     *)
(*   fetch function at most once among concurrent callers of the same key, *)
(*   giving all of them its result and caching it only on success.         *)
(*                                                                         *)
(* Logged events: inv (before the call), fb / fe (first and last statement *)
(* of the caller's fetch function, fe carries its outcome), ret (after the *)
(* call, with the returned value or error).  NOT logged, placed by TLC:    *)
(*   Enter(p)   the moment the call looks at the cache: a cached value is   *)
(*              taken; else the call joins the flight registered for the   *)
(*              key; else it registers a flight of its own (and will run   *)
(*              its fetch function);                                       *)
(*   Finish(p)  the moment the flight's owner publishes the result: the    *)
(*              value is cached iff the fetch succeeded, the flight is     *)
(*              unregistered, joined callers get the owner's result.       *)
(* A history is accepted iff some placement of these steps explains every  *)
(* logged event.  Consequences that make a history unacceptable: two fetch *)
(* executions of one key overlapping in time, a fetch although the value   *)
(* was cached before the call began, a caller returning a value or error   *)
(* that is neither cached nor the outcome of a flight overlapping its      *)
(* call, a value served from the cache after a failed fetch.               *)
(*                                                                         *)
(* Histories are concatenated; `reset` (legal only at quiescence)          *)
(* re-establishes the empty cache.  Acceptance: the high-water mark of l   *)
(* (TLC register 1) reaches Len(TraceLog) + 1.                             *)
(***************************************************************************)
EXTENDS Integers, Sequences, FiniteSets, TLC, Json

TraceLog == ndJsonDeserialize("trace.ndjson")

VARIABLES l,        \* next event to consume
          cached,   \* [Keys -> Int], 0 = nothing cached
          flight,   \* [Keys -> Nat], id of the registered flight, 0 = none
          nf,       \* flights created so far in this history
          fres,     \* flight id -> [ok, v] once finished
          pc        \* per process call state

vars == <<l, cached, flight, nf, fres, pc>>

Keys == {"a", "b"}
Procs == 0..15
Idle == [s |-> "idle"]
Ev == TraceLog[l]
Is(name) == l <= Len(TraceLog) /\ TraceLog[l].e = name
Consume == l' = l + 1
P == Ev.p
SetPc(p, r) == pc' = [pc EXCEPT ![p] = r]

Init ==
  /\ l = 1
  /\ cached = [k \in Keys |-> 0]
  /\ flight = [k \in Keys |-> 0]
  /\ nf = 0
  /\ fres = <<>>
  /\ pc = [p \in Procs |-> Idle]
  /\ TLCSet(1, 1)

Reset ==
  /\ Is("reset")
  /\ \A p \in Procs : pc[p] = Idle
  /\ cached' = [k \in Keys |-> 0]
  /\ flight' = [k \in Keys |-> 0]
  /\ nf' = 0
  /\ fres' = <<>>
  /\ UNCHANGED pc
  /\ Consume

Inv ==
  /\ Is("inv") /\ pc[P] = Idle
  /\ SetPc(P, [s |-> "inv", k |-> Ev.k])
  /\ UNCHANGED <<cached, flight, nf, fres>> /\ Consume

Enter(p) ==                                  \* internal
  /\ pc[p].s = "inv"
  /\ LET k == pc[p].k IN
       IF cached[k] # 0
         THEN /\ SetPc(p, [s |-> "hit", k |-> k, v |-> cached[k]])
              /\ UNCHANGED <<flight, nf>>
         ELSE IF flight[k] # 0
           THEN /\ SetPc(p, [s |-> "join", k |-> k, id |-> flight[k]])
                /\ UNCHANGED <<flight, nf>>
           ELSE /\ nf' = nf + 1
                /\ flight' = [flight EXCEPT ![k] = nf + 1]
                /\ SetPc(p, [s |-> "lead", k |-> k, id |-> nf + 1, ph |-> "reg", ok |-> FALSE, v |-> 0])
  /\ UNCHANGED <<l, cached, fres>>

FetchBegin ==
  /\ Is("fb") /\ pc[P].s = "lead" /\ pc[P].ph = "reg" /\ pc[P].k = Ev.k
  /\ SetPc(P, [pc[P] EXCEPT !.ph = "run"])
  /\ UNCHANGED <<cached, flight, nf, fres>> /\ Consume

FetchEnd ==
  /\ Is("fe") /\ pc[P].s = "lead" /\ pc[P].ph = "run" /\ pc[P].k = Ev.k
  /\ SetPc(P, [pc[P] EXCEPT !.ph = "ran", !.ok = Ev.ok, !.v = Ev.v])
  /\ UNCHANGED <<cached, flight, nf, fres>> /\ Consume

Finish(p) ==                                 \* internal
  /\ pc[p].s = "lead" /\ pc[p].ph = "ran"
  /\ cached' = IF pc[p].ok THEN [cached EXCEPT ![pc[p].k] = pc[p].v] ELSE cached
  /\ flight' = [flight EXCEPT ![pc[p].k] = 0]
  /\ fres' = (pc[p].id :> [ok |-> pc[p].ok, v |-> pc[p].v]) @@ fres
  /\ SetPc(p, [pc[p] EXCEPT !.ph = "fin"])
  /\ UNCHANGED <<l, nf>>

\* a failed flight hands its callers the fetch function's own error
Matches(r) == IF r.ok THEN Ev.err = FALSE /\ Ev.v = r.v ELSE Ev.err = TRUE /\ Ev.own = TRUE

Ret ==
  /\ Is("ret") /\ pc[P].s \in {"hit", "join", "lead"} /\ pc[P].k = Ev.k
  /\ \/ pc[P].s = "hit" /\ Ev.err = FALSE /\ Ev.v = pc[P].v
     \/ pc[P].s = "join" /\ pc[P].id \in DOMAIN fres /\ Matches(fres[pc[P].id])
     \/ pc[P].s = "lead" /\ pc[P].ph = "fin" /\ Matches(fres[pc[P].id])
  /\ SetPc(P, Idle)
  /\ UNCHANGED <<cached, flight, nf, fres>> /\ Consume

Next ==
  \/ Reset \/ Inv \/ FetchBegin \/ FetchEnd \/ Ret
  \/ \E p \in Procs : Enter(p) \/ Finish(p)

Spec == Init /\ [][Next]_vars

\* the registered flight of a key is owned by exactly one caller that has not yet published
FlightsDisjoint ==
  \A k \in Keys :
    Cardinality({p \in Procs : pc[p].s = "lead" /\ pc[p].k = k /\ pc[p].ph # "fin"}) = (IF flight[k] = 0 THEN 0 ELSE 1)

HighWater == IF l > TLCGet(1) THEN TLCSet(1, l) ELSE TRUE     \* used as CONSTRAINT (always TRUE)
Accepted  == /\ PrintT(<<"VREG", "hw", TLCGet(1)>>)
             /\ TLCGet(1) = Len(TraceLog) + 1

=============================================================================
