---------------------------- MODULE MemCacheTake ----------------------------
(***************************************************************************)
(* Concurrent Take on the in-memory cache (property C17), written as a     *)
(* TRACE ACCEPTOR: the module reads recorded histories (trace.ndjson, file *)
(* order = global sequence number taken by the driver) and TLC decides     *)
(* whether each history is a behaviour of the call-level contract          *)
(*                                                                         *)
(*   Take returns the cached value when present and otherwise runs the     *)
(*   fetch function at most once among concurrent callers of the same key, *)
(*   giving all of them its result and caching it only on success.         *)
(*                                                                         *)
(* Logged events: inv (before the call), fb / fe (first and last statement *)
(* of the caller's fetch function, fe carries its outcome), ret (after the *)
(* call, with the returned value or error).  The histories contain only    *)
(* Take calls (no Set, Del, eviction or expiry).                           *)
(*                                                                         *)
(* Rules for the fetch function (event fb of caller p, key k):             *)
(*   F1  no flight is registered for k: fetch executions of one key never  *)
(*       overlap (a flight is registered from its fb until its owner       *)
(*       publishes);                                                       *)
(*   F2  nothing is cached for k;                                          *)
(*   F3  no successful fetch of k has ENDED earlier in the history         *)
(*       (done[k]): fe is logged inside the fetch function, i.e. before    *)
(*       the owner stores the value and before its flight is removed; a    *)
(*       later owner can only register after that removal and looks the    *)
(*       key up again, so in a correct cache no fb for k follows a         *)
(*       successful fe for k.  (F3 follows from F1+F2 and the placement of *)
(*       Finish below; it is stated on its own because it is the clause    *)
(*       "at most once among concurrent callers" for callers that missed   *)
(*       the cache before the value was stored but reached the flight      *)
(*       group after the flight was removed.)                              *)
(* NOT logged, placed by TLC:                                              *)
(*   Finish(p)  the moment the flight's owner publishes: the value is      *)
(*              cached iff the fetch succeeded, the flight is unregistered.*)
(* What a caller that does not fetch may return: while it is invoked the   *)
(* acceptor collects its options - a value that was cached at some moment  *)
(* of the call, or the result of a flight that was registered at some      *)
(* moment of the call (resolved when it returns).  A failed flight hands   *)
(* its callers the fetch function's own error and caches nothing, so a     *)
(* later caller has no option but to fetch.                                *)
(* A history is accepted iff some placement of the Finish steps explains   *)
(* every logged event.  (The only nondeterminism is that placement, so the *)
(* acceptor scales to histories with dozens of concurrent callers.)        *)
(*                                                                         *)
(* Histories are concatenated; `reset` (legal only at quiescence)          *)
(* re-establishes the empty cache.  Acceptance: the high-water mark of l   *)
(* (TLC register 1) reaches Len(TraceLog) + 1.                             *)
(***************************************************************************)
EXTENDS Integers, Sequences, FiniteSets, TLC, Json

TraceLog == ndJsonDeserialize("trace.ndjson")

VARIABLES l,        \* next event to consume
          cached,   \* [Keys -> Int], 0 = nothing cached
          flight,   \* [Keys -> Nat], id of the registered flight, 0 = none
          nf,       \* flights created so far in this history
          fres,     \* flight id -> [ok, v] once published
          done,     \* [Keys -> BOOLEAN]: a successful fetch of the key has ended
          pc        \* per process call state

vars == <<l, cached, flight, nf, fres, done, pc>>

Keys == {"a", "b"}
Procs == 0..63
Idle == [s |-> "idle"]
Ev == TraceLog[l]
Is(name) == l <= Len(TraceLog) /\ TraceLog[l].e = name
Consume == l' = l + 1
P == Ev.p

\* what a caller looking at key k right now would get without fetching
Avail(c, f, k) == IF c[k] # 0 THEN {[t |-> "hit", x |-> c[k]]}
                  ELSE IF f[k] # 0 THEN {[t |-> "join", x |-> f[k]]} ELSE {}

\* process p takes state r; every other caller waiting on key k learns the options `add`
Update(p, r, k, add) ==
  pc' = [q \in Procs |->
           IF q = p THEN r
           ELSE IF pc[q].s = "inv" /\ pc[q].k = k THEN [pc[q] EXCEPT !.opts = @ \cup add]
           ELSE pc[q]]

Init ==
  /\ l = 1
  /\ cached = [k \in Keys |-> 0]
  /\ flight = [k \in Keys |-> 0]
  /\ nf = 0
  /\ fres = <<>>
  /\ done = [k \in Keys |-> FALSE]
  /\ pc = [p \in Procs |-> Idle]
  /\ TLCSet(1, 1)

Reset ==
  /\ Is("reset")
  /\ \A p \in Procs : pc[p] = Idle
  /\ cached' = [k \in Keys |-> 0]
  /\ flight' = [k \in Keys |-> 0]
  /\ nf' = 0
  /\ fres' = <<>>
  /\ done' = [k \in Keys |-> FALSE]
  /\ UNCHANGED pc
  /\ Consume

Inv ==
  /\ Is("inv") /\ pc[P] = Idle
  /\ pc' = [pc EXCEPT ![P] = [s |-> "inv", k |-> Ev.k, opts |-> Avail(cached, flight, Ev.k)]]
  /\ UNCHANGED <<cached, flight, nf, fres, done>> /\ Consume

FetchBegin ==
  /\ Is("fb") /\ pc[P].s = "inv" /\ pc[P].k = Ev.k
  /\ flight[Ev.k] = 0                    \* F1
  /\ cached[Ev.k] = 0                    \* F2
  /\ ~done[Ev.k]                         \* F3
  /\ nf' = nf + 1
  /\ flight' = [flight EXCEPT ![Ev.k] = nf + 1]
  /\ Update(P, [s |-> "lead", k |-> Ev.k, id |-> nf + 1, ph |-> "run", ok |-> FALSE, v |-> 0],
            Ev.k, {[t |-> "join", x |-> nf + 1]})
  /\ UNCHANGED <<cached, fres, done>> /\ Consume

FetchEnd ==
  /\ Is("fe") /\ pc[P].s = "lead" /\ pc[P].ph = "run" /\ pc[P].k = Ev.k
  /\ pc' = [pc EXCEPT ![P] = [@ EXCEPT !.ph = "ran", !.ok = Ev.ok, !.v = Ev.v]]
  /\ done' = [done EXCEPT ![Ev.k] = @ \/ Ev.ok]
  /\ UNCHANGED <<cached, flight, nf, fres>> /\ Consume

Finish(p) ==                                 \* internal
  /\ pc[p].s = "lead" /\ pc[p].ph = "ran"
  /\ LET k == pc[p].k
         c1 == IF pc[p].ok THEN [cached EXCEPT ![k] = pc[p].v] ELSE cached
         f1 == [flight EXCEPT ![k] = 0] IN
       /\ cached' = c1
       /\ flight' = f1
       /\ Update(p, [pc[p] EXCEPT !.ph = "fin"], k, Avail(c1, f1, k))
  /\ fres' = (pc[p].id :> [ok |-> pc[p].ok, v |-> pc[p].v]) @@ fres
  /\ UNCHANGED <<l, nf, done>>

\* a failed flight hands its callers the fetch function's own error
Matches(r) == IF r.ok THEN Ev.err = FALSE /\ Ev.v = r.v ELSE Ev.err = TRUE /\ Ev.own = TRUE

Explains(o) ==
  \/ o.t = "hit" /\ Ev.err = FALSE /\ Ev.v = o.x
  \/ o.t = "join" /\ o.x \in DOMAIN fres /\ Matches(fres[o.x])

Ret ==
  /\ Is("ret") /\ pc[P].s \in {"inv", "lead"} /\ pc[P].k = Ev.k
  /\ \/ pc[P].s = "inv" /\ \E o \in pc[P].opts : Explains(o)
     \/ pc[P].s = "lead" /\ pc[P].ph = "fin" /\ Matches(fres[pc[P].id])
  /\ pc' = [pc EXCEPT ![P] = Idle]
  /\ UNCHANGED <<cached, flight, nf, fres, done>> /\ Consume

Next ==
  \/ Reset \/ Inv \/ FetchBegin \/ FetchEnd \/ Ret
  \/ \E p \in Procs : Finish(p)

Spec == Init /\ [][Next]_vars

\* the registered flight of a key is owned by exactly one caller that has not yet published
FlightsDisjoint ==
  \A k \in Keys :
    Cardinality({p \in Procs : pc[p].s = "lead" /\ pc[p].k = k /\ pc[p].ph # "fin"}) = (IF flight[k] = 0 THEN 0 ELSE 1)

\* a value is cached only after a successful fetch of that key has ended
CachedOnlyOnSuccess == \A k \in Keys : cached[k] # 0 => done[k]

HighWater == IF l > TLCGet(1) THEN TLCSet(1, l) ELSE TRUE     \* used as CONSTRAINT (always TRUE)
Accepted  == /\ PrintT(<<"VREG", "hw", TLCGet(1)>>)
             /\ TLCGet(1) = Len(TraceLog) + 1

=============================================================================
