------------------------- MODULE UnmarshalContract -------------------------
(***************************************************************************)
(* Property C05: unmarshalling of configs and requests is exact,           *)
(* validated and panic-free.                                               *)
(*                                                                         *)
(* This module is a RELATION, not a state machine.  For a field            *)
(*   (kind, pointer?, tag options)                                          *)
(* a document node (absent | literal) and a source class                   *)
(*   "typed" : JSON text, YAML text, map[string]any, conf.Load*            *)
(*   "text"  : form / path / header values (everything arrives as text)    *)
(* Allowed(...) is the SET of outcomes the statement permits, encoded as   *)
(*   [err |-> an error is permitted, ok |-> the value `val` (or `alt`) is  *)
(*    permitted, any |-> the statement is silent: any result but a panic]  *)
(*                                                                         *)
(* Numbers: TLC integers are 32 bit, the interesting values are not, so    *)
(* every numeric literal is a NAME (its decimal text) with attributes; the *)
(* order of all numeric values that occur (literals, bounds of the kinds,  *)
(* range bounds, options) is given once by the increasing sequence Points. *)
(* "fits the kind", "inside the range" are comparisons of positions.       *)
(*                                                                         *)
(* Reading of the statement (properties.jsonl C05):                        *)
(*  - never a panic                                         (all outcomes) *)
(*  - a produced value equals the document's value exactly; a number that  *)
(*    does not fit the kind is never accepted            (ok => val exact) *)
(*  - absent + default => the default; absent + optional => zero;          *)
(*    absent + required => error; outside options=/range= => error         *)
(*  - a value of the field's own class that fits and satisfies the         *)
(*    constraints is accepted (otherwise the equality clauses "JSON = YAML",*)
(*    "snake_case accepted", "round trip equal" would be vacuous)          *)
(*  - where the statement leaves a choice the set has both members          *)
(*    {error, exact value}: float-syntax integers into ints (1.0, 1e2),     *)
(*    numeric strings into numbers without `,string`, "true" into bool,     *)
(*    numbers with `,string`, decimal fractions that a binary float only    *)
(*    approximates (0.1 -> the correctly rounded value or an error),        *)
(*    uint64 above 2^63-1, Duration from text sources and inside            *)
(*    containers, absent required containers (absent = empty tolerated),    *)
(*    a field with env= set (the variable's value, the document's value     *)
(*    or an error);                                                         *)
(*  - containers nest (slice of / map of / pointer to, in any order): the   *)
(*    relation of the flat containers holds at every level - see            *)
(*    ShapeAllowed: an element is exact, a node of the wrong sort (a        *)
(*    scalar where a list is expected and vice versa) must fail at any      *)
(*    depth.                                                                *)
(*  - only "no panic" is required (any = TRUE) for: null, a bare number or  *)
(*    unit-less numeric string into a Duration, a number into a string      *)
(*    field, 0 / 1 into a bool.                                             *)
(***************************************************************************)
EXTENDS Integers, Sequences, FiniteSets, TLC

\* --------------------------------------------------------------- numeric order
Points == <<
  "-1e400", "-1e39", "-3.4028235e38",
  "-9223372036854775809", "-9223372036854775808", "-2147483649", "-2147483648",
  "-32769", "-32768", "-129", "-128", "-10", "-1", "0", "1e-50", "0.1", "0.5", "1", "1.5", "2", "3",
  "4", "5", "6", "7", "10", "15", "31", "100", "127", "128", "255", "256", "300", "1000", "32767", "32768", "65535", "65536",
  "16777217", "2147483647", "2147483648", "4294967295", "4294967296", "9007199254740993",
  "9223372036854775807", "9223372036854775808", "18446744073709551615", "18446744073709551616",
  "3.4028235e38", "3.5e38", "1e39", "1e400" >>

PointSet == {Points[i] : i \in 1..Len(Points)}
OrdOf == [p \in PointSet |-> CHOOSE i \in 1..Len(Points) : Points[i] = p]
Lt(p, q) == OrdOf[p] < OrdOf[q]
Le(p, q) == OrdOf[p] <= OrdOf[q]

\* --------------------------------------------------------------- kinds
SIntKinds == {"int8", "int16", "int32", "int64", "int"}
UIntKinds == {"uint8", "uint16", "uint32", "uint64", "uint"}
IntKinds == SIntKinds \cup UIntKinds
FloatKinds == {"float32", "float64"}
NumKinds == IntKinds \cup FloatKinds
AllKinds == NumKinds \cup {"bool", "string", "duration"}

\* int and uint are 64 bit on every platform the repository is built for here (assumption)
KLo == [k \in IntKinds |->
         CASE k = "int8" -> "-128" [] k = "int16" -> "-32768" [] k = "int32" -> "-2147483648"
           [] k \in {"int64", "int"} -> "-9223372036854775808" [] OTHER -> "0"]
KHi == [k \in IntKinds |->
         CASE k = "int8" -> "127" [] k = "int16" -> "32767" [] k = "int32" -> "2147483647"
           [] k \in {"int64", "int"} -> "9223372036854775807"
           [] k = "uint8" -> "255" [] k = "uint16" -> "65535" [] k = "uint32" -> "4294967295"
           [] OTHER -> "18446744073709551615"]

\* --------------------------------------------------------------- literals
\* class: num | bool | string | null | array | object
\* at   : the point the literal's value sits on ("" when it has no numeric value)
\* syn  : int | float | go (how a num is written; for strings: how the content is written;
\*        int covers zero-padded decimals such as "010" (text # at); go = Go literal syntax that
\*        none of the document formats defines: 0x1F, 0b11, 0o17, 1_000)
\* f32/f64: exact | round  (is the value representable / only approximated by the float kind)
\* sub  : for strings: plain | num | bool | dur ; ms: milliseconds of a dur string
\* yaml : the same characters denote the same class of value in a YAML document
Lit(text, class, at, syn, integral, f32, f64, sub, ms, yaml) ==
  [text |-> text, class |-> class, at |-> at, syn |-> syn, integral |-> integral,
   f32 |-> f32, f64 |-> f64, sub |-> sub, ms |-> ms, yaml |-> yaml]
I(t)            == Lit(t, "num", t, "int", TRUE, "exact", "exact", "", 0, TRUE)
Ir(t, a, b)     == Lit(t, "num", t, "int", TRUE, a, b, "", 0, TRUE)
Fl(t, at, i, a, b) == Lit(t, "num", at, "float", i, a, b, "", 0, TRUE)
St(t, sub)      == Lit(t, "string", "", "", FALSE, "", "", sub, 0, TRUE)
Sn(t, syn, i, a, b) == Lit(t, "string", t, syn, i, a, b, "num", 0, TRUE)
Sd(t, ms)       == Lit(t, "string", "", "", FALSE, "", "", "dur", ms, TRUE)
Bo(t)           == Lit(t, "bool", "", "", FALSE, "", "", "", 0, TRUE)
NoLit           == Lit("<none>", "none", "", "", FALSE, "", "", "", 0, TRUE)

Lits == <<
  \* 1..10
  I("0"), I("1"), I("2"), I("5"), I("7"), I("10"), I("-1"), I("127"), I("128"), I("-128"),
  \* 11..20
  I("-129"), I("255"), I("256"), I("300"), I("32767"), I("32768"), I("-32768"), I("-32769"), I("65535"), I("65536"),
  \* 21..27
  Ir("16777217", "round", "exact"), Ir("2147483647", "round", "exact"), I("2147483648"),
  I("-2147483648"), Ir("-2147483649", "round", "exact"), Ir("4294967295", "round", "exact"), I("4294967296"),
  \* 28..33
  Ir("9007199254740993", "round", "round"), Ir("9223372036854775807", "round", "round"),
  I("9223372036854775808"), I("-9223372036854775808"), Ir("-9223372036854775809", "round", "round"),
  Ir("18446744073709551615", "round", "round"),
  \* 34
  I("18446744073709551616"),
  \* 35..40   float syntax
  Fl("0.1", "0.1", FALSE, "round", "round"), Fl("0.5", "0.5", FALSE, "exact", "exact"),
  Fl("1.5", "1.5", FALSE, "exact", "exact"), Fl("1.0", "1", TRUE, "exact", "exact"),
  Fl("5.0", "5", TRUE, "exact", "exact"), Fl("1e2", "100", TRUE, "exact", "exact"),
  \* 41..46
  Fl("1e-50", "1e-50", FALSE, "round", "round"), Fl("3.4028235e38", "3.4028235e38", TRUE, "round", "round"),
  Fl("3.5e38", "3.5e38", TRUE, "round", "round"), Fl("1e39", "1e39", TRUE, "round", "round"),
  Fl("-1e39", "-1e39", TRUE, "round", "round"),
  Lit("1e400", "num", "1e400", "float", TRUE, "round", "round", "", 0, FALSE),
  \* 47..48
  Bo("true"), Bo("false"),
  \* 49..56   strings
  St("abc", "plain"), St("xyz", "plain"), St("a b&c=d", "plain"), Sn("10", "int", TRUE, "exact", "exact"),
  Sn("300", "int", TRUE, "exact", "exact"), Sn("1.5", "float", FALSE, "exact", "exact"),
  St("true", "bool"), Sd("10s", 10000),
  \* 57..60
  Sd("1h", 3600000),
  \* yaml = FALSE: the YAML layer hands a YAML null / empty value on as the string "" (inherited
  \* behaviour of the YAML-to-JSON bridge), so JSON null and YAML null are not the same content here
  Lit("null", "null", "", "", FALSE, "", "", "", 0, FALSE),
  Lit("[1]", "array", "", "", FALSE, "", "", "", 0, TRUE),
  Lit("{\"x\":1}", "object", "", "", FALSE, "", "", "", 0, TRUE),
  \* 61..66  strings with characters that URLs, queries, headers and JSON must escape.
  \* A rune outside ASCII is NAMED <U+XXXX> (TLC prints ASCII only); the driver expands the name.
  St("hello world", "plain"), St("100%", "plain"), St("a+b", "plain"), St("x&y=z?w#v", "plain"),
  St("<U+4F60><U+597D>", "plain"), St("say \"hi\"", "plain"),
  \* 67..70  decimal integers written with leading zeros: the value is the DECIMAL reading
  Lit("010", "string", "10", "int", TRUE, "exact", "exact", "num", 0, TRUE),
  Lit("0100", "string", "100", "int", TRUE, "exact", "exact", "num", 0, TRUE),
  Lit("-010", "string", "-10", "int", TRUE, "exact", "exact", "num", 0, TRUE),
  Lit("007", "string", "7", "int", TRUE, "exact", "exact", "num", 0, TRUE),
  \* 71..74  Go literal spellings
  Lit("0x1F", "string", "31", "go", TRUE, "exact", "exact", "num", 0, TRUE),
  Lit("0b11", "string", "3", "go", TRUE, "exact", "exact", "num", 0, TRUE),
  Lit("0o17", "string", "15", "go", TRUE, "exact", "exact", "num", 0, TRUE),
  Lit("1_000", "string", "1000", "go", TRUE, "exact", "exact", "num", 0, TRUE),
  \* 75  the empty string (a value of typed documents, headers and JSON bodies; a form or path
  \*     value cannot carry it: the form parser drops empty values, the path filler refuses them)
  St("", "plain"),
  \* 76..77  the integers next to the range bound 5 ("just inside" / "just outside" of range=..5)
  I("4"), I("6") >>

NLits == Len(Lits)
LitByText(t) == Lits[CHOOSE i \in 1..NLits : Lits[i].text = t /\ Lits[i].class # "string"]

HasValue(l) == l.at # ""                     \* numeric value (num literal or numeric string)
Numeric(l) == l.class = "num"

\* --------------------------------------------------------------- fits
FitsInt(l, k) == HasValue(l) /\ l.integral /\ Le(KLo[k], l.at) /\ Le(l.at, KHi[k])
FitsFloat(l, k) ==
  /\ HasValue(l)
  /\ IF k = "float32" THEN Le("-3.4028235e38", l.at) /\ Le(l.at, "3.4028235e38")
                      ELSE Lt("-1e400", l.at) /\ Lt(l.at, "1e400")
Fits(l, k) == IF k \in IntKinds THEN FitsInt(l, k) ELSE IF k \in FloatKinds THEN FitsFloat(l, k) ELSE TRUE
FloatExact(l, k) == IF k = "float32" THEN l.f32 = "exact" ELSE l.f64 = "exact"

\* --------------------------------------------------------------- tag options
\* range: lo/hi are points or "" (open end); options: a set of points (numbers) or of strings
NoRange == [lo |-> "", hi |-> "", li |-> TRUE, ri |-> TRUE, on |-> FALSE]
Rng(lo, hi, li, ri) == [lo |-> lo, hi |-> hi, li |-> li, ri |-> ri, on |-> TRUE]
Opts(optional, def, options, range, str, env) ==
  [optional |-> optional, def |-> def, options |-> options, range |-> range, str |-> str, env |-> env]
Plain == Opts(FALSE, "", {}, NoRange, FALSE, "")

InRange(p, r) ==
  /\ (r.lo = "" \/ (IF r.li THEN Le(r.lo, p) ELSE Lt(r.lo, p)))
  /\ (r.hi = "" \/ (IF r.ri THEN Le(p, r.hi) ELSE Lt(p, r.hi)))

\* --------------------------------------------------------------- values and outcomes
NoVal == [v |-> "none", text |-> "", ms |-> 0]
Zero == [v |-> "zero", text |-> "", ms |-> 0]
VInt(p) == [v |-> "int", text |-> p, ms |-> 0]            \* the integer whose decimal text is p
VFloat(t) == [v |-> "float", text |-> t, ms |-> 0]        \* the float nearest to the decimal text t
VStr(t) == [v |-> "str", text |-> t, ms |-> 0]
VBool(t) == [v |-> "bool", text |-> t, ms |-> 0]
VDur(ms) == [v |-> "dur", text |-> "", ms |-> ms]

\* why: for outcomes that must fail, the clause of the statement that demands it
\*      nofit | illtyped | range | options | required
MustErrW(w) == [err |-> TRUE, ok |-> FALSE, any |-> FALSE, val |-> NoVal, alt |-> NoVal, why |-> w]
MustErr == MustErrW("illtyped")
Must(v) == [err |-> FALSE, ok |-> TRUE, any |-> FALSE, val |-> v, alt |-> NoVal, why |-> ""]
Either(v) == [err |-> TRUE, ok |-> TRUE, any |-> FALSE, val |-> v, alt |-> NoVal, why |-> ""]
ErrOrAny == [err |-> TRUE, ok |-> FALSE, any |-> TRUE, val |-> NoVal, alt |-> NoVal, why |-> ""]

Weaken(o) == IF o.ok THEN [o EXCEPT !.err = TRUE] ELSE o
\* union of two outcome sets (used where the statement does not say which of two sources wins)
Union(o1, o2) ==
  [err |-> o1.err \/ o2.err, ok |-> o1.ok \/ o2.ok, any |-> o1.any \/ o2.any,
   val |-> IF o1.ok THEN o1.val ELSE o2.val,
   alt |-> IF o1.ok /\ o2.ok /\ o1.val # o2.val THEN o2.val ELSE NoVal,
   why |-> IF o1.ok \/ o2.ok \/ o1.any \/ o2.any THEN "" ELSE o1.why]

IsMustErr(o) == o.err /\ ~o.ok /\ ~o.any

\* --------------------------------------------------------------- conversion of a present literal
NumVal(l, k) == IF k \in IntKinds THEN VInt(l.at) ELSE VFloat(IF l.syn = "int" THEN l.at ELSE l.text)

\* a literal with a numeric value into a numeric kind; grey = the statement leaves acceptance open
\* Spellings: a zero-padded decimal ("010") may be refused or read as the decimal number it writes
\* (ten) - never as another number (eight).  A Go-syntax spelling ("0x1F", "1_000") is defined by
\* none of the document formats: it may be refused or read as the number the spelling denotes in Go
\* (the statement does not fix the numeric syntax of text values); for float kinds only "no panic".
NumInto(l, k, grey) ==
  IF l.syn = "go" /\ k \in FloatKinds THEN ErrOrAny
  ELSE IF ~Fits(l, k) THEN MustErrW("nofit")   \* never a wrapped / truncated / infinite value
  ELSE LET o == Must(NumVal(l, k))
           g == \/ grey
                \/ (k \in IntKinds /\ l.syn = "float")                        \* 1.0, 1e2 into an int
                \/ (l.syn = "int" /\ l.text # l.at) \/ l.syn = "go"            \* "010", "0x1F"
                \/ (k \in FloatKinds /\ ~FloatExact(l, k))                    \* 0.1: rounded or refused
                \/ (k \in {"uint64", "uint"} /\ Lt("9223372036854775807", l.at)) \* upper half of uint64
       IN IF g THEN Weaken(o) ELSE o

\* typed sources, no `,string`
ConvTyped(l, k) ==
  CASE l.class = "null" -> ErrOrAny
    [] l.class \in {"array", "object"} -> MustErr
    [] k \in NumKinds ->
         IF Numeric(l) THEN NumInto(l, k, FALSE)
         ELSE IF l.class = "string" /\ l.sub = "num" THEN NumInto(l, k, TRUE)
         ELSE MustErr
    [] k = "bool" ->
         IF l.class = "bool" THEN Must(VBool(l.text))
         ELSE IF l.class = "string" /\ l.sub = "bool" THEN Either(VBool(l.text))
         ELSE IF HasValue(l) /\ l.at \in {"0", "1"} THEN ErrOrAny       \* 0 / 1 as a truth value: not decided
         ELSE MustErr
    [] k = "string" ->
         IF l.class = "string" THEN Must(VStr(l.text))
         ELSE IF Numeric(l) THEN ErrOrAny      \* refused, or some rendering of the number: not decided
         ELSE MustErr
    [] k = "duration" ->
         IF l.class = "string" /\ l.sub = "dur" THEN Must(VDur(l.ms))
         ELSE IF HasValue(l) THEN ErrOrAny           \* a bare number (or "10") has no unit: only "no panic"
         ELSE MustErr

\* text sources: the characters of the literal arrive as a string (classes num, bool, string only)
ConvText(l, k) ==
  CASE k \in NumKinds -> IF HasValue(l) THEN NumInto(l, k, FALSE) ELSE MustErr
    [] k = "bool" ->
         IF l.class = "bool" \/ (l.class = "string" /\ l.sub = "bool") THEN Must(VBool(l.text))
         ELSE IF HasValue(l) /\ l.at \in {"0", "1"} THEN ErrOrAny
         ELSE MustErr
    [] k = "string" -> Must(VStr(l.text))
    [] k = "duration" ->
         IF l.class = "string" /\ l.sub = "dur" THEN Either(VDur(l.ms))
         ELSE IF HasValue(l) THEN ErrOrAny
         ELSE MustErr

\* typed sources with `,string`: the value is expected as a JSON string
ConvTypedString(l, k) ==
  CASE l.class = "string" -> ConvText(l, k)
    [] l.class \in {"array", "object"} -> MustErr
    [] Numeric(l) /\ k \in NumKinds -> NumInto(l, k, TRUE)
    [] OTHER -> ErrOrAny

TextRenderable(l) == l.class \in {"num", "bool", "string"} /\ l.text # ""

Conv(l, k, o, src) ==
  IF src = "text" THEN ConvText(l, k)
  ELSE IF o.str THEN ConvTypedString(l, k) ELSE ConvTyped(l, k)

\* constraints: a value outside options= / range= must fail
OutsideRange(l, o) == o.range.on /\ HasValue(l) /\ ~InRange(l.at, o.range)
OutsideOptions(l, o) ==
  /\ o.options # {}
  /\ IF HasValue(l) THEN l.at \notin o.options ELSE l.text \notin o.options
\* inside by value but written differently from the option ("5.0" for option 5): acceptance open
OptionSpelling(l, o) == o.options # {} /\ HasValue(l) /\ l.text # l.at

Constrain(base, l, o) ==
  IF base.any \/ ~base.ok THEN base
  ELSE IF OutsideRange(l, o) THEN MustErrW("range")
  ELSE IF OutsideOptions(l, o) THEN MustErrW("options")
  ELSE IF OptionSpelling(l, o) THEN Weaken(base)
  ELSE base

\* --------------------------------------------------------------- one field
\* doc: [d |-> "absent"] | [d |-> "lit", lit |-> literal]
Absent == [d |-> "absent", lit |-> NoLit]
Present(l) == [d |-> "lit", lit |-> l]

\* the default is tag text, hence converted like a text value (no constraint check is promised)
DefaultLit(o) == CHOOSE l \in {Lits[i] : i \in 1..NLits} : l.text = o.def /\ l.class \in {"num", "bool", "string"}

AllowedNoEnv(k, o, doc, src) ==
  IF doc.d = "absent" THEN
     IF o.def # "" THEN
        LET dl == DefaultLit(o)
            c == ConvText(dl, k)
        IN \* a default outside the field's own range= / options= is a contradictory tag: either clause may win
           IF OutsideRange(dl, o) \/ OutsideOptions(dl, o) THEN Weaken(c) ELSE c
     ELSE IF o.optional THEN Must(Zero)
     ELSE MustErrW("required")
  ELSE Constrain(Conv(doc.lit, k, o, src), doc.lit, o)

\* env=V with V set to the text o.env: the statement lists env among the options but does not say
\* whether V or the document wins nor which kinds take an environment value, so the value of V,
\* the document's outcome and an error are all allowed; what stays excluded is a panic and a
\* value that is neither (e.g. V wrapped to fit).  V is text.
EnvLit(o) == CHOOSE l \in {Lits[i] : i \in 1..NLits} : l.text = o.env /\ l.class \in {"num", "bool", "string"}
Allowed(k, o, doc, src) ==
  IF o.env = "" THEN AllowedNoEnv(k, o, doc, src)
  ELSE LET e == EnvLit(o)
           eo == Constrain(ConvText(e, k), e, o)    \* a value outside options= / range= is never accepted,
                                                     \* whichever source it came from
           u == Union(eo, AllowedNoEnv(k, o, doc, src))
       IN [u EXCEPT !.err = TRUE]

\* --------------------------------------------------------------- containers
\* slice of k from an array of literals / map[string]k from an object of literals:
\* Err if any element must fail, the element values otherwise.
\* (Duration elements: the statement names Duration as a field kind; inside containers acceptance is left open)
ElemOutcome(k, l) == IF k = "duration" THEN Weaken(ConvTyped(l, k)) ELSE ConvTyped(l, k)
SeqAllowedM(k, items, mode) ==
  LET os == [i \in 1..Len(items) |-> IF mode = "text" THEN ConvText(items[i], k) ELSE ElemOutcome(k, items[i])]
      idx == 1..Len(items)
  IN IF \E i \in idx : IsMustErr(os[i]) THEN [err |-> TRUE, ok |-> FALSE, any |-> FALSE, vals |-> <<>>,
                                                     why |-> os[CHOOSE i \in idx : IsMustErr(os[i])].why]
     ELSE [err |-> \E i \in idx : os[i].err,
           ok |-> \A i \in idx : os[i].ok \/ os[i].any,
           any |-> \E i \in idx : os[i].any,
           vals |-> [i \in idx |-> IF os[i].ok THEN os[i].val ELSE [v |-> "any", text |-> "", ms |-> 0]],
           why |-> ""]

SeqAllowed(k, items) == SeqAllowedM(k, items, "typed")
\* a slice field whose tag declares default=[e1,e2]: the elements are tag text
DefaultSeqAllowed(k, items) == SeqAllowedM(k, items, "text")

\* --------------------------------------------------------------- container shapes
\* "pointers, slices, maps and their nesting": the type of a member is a WORD over the constructors
\*     S  slice of      M  map[string] of      P  pointer to
\* applied to an element kind:  <<"M","P","S">> over int  =  map[string]*[]int.
\* Its document is a TREE: a leaf (a literal), an array of trees, an object of trees (the keys of an
\* object are given by position and never matter).  The relation is the one of the flat containers
\* above, applied at every level:
\*   - a leaf where the word is used up: the element relation (ElemOutcome);
\*   - P is transparent (a pointer member holds the address of what its document names);
\*   - S wants an array, M wants an object; anything else there - a scalar, a bool, a string, the
\*     other container - is ill-typed and must fail; null: the statement is silent (no panic);
\*   - a container fails if one of its elements must fail, otherwise it holds exactly the elements;
\*   - a leaf slot that holds a container is ill-typed as well (a list where a scalar is expected).
\* Nothing here depends on WHICH containers are nested or on where the ill-typed node sits.
Ctors == {"S", "M", "P"}
Leaf(l) == [n |-> "leaf", lit |-> l, items |-> <<>>]
Arr(items) == [n |-> "arr", lit |-> NoLit, items |-> items]
Obj(items) == [n |-> "obj", lit |-> NoLit, items |-> items]
Containers(ty) == Cardinality({i \in 1..Len(ty) : ty[i] # "P"})

AnyVal == [v |-> "any", text |-> "", ms |-> 0]
TreeVal(n, vals) == [v |-> IF n = "arr" THEN "list" ELSE "dict", text |-> "", ms |-> 0, items |-> vals]

RECURSIVE ShapeAllowed(_, _, _)
ShapeAllowed(ty, k, node) ==
  IF ty = <<>> THEN (IF node.n = "leaf" THEN ElemOutcome(k, node.lit) ELSE MustErr)
  ELSE IF Head(ty) = "P" THEN ShapeAllowed(Tail(ty), k, node)
  ELSE IF node.n = "leaf" THEN (IF node.lit.class = "null" THEN ErrOrAny ELSE MustErr)
  ELSE IF (Head(ty) = "S") # (node.n = "arr") THEN MustErr
  ELSE LET idx == 1..Len(node.items)
           os == [i \in idx |-> ShapeAllowed(Tail(ty), k, node.items[i])]
       IN IF \E i \in idx : IsMustErr(os[i]) THEN MustErrW(os[CHOOSE i \in idx : IsMustErr(os[i])].why)
          ELSE [err |-> \E i \in idx : os[i].err,
                ok |-> \A i \in idx : os[i].ok \/ os[i].any,
                any |-> \E i \in idx : os[i].any,
                val |-> TreeVal(node.n, [i \in idx |-> IF os[i].ok /\ ~os[i].any THEN os[i].val ELSE AnyVal]),
                alt |-> NoVal, why |-> ""]

\* How the tree reaches the member:
\*   form "tree": as structure (JSON / YAML / map[string]any);
\*   form "text": as its JSON text inside one string - the only way a form, path or header value
\*                can carry a container, and what a typed document delivers when the member is
\*                written as a string.
\* A text source must take a one-level container written that way (it has no other spelling); how
\* deeper nestings are written in a single form value, and whether a typed document may write a
\* container as a string at all, the statement does not say: error or the exact value.  In every
\* case: never a panic, never an ill-typed or wrapped element accepted.
ShapeAllowedFrom(ty, k, node, src, form) ==
  LET a == ShapeAllowed(ty, k, node)
  IN IF form = "tree" \/ (src = "text" /\ Containers(ty) = 1) THEN a ELSE Weaken(a)

RECURSIVE Structural(_, _)
Structural(ty, node) ==                      \* the tree has the structure of the word (leaves not looked at)
  IF ty = <<>> THEN node.n = "leaf"
  ELSE IF Head(ty) = "P" THEN Structural(Tail(ty), node)
  ELSE /\ node.n = (IF Head(ty) = "S" THEN "arr" ELSE "obj")
       /\ \A i \in 1..Len(node.items) : Structural(Tail(ty), node.items[i])
RECURSIVE NullFree(_)
NullFree(node) == IF node.n = "leaf" THEN node.lit.class # "null"
                  ELSE \A i \in 1..Len(node.items) : NullFree(node.items[i])
RECURSIVE AllYaml(_)
AllYaml(node) == IF node.n = "leaf" THEN node.lit.yaml ELSE \A i \in 1..Len(node.items) : AllYaml(node.items[i])

\* --------------------------------------------------------------- independence of calls
\* "absent fields take their declared default", "every field equals the document's value": the
\* clauses speak about each call on its own, so Allowed has no history argument.  Whatever was
\* unmarshalled before, and whatever the caller did to an earlier result (edit its slices and maps
\* in place, append to them), the n-th call with the same type and the same document has the same
\* allowed set as the first.  (Nothing is claimed about aliasing between a caller-supplied
\* map[string]any and the result; the driver hands every call a freshly rendered document.)
AllowedAgain(k, o, doc, src) == Allowed(k, o, doc, src)

\* --------------------------------------------------------------- struct of fields
\* outs: sequence of field outcomes. The struct fails if any field must fail.
StructAllowed(outs) ==
  LET idx == 1..Len(outs)
      mustErr == \E i \in idx : IsMustErr(outs[i])
  IN [err |-> \E i \in idx : outs[i].err,
      ok |-> ~mustErr /\ \A i \in idx : outs[i].ok \/ outs[i].any,
      any |-> ~mustErr /\ \E i \in idx : outs[i].any,
      mustErr |-> mustErr]

\* --------------------------------------------------------------- cross-format clauses
\* SameAsJson: the YAML rendering of a document whose literals all have yaml = TRUE has the same
\* Allowed set as the JSON rendering, and when both calls succeed the structs are equal.
\* KeySpelling: conf.Load* accepts keys spelt exactly, in snake_case, or with the other initial case.
Spellings == {"exact", "snake", "initial"}
\* RoundTrip: a request struct whose every field value fits its kind, sent by the client helper with
\* its path / form / header / json parts, is parsed back into an equal struct.
Parts == {"path", "form", "header", "json"}
\* One member of the request struct: kind k, tag options o, the client holds the value named by the
\* literal l (which fits k).  The client helper turns the struct into a request, the server-side
\* parser turns the request into a struct; the statement speaks about the pair, so an error is an
\* error of either side.
\*  - unconstrained, or the value satisfies options= / range=: the member comes back equal
\*    (whatever else the tag says: optional, default=, `,string`; brackets decide at the bounds);
\*  - the value is outside options= / range=: what travels is a document with a value outside the
\*    declared constraint; the unmarshalling clause makes it fail on the server unless the client
\*    refused the struct first - an error either way, never a silently different (clamped,
\*    defaulted, dropped) value;
\*  - outside, but the member is optional and held at its zero value: a client cannot tell "not
\*    set" from zero, so it may leave the member out (server: absent optional = zero, the equal
\*    struct) or send the zero (server: outside, must fail) - both are allowed.
RTValue(k, l) == CASE k \in NumKinds -> NumVal(l, k) [] k = "bool" -> VBool(l.text) [] OTHER -> VStr(l.text)
RTZero(k, l) == CASE k \in NumKinds -> HasValue(l) /\ l.at = "0" [] k = "bool" -> l.text = "false"
                  [] k = "string" -> l.text = "" [] OTHER -> FALSE
RoundTripAllowed(k, o, l) ==
  LET v == RTValue(k, l)
      \* the upper half of uint64: acceptance by the server is left open (see NumInto)
      base == IF k \in {"uint64", "uint"} /\ HasValue(l) /\ Lt("9223372036854775807", l.at) THEN Either(v) ELSE Must(v)
      unset == o.optional /\ RTZero(k, l)
  IN IF OutsideRange(l, o) THEN (IF unset THEN Weaken(base) ELSE MustErrW("range"))
     ELSE IF OutsideOptions(l, o) THEN (IF unset THEN Weaken(base) ELSE MustErrW("options"))
     ELSE base

\* --------------------------------------------------------------- sanity theorems (checked by TLC)
\* over every (kind, options, document, source) that the generator enumerates
T_NonEmpty(a) == a.err \/ a.ok \/ a.any
T_NeverWrapped(k, l, a) ==                   \* a numeric value that does not fit is never accepted
  (k \in NumKinds /\ HasValue(l) /\ ~Fits(l, k)) => (~a.ok /\ ~a.any)
T_RequiredAbsent(o, doc, a) ==
  (doc.d = "absent" /\ ~o.optional /\ o.def = "" /\ o.env = "") => IsMustErr(a)
T_OptionalZero(o, doc, a) ==
  (doc.d = "absent" /\ o.optional /\ o.def = "" /\ o.env = "") => (a.ok /\ ~a.err /\ a.val = Zero)
T_Constraint(o, doc, a) ==
  (doc.d = "lit" /\ o.env = "" /\ (OutsideRange(doc.lit, o) \/ OutsideOptions(doc.lit, o))) => ~a.ok
T_EnvConstraint(k, o, a) ==                  \* an env value outside range= / options= is never the result
  (o.env # "" /\ k \in NumKinds /\ (OutsideRange(EnvLit(o), o) \/ OutsideOptions(EnvLit(o), o)))
     => LET ev == NumVal(EnvLit(o), k) IN (a.ok => (a.val # ev /\ a.alt # ev) \/ ~HasValue(EnvLit(o)))
T_FitsMonotone(l) ==
  /\ (FitsInt(l, "int8") => FitsInt(l, "int16")) /\ (FitsInt(l, "int16") => FitsInt(l, "int32"))
  /\ (FitsInt(l, "int32") => FitsInt(l, "int64")) /\ (FitsInt(l, "uint8") => FitsInt(l, "uint16"))
  /\ (FitsInt(l, "uint16") => FitsInt(l, "uint32")) /\ (FitsInt(l, "uint32") => FitsInt(l, "uint64"))
  /\ (FitsInt(l, "uint8") => FitsInt(l, "int16")) /\ (FitsFloat(l, "float32") => FitsFloat(l, "float64"))
  /\ (FitsInt(l, "int64") => FitsInt(l, "int")) /\ (FitsInt(l, "uint") => FitsInt(l, "uint64"))
T_RoundTrip(k, o, l, a) ==                   \* a request value is never silently replaced
  /\ a.ok => a.val = RTValue(k, l) /\ a.alt = NoVal
  /\ ((OutsideRange(l, o) \/ OutsideOptions(l, o)) /\ ~(o.optional /\ RTZero(k, l))) => IsMustErr(a)
  /\ (~OutsideRange(l, o) /\ ~OutsideOptions(l, o)) => a.ok
  /\ (o.options = {} /\ ~o.range.on) => (a.ok /\ (a.err => k \in {"uint64", "uint"}))
\* container shapes: a = the outcome for the document as it reaches the member, b = ShapeAllowed of its tree
T_Shape(ty, node, a, b, form) ==
  /\ T_NonEmpty(a)
  \* a scalar where a list is expected (and a list where a scalar is expected) is never accepted,
  \* however the document reaches the member
  /\ (NullFree(node) /\ ~Structural(ty, node)) => IsMustErr(a)
  /\ (a.ok \/ a.any) => (Structural(ty, node) \/ ~NullFree(node))
  \* the spelling never turns "must fail" into "may pass" or back; the structured form is the relation itself
  /\ IsMustErr(b) <=> IsMustErr(a)
  /\ (form = "tree" => a = b)
T_PointsOrdered == \A i, j \in 1..Len(Points) : (i # j) => Points[i] # Points[j]

=============================================================================
