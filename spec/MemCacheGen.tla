---------------------------- MODULE MemCacheGen ----------------------------
(***************************************************************************)
(* Behaviour generator for MemCache.tla (spec -> code replay, C17).        *)
(*                                                                         *)
(* A behaviour is a sequence of at most MaxOps macro-steps                 *)
(*     [pre ticks] ; operation                                             *)
(* and a final "finish" step that ticks past every pending drop tick plus  *)
(* TailTicks more (a whole wheel revolution, so that an entry dropped a    *)
(* revolution late is seen); every key is probed (Get) before and after    *)
(* those ticks.                                                            *)
(*                                                                         *)
(* The jitter of the expiry is pinned: R in Jit is the random number (in   *)
(* thousandths) handed to mathx.Unstable, the expiry becomes               *)
(* e * (1.05 - R/10000) seconds and the wheel's C10 rule gives the delay   *)
(* DelayOf(e, R) ticks.  The ASSUME below keeps every product at least 0.1  *)
(* millisecond away from a whole second (no floating-point borderline) and *)
(* at or above one second (MoveTimer with a delay below the wheel interval *)
(* is outside the C10 statement and not generated), and checks that the    *)
(* pinned delay is a member of the window allowed by MemCache.             *)
(*                                                                         *)
(* Two reductions keep key spaces larger than the limit enumerable:        *)
(*  - Order (a sequence listing Keys, or <<>>): keys are interchangeable   *)
(*    for the cache (opaque map keys), so only histories that use the keys *)
(*    for the first time in that order are generated (one representative   *)
(*    of every class of histories equal up to renaming the keys);          *)
(*  - Idle = FALSE: operations that leave the cache as it is (get / del /  *)
(*    failing take of a key that is not held; get / take of the most       *)
(*    recently used key of a cache with a limit) are left out; they are    *)
(*    covered by the families that set Idle = TRUE.                        *)
(*  - MustEvict: only histories in which a store pushes an entry out (the  *)
(*    LRU clause speaks about exactly those); a prefix that cannot reach   *)
(*    an eviction within MaxOps operations is not extended.                *)
(* Every step reports the set of keys held after it (`held`), the key      *)
(* pushed out by a store (`evicted`) and whether the operation changed the *)
(* recency order while the cache held fewer entries than its limit         *)
(* (`reord`: "fill" = the cache has never been full, "del" / "age" = the   *)
(* last entry lost otherwise than by eviction went by Del / for age).      *)
(***************************************************************************)
EXTENDS MemCache, SequencesExt, Json

CONSTANTS MaxOps,    \* operations per behaviour
          Pre0,      \* tick counts that may precede the first operation (wheel phase)
          Pre,       \* tick counts that may precede a later operation
          TailTicks, \* extra ticks after the last drop tick in the final step
          Jit,       \* pinned random numbers (thousandths, 0..999)
          Kinds,     \* subset of {"set","setx","get","del","takeok","takeerr"}
          Order,     \* canonical order of first use of the keys (sequence listing Keys), <<>> = any order
          Idle,      \* generate operations that leave the cache state (data, due, lru) as it is
          MustEvict  \* only behaviours in which a store pushes an entry out (goal-directed LRU families)

VARIABLES hist, nops, fin,
          seen,      \* keys used so far
          full,      \* the cache has held Limit entries at some point
          drop,      \* how the most recent entry lost otherwise than by eviction went: "none", "del", "age"
          evd        \* an entry has been pushed out by a store

gvars == <<vars, hist, nops, fin, seen, full, drop, evd>>

ASSUME Order = <<>> \/ (Len(Order) = Cardinality(Keys) /\ {Order[i] : i \in 1..Len(Order)} = Keys)
ASSUME Idle \in BOOLEAN /\ MustEvict \in BOOLEAN /\ (MustEvict => Limit > 0)

Scaled(e, R) == e * (10500 - R)
DelayOf(e, R) == Max2(1, Scaled(e, R) \div 10000)

ASSUME \A e \in Expires \cup {Expire}, R \in Jit :
         /\ R \in 0..999
         /\ Scaled(e, R) >= 10000
         /\ (Scaled(e, R) % 10000) \in 1..9999
         /\ DelayOf(e, R) \in Window(e)

\* size of the cache after each of the ticks t+1..t+n at which it changes: <<[i, size]>>
Trail(D, U, t, n) ==
  LET ts == {U[k] : k \in Present(D)} \cap ((t + 1)..(t + n))
      sq == SetToSortSeq(ts, LAMBDA a, b : a < b)
  IN [j \in 1..Len(sq) |-> [i |-> sq[j] - t, size |-> Cardinality({k \in Present(D) : U[k] > sq[j]})]]

MaxDue(U) == LET ds == {U[k] : k \in Keys} IN CHOOSE m \in ds : \A x \in ds : x <= m

GInit == Init /\ hist = <<>> /\ nops = 0 /\ fin = FALSE /\ seen = {} /\ full = FALSE /\ drop = "none" /\ evd = FALSE

\* first uses of keys follow Order  (IF forms: TLC would enumerate the disjuncts of an action-level \/ one by one)
InOrder(k) ==
  IF Order = <<>> \/ k \in seen THEN TRUE
  ELSE IF Cardinality(seen) < Len(Order) THEN k = Order[Cardinality(seen) + 1] ELSE FALSE

\* operation o on the cache with data D and recency list L changes its state (data, due, lru)
Effective(o, D, L) ==
  IF o.op \in {"set", "setx"} THEN TRUE
  ELSE IF D[o.k] = 0 THEN o.op = "takeok"
  ELSE IF o.op = "del" \/ Limit = 0 THEN TRUE
  ELSE L[1] # o.k

\* the state after the pre-ticks
D1(n) == AgeData(data, due, T, n)
U1(n) == AgeData(due, due, T, n)
L1(n) == AgeLru(lru, due, T, n)

\* the operation on held key k changes the recency order of list L while the cache is below its limit
Reord(L, k, dr) ==
  IF Limit > 0 /\ InSeq(k, L) /\ L[1] # k /\ Len(L) < Limit THEN (IF full THEN dr ELSE "fill") ELSE ""

Macro(n, o) ==
  LET t1 == T + n
      v  == nops + 1                \* a fresh value per operation: a stale value is always visible
      tr == Trail(data, due, T, n)
      dr == IF Aged(due, T, n) # {} THEN "age" ELSE drop
      ro == Reord(L1(n), o.k, dr)
  IN
  /\ ~fin /\ nops < MaxOps
  /\ n \in (IF nops = 0 THEN Pre0 ELSE Pre)
  /\ InOrder(o.k)
  /\ IF Idle THEN TRUE ELSE Effective(o, D1(n), L1(n))
  /\ nops' = nops + 1
  /\ T' = t1
  /\ seen' = seen \cup {o.k}
  /\ drop' = IF o.op = "del" /\ D1(n)[o.k] # 0 THEN "del" ELSE dr
  /\ UNCHANGED <<fin, ghost>>
  /\ CASE o.op \in {"set", "setx"} ->
            LET e == IF o.op = "set" THEN Expire ELSE o.e
                d == DelayOf(e, o.R) IN
            /\ data' = StoreData(D1(n), L1(n), o.k, v)
            /\ due' = StoreDue(U1(n), L1(n), o.k, t1 + d)
            /\ lru' = StoreLru(L1(n), o.k)
            /\ out' = [op |-> o.op, k |-> o.k, v |-> v, e |-> e, R |-> o.R, d |-> d, pre |-> n, trail |-> tr,
                       size |-> Size(data'), held |-> Present(data'), evicted |-> Victim(L1(n), o.k), reord |-> ro]
       [] o.op = "get" ->
            /\ data' = D1(n) /\ due' = U1(n)
            /\ lru' = IF D1(n)[o.k] # 0 THEN Touch(L1(n), o.k) ELSE L1(n)
            /\ out' = [op |-> "get", k |-> o.k, hit |-> (D1(n)[o.k] # 0), v |-> D1(n)[o.k], pre |-> n, trail |-> tr,
                       size |-> Size(data'), held |-> Present(data'), evicted |-> {}, reord |-> ro]
       [] o.op = "del" ->
            /\ data' = RemoveData(D1(n), o.k) /\ due' = RemoveData(U1(n), o.k)
            /\ lru' = RemoveLru(L1(n), o.k)
            /\ out' = [op |-> "del", k |-> o.k, pre |-> n, trail |-> tr, size |-> Size(data'), held |-> Present(data'),
                       evicted |-> {}, reord |-> ""]
       [] o.op \in {"takeok", "takeerr"} ->
            LET fok == (o.op = "takeok")
                fv == 100 + v
                d == DelayOf(Expire, o.R)
                hit == D1(n)[o.k] # 0 IN
            /\ data' = IF ~hit /\ fok THEN StoreData(D1(n), L1(n), o.k, fv) ELSE D1(n)
            /\ due' = IF ~hit /\ fok THEN StoreDue(U1(n), L1(n), o.k, t1 + d) ELSE U1(n)
            /\ lru' = IF hit THEN Touch(L1(n), o.k) ELSE IF fok THEN StoreLru(L1(n), o.k) ELSE L1(n)
            /\ out' = [op |-> "take", k |-> o.k, fok |-> fok, fv |-> fv, R |-> o.R, d |-> d, pre |-> n, trail |-> tr,
                       hit |-> hit, fetched |-> ~hit, err |-> (~hit /\ ~fok),
                       v |-> IF hit THEN D1(n)[o.k] ELSE IF fok THEN fv ELSE 0, size |-> Size(data'),
                       held |-> Present(data'), evicted |-> IF ~hit /\ fok THEN Victim(L1(n), o.k) ELSE {}, reord |-> ro]
  /\ full' = (full \/ (Limit > 0 /\ Size(data') = Limit))
  /\ evd' = (evd \/ out'.evicted # {})
  \* goal-directed families: an eviction has happened or the operations left can still fill the cache beyond its limit
  /\ IF MustEvict THEN (IF evd' THEN TRUE ELSE Size(data') + (MaxOps - nops') > Limit) ELSE TRUE
  /\ hist' = Append(hist, out')

Has(kind) == kind \in Kinds

Ops ==
  {[op |-> "set", k |-> k, R |-> R] : k \in (IF Has("set") THEN Keys ELSE {}), R \in Jit}
  \cup {[op |-> "setx", k |-> k, e |-> e, R |-> R] : k \in (IF Has("setx") THEN Keys ELSE {}), e \in Expires, R \in Jit}
  \cup {[op |-> "get", k |-> k] : k \in (IF Has("get") THEN Keys ELSE {})}
  \cup {[op |-> "del", k |-> k] : k \in (IF Has("del") THEN Keys ELSE {})}
  \cup {[op |-> "takeok", k |-> k, R |-> R] : k \in (IF Has("takeok") THEN Keys ELSE {}), R \in Jit}
  \cup {[op |-> "takeerr", k |-> k, R |-> R] : k \in (IF Has("takeerr") THEN Keys ELSE {}), R \in {CHOOSE r \in Jit : TRUE}}

Finish ==
  /\ ~fin /\ nops = MaxOps
  /\ fin' = TRUE
  /\ LET n == (IF MaxDue(due) > T THEN MaxDue(due) - T ELSE 0) + TailTicks IN
        /\ T' = T + n
        /\ data' = AgeData(data, due, T, n)
        /\ due' = AgeData(due, due, T, n)
        /\ lru' = AgeLru(lru, due, T, n)
        /\ out' = [op |-> "finish", probe0 |-> data, pre |-> n, trail |-> Trail(data, due, T, n),
                   size |-> Size(data'), probe |-> data']
  /\ hist' = Append(hist, out')
  /\ UNCHANGED <<nops, ghost, seen, full, drop, evd>>

GNext == (\E n \in Pre0 \cup Pre, o \in Ops : Macro(n, o)) \/ Finish

GSpec == GInit /\ [][GNext]_gvars

\* the generator never leaves the abstract cache's envelope
GenInv == Bounded /\ Shape

Emit == fin => PrintT(ToJson(hist))

=============================================================================
