------------------------- MODULE RollingWindowLock -------------------------
(***************************************************************************)
(* Extent of rw.lock in Reduce (property C09, lib/collection/              *)
(* rollingwindow.go).  RollingWindowImpl.tla treats Reduce(fn) as one      *)
(* step.  The callback fn is user code and may take arbitrarily long, so   *)
(* here the reduction is split into its real steps                         *)
(*     Begin  : the buckets to hand out are selected (offset, span())      *)
(*     Visit  : fn reads the next selected bucket (the live ring element)  *)
(*     End    : Reduce returns                                             *)
(* while time advances and - depending on Variant - other goroutines Add:  *)
(*     "locked"   : rw.lock is held from Begin to End (Add has to wait)    *)
(*     "unlocked" : rw.lock is held during Begin only                      *)
(* The abstract window makes a reduction ONE atomic action, so what fn     *)
(* has collected at End must be the abstract report of ONE moment between  *)
(* Begin and End (`seen` collects these reports).  TLC proves Atomic for   *)
(* "locked" and must refute it for "unlocked" (vacuity guard of the model; *)
(* the verdict on the real code comes from the overlap steps of            *)
(* RollingWindowGen.tla replayed by harness/c09/window_test.go).           *)
(***************************************************************************)
EXTENDS RollingWindowImpl

CONSTANT Variant

VARIABLE rd    \* the reduction in progress

lvars == <<vars, rd>>

Idle == [on |-> FALSE, pos |-> <<>>, acc |-> <<>>, seen |-> {}]

\* ring positions Reduce selects, in visiting order (same arithmetic as ReduceSeq)
ReducePos ==
  LET span == Span(now)
      diff == IF span = 0 /\ IgnoreCurrent THEN Size - 1 ELSE Size - span
      start == (offset + span + 1) % Size
  IN [i \in 1..(IF diff > 0 THEN diff ELSE 0) |-> (start + i - 1) % Size]

AbsSeen == Abs!Seen(AbsBk)

\* every moment that passes while the reduction is in progress is recorded
Witness == rd' = IF rd.on THEN [rd EXCEPT !.seen = @ \cup {AbsSeen'}] ELSE rd

LInit == Init /\ rd = Idle

LAdvance(d) == Advance(d) /\ Witness

LAdd(v) ==
  /\ Variant = "unlocked" \/ ~rd.on
  /\ Add(v)
  /\ Witness

Begin ==
  /\ ~rd.on
  /\ rd' = [on |-> TRUE, pos |-> ReducePos, acc |-> <<>>, seen |-> {AbsSeen}]
  /\ out' = [op |-> "begin"]
  /\ UNCHANGED core

Visit ==
  /\ rd.on /\ rd.pos # <<>>
  /\ rd' = [rd EXCEPT !.pos = Tail(@), !.acc = Append(@, ring[Head(rd.pos)])]
  /\ out' = [op |-> "visit"]
  /\ UNCHANGED core

End ==
  /\ rd.on /\ rd.pos = <<>>
  /\ rd' = Idle
  /\ out' = [op |-> "reduced", buckets |-> NonEmpty(rd.acc), ok |-> NonEmpty(rd.acc) \in rd.seen]
  /\ UNCHANGED core

LNext ==
  \/ \E d \in Advances : LAdvance(d)
  \/ \E v \in Vals : LAdd(v)
  \/ Begin \/ Visit \/ End

LSpec == LInit /\ [][LNext]_lvars

\* a reduction reports the window of one moment of its execution (stated on the state before End,
\* so that `out` and the ghost `log` can be kept out of the fingerprints: lview)
Atomic == (rd.on /\ rd.pos = <<>>) => NonEmpty(rd.acc) \in rd.seen

lview == <<now, ring, offset, lastTime, rd>>

=============================================================================
