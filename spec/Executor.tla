------------------------------ MODULE Executor ------------------------------
(***************************************************************************)
(* Abstract specification of the batching executors of lib/executors       *)
(* (property C16): PeriodicalExecutor with any TaskContainer ("per"),      *)
(* BulkExecutor ("bulk", at most `max` tasks per batch) and ChunkExecutor  *)
(* ("chunk", a batch exceeds `max` bytes by less than its last task).      *)
(*                                                                         *)
(* What the statement promises, and nothing more:                          *)
(*  - every task handed to Add is passed to execute exactly once;          *)
(*  - a batch is what the container held when it was taken: a run of       *)
(*    consecutively added tasks, in the order they were added;             *)
(*  - the batch bounds of bulk/chunk;                                      *)
(*  - Wait returns only when every task whose Add had returned before the  *)
(*    Wait call has finished executing.                                    *)
(* WHEN a batch is taken (threshold, tick, Flush, Wait, the retiring       *)
(* flusher's last Flush) is left open: Take may happen at any moment.      *)
(*                                                                         *)
(* The configuration is a state variable (`conf`) so that the trace        *)
(* acceptor ExecutorTrace.tla can set it per recorded history.             *)
(***************************************************************************)
EXTENDS Integers, Sequences, FiniteSets, TLC

CONSTANTS Procs,     \* caller ids
          Confs,     \* model-checking only: configurations to start from
          Sizes,     \* model-checking only: task sizes
          MaxTask    \* model-checking only: number of tasks added

VARIABLES conf,      \* [kind |-> "per" | "bulk" | "chunk", max |-> n]
          added,     \* task ids in the order their Add took effect
          sz,        \* task id -> size in bytes
          held,      \* tasks in the container (added, not yet taken)
          pend,      \* batches taken, execution not yet begun
          running,   \* batches being executed
          begun,     \* tasks passed to execute
          finished,  \* tasks whose execution has returned
          returned,  \* tasks whose Add call has returned
          pc         \* per caller: Idle, or the call in progress

avars == <<conf, added, sz, held, pend, running, begun, finished, returned, pc>>

Idle == [s |-> "idle"]
Range(q) == {q[i] : i \in 1..Len(q)}
Bytes(b) == LET sum[i \in 0..Len(b)] == IF i = 0 THEN 0 ELSE sum[i - 1] + sz[b[i]] IN sum[Len(b)]

\* the bound clauses of the statement
BoundOK(b) ==
  CASE conf.kind = "bulk"  -> Len(b) <= conf.max
    [] conf.kind = "chunk" -> b = <<>> \/ Bytes(b) - sz[b[Len(b)]] < conf.max
    [] OTHER               -> TRUE

AInit(c) ==
  /\ conf = c
  /\ added = <<>> /\ sz = <<>> /\ held = <<>> /\ pend = {} /\ running = {}
  /\ begun = {} /\ finished = {} /\ returned = {}
  /\ pc = [p \in Procs |-> Idle]

(* ------------------------------------------------------------------ actions *)

AddInv(p, t, s) ==
  /\ pc[p] = Idle /\ t \notin DOMAIN sz
  /\ sz' = (t :> s) @@ sz
  /\ pc' = [pc EXCEPT ![p] = [s |-> "add", t |-> t, lin |-> FALSE]]
  /\ UNCHANGED <<conf, added, held, pend, running, begun, finished, returned>>

\* the Add takes effect (AddTask under the executor's lock).  An executor that honours its
\* bound never lets the container grow past what may still be taken as one batch.
AddLin(p) ==
  /\ pc[p].s = "add" /\ ~pc[p].lin
  /\ BoundOK(Append(held, pc[p].t))
  /\ added' = Append(added, pc[p].t)
  /\ held' = Append(held, pc[p].t)
  /\ pc' = [pc EXCEPT ![p].lin = TRUE]
  /\ UNCHANGED <<conf, sz, pend, running, begun, finished, returned>>

AddRet(p) ==
  /\ pc[p].s = "add" /\ pc[p].lin
  /\ returned' = returned \cup {pc[p].t}
  /\ pc' = [pc EXCEPT ![p] = Idle]
  /\ UNCHANGED <<conf, added, sz, held, pend, running, begun, finished>>

\* a batch leaves the container: everything held, in order (RemoveAll), whatever the trigger
Take(b) ==
  /\ b = held /\ b # <<>>
  /\ BoundOK(b)
  /\ pend' = pend \cup {b}
  /\ held' = <<>>
  /\ UNCHANGED <<conf, added, sz, running, begun, finished, returned, pc>>

ExecBegin(b) ==
  /\ b \in pend
  /\ pend' = pend \ {b}
  /\ running' = running \cup {b}
  /\ begun' = begun \cup Range(b)
  /\ UNCHANGED <<conf, added, sz, held, finished, returned, pc>>

ExecEnd(b) ==
  /\ b \in running
  /\ running' = running \ {b}
  /\ finished' = finished \cup Range(b)
  /\ UNCHANGED <<conf, added, sz, held, pend, begun, returned, pc>>

WaitInv(p) ==
  /\ pc[p] = Idle
  /\ pc' = [pc EXCEPT ![p] = [s |-> "wait", must |-> returned]]
  /\ UNCHANGED <<conf, added, sz, held, pend, running, begun, finished, returned>>

WaitRet(p) ==
  /\ pc[p].s = "wait"
  /\ pc[p].must \subseteq finished
  /\ pc' = [pc EXCEPT ![p] = Idle]
  /\ UNCHANGED <<conf, added, sz, held, pend, running, begun, finished, returned>>

\* Flush is only a trigger (its effect is a Take + execution, modelled by those actions)
FlushInv(p) ==
  /\ pc[p] = Idle
  /\ pc' = [pc EXCEPT ![p] = [s |-> "flush"]]
  /\ UNCHANGED <<conf, added, sz, held, pend, running, begun, finished, returned>>

FlushRet(p) ==
  /\ pc[p].s = "flush"
  /\ pc' = [pc EXCEPT ![p] = Idle]
  /\ UNCHANGED <<conf, added, sz, held, pend, running, begun, finished, returned>>

\* nothing in flight and nothing left behind
Quiet ==
  /\ \A p \in Procs : pc[p] = Idle
  /\ held = <<>> /\ pend = {} /\ running = {}
  /\ Range(added) = finished /\ begun = finished

(* ------------------------------------------------------------------ the model on its own *)

MCInit == \E c \in Confs : AInit(c)

MCNext ==
  \/ \E p \in Procs, s \in Sizes : Len(added) + Cardinality({q \in Procs : pc[q].s = "add" /\ ~pc[q].lin}) < MaxTask
                                   /\ AddInv(p, Cardinality(DOMAIN sz) + 1, s)
  \/ \E p \in Procs : AddLin(p) \/ AddRet(p) \/ WaitInv(p) \/ WaitRet(p) \/ FlushInv(p) \/ FlushRet(p)
  \/ Take(held)
  \/ \E b \in pend : ExecBegin(b)
  \/ \E b \in running : ExecEnd(b)

MCSpec == MCInit /\ [][MCNext]_avars

(* ------------------------------------------------------------------ the property *)

Batches == pend \cup running
InB(t, b) == \E i \in 1..Len(b) : b[i] = t
Pos(t) == CHOOSE i \in 1..Len(added) : added[i] = t

\* exactly once: every added task is in exactly one place, and is never executed twice
ExactlyOnce ==
  \A t \in Range(added) :
     (IF InB(t, held) THEN 1 ELSE 0) + Cardinality({b \in pend : InB(t, b)}) + (IF t \in begun THEN 1 ELSE 0) = 1
\* a batch is a run of consecutively added tasks in the order they were added
InOrder ==
  \A b \in Batches : \A i \in 1..Len(b) : InB(b[i], added) /\ (i > 1 => Pos(b[i]) = Pos(b[i - 1]) + 1)
\* bulk: never more than max tasks; chunk: over the byte limit by less than the last task
Bounded == \A b \in Batches : BoundOK(b)
\* Wait soundness, as a property of every step
WaitSound == [][\A p \in Procs : (pc[p].s = "wait" /\ pc'[p] = Idle) => pc[p].must \subseteq finished]_avars
\* nothing executes that was not added; finished only after begun
Sane == finished \subseteq begun /\ begun \subseteq Range(added)

=============================================================================
