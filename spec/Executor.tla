------------------------------ MODULE Executor ------------------------------
(***************************************************************************)
(* Abstract specification of the batching executors of lib/executors       *)
(* (property C16): PeriodicalExecutor with any TaskContainer ("per"),      *)
(* BulkExecutor ("bulk", at most `max` tasks per batch) and ChunkExecutor  *)
(* ("chunk", a batch exceeds `max` bytes by less than its last task).      *)
(*                                                                         *)
(* What the statement promises, and nothing more:                          *)
(*  - every task handed to Add is passed to execute exactly once;          *)
(*  - a batch is what the container held when it was taken: a run of       *)
(*    consecutively added tasks, in the order they were added;             *)
(*  - the batch bounds of bulk/chunk;                                      *)
(*  - Wait returns only when every task whose Add had returned before the  *)
(*    Wait call has finished executing.                                    *)
(* WHEN a batch is taken (threshold, tick, Flush, Wait, the retiring       *)
(* flusher's last Flush) is left open: Take may happen at any moment.      *)
(*                                                                         *)
(* The configuration is a state variable (`conf`) so that the trace        *)
(* acceptor ExecutorTrace.tla can set it per recorded history.             *)
(***************************************************************************)
EXTENDS Integers, Sequences, FiniteSets, TLC

CONSTANTS Procs,     \* caller ids
          Confs,     \* model-checking only: configurations to start from
          Sizes,     \* model-checking only: task sizes
          MaxTask    \* model-checking only: number of tasks added

VARIABLES conf,      \* [kind |-> "per" | "bulk" | "chunk", max |-> n]
          added,     \* task ids in the order their Add took effect
          sz,        \* task id -> size in bytes
          held,      \* tasks in the container (added, not yet taken)
          pend,      \* batches taken, execution not yet begun
          running,   \* batches being executed
          begun,     \* tasks passed to execute
          finished,  \* tasks whose execution has returned
          returned,  \* tasks whose Add call has returned
          pc         \* per caller: Idle, or the call in progress

avars == <<conf, added, sz, held, pend, running, begun, finished, returned, pc>>

Idle == [s |-> "idle"]
Range(q) == {q[i] : i \in 1..Len(q)}
Bytes(b) == LET sum[i \in 0..Len(b)] == IF i = 0 THEN 0 ELSE sum[i - 1] + sz[b[i]] IN sum[Len(b)]

\* the bound clauses of the statement
BoundOK(b) ==
  CASE conf.kind \in {"bulk", "inserter"} -> Len(b) <= conf.max      \* inserter: rows per INSERT statement
    [] conf.kind = "chunk" -> b = <<>> \/ Bytes(b) - sz[b[Len(b)]] < conf.max
    [] OTHER               -> TRUE

AInit(c) ==
  /\ conf = c
  /\ added = <<>> /\ sz = <<>> /\ held = <<>> /\ pend = {} /\ running = {}
  /\ begun = {} /\ finished = {} /\ returned = {}
  /\ pc = [p \in Procs |-> Idle]

(* ------------------------------------------------------------------ actions *)

AddInv(p, t, s) ==
  /\ pc[p] = Idle /\ t \notin DOMAIN sz
  /\ sz' = (t :> s) @@ sz
  /\ pc' = [pc EXCEPT ![p] = [s |-> "add", t |-> t, lin |-> FALSE]]
  /\ UNCHANGED <<conf, added, held, pend, running, begun, finished, returned>>

\* the Add takes effect (AddTask under the executor's lock).  An executor that honours its
\* bound never lets the container grow past what may still be taken as one batch.
AddLin(p) ==
  /\ pc[p].s = "add" /\ ~pc[p].lin
  /\ BoundOK(Append(held, pc[p].t))
  /\ added' = Append(added, pc[p].t)
  /\ held' = Append(held, pc[p].t)
  /\ pc' = [pc EXCEPT ![p].lin = TRUE]
  /\ UNCHANGED <<conf, sz, pend, running, begun, finished, returned>>

AddRet(p) ==
  /\ pc[p].s = "add" /\ pc[p].lin
  /\ returned' = returned \cup {pc[p].t}
  /\ pc' = [pc EXCEPT ![p] = Idle]
  /\ UNCHANGED <<conf, added, sz, held, pend, running, begun, finished>>

\* a batch leaves the container: everything held, in order (RemoveAll), whatever the trigger
Take(b) ==
  /\ b = held /\ b # <<>>
  /\ BoundOK(b)
  /\ pend' = pend \cup {b}
  /\ held' = <<>>
  /\ UNCHANGED <<conf, added, sz, running, begun, finished, returned, pc>>

ExecBegin(b) ==
  /\ b \in pend
  /\ pend' = pend \ {b}
  /\ running' = running \cup {b}
  /\ begun' = begun \cup Range(b)
  /\ UNCHANGED <<conf, added, sz, held, finished, returned, pc>>

\* Public-API view (ExecutorTrace, kinds driven without access to the container): neither the
\* moment an Add takes effect nor the moment a batch is taken is observable.  Every partition
\* of the added tasks into runs of consecutive adds is produced by Takes placed at the ends of
\* the runs, and batches taken earlier may begin later, so Take(b) followed - at any later
\* time - by ExecBegin(b) is observationally the same as PubBegin(b) with `held` read as
\* "added and not yet passed to execute":
AddLinFree(p) ==
  /\ pc[p].s = "add" /\ ~pc[p].lin
  /\ added' = Append(added, pc[p].t)
  /\ held' = Append(held, pc[p].t)
  /\ pc' = [pc EXCEPT ![p].lin = TRUE]
  /\ UNCHANGED <<conf, sz, pend, running, begun, finished, returned>>

PubBegin(b) ==
  /\ b # <<>> /\ Range(b) \subseteq Range(held)
  /\ LET s == CHOOSE i \in 1..Len(added) : added[i] = b[1] IN
       s + Len(b) - 1 <= Len(added) /\ SubSeq(added, s, s + Len(b) - 1) = b
  /\ BoundOK(b)
  /\ held' = SelectSeq(held, LAMBDA t : t \notin Range(b))
  /\ running' = running \cup {b}
  /\ begun' = begun \cup Range(b)
  /\ UNCHANGED <<conf, added, sz, pend, finished, returned, pc>>

ExecEnd(b) ==
  /\ b \in running
  /\ running' = running \ {b}
  /\ finished' = finished \cup Range(b)
  /\ UNCHANGED <<conf, added, sz, held, pend, begun, returned, pc>>

WaitInv(p) ==
  /\ pc[p] = Idle
  /\ pc' = [pc EXCEPT ![p] = [s |-> "wait", must |-> returned]]
  /\ UNCHANGED <<conf, added, sz, held, pend, running, begun, finished, returned>>

WaitRet(p) ==
  /\ pc[p].s = "wait"
  /\ pc[p].must \subseteq finished
  /\ pc' = [pc EXCEPT ![p] = Idle]
  /\ UNCHANGED <<conf, added, sz, held, pend, running, begun, finished, returned>>

\* Flush is only a trigger (its effect is a Take + execution, modelled by those actions)
FlushInv(p) ==
  /\ pc[p] = Idle
  /\ pc' = [pc EXCEPT ![p] = [s |-> "flush"]]
  /\ UNCHANGED <<conf, added, sz, held, pend, running, begun, finished, returned>>

FlushRet(p) ==
  /\ pc[p].s = "flush"
  /\ pc' = [pc EXCEPT ![p] = Idle]
  /\ UNCHANGED <<conf, added, sz, held, pend, running, begun, finished, returned>>

\* nothing in flight and nothing left behind
Quiet ==
  /\ \A p \in Procs : pc[p] = Idle
  /\ held = <<>> /\ pend = {} /\ running = {}
  /\ Range(added) = finished /\ begun = finished

(* ------------------------------------------------------------------ the model on its own *)

MCInit == \E c \in Confs : AInit(c)

MCNext ==
  \/ \E p \in Procs, s \in Sizes : Len(added) + Cardinality({q \in Procs : pc[q].s = "add" /\ ~pc[q].lin}) < MaxTask
                                   /\ AddInv(p, Cardinality(DOMAIN sz) + 1, s)
  \/ \E p \in Procs : AddLin(p) \/ AddRet(p) \/ WaitInv(p) \/ WaitRet(p) \/ FlushInv(p) \/ FlushRet(p)
  \/ Take(held)
  \/ \E b \in pend : ExecBegin(b)
  \/ \E b \in running : ExecEnd(b)

MCSpec == MCInit /\ [][MCNext]_avars

(* ------------------------------------------------------------------ the property *)

Batches == pend \cup running
InB(t, b) == \E i \in 1..Len(b) : b[i] = t
Pos(t) == CHOOSE i \in 1..Len(added) : added[i] = t
PendTasks == UNION {Range(b) : b \in pend}
IsRun(b) == b = <<>> \/ (b[1] \in Range(added) /\ LET s == Pos(b[1]) IN
                                                    s + Len(b) - 1 <= Len(added) /\ SubSeq(added, s, s + Len(b) - 1) = b)

\* exactly once: every added task is in exactly one place (container, a batch not yet begun, or
\* passed to execute), and no task is in two batches
ExactlyOnce ==
  /\ Cardinality(Range(added)) = Len(added) /\ Cardinality(Range(held)) = Len(held)
  /\ Range(held) \cap PendTasks = {} /\ Range(held) \cap begun = {} /\ PendTasks \cap begun = {}
  /\ Range(held) \cup PendTasks \cup begun = Range(added)
  /\ \A b1, b2 \in Batches : b1 # b2 => Range(b1) \cap Range(b2) = {}
\* a batch is a run of consecutively added tasks in the order they were added
InOrder == \A b \in Batches : IsRun(b)
\* bulk: never more than max tasks; chunk: over the byte limit by less than the last task
Bounded == \A b \in Batches : BoundOK(b)
\* Wait soundness, as a property of every step
WaitSound == [][\A p \in Procs : (pc[p].s = "wait" /\ pc'[p] = Idle) => pc[p].must \subseteq finished]_avars
\* nothing executes that was not added; finished only after begun
Sane == finished \subseteq begun /\ begun \subseteq Range(added)

=============================================================================
