--------------------------- MODULE PeriodLimitConc ---------------------------
(***************************************************************************)
(* Concurrent takers on one period limiter (property C08, first sentence:  *)
(* "... independently per key and whatever the interleaving of concurrent  *)
(* callers") - code -> spec.                                               *)
(*                                                                         *)
(* The driver (harness/c08, TestVerifC08Race) puts several goroutines per  *)
(* key on one real PeriodLimit.  A round is a sequence of PHASES separated *)
(* by barriers; in front of a phase the server clock may move by d         *)
(* seconds.  Recorded per phase and key: obs[j] = [k, m, allowed, hit,     *)
(* over] = the m takes of key k returned Allowed / HitQuota / OverQuota    *)
(* that many times; `extra` = script executions seen by the Redis server   *)
(* beyond the number of takes (client-side re-sends, 0 on a quiet machine).*)
(*                                                                         *)
(* m concurrent takes of one key are PeriodLimit!Burst(k, m): m atomic     *)
(* script runs in some order.  A phase is explained iff for every key the  *)
(* recorded multiset of codes is the multiset Burst predicts (with e       *)
(* unobserved executions among them: contained in the prediction for m+e). *)
(* Keys are taken in any order (KeysIndependent is model-checked).         *)
(***************************************************************************)
EXTENDS PeriodLimit, Json

CONSTANT Rounds   \* sequence of [quota, period, phases]; phases: sequence of [d, extra, lost, obs]
                  \* (d = 0 for the first phase); obs: sequence of [k, m, allowed, hit, over]

VARIABLES rd, ph,
          plan,   \* the phases of the round from the current one on (Rounds is read in the initial state only)
          todo,   \* indices of obs of the current phase not yet explained
          xtr     \* script executions without a recorded result still available in this phase

cvars == <<vars, rd, ph, plan, todo, xtr>>

Obs    == plan[1].obs
Codes  == {"allowed", "hit", "over"}

BagOf(cs) == [c \in Codes |-> Cardinality({i \in DOMAIN cs : cs[i] = c})]

CInit ==
  /\ Init
  /\ rd \in 1..Len(Rounds)
  /\ \E r \in {Rounds[rd]} :
       /\ quota = r.quota /\ period = r.period
       /\ plan = r.phases
       /\ todo = 1..Len(r.phases[1].obs)
       /\ xtr = r.phases[1].extra
  /\ ph = 1

Explain(j, e) ==
  /\ j \in todo
  /\ Burst(Obs[j].k, Obs[j].m + e)
  /\ Obs[j].allowed + Obs[j].hit + Obs[j].over = Obs[j].m        \* every take returned one of the codes
  /\ \E bag \in {BagOf(out'.codes)} : \A c \in Codes : Obs[j][c] <= bag[c]
  /\ todo' = todo \ {j}
  /\ xtr' = xtr - e
  /\ UNCHANGED <<rd, ph, plan>>

\* every result explained, and every take was a script execution (lost = takes the server never saw)
Explained == todo = {} /\ plan[1].lost = 0

NextPhase ==
  /\ Explained /\ Len(plan) > 1
  /\ \E p \in {plan[2]} :
       /\ IF p.d = 0 THEN UNCHANGED vars ELSE Advance(p.d)
       /\ todo' = 1..Len(p.obs)
       /\ xtr' = p.extra
  /\ plan' = Tail(plan)
  /\ ph' = ph + 1
  /\ UNCHANGED rd

CNext ==
  \/ \E j \in todo, e \in 0..xtr : Explain(j, e)
  \/ NextPhase

CSpec == CInit /\ [][CNext]_cvars

\* the log of takes and out do not influence what can still be explained
CView == <<quota, period, srv, cnt, exp, rd, ph, plan, todo, xtr>>

Accepted == Explained /\ Len(plan) = 1

Accept == Accepted => PrintT(ToJson([accept |-> rd]))

\* a state from which nothing more of the round can be explained, with the specification's prediction
\* for the keys that are left
Stuck ==
  (~Accepted /\ ~ENABLED CNext) =>
     PrintT(ToJson([stuck |-> rd, ph |-> ph,
                    want |-> {[j |-> j, bag |-> BagOf(CodesOf(cnt, exp, Obs[j].k, Obs[j].m))] : j \in todo}]))

=============================================================================
