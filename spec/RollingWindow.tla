--------------------------- MODULE RollingWindow ---------------------------
(***************************************************************************)
(* Abstract rolling window (property C09; lib/collection/rollingwindow.go, *)
(* also the statistics behind the breaker of C01 and the shedder).         *)
(*                                                                         *)
(* Time is counted in ticks; a bucket interval is Q ticks; buckets are     *)
(* aligned to the creation instant (now = 0), so the bucket of instant t   *)
(* is t \div Q.  The window keeps, for each of the last Size bucket        *)
(* intervals, the sum and the number of the values added during it.  The   *)
(* state is indexed by AGE: bk[0] is the current bucket, bk[j] the bucket  *)
(* j intervals ago.  A reduction sees ages 0..Size-1, or 1..Size-1 when    *)
(* the current bucket is ignored.                                          *)
(*                                                                         *)
(* `log` is a ghost variable (every add with its instant) used to state    *)
(* the property directly: the window holds exactly the adds whose bucket   *)
(* lies in the last Size bucket intervals.  `out` is observation only.     *)
(***************************************************************************)
EXTENDS Integers, Sequences, FiniteSets, TLC, SequencesExt

CONSTANTS Size,           \* number of buckets
          Q,              \* ticks per bucket interval
          IgnoreCurrent,  \* BOOLEAN: reductions skip the current bucket
          Advances,       \* set of time advances (ticks) offered
          Vals            \* set of values offered to Add (integers)

VARIABLES now, bk, log, out

vars == <<now, bk, log, out>>
core == <<now, bk, log>>

Empty == [sum |-> 0, count |-> 0]
Ages == 0..(Size - 1)
VisibleAges == (IF IgnoreCurrent THEN 1 ELSE 0)..(Size - 1)
Cur(t) == t \div Q

\* s bucket boundaries pass: what was j intervals old is now j + s intervals old
Shift(b, s) == [j \in Ages |-> IF j >= s THEN b[j - s] ELSE Empty]
AddTo(b, v, n) == [b EXCEPT ![0] = [sum |-> @.sum + v * n, count |-> @.count + n]]

\* what a reduction hands to its callback: the non-empty visible buckets, oldest first
Seen(b) ==
  LET ages == SetToSortSeq({j \in VisibleAges : b[j].count > 0}, LAMBDA x, y : x > y)
  IN [i \in 1..Len(ages) |-> b[ages[i]]]
TotalSum(b) == FoldSeq(LAMBDA e, acc : acc + e.sum, 0, Seen(b))
TotalCount(b) == FoldSeq(LAMBDA e, acc : acc + e.count, 0, Seen(b))

TypeOK ==
  /\ now \in Nat
  /\ bk \in [Ages -> [sum : Int, count : Nat]]

Init ==
  /\ now = 0
  /\ bk = [j \in Ages |-> Empty]
  /\ log = <<>>
  /\ out = [op |-> "init"]

Advance(d) ==
  /\ now' = now + d
  /\ bk' = Shift(bk, Cur(now + d) - Cur(now))
  /\ out' = [op |-> "advance", d |-> d]
  /\ UNCHANGED log

Add(v) ==
  /\ bk' = AddTo(bk, v, 1)
  /\ log' = Append(log, [t |-> now, v |-> v])
  /\ out' = [op |-> "add", v |-> v]
  /\ UNCHANGED now

Reduce ==
  /\ out' = [op |-> "reduce", buckets |-> Seen(bk), sum |-> TotalSum(bk), count |-> TotalCount(bk)]
  /\ UNCHANGED core

Next ==
  \/ \E d \in Advances : Advance(d)
  \/ \E v \in Vals : Add(v)
  \/ Reduce

Spec == Init /\ [][Next]_vars

(* ------------------------------------------------------------ the property *)

\* the adds recorded in the log whose bucket is `b`
InBucket(b) == SelectSeq(log, LAMBDA e : Cur(e.t) = b)
Agg(s) == [sum |-> FoldSeq(LAMBDA e, acc : acc + e.v, 0, s), count |-> Len(s)]

\* the window holds, bucket by bucket, exactly the adds of the last Size bucket intervals:
\* nothing older is seen (older buckets are not part of the state), nothing recent is lost or
\* counted twice
Exact == \A j \in Ages : bk[j] = Agg(InBucket(Cur(now) - j))

\* ... and a reduction reports exactly the adds whose bucket is visible
Recent == SelectSeq(log, LAMBDA e : (Cur(now) - Cur(e.t)) \in VisibleAges)
ReduceExact ==
  out.op = "reduce" => out.sum = Agg(Recent).sum /\ out.count = Agg(Recent).count

=============================================================================
