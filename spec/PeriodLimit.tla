---------------------------- MODULE PeriodLimit ----------------------------
(***************************************************************************)
(* Period limiter (property C08, first sentence; lib/limit/periodlimit.go) *)
(*                                                                         *)
(* Time is the Redis server's clock in whole seconds (`srv`).  A key's     *)
(* window opens with the first take that finds no live counter and lasts   *)
(* `period` server seconds; inside a window the first quota-1 takes are    *)
(* Allowed, the quota-th is HitQuota, all later ones OverQuota; the count  *)
(* starts afresh only after the window's expiry; keys are independent.     *)
(*                                                                         *)
(* The mechanism-level state (`cnt`, `exp`: counter key with a TTL) is     *)
(* what the Lua script keeps; the property `WindowQuota` is stated         *)
(* independently over the log of takes (time of each take and its code),   *)
(* so model checking compares the two formulations.                        *)
(*                                                                         *)
(* quota/period are chosen in Init (one TLC run covers all configurations).*)
(***************************************************************************)
EXTENDS Integers, Sequences, FiniteSets, TLC

CONSTANTS Keys,      \* limiter keys
          Configs,   \* set of <<quota, period>> pairs, quota >= 1, period >= 1
          MaxAdv,    \* largest single advance of the server clock
          MaxBurst   \* largest number of concurrent takes in one Burst step

VARIABLES quota, period,
          srv,       \* server clock, seconds
          cnt,       \* [Keys -> Nat]   takes in the live window, 0 = no counter key
          exp,       \* [Keys -> Nat]   server second at which the counter key expires
          log,       \* sequence of [k, t, code]: every take ever made (for the property)
          out        \* observation of the last step

vars == <<quota, period, srv, cnt, exp, log, out>>
core == <<quota, period, srv, cnt, exp, log>>

Code(c) == IF c < quota THEN "allowed" ELSE IF c = quota THEN "hit" ELSE "over"

Init ==
  /\ \E c \in Configs : quota = c[1] /\ period = c[2]
  /\ srv = 0
  /\ cnt = [k \in Keys |-> 0]
  /\ exp = [k \in Keys |-> 0]
  /\ log = <<>>
  /\ out = [op |-> "cfg", quota |-> quota, period |-> period]

(* ----------------------------------------------------------- step functions *)

\* the script: INCRBY, EXPIRE on the first hit, compare with the limit
Live(c, e, k)    == c[k] > 0 /\ srv < e[k]
CntAfter(c, e, k) == IF Live(c, e, k) THEN c[k] + 1 ELSE 1
ExpAfter(c, e, k) == IF Live(c, e, k) THEN e[k] ELSE srv + period

\* m takes of key k one after the other (any interleaving of concurrent callers is some order
\* of the atomic script executions): the codes, in order
CodesOf(c, e, k, m) == [i \in 1..m |-> Code(CntAfter(c, e, k) + i - 1)]

(* ----------------------------------------------------------- actions *)

Take(k) ==
  /\ cnt' = [cnt EXCEPT ![k] = CntAfter(cnt, exp, k)]
  /\ exp' = [exp EXCEPT ![k] = ExpAfter(cnt, exp, k)]
  /\ log' = Append(log, [k |-> k, t |-> srv, code |-> Code(CntAfter(cnt, exp, k))])
  /\ out' = [op |-> "take", k |-> k, code |-> Code(CntAfter(cnt, exp, k))]
  /\ UNCHANGED <<quota, period, srv>>

\* m concurrent callers on one key: m atomic script runs in some order
Burst(k, m) ==
  /\ cnt' = [cnt EXCEPT ![k] = CntAfter(cnt, exp, k) + m - 1]
  /\ exp' = [exp EXCEPT ![k] = ExpAfter(cnt, exp, k)]
  /\ log' = log \o [i \in 1..m |-> [k |-> k, t |-> srv, code |-> CodesOf(cnt, exp, k, m)[i]]]
  /\ out' = [op |-> "burst", k |-> k, m |-> m, codes |-> CodesOf(cnt, exp, k, m)]
  /\ UNCHANGED <<quota, period, srv>>

Advance(d) ==
  /\ srv' = srv + d
  /\ cnt' = [k \in Keys |-> IF cnt[k] > 0 /\ srv + d >= exp[k] THEN 0 ELSE cnt[k]]
  /\ UNCHANGED <<quota, period, exp, log>>
  /\ out' = [op |-> "adv", d |-> d]

Next ==
  \/ \E k \in Keys : Take(k)
  \/ \E k \in Keys, m \in 2..MaxBurst : Burst(k, m)
  \/ \E d \in 1..MaxAdv : Advance(d)

Spec == Init /\ [][Next]_vars

(* ----------------------------------------------------------- the property *)

TypeOK ==
  /\ srv \in Nat /\ quota \in Nat \ {0} /\ period \in Nat \ {0}
  /\ cnt \in [Keys -> Nat] /\ exp \in [Keys -> Nat]
  /\ \A k \in Keys : cnt[k] > 0 => srv < exp[k] /\ exp[k] <= srv + period

\* Stated over the log only: the window of take j is opened by the first take of its key that
\* comes at or after the expiry (start + period) of the previous window of that key.
\* (An invariant: it is evaluated in every reachable state, so it is enough to look at the takes
\* of the last step; TLC evaluates definitions by name, hence the singleton-set idiom that
\* evaluates the recursive reference once.)
WindowQuota ==
  LET n == Len(log)
      Mine(j) == {i \in 1..j : log[i].k = log[j].k}          \* takes of the same key up to j
      \* window starts of one key, oldest first: a take opens a window iff it comes at or after
      \* start + period of the window open before it
      WS[j \in 0..n] ==                                        \* index of the take that opened j's window
          IF j = 0 THEN 0
          ELSE LET S == Mine(j) \ {j}
               IN IF S = {} THEN j
                  ELSE CHOOSE r \in {IF log[j].t >= log[w].t + period THEN j ELSE w :
                                        w \in {WS[CHOOSE i \in S : \A x \in S : x <= i]}} : TRUE
      Pos(j) == CHOOSE c \in {Cardinality({i \in Mine(j) : i >= w}) : w \in {WS[j]}} : TRUE
      Fresh == {j \in 1..n : out.op \in {"take", "burst"} /\ j > n - (IF out.op = "burst" THEN out.m ELSE 1)}
  IN \A j \in Fresh :
        log[j].code = (IF Pos(j) < quota THEN "allowed" ELSE IF Pos(j) = quota THEN "hit" ELSE "over")

\* keys are independent: a step on one key never changes another key's counter
KeysIndependent ==
  [][\A k \in Keys : (out'.op \in {"take", "burst"} /\ out'.k # k) => cnt'[k] = cnt[k] /\ exp'[k] = exp[k]]_vars

\* the count starts afresh only after the window's expiry
FreshOnlyAfterExpiry ==
  [][\A k \in Keys : (cnt[k] > 0 /\ cnt'[k] < cnt[k]) => srv' >= exp[k]]_vars

(* ----------------------------------------------------------- Align() *)
\* With the Align option the window does not last `period` seconds from its first take but ends at
\* the next multiple of `period` of the local wall clock (e.g. local midnight for period = 86400):
\* the TTL handed to the script at local second unix + offset.
AlignedWindow(unix, offset, p) == p - ((unix + offset) % p)

=============================================================================
