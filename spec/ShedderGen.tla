---------------------------- MODULE ShedderGen ----------------------------
(***************************************************************************)
(* Behaviour generator for Shedder.tla (spec -> code replay, C09).         *)
(*                                                                         *)
(* Macro-steps  [advance d] ; operation  with operation one of             *)
(*   allow(cpuOver, drop)   one Allow with an injected CPU reading; both   *)
(*                          decisions are generated when the specification *)
(*                          permits a rejection (the driver follows the    *)
(*                          real decision and abandons the sibling),       *)
(*   burst(n)               n Allows with the CPU below the threshold,     *)
(*                          generated only when no overload was observed   *)
(*                          in the last second: all must be admitted,      *)
(*   pass/fail(which)       the oldest or newest outstanding request       *)
(*                          reports,                                       *)
(*   passn/failn(m)         the m oldest outstanding requests report,      *)
(*   quiet(n)               n times: one request is admitted (CPU below    *)
(*                          the threshold, no recent overload) and reports *)
(*                          Fail at once - low-concurrency traffic that    *)
(*                          completes without ever feeding the windows.    *)
(* Script[i] restricts which operations and advances are offered at        *)
(* position i (scripted families keep exhaustive generation focused).      *)
(* The final step lets every outstanding request report (in-flight count   *)
(* back to zero).                                                          *)
(*                                                                         *)
(* Whole-millisecond statistics.  The specification's capacity uses the    *)
(* exact latencies.  An implementation that keeps whole-millisecond        *)
(* statistics - each sample rounded UP to a millisecond, the bucket        *)
(* average rounded to the nearest millisecond - may legitimately report a  *)
(* larger capacity; the nearest-rounding of the average can however land   *)
(* below the true average (samples 1, 1, 2 ms: 1.33 -> 1).  Such genuine   *)
(* borderlines are not generated: msBk mirrors the rounded-up samples and  *)
(* StatsOK admits a step that consults the capacity only if, for every     *)
(* visible bucket, the capacity from the whole-millisecond average is not  *)
(* below the capacity from the exact average, and the float product        *)
(* cannot sit exactly on an integer.                                       *)
(***************************************************************************)
EXTENDS Shedder, Json

CONSTANTS MaxOps, Script

VARIABLES hist, nops, fin,
          msBk     \* [0..Size-1 -> Nat]: per bucket, the sum of the samples rounded up to whole ms

gvars == <<vars, hist, nops, fin, msBk>>

RoundDiv(x, c) == (2 * x + c) \div (2 * c)                   \* nearest integer, halves up
CeilMs(ticks) == (ticks * TickUs + 999) \div 1000            \* a latency rounded up to whole ms

StatsOK(pb, rb, mb) ==
  LET m == MaxPass(pb) * W IN
  \A j \in {a \in Visible : rb[a].count > 0} :
     LET avgMs == RoundDiv(mb[j], rb[j].count) IN
       /\ (m * Min2(avgMs, 1000)) \div 1000 >= Min2(BucketCap(m, rb[j]), m)
       /\ ((m * avgMs) % 1000 = 0) => (avgMs % 125 = 0)

GInit == Init /\ hist = <<>> /\ nops = 0 /\ fin = FALSE /\ msBk = [j \in Ages |-> 0]

Offered(i) == IF i <= Len(Script) THEN Script[i] ELSE Script[Len(Script)]

\* n completions of the oldest requests at instant t: resulting windows
SumTo(f(_), n) == LET S[i \in 0..n] == IF i = 0 THEN 0 ELSE S[i - 1] + f(i) IN S[n]
PassN(pb, rb, mb, st, t, n) ==
  [p |-> [pb EXCEPT ![0] = @ + n],
   r |-> [rb EXCEPT ![0] = [sum |-> @.sum + SumTo(LAMBDA i : t - st[i], n), count |-> @.count + n]],
   m |-> [mb EXCEPT ![0] = @ + SumTo(LAMBDA i : CeilMs(t - st[i]), n)]]

Macro(d, o) ==
  LET s  == Cur(now + d) - Cur(now)
      pb == ShiftP(passBk, s)
      rb == ShiftR(rtBk, s)
      mb == ShiftP(msBk, s)
      t1 == now + d
      cap == Cap(pb, rb)
  IN
  /\ ~fin /\ nops < MaxOps
  /\ d \in Offered(nops + 1).adv
  /\ nops' = nops + 1
  /\ now' = t1
  /\ UNCHANGED fin
  /\ CASE o.op = "allow" ->
            LET may == /\ Hot(o.over, over, t1) /\ Len(starts) > cap /\ maxSeen > cap /\ ~Calm(highs, cap) IN
            /\ StatsOK(pb, rb, mb)
            /\ o.drop => may
            /\ ~o.drop => Len(starts) < MaxFly
            /\ passBk' = pb /\ rtBk' = rb /\ msBk' = mb
            /\ over' = IF o.over THEN [seen |-> TRUE, at |-> t1] ELSE over
            /\ starts' = IF o.drop THEN starts ELSE Append(starts, t1)
            /\ UNCHANGED <<maxSeen, highs>>
            /\ out' = [op |-> "allow", d |-> d, over |-> o.over, drop |-> o.drop, mayDrop |-> may,
                       hot |-> Hot(o.over, over, t1), cap |-> cap, flying |-> Len(starts'), maxSeen |-> maxSeen,
                       calm |-> Calm(highs, cap), smBound |-> SmLevel(highs) + 1]
       [] o.op = "burst" ->
            /\ ~Recently(over, t1)
            /\ Len(starts) + o.n <= MaxFly
            /\ passBk' = pb /\ rtBk' = rb /\ msBk' = mb
            /\ starts' = starts \o [i \in 1..o.n |-> t1]
            /\ UNCHANGED <<over, maxSeen, highs>>
            /\ out' = [op |-> "burst", d |-> d, n |-> o.n, flying |-> Len(starts'), maxSeen |-> maxSeen,
                       smBound |-> SmLevel(highs) + 1]
       [] o.op = "quiet" ->
            /\ ~Recently(over, t1)
            /\ Len(starts) + 1 <= MaxFly
            /\ passBk' = pb /\ rtBk' = rb /\ msBk' = mb
            /\ maxSeen' = Max2(maxSeen, Len(starts))
            /\ highs' = PushSame(highs, Len(starts), o.n)
            /\ UNCHANGED <<over, starts>>
            /\ out' = [op |-> "quiet", d |-> d, n |-> o.n, flying |-> Len(starts), maxSeen |-> maxSeen',
                       smBound |-> SmLevel(highs') + 1]
       [] o.op \in {"pass", "fail"} ->
            LET i == IF o.which = "old" THEN 1 ELSE Len(starts) IN
            /\ Len(starts) >= 1
            /\ (o.which = "new" => Len(starts) >= 2)
            /\ starts' = RemoveAt(starts, i)
            /\ maxSeen' = Max2(maxSeen, Len(starts) - 1)
            /\ highs' = PushOne(highs, Len(starts) - 1)
            /\ passBk' = IF o.op = "pass" THEN [pb EXCEPT ![0] = @ + 1] ELSE pb
            /\ rtBk' = IF o.op = "pass"
                         THEN [rb EXCEPT ![0] = [sum |-> @.sum + (t1 - starts[i]), count |-> @.count + 1]]
                         ELSE rb
            /\ msBk' = IF o.op = "pass" THEN [mb EXCEPT ![0] = @ + CeilMs(t1 - starts[i])] ELSE mb
            /\ UNCHANGED over
            /\ out' = [op |-> o.op, d |-> d, i |-> i, rt |-> t1 - starts[i],
                       flying |-> Len(starts) - 1, maxSeen |-> maxSeen', smBound |-> SmLevel(highs') + 1]
       [] o.op \in {"passn", "failn"} ->
            LET n == IF o.m = 0 THEN Len(starts) ELSE o.m IN
            /\ n >= 2 /\ n <= Len(starts)
            /\ starts' = SubSeq(starts, n + 1, Len(starts))
            /\ maxSeen' = Max2(maxSeen, Len(starts) - 1)
            /\ highs' = PushRun(highs, Len(starts), n)
            /\ passBk' = IF o.op = "passn" THEN PassN(pb, rb, mb, starts, t1, n).p ELSE pb
            /\ rtBk' = IF o.op = "passn" THEN PassN(pb, rb, mb, starts, t1, n).r ELSE rb
            /\ msBk' = IF o.op = "passn" THEN PassN(pb, rb, mb, starts, t1, n).m ELSE mb
            /\ UNCHANGED over
            /\ out' = [op |-> o.op, d |-> d, n |-> n, flying |-> Len(starts) - n, maxSeen |-> maxSeen',
                       smBound |-> SmLevel(highs') + 1]
  /\ hist' = Append(hist, out')

Ops ==
  {[op |-> "allow", over |-> c, drop |-> dr] : c \in BOOLEAN, dr \in BOOLEAN}
  \cup {[op |-> "burst", n |-> n] : n \in {1, 3, 30, 120}}
  \cup {[op |-> k, which |-> w] : k \in {"pass", "fail"}, w \in {"old", "new"}}
  \cup {[op |-> k, m |-> m] : k \in {"passn", "failn"}, m \in {0, 2, 10}}
  \cup {[op |-> "quiet", n |-> n] : n \in {40, CalmK}}

\* names under which Script selects operations
Name(o) ==
  CASE o.op = "allow" -> IF o.over THEN "allowHot" ELSE "allowCool"
    [] o.op = "burst" -> IF o.n <= 3 THEN "burstS" ELSE "burstL"
    [] OTHER -> o.op

Finish ==
  /\ ~fin /\ nops = MaxOps
  /\ fin' = TRUE
  /\ starts' = <<>>
  /\ maxSeen' = IF Len(starts) > 0 THEN Max2(maxSeen, Len(starts) - 1) ELSE maxSeen
  /\ highs' = IF Len(starts) > 0 THEN PushRun(highs, Len(starts), Len(starts)) ELSE highs
  /\ out' = [op |-> "finish", n |-> Len(starts), flying |-> 0, maxSeen |-> maxSeen', smBound |-> SmLevel(highs') + 1]
  /\ hist' = Append(hist, out')
  /\ UNCHANGED <<now, passBk, rtBk, over, nops, msBk>>

GNext ==
  \/ \E d \in Advances, o \in Ops :
        /\ nops < MaxOps
        /\ Name(o) \in Offered(nops + 1).ops
        /\ Macro(d, o)
  \/ Finish

GSpec == GInit /\ [][GNext]_gvars

Emit == fin => PrintT(ToJson(hist))

=============================================================================
