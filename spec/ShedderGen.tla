---------------------------- MODULE ShedderGen ----------------------------
(***************************************************************************)
(* Behaviour generator for Shedder.tla (spec -> code replay, C09).         *)
(*                                                                         *)
(* Macro-steps  [advance d] ; operation  with operation one of             *)
(*   allow(cpuOver, drop)   one Allow with an injected CPU reading; both   *)
(*                          decisions are generated when the specification *)
(*                          permits a rejection (the driver follows the    *)
(*                          real decision and abandons the sibling),       *)
(*   burst(n)               n Allows with the CPU below the threshold,     *)
(*                          generated only when no overload was observed   *)
(*                          in the last second: all must be admitted,      *)
(*   pass/fail(which)       the oldest or newest outstanding request       *)
(*                          reports,                                       *)
(*   passn/failn(m)         the m oldest outstanding requests report.      *)
(* Script[i] restricts which operations and advances are offered at        *)
(* position i (scripted families keep exhaustive generation focused).      *)
(* The final step lets every outstanding request report (in-flight count   *)
(* back to zero).                                                          *)
(*                                                                         *)
(* CapOK keeps the capacity away from arithmetic borderlines: a step that  *)
(* consults the capacity is generated only if rounding the average latency *)
(* to whole milliseconds (as the code does) cannot change the capacity and *)
(* the float product cannot sit exactly on an integer.                     *)
(***************************************************************************)
EXTENDS Shedder, Json

CONSTANTS MaxOps, Script

VARIABLES hist, nops, fin

gvars == <<vars, hist, nops, fin>>

\* the capacity computed from the exact average latency of a bucket equals the one computed from
\* the average rounded to whole milliseconds (|exact - rounded| <= 1/2), for every visible bucket
ExactCapOK(pb, rb) ==
  LET m == MaxPass(pb) * W IN
  /\ \A j \in {a \in Visible : rb[a].count > 0} :
        LET a == RoundDiv(rb[j].sum, rb[j].count) IN
          \/ rb[j].sum = a * rb[j].count
          \/ (m * (2 * a - 1)) \div 2000 = (m * (2 * a + 1)) \div 2000
  /\ ((m * MinRt(rb)) % 1000 = 0) => (MinRt(rb) % 125 = 0)
CapOK == ExactCapOK(passBk, rtBk)

GInit == Init /\ hist = <<>> /\ nops = 0 /\ fin = FALSE

Offered(i) == IF i <= Len(Script) THEN Script[i] ELSE Script[Len(Script)]

\* n completions of the oldest request at instant t: resulting windows
PassN(pb, rb, st, t, n) ==
  [p |-> [pb EXCEPT ![0] = @ + n],
   r |-> [rb EXCEPT ![0] = [sum |-> @.sum + (n * t - (LET S[i \in 0..n] == IF i = 0 THEN 0 ELSE S[i - 1] + st[i] IN S[n])) * TickMs,
                             count |-> @.count + n]]]

Macro(d, o) ==
  LET s  == Cur(now + d) - Cur(now)
      pb == ShiftP(passBk, s)
      rb == ShiftR(rtBk, s)
      t1 == now + d
      cap == Cap(pb, rb)
  IN
  /\ ~fin /\ nops < MaxOps
  /\ d \in Offered(nops + 1).adv
  /\ nops' = nops + 1
  /\ now' = t1
  /\ UNCHANGED fin
  /\ CASE o.op = "allow" ->
            LET may == /\ Hot(o.over, over, t1) /\ Len(starts) > cap /\ maxSeen > cap IN
            /\ ExactCapOK(pb, rb)
            /\ o.drop => may
            /\ ~o.drop => Len(starts) < MaxFly
            /\ passBk' = pb /\ rtBk' = rb
            /\ over' = IF o.over THEN [seen |-> TRUE, at |-> t1] ELSE over
            /\ starts' = IF o.drop THEN starts ELSE Append(starts, t1)
            /\ UNCHANGED maxSeen
            /\ out' = [op |-> "allow", d |-> d, over |-> o.over, drop |-> o.drop, mayDrop |-> may,
                       hot |-> Hot(o.over, over, t1), cap |-> cap, flying |-> Len(starts'), maxSeen |-> maxSeen]
       [] o.op = "burst" ->
            /\ ~Recently(over, t1)
            /\ Len(starts) + o.n <= MaxFly
            /\ passBk' = pb /\ rtBk' = rb
            /\ starts' = starts \o [i \in 1..o.n |-> t1]
            /\ UNCHANGED <<over, maxSeen>>
            /\ out' = [op |-> "burst", d |-> d, n |-> o.n, flying |-> Len(starts'), maxSeen |-> maxSeen]
       [] o.op \in {"pass", "fail"} ->
            LET i == IF o.which = "old" THEN 1 ELSE Len(starts) IN
            /\ Len(starts) >= 1
            /\ (o.which = "new" => Len(starts) >= 2)
            /\ starts' = RemoveAt(starts, i)
            /\ maxSeen' = Max2(maxSeen, Len(starts) - 1)
            /\ passBk' = IF o.op = "pass" THEN [pb EXCEPT ![0] = @ + 1] ELSE pb
            /\ rtBk' = IF o.op = "pass"
                         THEN [rb EXCEPT ![0] = [sum |-> @.sum + (t1 - starts[i]) * TickMs, count |-> @.count + 1]]
                         ELSE rb
            /\ UNCHANGED over
            /\ out' = [op |-> o.op, d |-> d, i |-> i, rt |-> (t1 - starts[i]) * TickMs,
                       flying |-> Len(starts) - 1, maxSeen |-> maxSeen']
       [] o.op \in {"passn", "failn"} ->
            LET n == IF o.m = 0 THEN Len(starts) ELSE o.m IN
            /\ n >= 2 /\ n <= Len(starts)
            /\ starts' = SubSeq(starts, n + 1, Len(starts))
            /\ maxSeen' = Max2(maxSeen, Len(starts) - 1)
            /\ passBk' = IF o.op = "passn" THEN PassN(pb, rb, starts, t1, n).p ELSE pb
            /\ rtBk' = IF o.op = "passn" THEN PassN(pb, rb, starts, t1, n).r ELSE rb
            /\ UNCHANGED over
            /\ out' = [op |-> o.op, d |-> d, n |-> n, flying |-> Len(starts) - n, maxSeen |-> maxSeen']
  /\ hist' = Append(hist, out')

Ops ==
  {[op |-> "allow", over |-> c, drop |-> dr] : c \in BOOLEAN, dr \in BOOLEAN}
  \cup {[op |-> "burst", n |-> n] : n \in {1, 3, 30, 120}}
  \cup {[op |-> k, which |-> w] : k \in {"pass", "fail"}, w \in {"old", "new"}}
  \cup {[op |-> k, m |-> m] : k \in {"passn", "failn"}, m \in {0, 2, 10}}

\* names under which Script selects operations
Name(o) ==
  CASE o.op = "allow" -> IF o.over THEN "allowHot" ELSE "allowCool"
    [] o.op = "burst" -> IF o.n <= 3 THEN "burstS" ELSE "burstL"
    [] OTHER -> o.op

Finish ==
  /\ ~fin /\ nops = MaxOps
  /\ fin' = TRUE
  /\ starts' = <<>>
  /\ maxSeen' = IF Len(starts) > 0 THEN Max2(maxSeen, Len(starts) - 1) ELSE maxSeen
  /\ out' = [op |-> "finish", n |-> Len(starts), flying |-> 0, maxSeen |-> maxSeen']
  /\ hist' = Append(hist, out')
  /\ UNCHANGED <<now, passBk, rtBk, over, nops>>

GNext ==
  \/ \E d \in Advances, o \in Ops :
        /\ nops < MaxOps
        /\ Name(o) \in Offered(nops + 1).ops
        /\ Macro(d, o)
  \/ Finish

GSpec == GInit /\ [][GNext]_gvars

Emit == fin => PrintT(ToJson(hist))

=============================================================================
