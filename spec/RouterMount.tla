----------------------------- MODULE RouterMount -----------------------------
(***************************************************************************)
(* Server-level wiring of the reference router (property C03; api/server.go *)
(* AddRoutes / AddRoute / WithPrefix, api/engine.go addRoutes/bindRoutes).  *)
(*                                                                         *)
(* An application does not call router.Handle: it owns []Route values       *)
(* ("slices") and MOUNTS them on a server - a whole slice with AddRoutes,   *)
(* one of its elements with AddRoute - each time with a list of WithPrefix  *)
(* options.  The registered pattern of a mounted route is the groups of the *)
(* options, the last option outermost, followed by the route's own path.    *)
(*                                                                         *)
(* The slices are VALUES of the caller: mounting reads them and never       *)
(* changes them, so the same slice may be mounted any number of times,      *)
(* under different prefixes, with and without prefix, in any order, on this *)
(* server and on the next one, and always contributes prefix+path of the    *)
(* routes the caller wrote.  The route table after a sequence of mounts is  *)
(* the result of Router!Register's rule applied to the mounted routes in    *)
(* mount order (group by group, a slice in element order); when nothing is  *)
(* rejected it is the union of prefix+path over the groups (MountUnion),    *)
(* every mounted pattern is served and nothing else (MountedServed,         *)
(* NothingElse; requests are answered by Router!Outcome as before).         *)
(***************************************************************************)
EXTENDS Router, SequencesExt

CONSTANTS SliceRoutes,  \* routes [m, p] offered to a caller's slice (supported methods, absolute paths)
          MaxSliceLen,  \* routes per slice
          NSlices,      \* slices the caller owns
          Groups,     \* groups offered to a single WithPrefix option (non-empty segment sequences)
          NestGroups  \* groups offered to a pair of WithPrefix options

VARIABLES slices,       \* the caller's []Route values: sequence of sequences of [m, p]
          groups        \* the mounts so far: sequence of [k, s, j, pre]

mvars == <<vars, slices, groups>>

(* ------------------------------------------------------------ the caller's slices *)

ASSUME \A r \in SliceRoutes : r.m \in Methods /\ DistinctNames(r.p)

RouteSeq == SetToSeq(SliceRoutes)
\* a slice holds distinct routes, in the fixed order of RouteSeq (registration order inside one
\* group is the business of RouterGen's families)
SliceOf(S) == LET idx == SetToSortSeq(S, <) IN [i \in 1..Len(idx) |-> RouteSeq[idx[i]]]
SliceUniverse == {SliceOf(S) : S \in {X \in SUBSET (1..Len(RouteSeq)) : Cardinality(X) \in 1..MaxSliceLen}}

(* ------------------------------------------------------------ mounting *)

\* option lists: none, one WithPrefix, two WithPrefix with different groups (applied in order: the
\* second ends up outermost)
PreLists == {<<>>} \cup {<<g>> : g \in Groups} \cup {q \in NestGroups \X NestGroups : q[1] # q[2]}

Joined(pre, p) == FoldLeft(LAMBDA acc, g : g \o acc, p, pre)

\* the registrations one mount stands for; s/j name the slice element whose handler is mounted
Expand(sl, g) ==
  LET one(j) == [m |-> sl[g.s][j].m, p |-> Joined(g.pre, sl[g.s][j].p), abs |-> TRUE, s |-> g.s, j |-> j]
  IN IF g.k = "routes" THEN [j \in 1..Len(sl[g.s]) |-> one(j)] ELSE <<one(g.j)>>

\* Router!Register's rule as a function of the table
Apply(T, r) == IF Rejected(T, r.m, r.p, r.abs) THEN T ELSE T \cup {[m |-> r.m, p |-> r.p]}
ApplyAll(T, es) == FoldLeft(Apply, T, es)
\* the registrations with the accept/reject prediction of each, starting from table T
Annotated(T, es) ==
  [i \in 1..Len(es) |->
     [m |-> es[i].m, p |-> es[i].p, abs |-> es[i].abs, s |-> es[i].s, j |-> es[i].j,
      err |-> Rejected(ApplyAll(T, SubSeq(es, 1, i - 1)), es[i].m, es[i].p, es[i].abs)]]

\* only mounts whose patterns stay inside the statement (no repeated parameter name) and inside
\* the request universe's depth are offered
OfferedRegs(es) == \A e \in ToSet(es) : DistinctNames(e.p) /\ Len(e.p) <= MaxDepth

MInit == Init /\ slices \in [1..NSlices -> SliceUniverse] /\ groups = <<>>

\* (es is bound through a singleton set so that TLC evaluates the expansion once)
Mount(g) ==
  \E es \in {Expand(slices, g)} :
    /\ OfferedRegs(es)
    /\ table' = ApplyAll(table, es)
    /\ out' = [op |-> "mount", g |-> g, regs |-> Annotated(table, es)]
    /\ groups' = Append(groups, g)
    /\ UNCHANGED slices

MountOps ==
  {[k |-> "routes", s |-> s, j |-> 0, pre |-> pre] : s \in 1..NSlices, pre \in PreLists}
  \cup {[k |-> "route", s |-> s, j |-> j, pre |-> pre] : s \in 1..NSlices, j \in 1..MaxSliceLen, pre \in PreLists}

MNext == \E g \in MountOps : (g.k = "route" => g.j <= Len(slices[g.s])) /\ Mount(g)

MSpec == MInit /\ [][MNext]_mvars

(* ------------------------------------------------------------ properties *)

\* prefix+path of every route of every group
Mounted == UNION {{[m |-> e.m, p |-> e.p] : e \in ToSet(Expand(slices, groups[i]))} : i \in DOMAIN groups}

\* the table is the union of prefix+path per group (slices hold supported methods and absolute
\* paths only, so the only rejection left is the duplicate, which leaves the route registered)
MountUnion == table = Mounted

\* every mounted pattern is served ...
MountedServed ==
  \A r \in Mounted, raw \in RawPaths : Matches(r.p, raw) => Outcome(table, r.m, raw).k = "handler"
\* ... and nothing else
NothingElse ==
  \A m \in ReqMethods, raw \in RawPaths :
    Outcome(table, m, raw).k = "handler" => \E r \in Mounted : r.m = m /\ Matches(r.p, raw)

\* mounting never writes to the caller's slices
SlicesAreValues == [][slices' = slices]_mvars

=============================================================================
