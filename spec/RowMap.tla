------------------------------- MODULE RowMap -------------------------------
(***************************************************************************)
(* Row mapping of lib/store/sqlx (property C11, second sentence; orm.go).  *)
(*                                                                         *)
(* A case = destination shape + result set + mode.  Columns and fields are *)
(* identified by small integers: field i of a struct carries the tag       *)
(* db:"<name of column i>" (when the shape is tagged); column 4 ("x") is   *)
(* an extra column that no destination names.  The cell of column id c in  *)
(* row r holds the integer 10*c + r, so every cell of a result set is      *)
(* distinct and non-zero; 0 stands for SQL NULL in a cell and for "zero    *)
(* value / not filled" in a destination field.                             *)
(*                                                                         *)
(* The text of a `db` tag is a comma separated list: its first element is  *)
(* the column name, whatever follows are options that other packages read  *)
(* (db:"user_name,type=varchar,length=255" is the spelling of              *)
(* lib/store/builder).  A tag is modelled as its token sequence: the       *)
(* column id, then option tokens (8, 9: options; 0: an empty element, the  *)
(* tag ends in a comma).  "by column name through db tags" means by the    *)
(* FIRST token only (KeyOf): the spelling of the rest never changes the    *)
(* outcome (TagOptionsIgnored).  A shape's spelling `tagsp` is "plain"     *)
(* (db:"c"), "opts" (db:"c,type=..,length=.."), "comma" (db:"c,") or       *)
(* "mixed" (field 1 opts, field 2 comma, field 3 plain).  Not modelled,    *)
(* because the statement does not say: a tag whose name element is empty   *)
(* (db:",opt") or "-" (to the code "-" is a column name like any other),   *)
(* structs mixing tagged and untagged fields.                              *)
(*                                                                         *)
(* A NAME is more than its column: the same column can be spelled          *)
(* "userid", "userId", "Userid" or "USERID" (all lower / camel /           *)
(* capitalised / all upper).  A name is modelled as the pair <<column id,  *)
(* case style>>; a tagged shape spells all its tags in one style `tcase`,  *)
(* a result set spells all its columns in one style `ccase`.  A tag names  *)
(* exactly the column with the same spelling (tcase = ccase: the style     *)
(* never changes the outcome, SameSpellingMatches).  When the result set   *)
(* spells its columns differently from the tags the statement does not say *)
(* whether "USERID" is the column that db:"userId" names: both readings    *)
(* are allowed - names compare exactly (what orm.go does: the map lookup   *)
(* taggedMap[column] is by the verbatim string, so none of the columns is  *)
(* named by a tag, they are ignored like the extra column and the fields   *)
(* stay zero) or names compare with their case folded (every column is     *)
(* its tag's column) - but nothing else (OtherSpellingEitherReading).      *)
(* Untagged shapes are filled by position; their columns are all lower.    *)
(*                                                                         *)
(* Allowed(case) is the SET of outcomes the statement permits:             *)
(*   - single-row query on an empty result            -> {notfound}        *)
(*   - struct, strict, fewer columns than fields      -> {error}           *)
(*   - tagged struct     -> filled by column NAME (order irrelevant, extra *)
(*                          columns ignored, unnamed fields stay zero)     *)
(*   - untagged struct   -> filled by POSITION                             *)
(*   - tagged fields inside an embedded struct: the statement does not say *)
(*     whether the outer struct counts as tagged, both fills are allowed   *)
(*   - NULL arriving in a destination field: the statement is silent;      *)
(*     an error or a zero field are both allowed                           *)
(*   - a slice destination that already holds k elements (pages being       *)
(*     accumulated): the rows are mapped by the same rule; the statement   *)
(*     does not say whether the old elements are kept (append) or dropped  *)
(*     (replace), both are allowed; strict + fewer columns is an error all *)
(*     the same, never a success with partially filled elements            *)
(* The spec is a two-step machine: Next picks a destination shape, then a  *)
(* result set; `out` is then the case with its allowed outcomes.           *)
(***************************************************************************)
EXTENDS Integers, Sequences, FiniteSets, TLC, SequencesExt

CONSTANTS MaxF,      \* largest number of struct fields (<= 3)
          RowCounts, \* row counts offered, e.g. {0, 1, 3}
          PtrSets,   \* "all": every subset of fields may be pointers; "few": none / first / all
          Dests,     \* subset of {"one", "vals", "ptrs"}: *T, *[]T, *[]*T
          Pres,      \* how many elements a slice destination may already hold, e.g. {0, 1}
          TagStyles, \* spellings of the db tags of a tagged shape: subset of {"plain","opts","comma","mixed"}
          StyleCross,\* what the spellings other than "plain" are combined with: "none" = pointer-free shapes and
                     \* empty slices only, "ptrs" = every pointer set (empty slices), "all" = everything
          TagCases,  \* letter case of the names in the db tags of a tagged shape: subset of {"lower","camel","cap","upper"}
          ColCases,  \* letter case of the column names of the result set offered to a tagged shape: "same" = as the
                     \* tags, "next" = as the tags or in the next style, "all" = every style
          CaseCross  \* what tags spelled other than all lower-case are combined with: "flat" = plain tags, no pointer
                     \* fields, no embedded struct, empty slices; "ptrs" = the same with every pointer set; "all" =
                     \* everything.  A result set spelled differently from the tags is offered to "flat" shapes only
                     \* (unless CaseCross = "all")

VARIABLES shape, picked, out
vars == <<shape, picked, out>>

Extra == 4
Cell(c, r) == 10 * c + r

\* every ordering of every non-empty subset (tabulated once: TLC evaluates constant definitions once)
OrdTab == [S \in SUBSET (1..4) |-> UNION {SetToSeqs(T) : T \in (SUBSET S) \ {{}}}]
Orderings(S) == OrdTab[S]

PtrChoices(nf) == IF PtrSets = "all" THEN SUBSET (1..nf) ELSE {{}, {1}, 1..nf}

(* ---------------------------------------------------------------- tags *)

OptTokens(style) == CASE style = "opts"  -> <<8, 9>>
                      [] style = "comma" -> <<0>>
                      [] OTHER           -> <<>>
MixedStyles == <<"opts", "comma", "plain">>
StyleOf(sp, i) == IF sp = "mixed" THEN MixedStyles[((i - 1) % 3) + 1] ELSE sp
\* the tag of field i: its column's name first, then the options of its spelling
TagOf(sp, i) == <<i>> \o OptTokens(StyleOf(sp, i))
\* the column a tag names: the element before the first comma
KeyOf(tag) == tag[1]

\* letter case of names
AllCases == {"lower", "camel", "cap", "upper"}
NextCase(s) == CASE s = "lower" -> "camel" [] s = "camel" -> "cap" [] s = "cap" -> "upper" [] OTHER -> "lower"
ColCaseChoices(tc) == CASE ColCases = "same" -> {tc}
                        [] ColCases = "next" -> {tc, NextCase(tc)}
                        [] OTHER             -> AllCases
\* the shapes and slices the case dimension is crossed with
FlatShape(sp, e, ps, pre) == sp = "plain" /\ e = "none" /\ ps = {} /\ pre = 0
CaseNarrow(sp, e, ps, pre) ==
  CASE CaseCross = "flat" -> FlatShape(sp, e, ps, pre)
    [] CaseCross = "ptrs" -> FlatShape(sp, e, {}, pre)
    [] OTHER              -> TRUE
OtherNarrow(sp, e, ps, pre) == CaseCross = "all" \/ FlatShape(sp, e, ps, pre)

(* ---------------------------------------------------------------- cases *)

\* column lists offered for a struct shape
ColLists(nf, tg, e) ==
  IF tg /\ e = "none"
    \* tagged, flat: columns named by the fields, plus possibly the extra column
    THEN Orderings((1..nf) \cup {Extra})
    \* positional (or possibly positional) fill: the statement says nothing about more columns
    \* than fields, so none are offered
    ELSE IF tg THEN Orderings(1..nf)
    ELSE {cs \in Orderings(1..3) : Len(cs) <= nf}

\* nf counts the LEAF fields (an embedded struct is flattened); the last embn of them live inside
\* the embedded struct (embn = 0 iff emb = "none"), so the struct has nf - embn + 1 top-level fields
StructCase(nf, tg, sp, tc, e, en, ps, d, cs, cc, n, nl, st, pre) ==
  [prim |-> FALSE, nf |-> nf, tagged |-> tg, tagsp |-> sp, tcase |-> tc, emb |-> e, embn |-> en, ptrs |-> ps, dest |-> d,
   cols |-> cs, ccase |-> cc, nrows |-> n, null |-> nl, strict |-> st, pre |-> pre]

PrimCase(d, cid, n, nl, st, pre) ==
  [prim |-> TRUE, nf |-> 1, tagged |-> FALSE, tagsp |-> "none", tcase |-> "none", emb |-> "none", embn |-> 0, ptrs |-> {}, dest |-> d,
   cols |-> <<cid>>, ccase |-> "lower", nrows |-> n, null |-> nl, strict |-> st, pre |-> pre]

(* ---------------------------------------------------------------- the mapping *)

\* what row r delivers in column position j
At(c, r, j) == IF r = 1 /\ c.null = j THEN 0 ELSE Cell(c.cols[j], r)

Pos(c, id) == CHOOSE j \in 1..Len(c.cols) : c.cols[j] = id

\* field i receives the cell of the column its tag names (only tagged shapes are filled by name).
\* A fill mode is "exact" (by name, names compare by their spelling), "fold" (by name, letter case
\* folded) or "pos" (by position).  Tags and columns are each spelled in one style, so under "exact"
\* a differently spelled result set holds no column that any tag names.
Key(c, i) == KeyOf(TagOf(c.tagsp, i))
TagName(c, i) == <<Key(c, i), c.tcase>>
ColName(c, j) == <<c.cols[j], c.ccase>>
SameName(a, b, mode) == a[1] = b[1] /\ (mode = "fold" \/ a[2] = b[2])
Named(c, i, mode) == \E j \in 1..Len(c.cols) : SameName(TagName(c, i), ColName(c, j), mode)
ByName(c, r, mode) == [i \in 1..c.nf |-> IF Named(c, i, mode) THEN At(c, r, Pos(c, Key(c, i))) ELSE 0]
ByPos(c, r)  == [i \in 1..c.nf |-> IF i <= Len(c.cols) THEN At(c, r, i) ELSE 0]

\* rows the API looks at
UsedRows(c) == IF c.dest = "one" THEN (IF c.nrows = 0 THEN 0 ELSE 1) ELSE c.nrows

Filled(c, mode) == [r \in 1..UsedRows(c) |-> IF mode = "pos" THEN ByPos(c, r) ELSE ByName(c, r, mode)]

\* does the NULL cell land in a destination field (it is in row 1, which every API reads)?
NullHits(c, mode) ==
  /\ c.null # 0
  /\ IF mode = "pos" THEN c.null <= c.nf
      ELSE \E i \in 1..c.nf : SameName(TagName(c, i), ColName(c, c.null), mode)

Outcome(k, rows) == [k |-> k, rows |-> rows]
ErrorOut    == Outcome("error", <<>>)
NotFoundOut == Outcome("notfound", <<>>)

FillOutcomes(c, mode) ==
  {Outcome("rows", Filled(c, mode))} \cup (IF NullHits(c, mode) THEN {ErrorOut} ELSE {})

Fills(c) ==
  IF c.prim \/ ~c.tagged THEN {"pos"}
  ELSE (IF c.tcase = c.ccase THEN {"exact"} ELSE {"exact", "fold"})
       \cup (IF c.emb = "none" THEN {} ELSE {"pos"})

Fewer(c) == ~c.prim /\ Len(c.cols) < c.nf

\* the k elements a slice destination holds before the query: element k, leaf field i = 100*k + i
PreRows(c) == [k \in 1..c.pre |-> [i \in 1..c.nf |-> 100 * k + i]]
\* a successful outcome with the old elements kept in front, or dropped
WithPre(c, o) ==
  IF o.k # "rows" \/ c.pre = 0 THEN {o} ELSE {Outcome("rows", PreRows(c) \o o.rows), o}

AllowedFresh(c) ==
  IF c.dest = "one" /\ c.nrows = 0 THEN {NotFoundOut}
  ELSE IF c.strict /\ Fewer(c) THEN
       \* with no row at all there is no struct to fill: an empty result is not excluded
       (IF c.nrows = 0 THEN {ErrorOut, Outcome("rows", <<>>)} ELSE {ErrorOut})
  ELSE UNION {FillOutcomes(c, b) : b \in Fills(c)}

Allowed(c) == UNION {WithPre(c, o) : o \in AllowedFresh(c)}

RowData(c) == [r \in 1..c.nrows |-> [j \in 1..Len(c.cols) |-> At(c, r, j)]]

Observation(c) ==
  [op |-> "query", prim |-> c.prim, nf |-> c.nf, tagged |-> c.tagged, tagsp |-> c.tagsp, tcase |-> c.tcase, ccase |-> c.ccase,
   tags |-> (IF c.tagged THEN [i \in 1..c.nf |-> TagOf(c.tagsp, i)] ELSE <<>>),
   emb |-> c.emb, embn |-> c.embn, ptrs |-> c.ptrs,
   dest |-> c.dest, cols |-> c.cols, data |-> RowData(c), strict |-> c.strict, pre |-> c.pre,
   allow |-> Allowed(c)]

(* ---------------------------------------------------------------- machine *)

\* two steps, so that TLC's workers share the enumeration: first the destination shape and the
\* mode, then the result set
NoShape == [prim |-> FALSE, nf |-> 0]

Init == shape = NoShape /\ picked = FALSE /\ out = [op |-> "init"]

PickShape ==
  /\ shape = NoShape
  /\ UNCHANGED picked
  /\ out' = [op |-> "shape"]
  /\ \/ \E nf \in 1..MaxF, tg \in BOOLEAN, e \in {"none", "val", "ptr"}, d \in Dests, st \in BOOLEAN, n \in RowCounts, pre \in Pres :
           /\ (e # "none" => nf >= 2)
           /\ (d = "one" => pre = 0)
           /\ \E ps \in PtrChoices(nf), en \in 0..2, sp \in (IF tg THEN TagStyles ELSE {"none"}),
                 tc \in (IF tg THEN TagCases ELSE {"none"}) :
                 /\ (e = "none" <=> en = 0) /\ en <= nf
                 /\ (tc \notin {"lower", "none"} => CaseNarrow(sp, e, ps, pre))
                 /\ (sp = "mixed" => nf >= 2)       \* with one field "mixed" is "opts"
                 /\ (sp \notin {"plain", "none"} =>
                        /\ (StyleCross = "none" => ps = {})
                        /\ (StyleCross # "all" => pre = 0))
                 /\ shape' = [prim |-> FALSE, nf |-> nf, tagged |-> tg, tagsp |-> sp, tcase |-> tc, emb |-> e, embn |-> en, ptrs |-> ps,
                              dest |-> d, nrows |-> n, strict |-> st, pre |-> pre]
     \/ \E d \in Dests, n \in RowCounts, st \in BOOLEAN, pre \in Pres :
           /\ (d = "one" => pre = 0)
           /\ shape' = [prim |-> TRUE, nf |-> 1, tagged |-> FALSE, tagsp |-> "none", tcase |-> "none", emb |-> "none", embn |-> 0, ptrs |-> {},
                        dest |-> d, nrows |-> n, strict |-> st, pre |-> pre]

PickResult ==
  /\ shape # NoShape /\ ~picked
  /\ picked' = TRUE
  /\ UNCHANGED shape
  /\ IF shape.prim
       THEN \E cid \in 1..3 : \E nl \in 0..(IF shape.nrows = 0 THEN 0 ELSE 1) :
              out' = Observation(PrimCase(shape.dest, cid, shape.nrows, nl, shape.strict, shape.pre))
       ELSE \E cs \in ColLists(shape.nf, shape.tagged, shape.emb),
                cc \in (IF shape.tagged THEN ColCaseChoices(shape.tcase) ELSE {"lower"}) :
              /\ (shape.tagged /\ cc # shape.tcase => OtherNarrow(shape.tagsp, shape.emb, shape.ptrs, shape.pre))
              /\ \E nl \in 0..(IF shape.nrows = 0 THEN 0 ELSE Len(cs)) :
                   out' = Observation(StructCase(shape.nf, shape.tagged, shape.tagsp, shape.tcase, shape.emb, shape.embn,
                                                 shape.ptrs, shape.dest, cs, cc, shape.nrows, nl, shape.strict, shape.pre))

Next == PickShape \/ PickResult

Spec == Init /\ [][Next]_vars

(* ---------------------------------------------------------------- properties of the mapping *)

\* Case is the case `out` was made from, so out.allow = Allowed(Case); the properties below compare
\* out.allow with what Allowed says about a transformed case

Case == [prim |-> out.prim, nf |-> out.nf, tagged |-> out.tagged, tagsp |-> out.tagsp, tcase |-> out.tcase, emb |-> out.emb, embn |-> out.embn, ptrs |-> out.ptrs,
         dest |-> out.dest, cols |-> out.cols, ccase |-> out.ccase, nrows |-> Len(out.data),
         null |-> (IF \E j \in 1..Len(out.cols) : Len(out.data) > 0 /\ out.data[1][j] = 0
                   THEN CHOOSE j \in 1..Len(out.cols) : out.data[1][j] = 0 ELSE 0),
         strict |-> out.strict, pre |-> out.pre]

\* the same result set with its columns sorted by id
SortedCols(c) == SortSeq(c.cols, <)
Sorted(c) == [c EXCEPT !.cols = SortedCols(c),
                       !.null = IF c.null = 0 THEN 0
                                ELSE CHOOSE j \in 1..Len(c.cols) : SortedCols(c)[j] = c.cols[c.null]]
\* the same result set without its extra column
NoExtra(c) == LET keep == SelectSeq(c.cols, LAMBDA id : id # Extra)
              IN [c EXCEPT !.cols = keep,
                           !.null = IF c.null = 0 \/ c.cols[c.null] = Extra THEN 0
                                    ELSE CHOOSE j \in 1..Len(keep) : keep[j] = c.cols[c.null]]

\* by-name mapping does not depend on the order of the columns ...
OrderIndependent ==
  picked /\ ~out.prim /\ out.tagged /\ out.emb = "none" => out.allow = Allowed(Sorted(Case))

\* ... and ignores an extra column (unless its removal is what makes the result "fewer" in strict mode)
ExtraIgnored ==
  picked /\ ~out.prim /\ out.tagged /\ out.emb = "none" /\ Extra \in Range(out.cols)
         /\ Len(out.cols) > 1 /\ ~(out.strict /\ Len(out.cols) - 1 < out.nf)
     => out.allow = Allowed(NoExtra(Case))

\* strict mode never reports a partially filled struct as success
StrictNeverPartial ==
  picked /\ out.strict /\ ~out.prim /\ Len(out.cols) < out.nf /\ Len(out.data) > 0
     => \A o \in out.allow : o.k \in {"error", "notfound"}

\* ... in particular when the missing columns belong to leaf fields of an embedded struct: the
\* count that matters is the flattened one, not the number of top-level fields
StrictCountsLeafFields ==
  picked /\ out.strict /\ ~out.prim /\ out.emb # "none" /\ Len(out.data) > 0
         /\ Len(out.cols) >= out.nf - out.embn + 1 /\ Len(out.cols) < out.nf
     => out.allow = {ErrorOut}

\* what a slice already holds never changes the kind of outcome: in particular strict + fewer
\* columns stays an error for a destination that is not empty
PrefilledSameVerdict ==
  picked => {o.k : o \in out.allow} = {o.k : o \in Allowed([Case EXCEPT !.pre = 0])}

EmptyIsNotFound ==
  picked /\ out.dest = "one" /\ Len(out.data) = 0 => out.allow = {NotFoundOut}

\* a successful outcome never shows a value in a field that its column did not deliver
FieldsComeFromTheirColumns ==
  picked /\ ~out.prim /\ out.tagged /\ out.emb = "none" /\ out.pre = 0 =>
     \A o \in out.allow : o.k = "rows" =>
        \A r \in 1..Len(o.rows), i \in 1..out.nf : o.rows[r][i] \in {0, Cell(i, r)}

\* options after the column name never change what a query may do, and every field's tag still
\* names the field's own column
TagOptionsIgnored ==
  picked /\ out.tagged =>
     /\ out.allow = Allowed([Case EXCEPT !.tagsp = "plain"])
     /\ \A i \in 1..out.nf : KeyOf(out.tags[i]) = i

\* the letter case of the names never changes what a query may do as long as tags and columns
\* agree on it: db:"userId" names the column "userId" exactly as db:"userid" names "userid"
SameSpellingMatches ==
  picked /\ out.tagged /\ out.tcase = out.ccase
     => out.allow = Allowed([Case EXCEPT !.tcase = "lower", !.ccase = "lower"])

\* a result set spelled differently from the tags is either the same result set (case folded) or one
\* whose columns no tag names (all fields stay zero); in any case what the same-spelling result set may
\* do stays allowed
AllZero(o) == \A r \in 1..Len(o.rows) : \A i \in 1..Len(o.rows[r]) : o.rows[r][i] = 0
OtherSpellingEitherReading ==
  picked /\ out.tagged /\ out.emb = "none" /\ out.tcase # out.ccase =>
     LET same == Allowed([Case EXCEPT !.ccase = out.tcase])
     IN /\ same \subseteq out.allow
        /\ out.pre = 0 => \A o \in out.allow \ same : o.k = "rows" /\ AllZero(o) /\ Len(o.rows) = UsedRows(Case)

NeverEmpty == picked => out.allow # {}

=============================================================================
