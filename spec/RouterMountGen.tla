--------------------------- MODULE RouterMountGen ---------------------------
(***************************************************************************)
(* Case generator for RouterMount.tla (spec -> code replay, property C03,  *)
(* server-level wiring).                                                   *)
(*                                                                         *)
(* A behaviour picks the caller's slices (initial state) and mounts them   *)
(* at most MaxMounts times: AddRoutes(slice, options) or AddRoute(element, *)
(* options), options = zero, one or two WithPrefix.  The order of the      *)
(* mounts is free, so a BFS run prints every mount program of the bounded  *)
(* universe (the same slice under two prefixes in both orders, with and    *)
(* without prefix, an element next to its slice, nested prefixes ...).     *)
(* One JSON case per program:                                              *)
(*   slices : the caller's []Route values                                  *)
(*   ops    : the mounts [k = "routes"|"route", s, j, pre]                 *)
(*   regs   : the registrations the mounts stand for, in bind order, with  *)
(*            the slice element (s, j) that owns the handler and the       *)
(*            predicted accept/reject                                      *)
(*   res    : as in RouterGen.tla (index into the header's request         *)
(*            universe; candidates name registrations of regs)             *)
(* Because the slices are values, the driver executes the program on       *)
(* Rounds fresh servers one after the other with the SAME slice values     *)
(* ("reused by the caller afterwards"); the prediction is the same for     *)
(* each of them.                                                           *)
(***************************************************************************)
EXTENDS RouterMount, Json

CONSTANTS MaxMounts,   \* mounts per program
          EmitAll,     \* TRUE: print every program; FALSE: only those with MaxMounts mounts
          Rounds       \* servers built from the same slices

VARIABLES regs         \* sequence of [m, p, abs, s, j, err]

gvars == <<mvars, regs>>

ReqSeq == SetToSeq(ReqMethods \X RawPaths)

ASSUME PrintT(ToJson([reqs |-> ReqSeq]))

GInit == MInit /\ regs = <<>>

GMount(g) ==
  /\ Len(groups) < MaxMounts
  /\ Mount(g)
  /\ regs' = regs \o out'.regs

GNext == \E g \in MountOps : (g.k = "route" => g.j <= Len(slices[g.s])) /\ GMount(g)

GSpec == GInit /\ [][GNext]_gvars

\* index of the accepted registration of (m, p)
RegIndex(m, p) == CHOOSE i \in 1..Len(regs) : ~regs[i].err /\ regs[i].m = m /\ regs[i].p = p

NReq == Len(ReqSeq)
ReqSegs == [i \in 1..NReq |-> PathSegs(Clean(ReqSeq[i][2]))]

Encode(i, m, o) ==
  IF o.k = "handler"
    THEN [i |-> i, k |-> "h", c |-> {[r |-> RegIndex(m, c.p), b |-> c.bind] : c \in o.cands}]
  ELSE IF o.k = "405" THEN [i |-> i, k |-> "a", allow |-> o.allow]
  ELSE [i |-> i, k |-> "n"]

\* the reference answer to every request of the universe; the 404s are left out of the case
Results ==
  SelectSeq([i \in 1..NReq |-> Encode(i, ReqSeq[i][1], OutcomeSegs(table, ReqSeq[i][1], ReqSegs[i]))],
            LAMBDA e : e.k # "n")

\* the table is exactly the accepted registrations
TableIsAccepted == table = {[m |-> regs[i].m, p |-> regs[i].p] : i \in {j \in 1..Len(regs) : ~regs[j].err}}

Emit ==
  (EmitAll \/ Len(groups) = MaxMounts) =>
    PrintT(ToJson([slices |-> slices, ops |-> groups, regs |-> regs, res |-> Results, rounds |-> Rounds]))

=============================================================================
