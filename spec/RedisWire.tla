----------------------------- MODULE RedisWire -----------------------------
(***************************************************************************)
(* Wire tier of property C12: for every command method of the wrapper      *)
(* lib/store/redis the canonical Redis command (as the corresponding       *)
(* go-redis v8 command encodes it) that must reach the server for a given  *)
(* argument tuple.  TLC enumerates the argument tuples (integers pairwise  *)
(* distinct, so that a swapped or misplaced argument shows) and prints one *)
(* row per tuple; the Go driver calls the method in its plain and in its   *)
(* Ctx form and compares what miniredis' pre-hook recorded (lower-cased).  *)
(* Only the emitted command is claimed here; reply conversion and effect   *)
(* of the modelled families are the business of RedisKV.tla.               *)
(***************************************************************************)
EXTENDS Integers, Sequences, FiniteSets, TLC, Json

CONSTANT Quick

VARIABLE row

S(i) == ToString(i)

Ints  == IF Quick THEN {2, 3, 5} ELSE {2, 3, 5, 7}
P2 == {p \in Ints \X Ints : p[1] # p[2]}
P3 == {p \in Ints \X Ints \X Ints : Cardinality({p[1], p[2], p[3]}) = 3}
P4 == {p \in {2, 3, 5, 7} \X {2, 3, 5, 7} \X {2, 3, 5, 7} \X {2, 3, 5, 7} : Cardinality({p[1], p[2], p[3], p[4]}) = 4}
N1 == {3, 5}
K  == {"ka", "kb"}
K2 == {<<"ka", "kb">>, <<"kb", "ka">>}                    \* two keys, both orders
KS == {<<"ka">>} \cup K2
V2 == {<<"va", "vb">>, <<"vb", "va">>}
F2 == {<<"fa", "fb">>, <<"fb", "fa">>}
M2 == {<<"ma", "mb">>, <<"mb", "ma">>}
Bits == {0, 1}

Row(m, a, w) == [m |-> m, a |-> a, w |-> w]
One(m, a, c) == Row(m, a, <<c>>)

\* methods  f(key)
KeyOnly == {<<"Decr", "decr">>, <<"Exists", "exists">>, <<"Get", "get">>, <<"HGetAll", "hgetall">>, <<"HKeys", "hkeys">>,
            <<"HLen", "hlen">>, <<"HVals", "hvals">>, <<"Incr", "incr">>, <<"LLen", "llen">>, <<"LPop", "lpop">>,
            <<"Persist", "persist">>, <<"PFCount", "pfcount">>, <<"RPop", "rpop">>, <<"SCard", "scard">>,
            <<"SMembers", "smembers">>, <<"SPop", "spop">>, <<"TTL", "ttl">>, <<"ZCard", "zcard">>}
\* methods  f(key, int)
KeyInt == {<<"DecrBy", "decrby">>, <<"IncrBy", "incrby">>, <<"Expire", "expire">>, <<"ExpireAt", "expireat">>,
           <<"GetBit", "getbit">>, <<"LIndex", "lindex">>, <<"SRandMember", "srandmember">>}
\* methods  f(key, string)
KeyStr == {<<"GetSet", "getset", "va">>, <<"Set", "set", "va">>, <<"SetNX", "setnx", "va">>, <<"HExists", "hexists", "fa">>,
           <<"HGet", "hget", "fa">>, <<"SIsMember", "sismember", "ma">>, <<"ZScore", "zscore", "ma">>,
           <<"ZRank", "zrank", "ma">>, <<"ZRevRank", "zrevrank", "ma">>}
\* methods  f(key, int, int) emitted as  cmd key a b [suffix]
KeyIntInt == {<<"BitCount", <<"bitcount">>, <<>>>>, <<"LRange", <<"lrange">>, <<>>>>, <<"LTrim", <<"ltrim">>, <<>>>>,
              <<"ZCount", <<"zcount">>, <<>>>>, <<"ZRemRangeByScore", <<"zremrangebyscore">>, <<>>>>,
              <<"ZRemRangeByRank", <<"zremrangebyrank">>, <<>>>>, <<"ZRange", <<"zrange">>, <<>>>>,
              <<"ZRevRange", <<"zrevrange">>, <<>>>>,
              <<"ZRangeWithScores", <<"zrange">>, <<"withscores">>>>,
              <<"ZRevRangeWithScores", <<"zrevrange">>, <<"withscores">>>>,
              <<"ZRangeByScoreWithScores", <<"zrangebyscore">>, <<"withscores">>>>}
\* methods  f(key, strings ...string)
KeyStrs == {<<"HDel", "hdel", F2>>, <<"HMGet", "hmget", F2>>, <<"GeoHash", "geohash", M2>>, <<"GeoPos", "geopos", M2>>}
\* methods  f(key, values ...any): the elements travel one by one whatever the shape in which the caller hands
\* them over - every element an argument of its own (none: no trailing argument), or ONE argument that is a []string,
\* a []any or a single-entry map[string]string / map[string]any (go-redis spreads a lone slice / map argument;
\* same dimension as RedisKV.tla, "argument shapes")
KeyAnys == {<<"LPush", "lpush", V2>>, <<"RPush", "rpush", V2>>, <<"PFAdd", "pfadd", V2>>, <<"SAdd", "sadd", M2>>,
            <<"SRem", "srem", M2>>, <<"ZRem", "zrem", M2>>}
ShapesOf(n) == IF n = 2 THEN {"flat", "strs", "anys", "smap", "amap"} ELSE {"flat", "strs", "anys"}
\* the element sequences of a variadic part drawn from the pairs PP: nothing, one element, two elements
Upto2(PP) == {<<>>} \cup {<<p[1]>> : p \in PP} \cup PP
\* methods  f(keys...)
Keys_ == {<<"Del", "del">>, <<"MGet", "mget">>, <<"SUnion", "sunion">>, <<"SDiff", "sdiff">>, <<"SInter", "sinter">>}
\* methods  f(dest, keys...)  emitted as  prefix dest keys
DestKeys == {<<"BitOpAnd", <<"bitop", "and">>>>, <<"BitOpOr", <<"bitop", "or">>>>, <<"BitOpXor", <<"bitop", "xor">>>>,
             <<"PFMerge", <<"pfmerge">>>>, <<"SUnionStore", <<"sunionstore">>>>, <<"SDiffStore", <<"sdiffstore">>>>,
             <<"SInterStore", <<"sinterstore">>>>}

Rows ==
  {One(t[1], [k |-> k], <<t[2], k>>) : t \in KeyOnly, k \in K}
  \cup {One(t[1], [k |-> "ka", n |-> n], <<t[2], "ka", S(n)>>) : t \in KeyInt, n \in N1}
  \cup {One(t[1], [k |-> k, s |-> t[3]], <<t[2], k, t[3]>>) : t \in KeyStr, k \in K}
  \cup {One(t[1], [k |-> "ka", x |-> p[1], y |-> p[2]], <<t[2][1], "ka", S(p[1]), S(p[2])>> \o t[3]) : t \in KeyIntInt, p \in P2}
  \cup UNION {{One(t[1], [k |-> "ka", ss |-> ss], <<t[2], "ka">> \o ss) : ss \in t[3]} : t \in KeyStrs}
  \cup UNION {UNION {{One(t[1], [k |-> "ka", ss |-> ss, sh |-> sh], <<t[2], "ka">> \o ss) : sh \in ShapesOf(Len(ss))} :
                        ss \in Upto2(t[3])} : t \in KeyAnys}
  \cup {One(t[1], [ks |-> kk], <<t[2]>> \o kk) : t \in Keys_, kk \in KS}
  \cup {One(t[1], [dst |-> "kc", ks |-> kk], t[2] \o <<"kc">> \o kk) : t \in DestKeys, kk \in KS}
  \cup {One("BitOpNot", [dst |-> kk[1], k |-> kk[2]], <<"bitop", "not", kk[1], kk[2]>>) : kk \in K2}
  \cup {One("BitPos", [k |-> "ka", bit |-> b, x |-> p[1], y |-> p[2]], <<"bitpos", "ka", S(b), S(p[1]), S(p[2])>>) : b \in Bits, p \in P2}
  \cup {One("SetBit", [k |-> "ka", x |-> n, bit |-> b], <<"setbit", "ka", S(n), S(b)>>) : n \in N1, b \in Bits}
  \cup UNION {{One("Eval", [script |-> "return 1", ks |-> kk, ss |-> vv, sh |-> sh], <<"eval", "return 1", S(Len(kk))>> \o kk \o vv) :
                  sh \in ShapesOf(Len(vv))} : kk \in KS, vv \in Upto2(V2)}
  \cup UNION {{One("EvalSha", [sha |-> "0123abcd", ks |-> kk, ss |-> vv, sh |-> sh], <<"evalsha", "0123abcd", S(Len(kk))>> \o kk \o vv) :
                  sh \in ShapesOf(Len(vv))} : kk \in KS, vv \in Upto2(V2)}
  \cup {One("ScriptLoad", [script |-> "return 1"], <<"script", "load", "return 1">>)}
  \cup {One("Ping", [z |-> 0], <<"ping">>)}
  \* Pipelined(fn) with fn = {Set(k, s); Get(k)}: the queued commands, in order, nothing else
  \cup {Row("Pipelined", [k |-> k, s |-> "va"], <<<<"set", k, "va">>, <<"get", k>>>>) : k \in K}
  \cup {One("Keys", [s |-> "p*"], <<"keys", "p*">>)}
  \cup {One("Scan", [x |-> p[1], s |-> "p*", y |-> p[2]], <<"scan", S(p[1]), "match", "p*", "count", S(p[2])>>) : p \in P2}
  \cup {One(t[1], [k |-> "ka", x |-> p[1], s |-> "p*", y |-> p[2]], <<t[2], "ka", S(p[1]), "match", "p*", "count", S(p[2])>>) :
          t \in {<<"HScan", "hscan">>, <<"SScan", "sscan">>}, p \in P2}
  \cup {One("SetEx", [k |-> k, s |-> "va", n |-> n], <<"set", k, "va", "ex", S(n)>>) : k \in K, n \in N1}
  \cup {One("SetNXEx", [k |-> k, s |-> "va", n |-> n], <<"set", k, "va", "ex", S(n), "nx">>) : k \in K, n \in N1}
  \cup {One(t[1], [k |-> "ka", f |-> "fa", s |-> "va"], <<t[2], "ka", "fa", "va">>) :
          t \in {<<"HSet", "hset">>, <<"HSetNX", "hsetnx">>, <<"HMSet", "hmset">>}}
  \cup {One("HIncrBy", [k |-> "ka", f |-> "fa", n |-> n], <<"hincrby", "ka", "fa", S(n)>>) : n \in N1}
  \cup {One("LRem", [k |-> "ka", n |-> n, s |-> "va"], <<"lrem", "ka", S(n), "va">>) : n \in N1}
  \cup {One(t, [k |-> "ka", n |-> n, s |-> "ma"], <<"zadd", "ka", S(n), "ma">>) : t \in {"ZAdd", "ZAddFloat"}, n \in N1}
  \cup {One("ZAdds", [k |-> "ka", ss |-> mm, x |-> p[1], y |-> p[2]], <<"zadd", "ka", S(p[1]), mm[1], S(p[2]), mm[2]>>) : mm \in M2, p \in P2}
  \cup {One("ZIncrBy", [k |-> "ka", n |-> n, s |-> "ma"], <<"zincrby", "ka", S(n), "ma">>) : n \in N1}
  \* (start, stop) are handed over as ZRangeBy{Min: start, Max: stop}; ZREVRANGEBYSCORE takes max first
  \cup {One("ZRevRangeByScoreWithScores", [k |-> "ka", x |-> p[1], y |-> p[2]],
            <<"zrevrangebyscore", "ka", S(p[2]), S(p[1]), "withscores">>) : p \in P2}
  \cup {One("ZRangeByScoreWithScoresAndLimit", [k |-> "ka", x |-> p[1], y |-> p[2], page |-> p[3], size |-> p[4]],
            <<"zrangebyscore", "ka", S(p[1]), S(p[2]), "withscores", "limit", S(p[3] * p[4]), S(p[4])>>) : p \in P4}
  \cup {One("ZRevRangeByScoreWithScoresAndLimit", [k |-> "ka", x |-> p[1], y |-> p[2], page |-> p[3], size |-> p[4]],
            <<"zrevrangebyscore", "ka", S(p[2]), S(p[1]), "withscores", "limit", S(p[3] * p[4]), S(p[4])>>) : p \in P4}
  \* a non-positive size: empty result, nothing is sent
  \cup {Row(m, [k |-> "ka", x |-> 2, y |-> 3, page |-> 1, size |-> sz], <<>>) :
          m \in {"ZRangeByScoreWithScoresAndLimit", "ZRevRangeByScoreWithScoresAndLimit"}, sz \in {0, 0 - 1}}
  \cup {One("ZUnionStore", [dst |-> "kc", ks |-> kk, x |-> p[1], y |-> p[2], s |-> "sum"],
            <<"zunionstore", "kc", "2">> \o kk \o <<"weights", S(p[1]), S(p[2]), "aggregate", "sum">>) : kk \in K2, p \in P2}
  \cup {One("ZUnionStore", [dst |-> "kc", ks |-> <<"ka">>, x |-> 0, y |-> 0, s |-> ""], <<"zunionstore", "kc", "1", "ka">>)}
  \cup {One("GeoAdd", [k |-> "ka", x |-> p[1], y |-> p[2], s |-> "ma"], <<"geoadd", "ka", S(p[1]), S(p[2]), "ma">>) : p \in P2}
  \cup {One("GeoDist", [k |-> "ka", ss |-> mm, s |-> "km"], <<"geodist", "ka", mm[1], mm[2], "km">>) : mm \in M2}
  \cup {One("GeoRadius", [k |-> "ka", x |-> p[1], y |-> p[2], n |-> p[3], s |-> "km"],
            <<"georadius_ro", "ka", S(p[1]), S(p[2]), S(p[3]), "km">>) : p \in P3}
  \cup {One("GeoRadiusByMember", [k |-> "ka", m |-> "ma", n |-> n, s |-> "km"],
            <<"georadiusbymember_ro", "ka", "ma", S(n), "km">>) : n \in N1}

Init == row \in Rows
Next == UNCHANGED row
Spec == Init /\ [][Next]_row

\* The Ctx form called with a context that is already cancelled / past its deadline: like the go-redis
\* command with that context, nothing is put on the wire and the context's error comes back
\* ("ctx"); Ping reports it as false; the rows that are answered without asking Redis stay so.
CtxErr(r) == IF r.w = <<>> THEN "" ELSE IF r.m = "Ping" THEN "false" ELSE "ctx"

Emit == PrintT(ToJson([m |-> row.m, a |-> row.a, w |-> row.w, cerr |-> CtxErr(row), cw |-> <<>>]))

=============================================================================
