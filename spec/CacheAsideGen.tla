---------------------------- MODULE CacheAsideGen ----------------------------
(***************************************************************************)
(* Behaviour generator for CacheAside.tla (spec -> code replay, C06).      *)
(*                                                                         *)
(* A generated behaviour is                                                *)
(*   init record (initial database, jitter choice, expiry configuration)   *)
(*   at most MaxOps operations out of Ops (names of operations offered);   *)
(*      two of them are composite (one generator step, several operations  *)
(*      of CacheAside, each with its own record):                          *)
(*        "warm"  (only as the first step, and then always) reads every id  *)
(*                and every name of the audit, so that the cache is full   *)
(*        "burst" several writes (or several DelCache calls) on DIFFERENT   *)
(*                ids within one second -- if the node is down, that many  *)
(*                removals fail in the same second and their retries fall   *)
(*                due together                                             *)
(*   a "finish" step: every node becomes reachable again and time advances *)
(*      past every pending retry plus TailTicks further seconds (so that a *)
(*      removal executed again after it succeeded is observed)             *)
(*   an audit: QueryRow of every id and QueryRowIndex of every name.       *)
(* Every record carries what CacheAside.tla says must be observed: result  *)
(* class and row, number of database callbacks, DEL commands reaching each *)
(* Redis node (per second for time steps), and the cache contents          *)
(* (kind + remaining TTL per key) after the step.                          *)
(***************************************************************************)
EXTENDS CacheAside, Json

CONSTANTS MaxOps,     \* operations per behaviour
          Ops,        \* subset of {"qrow","qindex","put","delete","delcache","setcache","adv","down","up",
                      \*            "warm","burst"}
          ReadIds,    \* ids offered to qrow steps (the audit reads all of AuditIds)
          ReadNames,  \* names offered to qindex steps
          Bursts,     \* set of sets of ids: the id sets offered to "burst"
          BurstKinds, \* subset of {"put", "delcache"}
          MaxDown,    \* bound on "down" operations per behaviour
          TailTicks,  \* seconds observed after the last pending retry
          AuditIds,   \* sequence of ids read at the end
          AuditNames  \* sequence of names read at the end

VARIABLES hist, nops, ndown, fin, aud

gvars == <<vars, hist, nops, ndown, fin, aud>>

\* cache contents after a step, one integer per key: remaining TTL * 10 + kind code
KindCode(k) == CASE k = "none" -> 0 [] k = "row" -> 1 [] k = "nf" -> 2 [] k = "pk" -> 3
Snap(st) == [k \in Keys |-> IF st.cache[k].kind = "none" THEN 0
                            ELSE (st.cache[k].exp - st.clk) * 10 + KindCode(st.cache[k].kind)]

\* the observable part of a step result + the cache snapshot after it (r is a value here)
\* (a write's `pre` -- the read inside its statement callback -- is left out when there is none)
Rec(r) == [f \in (DOMAIN r) \ ({"s", "sets"} \cup (IF r.res = "row" THEN {} ELSE {"row"})
                                \cup (IF "pre" \in DOMAIN r /\ r.pre.op = "none" THEN {"pre"} ELSE {})) |-> r[f]]
            @@ [cache |-> Snap(r.s), clk |-> r.s.clk]

AuditOps == [i \in 1..Len(AuditIds) |-> [op |-> "qrow", id |-> AuditIds[i]]]
            \o [i \in 1..Len(AuditNames) |-> [op |-> "qindex", name |-> AuditNames[i]]]

GInit == /\ Init
         /\ hist = <<[op |-> "init", jit |-> s.jit, cfg |-> s.cfg,
                      db |-> {RowOut(i, s.db[i]) : i \in {x \in Ids : s.db[x] # NoRow}}]>>
         /\ nops = 0 /\ ndown = 0 /\ fin = FALSE /\ aud = 0

\* the simple operations offered by the generator
GOps(st) == {x \in OpsOf(st) : /\ x.op \in Ops
                               /\ x.op = "qrow" => x.id \in ReadIds
                               /\ x.op = "qindex" => x.name \in ReadNames}

MaxId == CHOOSE m \in Ids : \A j \in Ids : j <= m
IdSeq(S) == SelectSeq([i \in 1..MaxId |-> i], LAMBDA i : i \in S)
OtherData(d) == CHOOSE x \in Datas : x # d

\* the operations of a burst on the id set S in state st, in increasing order of the ids: every
\* existing row of S gets other data (same name), or the primary key of every id of S is removed
\* from the cache by hand.  (The ids differ, so the descriptors can be computed up front.)
BurstOps(st, S, kind, cx) ==
  LET ids == IdSeq(IF kind = "put" THEN {i \in S : st.db[i] # NoRow} ELSE S)
  IN [j \in 1..Len(ids) |->
        IF kind = "put"
          THEN [op |-> "put", id |-> ids[j], cx |-> cx, pre |-> [op |-> "none"],
                row |-> [name |-> st.db[ids[j]].name, data |-> OtherData(st.db[ids[j]].data)]]
          ELSE [op |-> "delcache", k |-> PK(ids[j]), cx |-> cx]]

\* a chain of operations within one generator step (each result is bound once as a value)
RECURSIVE ChainFrom(_, _, _, _)
ChainFrom(st, ops, i, acc) ==
  IF i > Len(ops)
    THEN s' = st /\ hist' = acc
    ELSE \E r \in {StepOf(st, ops[i])} : r.s.nfail <= MaxFail /\ ChainFrom(r.s, ops, i + 1, Append(acc, Rec(r)))

ChainOut(name) == [op |-> name, res |-> "ok", row |-> NoRowOut, qp |-> 0, qi |-> 0, loose |-> FALSE, sets |-> {}, dels |-> {}]

GWarm ==
  /\ ~fin /\ nops = 0 /\ nops < MaxOps /\ "warm" \in Ops
  /\ ChainFrom(s, AuditOps, 1, hist)
  /\ out' = ChainOut("warm")
  /\ nops' = nops + 1
  /\ UNCHANGED <<ndown, fin, aud>>

GBurst ==
  /\ ~fin /\ nops < MaxOps /\ "burst" \in Ops /\ ("warm" \in Ops => nops > 0)
  /\ \E S \in Bursts, kind \in BurstKinds, cx \in Ctxs :
        \E ops \in {BurstOps(s, S, kind, cx)} :
           /\ Len(ops) >= 2
           /\ ChainFrom(s, ops, 1, hist)
  /\ out' = ChainOut("burst")
  /\ nops' = nops + 1
  /\ UNCHANGED <<ndown, fin, aud>>

GStep ==
  /\ ~fin /\ nops < MaxOps /\ ("warm" \in Ops => nops > 0)
  /\ \E o \in GOps(s) :
        /\ (o.op = "down" => ndown < MaxDown)
        /\ \E r \in {StepOf(s, o)} :
              /\ r.s.nfail <= MaxFail
              /\ Apply(r)
              /\ hist' = Append(hist, Rec(r))
        /\ ndown' = IF o.op = "down" THEN ndown + 1 ELSE ndown
  /\ nops' = nops + 1
  /\ UNCHANGED <<fin, aud>>

MaxDueOf(ts) == IF ts = {} THEN 0 ELSE CHOOSE m \in {t.due : t \in ts} : \A t \in ts : t.due <= m

\* the audit reads, chained inside the finishing step (each result is bound once as a value)
RECURSIVE AuditFrom(_, _, _)
AuditFrom(st, i, acc) ==
  IF i > Len(AuditOps)
    THEN s' = st /\ hist' = acc
    ELSE \E r \in {StepOf(st, AuditOps[i])} : AuditFrom(r.s, i + 1, Append(acc, Rec(r)))

\* every node reachable again, then time passes until every pending retry has run + TailTicks,
\* then the audit
Finish ==
  /\ ~fin
  /\ nops = MaxOps
  /\ fin' = TRUE
  /\ aud' = Len(AuditOps)
  /\ LET healed == [s EXCEPT !.up = [nd \in Nodes |-> TRUE]]
         md     == MaxDueOf(s.tasks)
         n      == (IF md > s.clk THEN md - s.clk ELSE 0) + TailTicks
     IN \E a \in {AdvanceF(healed, n)} :
          /\ out' = Obs(a)
          /\ AuditFrom(a.s, 1, Append(hist, [Rec(a) EXCEPT !.op = "finish"]))
  /\ UNCHANGED <<nops, ndown>>

GNext == GStep \/ GWarm \/ GBurst \/ Finish

GSpec == GInit /\ [][GNext]_gvars

Done == fin /\ aud = Len(AuditOps)

\* one JSON line per complete behaviour (every distinct history is a distinct state)
Emit == Done => PrintT(ToJson(hist))

=============================================================================
