---------------------------- MODULE CacheAsideGen ----------------------------
(***************************************************************************)
(* Behaviour generator for CacheAside.tla (spec -> code replay, C06).      *)
(*                                                                         *)
(* A generated behaviour is                                                *)
(*   init record (initial database, jitter choice, expiry configuration)   *)
(*   at most MaxOps operations out of Ops (names of operations offered)    *)
(*   a "finish" step: every node becomes reachable again and time advances *)
(*      past every pending retry plus TailTicks further seconds (so that a *)
(*      removal executed again after it succeeded is observed)             *)
(*   an audit: QueryRow of every id and QueryRowIndex of every name.       *)
(* Every record carries what CacheAside.tla says must be observed: result  *)
(* class and row, number of database callbacks, DEL commands reaching each *)
(* Redis node (per second for time steps), and the cache contents          *)
(* (kind + remaining TTL per key) after the step.                          *)
(***************************************************************************)
EXTENDS CacheAside, Json

CONSTANTS MaxOps,     \* operations per behaviour
          Ops,        \* subset of {"qrow","qindex","put","delete","delcache","setcache","adv","down","up"}
          MaxDown,    \* bound on "down" operations per behaviour
          TailTicks,  \* seconds observed after the last pending retry
          AuditIds,   \* sequence of ids read at the end
          AuditNames  \* sequence of names read at the end

VARIABLES hist, nops, ndown, fin, aud

gvars == <<vars, hist, nops, ndown, fin, aud>>

\* cache contents after a step, one integer per key: remaining TTL * 10 + kind code
KindCode(k) == CASE k = "none" -> 0 [] k = "row" -> 1 [] k = "nf" -> 2 [] k = "pk" -> 3
Snap(st) == [k \in Keys |-> IF st.cache[k].kind = "none" THEN 0
                            ELSE (st.cache[k].exp - st.clk) * 10 + KindCode(st.cache[k].kind)]

\* the observable part of a step result + the cache snapshot after it (r is a value here)
Rec(r) == [f \in (DOMAIN r) \ ({"s", "sets"} \cup (IF r.res = "row" THEN {} ELSE {"row"})) |-> r[f]]
            @@ [cache |-> Snap(r.s), clk |-> r.s.clk]

AuditOps == [i \in 1..Len(AuditIds) |-> [op |-> "qrow", id |-> AuditIds[i]]]
            \o [i \in 1..Len(AuditNames) |-> [op |-> "qindex", name |-> AuditNames[i]]]

GInit == /\ Init
         /\ hist = <<[op |-> "init", jit |-> s.jit, cfg |-> s.cfg,
                      db |-> {RowOut(i, s.db[i]) : i \in {x \in Ids : s.db[x] # NoRow}}]>>
         /\ nops = 0 /\ ndown = 0 /\ fin = FALSE /\ aud = 0

GStep ==
  /\ ~fin /\ nops < MaxOps
  /\ \E o \in {x \in OpsOf(s) : x.op \in Ops} :
        /\ (o.op = "down" => ndown < MaxDown)
        /\ \E r \in {StepOf(s, o)} :
              /\ r.s.nfail <= MaxFail
              /\ Apply(r)
              /\ hist' = Append(hist, Rec(r))
        /\ ndown' = IF o.op = "down" THEN ndown + 1 ELSE ndown
  /\ nops' = nops + 1
  /\ UNCHANGED <<fin, aud>>

MaxDueOf(ts) == IF ts = {} THEN 0 ELSE CHOOSE m \in {t.due : t \in ts} : \A t \in ts : t.due <= m

\* the audit reads, chained inside the finishing step (each result is bound once as a value)
RECURSIVE AuditFrom(_, _, _)
AuditFrom(st, i, acc) ==
  IF i > Len(AuditOps)
    THEN s' = st /\ hist' = acc
    ELSE \E r \in {StepOf(st, AuditOps[i])} : AuditFrom(r.s, i + 1, Append(acc, Rec(r)))

\* every node reachable again, then time passes until every pending retry has run + TailTicks,
\* then the audit
Finish ==
  /\ ~fin
  /\ nops = MaxOps
  /\ fin' = TRUE
  /\ aud' = Len(AuditOps)
  /\ LET healed == [s EXCEPT !.up = [nd \in Nodes |-> TRUE]]
         md     == MaxDueOf(s.tasks)
         n      == (IF md > s.clk THEN md - s.clk ELSE 0) + TailTicks
     IN \E a \in {AdvanceF(healed, n)} :
          /\ out' = Obs(a)
          /\ AuditFrom(a.s, 1, Append(hist, [Rec(a) EXCEPT !.op = "finish"]))
  /\ UNCHANGED <<nops, ndown>>

GNext == GStep \/ Finish

GSpec == GInit /\ [][GNext]_gvars

Done == fin /\ aud = Len(AuditOps)

\* one JSON line per complete behaviour (every distinct history is a distinct state)
Emit == Done => PrintT(ToJson(hist))

=============================================================================
