----------------------------- MODULE DiscovConn -----------------------------
(***************************************************************************)
(* Connection-state watcher of lib/discov/internal/statwatcher.go          *)
(* (property C15: "connection losses followed by a reload").               *)
(*                                                                         *)
(* The connection reports gRPC connectivity states.  An outage begins when *)
(* TRANSIENT_FAILURE or SHUTDOWN is reported and lasts until READY is      *)
(* reported again, whatever states (CONNECTING, IDLE, further failures)    *)
(* lie in between; the listeners (the cluster's reload) are notified       *)
(* exactly once per outage, at that READY.  The module is its own          *)
(* generator: every sequence of MaxLen state changes from a connection     *)
(* that was never seen failing is printed with the cumulative number of    *)
(* notifications after each change.                                        *)
(***************************************************************************)
EXTENDS Integers, Sequences, FiniteSets, TLC, Json

CONSTANT MaxLen

States == {"IDLE", "CONNECTING", "READY", "TRANSIENT_FAILURE", "SHUTDOWN"}
Down   == {"TRANSIENT_FAILURE", "SHUTDOWN"}

VARIABLES st, outage, notes, hist
vars == <<st, outage, notes, hist>>

Init ==
  /\ st \in States \ Down
  /\ outage = FALSE /\ notes = 0
  /\ hist = <<[s |-> st, n |-> 0]>>

Change(s) ==
  /\ s # st
  /\ st' = s
  /\ outage' = IF s \in Down THEN TRUE ELSE IF s = "READY" THEN FALSE ELSE outage
  /\ notes' = IF s = "READY" /\ outage THEN notes + 1 ELSE notes
  /\ hist' = Append(hist, [s |-> s, n |-> notes'])

Next == Len(hist) <= MaxLen /\ \E s \in States : Change(s)
Spec == Init /\ [][Next]_vars

\* outages seen in the history: maximal runs that start with a Down state and end at the next READY
OutagesEnded == Cardinality({i \in 2..Len(hist) : hist[i].s = "READY" /\
                   \E j \in 1..(i - 1) : hist[j].s \in Down /\ \A k \in (j + 1)..(i - 1) : hist[k].s # "READY"})
OncePerOutage == notes = OutagesEnded
NoOutageNoNote == (\A i \in 1..Len(hist) : hist[i].s \notin Down) => notes = 0

Emit == (Len(hist) = MaxLen + 1) => PrintT(ToJson(hist))
=============================================================================
