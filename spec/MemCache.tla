------------------------------ MODULE MemCache ------------------------------
(***************************************************************************)
(* Abstract in-memory cache (property C17; lib/collection/cache.go).       *)
(*                                                                         *)
(* Time is counted in ticks of the one-second expiry wheel (C10).  The     *)
(* state is what the statement talks about: which keys are held with which *)
(* value, their recency order (when the cache has a limit) and the tick at *)
(* which each entry is dropped for age.  Nothing about slots, circles or   *)
(* timers: the wheel is used through its C10 contract "a delay of x        *)
(* seconds fires during tick T + floor(x)", which is what "to the          *)
(* granularity of the one-second wheel tick" means here.                   *)
(*                                                                         *)
(* A Set with expiry e (seconds) chooses its drop delay d anywhere in      *)
(* Window(e) = floor(0.95 e) .. floor(1.05 e)  (at least one tick): the    *)
(* statement allows the whole window; the generator (MemCacheGen) pins the *)
(* jitter and thereby picks one member of the window.                      *)
(*                                                                         *)
(* `out` is observation only: operation, arguments, and what the caller    *)
(* must see.  meta/use/clk/last are ghost variables used only to state the *)
(* properties independently of the mechanism variables (lru, due).         *)
(***************************************************************************)
EXTENDS Integers, Sequences, FiniteSets, TLC

CONSTANTS Keys,      \* key space (strings)
          Limit,     \* 0 = no limit, else maximal number of entries
          Expire,    \* default expiry of the cache in seconds (Set, Take)
          Expires,   \* expiries offered to SetWithExpire
          MaxVal     \* values are 1..MaxVal (0 = absent)

VARIABLES T,         \* ticks seen
          data,      \* [Keys -> 0..MaxVal], 0 = not held
          due,       \* [Keys -> Nat], tick at which the entry is dropped for age; 0 = not held
          lru,       \* sequence of keys, most recently used first (<<>> when Limit = 0)
          meta,      \* ghost: [Keys -> [at, e]] tick and expiry of the last Set of the key
          use,       \* ghost: [Keys -> Nat] logical time of the last set/read/take of the key
          clk,       \* ghost: logical time
          last,      \* ghost: [Keys -> value most recently set]
          out

vars == <<T, data, due, lru, meta, use, clk, last, out>>
core == <<T, data, due, lru, meta, use, clk, last>>
mech == <<T, data, due, lru>>                    \* what the behaviour depends on
ghost == <<meta, use, clk, last>>

Vals == 1..MaxVal
Max2(a, b) == IF a > b THEN a ELSE b
Present(D) == {k \in Keys : D[k] # 0}
Size(D) == Cardinality(Present(D))

Lo(e) == Max2(1, (95 * e) \div 100)
Hi(e) == (105 * e) \div 100
Window(e) == Lo(e)..Hi(e)

InSeq(k, s) == \E i \in 1..Len(s) : s[i] = k
Without(s, k) == SelectSeq(s, LAMBDA x : x # k)
Touch(s, k) == IF Limit = 0 THEN s ELSE <<k>> \o Without(s, k)

(* ------------------------------------------------------------ pure step functions *)

\* the entry pushed out when key k is stored into a cache whose recency list is L
Victim(L, k) == IF Limit > 0 /\ ~InSeq(k, L) /\ Len(L) >= Limit THEN {L[Len(L)]} ELSE {}

\* store k = v with drop tick t
StoreData(D, L, k, v) == [x \in Keys |-> IF x = k THEN v ELSE IF x \in Victim(L, k) THEN 0 ELSE D[x]]
StoreDue(U, L, k, t)  == [x \in Keys |-> IF x = k THEN t ELSE IF x \in Victim(L, k) THEN 0 ELSE U[x]]
StoreLru(L, k) == IF Victim(L, k) = {} THEN Touch(L, k) ELSE SubSeq(Touch(L, k), 1, Len(L))

RemoveData(D, k) == [D EXCEPT ![k] = 0]
RemoveLru(L, k) == Without(L, k)

\* keys dropped for age by ticks t+1 .. t+n
Aged(U, t, n) == {k \in Keys : U[k] \in (t + 1)..(t + n)}
AgeData(D, U, t, n) == [k \in Keys |-> IF k \in Aged(U, t, n) THEN 0 ELSE D[k]]
AgeLru(L, U, t, n) == SelectSeq(L, LAMBDA x : x \notin Aged(U, t, n))

(* ------------------------------------------------------------ actions *)

TypeOK ==
  /\ T \in Nat /\ clk \in Nat
  /\ data \in [Keys -> 0..MaxVal]
  /\ due \in [Keys -> Nat]
  /\ lru \in Seq(Keys)

Init ==
  /\ T = 0
  /\ data = [k \in Keys |-> 0]
  /\ due = [k \in Keys |-> 0]
  /\ lru = <<>>
  /\ meta = [k \in Keys |-> [at |-> 0, e |-> 0]]
  /\ use = [k \in Keys |-> 0]
  /\ clk = 0
  /\ last = [k \in Keys |-> 0]
  /\ out = [op |-> "init"]

Tick ==
  /\ T' = T + 1
  /\ data' = AgeData(data, due, T, 1)
  /\ due' = AgeData(due, due, T, 1)
  /\ lru' = AgeLru(lru, due, T, 1)
  /\ out' = [op |-> "tick", dropped |-> Aged(due, T, 1), size |-> Size(data')]
  /\ UNCHANGED ghost

\* Set / SetWithExpire
Set(k, v, e, d) ==
  /\ d \in Window(e)
  /\ data' = StoreData(data, lru, k, v)
  /\ due' = StoreDue(due, lru, k, T + d)
  /\ lru' = StoreLru(lru, k)
  /\ meta' = [meta EXCEPT ![k] = [at |-> T, e |-> e]]
  /\ clk' = clk + 1
  /\ use' = [use EXCEPT ![k] = clk + 1]
  /\ last' = [last EXCEPT ![k] = v]
  /\ out' = [op |-> "set", k |-> k, v |-> v, e |-> e, d |-> d, evicted |-> Victim(lru, k), size |-> Size(data')]
  /\ UNCHANGED T

Get(k) ==
  /\ lru' = IF data[k] # 0 THEN Touch(lru, k) ELSE lru
  /\ clk' = clk + 1
  /\ use' = IF data[k] # 0 THEN [use EXCEPT ![k] = clk + 1] ELSE use
  /\ out' = [op |-> "get", k |-> k, hit |-> (data[k] # 0), v |-> data[k], size |-> Size(data)]
  /\ UNCHANGED <<T, data, due, meta, last>>

Del(k) ==
  /\ data' = RemoveData(data, k)
  /\ due' = RemoveData(due, k)
  /\ lru' = RemoveLru(lru, k)
  /\ clk' = clk + 1
  /\ out' = [op |-> "del", k |-> k, size |-> Size(data')]
  /\ UNCHANGED <<T, meta, use, last>>

\* Take with a fetch function that would return value fv (fok) or an error (~fok); the fetched
\* value is stored with the cache's default expiry and drop delay d
Take(k, fok, fv, d) ==
  /\ d \in Window(Expire)
  /\ clk' = clk + 1
  /\ UNCHANGED T
  /\ IF data[k] # 0
       THEN /\ lru' = Touch(lru, k)
            /\ use' = [use EXCEPT ![k] = clk + 1]
            /\ out' = [op |-> "take", k |-> k, fok |-> fok, fv |-> fv, d |-> d, hit |-> TRUE, fetched |-> FALSE,
                       err |-> FALSE, v |-> data[k], evicted |-> {}, size |-> Size(data)]
            /\ UNCHANGED <<data, due, meta, last>>
       ELSE IF fok
         THEN /\ data' = StoreData(data, lru, k, fv)
              /\ due' = StoreDue(due, lru, k, T + d)
              /\ lru' = StoreLru(lru, k)
              /\ meta' = [meta EXCEPT ![k] = [at |-> T, e |-> Expire]]
              /\ use' = [use EXCEPT ![k] = clk + 1]
              /\ last' = [last EXCEPT ![k] = fv]
              /\ out' = [op |-> "take", k |-> k, fok |-> fok, fv |-> fv, d |-> d, hit |-> FALSE, fetched |-> TRUE,
                         err |-> FALSE, v |-> fv, evicted |-> Victim(lru, k), size |-> Size(data')]
         ELSE /\ out' = [op |-> "take", k |-> k, fok |-> fok, fv |-> fv, d |-> d, hit |-> FALSE, fetched |-> TRUE,
                         err |-> TRUE, v |-> 0, evicted |-> {}, size |-> Size(data)]
              /\ UNCHANGED <<data, due, lru, meta, use, last>>

Next ==
  \/ Tick
  \/ \E k \in Keys, v \in Vals, e \in Expires \cup {Expire} : \E d \in Window(e) : Set(k, v, e, d)
  \/ \E k \in Keys : Get(k) \/ Del(k)
  \/ \E k \in Keys, fok \in BOOLEAN :
        \* the fetched value and the drop delay matter only when the fetch runs and succeeds
        \E fv \in (IF fok /\ data[k] = 0 THEN Vals ELSE {1}) :
          \E d \in (IF fok /\ data[k] = 0 THEN Window(Expire) ELSE {Lo(Expire)}) : Take(k, fok, fv, d)

Spec == Init /\ [][Next]_vars

(* ------------------------------------------------------------ the property *)

\* a cache created with a limit never holds more than that many entries
Bounded == Limit > 0 => Size(data) <= Limit

\* mechanism variables are consistent: recency list = held keys, due tick in the future
Shape ==
  /\ \A k \in Keys : (data[k] # 0) <=> (due[k] > T)
  /\ \A k \in Keys : data[k] = 0 => due[k] = 0
  /\ IF Limit = 0 THEN lru = <<>>
     ELSE /\ {lru[i] : i \in 1..Len(lru)} = Present(data)
          /\ Len(lru) = Size(data)

\* Get returns the value most recently set for the key (unless it has been dropped)
Fresh ==
  /\ \A k \in Keys : data[k] # 0 => data[k] = last[k]
  /\ out.op = "get" => (out.hit => out.v = last[out.k])
  /\ out.op = "take" /\ out.hit => out.v = last[out.k]

\* an entry never outlives 105 % of its expiry
NoOverstay == \A k \in Keys : data[k] # 0 => T < meta[k].at + Hi(meta[k].e)

\* an entry leaves the cache only by Del, by eviction, or by age inside its window
DropReasons ==
  [][\A k \in Keys :
       (data[k] # 0 /\ data'[k] = 0) =>
          \/ out'.op = "del" /\ out'.k = k
          \/ out'.op \in {"set", "take"} /\ k \in out'.evicted
          \/ out'.op = "tick" /\ k \in out'.dropped /\ (T' - meta[k].at) \in Window(meta[k].e)
    ]_vars

\* when full, the entry pushed out is the one least recently set, read or taken, and it is
\* pushed out only by storing a key that is not held
LRUVictim ==
  [][(out'.op \in {"set", "take"} /\ out'.evicted # {}) =>
        /\ Size(data) = Limit
        /\ data[out'.k] = 0
        /\ \A vic \in out'.evicted : \A k \in Present(data) \ {vic} : use[vic] < use[k]
    ]_vars

\* Take: no fetch on a hit; a fetch on a miss; cached only on success
TakeRule ==
  [][out'.op = "take" =>
        /\ out'.fetched <=> (data[out'.k] = 0)
        /\ (out'.err => data' = data)
        /\ (~out'.fetched => data' = data /\ out'.v = data[out'.k])
    ]_vars

=============================================================================
