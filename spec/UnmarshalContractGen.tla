----------------------- MODULE UnmarshalContractGen -----------------------
(***************************************************************************)
(* Case generator for UnmarshalContract.tla (property C05).                *)
(*                                                                         *)
(* The relation has no behaviours, so a "behaviour" is one case: every     *)
(* initial state is one (struct shape, document, source class) and the     *)
(* invariant Emit prints it as one JSON line: the type descriptor, the     *)
(* document in abstract form and, for every field and for the struct,      *)
(* the allowed outcomes computed by UnmarshalContract!Allowed.  The Go     *)
(* driver builds the type with reflect.StructOf, renders the document as   *)
(* JSON / YAML / map / form / path / header, calls the real functions and  *)
(* only checks membership.  The invariant Sane evaluates the sanity        *)
(* theorems of the relation on every enumerated case.                      *)
(***************************************************************************)
EXTENDS UnmarshalContract, Json

CONSTANTS Family,     \* which family of shapes this run enumerates
          Kinds,      \* kinds of the (first) field
          OptIds,     \* option sets of the (first) field
          LitIdx,     \* indices into Lits offered as document values
          Kinds2, OptIds2, LitIdx2   \* the reduced catalogue for second fields / elements / inner fields

VARIABLE inp

\* --------------------------------------------------------------- option-set catalogue
AllOptIds == {"req", "opt", "def", "defbig", "options", "optbig", "rcc", "roo", "rco", "roc", "rhi", "rlo",
              "optrange", "str", "stropts", "defopts", "defrange", "env5", "env300",
              \* env= / default= combined with range= / options=: value inside, on the boundary, outside
              "er_m1", "env_0", "er_1", "er_5", "er_7", "er_300", "eoc_1", "eoc_5", "eo_1", "eo_7", "defz", "defrout", "defoout",
              \* optional combined with default= / range= / options= (members of request structs)
              "optdef", "optrcc", "optroc", "optopts"}

DefaultFor(k) == CASE k \in IntKinds -> "5" [] k \in FloatKinds -> "1.5" [] k = "bool" -> "true"
                   [] k = "string" -> "abc" [] OTHER -> "10s"
OptionsFor(k) == IF k = "string" THEN {"abc", "xyz"} ELSE {"1", "5"}

Applicable(id, k) ==
  CASE id \in {"req", "opt", "def", "str", "env5", "env300", "optdef"} -> TRUE
    [] id \in {"defbig", "rcc", "roo", "rco", "roc", "rhi", "rlo", "optrange", "defrange", "optrcc", "optroc"} -> k \in NumKinds
    [] id = "optbig" -> k \in IntKinds
    [] id \in {"options", "defopts", "stropts", "optopts"} -> k \in NumKinds \cup {"string"}
    [] id \in {"er_m1", "env_0", "er_1", "er_5", "er_7", "er_300", "eoc_1", "eoc_5", "eo_1", "eo_7", "defz", "defrout", "defoout"} -> k \in NumKinds
    [] OTHER -> FALSE

OptFor(id, k) ==
  CASE id = "req" -> Plain
    [] id = "opt" -> Opts(TRUE, "", {}, NoRange, FALSE, "")
    [] id = "def" -> Opts(FALSE, DefaultFor(k), {}, NoRange, FALSE, "")
    [] id = "defbig" -> Opts(FALSE, "300", {}, NoRange, FALSE, "")
    [] id = "options" -> Opts(FALSE, "", OptionsFor(k), NoRange, FALSE, "")
    [] id = "optbig" -> Opts(FALSE, "", {"1", "300"}, NoRange, FALSE, "")
    [] id = "rcc" -> Opts(FALSE, "", {}, Rng("1", "5", TRUE, TRUE), FALSE, "")
    [] id = "roo" -> Opts(FALSE, "", {}, Rng("1", "5", FALSE, FALSE), FALSE, "")
    [] id = "rco" -> Opts(FALSE, "", {}, Rng("1", "5", TRUE, FALSE), FALSE, "")
    [] id = "roc" -> Opts(FALSE, "", {}, Rng("1", "5", FALSE, TRUE), FALSE, "")
    [] id = "rhi" -> Opts(FALSE, "", {}, Rng("", "127", TRUE, TRUE), FALSE, "")
    [] id = "rlo" -> Opts(FALSE, "", {}, Rng("128", "", TRUE, TRUE), FALSE, "")
    [] id = "optrange" -> Opts(TRUE, "", {}, Rng("1", "300", TRUE, TRUE), FALSE, "")
    [] id = "str" -> Opts(FALSE, "", {}, NoRange, TRUE, "")
    [] id = "stropts" -> Opts(FALSE, "", OptionsFor(k), NoRange, TRUE, "")
    [] id = "defopts" -> Opts(FALSE, IF k = "string" THEN "abc" ELSE "5", OptionsFor(k), NoRange, FALSE, "")
    [] id = "defrange" -> Opts(FALSE, "5", {}, Rng("1", "10", TRUE, TRUE), FALSE, "")
    [] id = "er_m1" -> Opts(FALSE, "", {}, Rng("1", "5", TRUE, TRUE), FALSE, "-1")
    [] id = "env_0" -> Opts(FALSE, "", {}, NoRange, FALSE, "0")
    [] id = "er_1" -> Opts(FALSE, "", {}, Rng("1", "5", TRUE, TRUE), FALSE, "1")
    [] id = "er_5" -> Opts(FALSE, "", {}, Rng("1", "5", TRUE, TRUE), FALSE, "5")
    [] id = "er_7" -> Opts(FALSE, "", {}, Rng("1", "5", TRUE, TRUE), FALSE, "7")
    [] id = "er_300" -> Opts(TRUE, "", {}, Rng("1", "5", TRUE, TRUE), FALSE, "300")
    [] id = "eoc_1" -> Opts(FALSE, "", {}, Rng("1", "5", FALSE, TRUE), FALSE, "1")
    [] id = "eoc_5" -> Opts(TRUE, "", {}, Rng("1", "5", FALSE, TRUE), FALSE, "5")
    [] id = "eo_1" -> Opts(FALSE, "", {"1", "5"}, NoRange, FALSE, "1")
    [] id = "eo_7" -> Opts(FALSE, "", {"1", "5"}, NoRange, FALSE, "7")
    [] id = "defz" -> Opts(FALSE, "010", {}, NoRange, FALSE, "")
    [] id = "defrout" -> Opts(FALSE, "7", {}, Rng("1", "5", TRUE, TRUE), FALSE, "")
    [] id = "defoout" -> Opts(FALSE, "7", {"1", "5"}, NoRange, FALSE, "")
    [] id = "optdef" -> Opts(TRUE, DefaultFor(k), {}, NoRange, FALSE, "")
    [] id = "optrcc" -> Opts(TRUE, "", {}, Rng("1", "5", TRUE, TRUE), FALSE, "")
    [] id = "optroc" -> Opts(TRUE, "", {}, Rng("1", "5", FALSE, TRUE), FALSE, "")
    [] id = "optopts" -> Opts(TRUE, "", OptionsFor(k), NoRange, FALSE, "")
    [] id = "env5" -> Opts(FALSE, "", {}, NoRange, FALSE, "5")
    [] id = "env300" -> Opts(TRUE, "", {}, NoRange, FALSE, "300")

\* --------------------------------------------------------------- documents
DocsOf(idx) == {Absent} \cup {Present(Lits[i]) : i \in idx}
DocOk(doc, src) == src = "typed" \/ doc.d = "absent" \/ TextRenderable(doc.lit)
SrcOk(id, src) == src = "typed" \/ id \notin {"str", "stropts"}
Srcs == {"typed", "text"}

\* --------------------------------------------------------------- JSON forms
\* Field keys.  "exact" is the key written in the tag and used by every API except conf.Load*;
\* "snake" / "initial" are the respellings conf.Load* additionally accepts.  The tag keys themselves
\* come in the spellings users write: lowerCamel, snake_case, Upper-initial, mixed.
Names == [a |-> [exact |-> "alphaKey", snake |-> "alpha_key", initial |-> "AlphaKey"],
          b |-> [exact |-> "user_name", snake |-> "user_name", initial |-> "User_name"],
          s |-> [exact |-> "Level", snake |-> "level", initial |-> "level"],
          x |-> [exact |-> "X_Token", snake |-> "x_token", initial |-> "x_Token"]]
NameIds == {"a", "b", "s", "x"}

LitJ(l) == [text |-> l.text, class |-> l.class]
DocJ(doc) == IF doc.d = "absent" THEN [d |-> "absent"] ELSE [d |-> "lit", text |-> doc.lit.text, class |-> doc.lit.class]
DocYaml(doc) == doc.d = "absent" \/ doc.lit.yaml

OptsJ(o) == [optional |-> o.optional, def |-> o.def, options |-> o.options, range |-> o.range,
             str |-> o.str, env |-> o.env]

\* a primitive (or pointer-to-primitive) field with its document and allowed outcomes
PrimJ(n, k, ptr, o, doc, out) ==
  [name |-> Names[n], shape |-> "prim", kind |-> k, ptr |-> ptr, opts |-> OptsJ(o), inherit |-> FALSE,
   part |-> "", doc |-> DocJ(doc), out |-> out, sub |-> <<>>]

SubVal == [v |-> "sub", text |-> "", ms |-> 0]
StructJ(outs) == LET s == StructAllowed(outs) IN [err |-> s.err, ok |-> s.ok, any |-> s.any]

CaseJ(family, src, yaml, fields, outs) ==
  [family |-> family, src |-> src, yaml |-> yaml, fields |-> fields, out |-> StructJ(outs), focus |-> ""]

\* --------------------------------------------------------------- family: single
F1(i) == LET o == OptFor(i.id, i.k) IN [o |-> o, out |-> Allowed(i.k, o, i.doc, i.src)]

SingleInit ==
  \E k \in Kinds, id \in OptIds, ptr \in BOOLEAN, src \in Srcs, doc \in DocsOf(LitIdx) :
     /\ Applicable(id, k) /\ DocOk(doc, src) /\ SrcOk(id, src)
     /\ inp = [family |-> "single", src |-> src, k |-> k, id |-> id, ptr |-> ptr, doc |-> doc]

SingleCase(i) ==
  LET f == F1(i)
  IN CaseJ("single", i.src, DocYaml(i.doc), <<PrimJ("a", i.k, i.ptr, f.o, i.doc, f.out)>>, <<f.out>>)

\* --------------------------------------------------------------- family: history
\* One field whose key is spelt in each of the ways of Names; the driver first loads a config
\* (conf.Load*, which installs its key canonicalisation) and only then makes the option-less calls
\* (UnmarshalJsonBytes, UnmarshalKey, UnmarshalYamlBytes, httpx.Parse with a JSON body).  The allowed
\* set is that of the single call (AllowedAgain): what was loaded before changes nothing.
HistInit ==
  \E n \in NameIds, k \in Kinds, id \in OptIds, ptr \in BOOLEAN, doc \in DocsOf(LitIdx) :
     /\ Applicable(id, k)
     /\ inp = [family |-> "history", src |-> "typed", n |-> n, k |-> k, id |-> id, ptr |-> ptr, doc |-> doc]

HistCase(i) ==
  LET o == OptFor(i.id, i.k)
      a == AllowedAgain(i.k, o, i.doc, "typed")
  IN CaseJ("history", "typed", DocYaml(i.doc), <<PrimJ(i.n, i.k, i.ptr, o, i.doc, a)>>, <<a>>)

\* --------------------------------------------------------------- family: pair / embedded
\* two top-level fields; "embedded" puts the second one into an anonymous struct (same document)
PairInit(fam) ==
  \E k1 \in Kinds, id1 \in OptIds, d1 \in DocsOf(LitIdx), k2 \in Kinds2, id2 \in OptIds2, d2 \in DocsOf(LitIdx2),
     src \in Srcs :
     /\ Applicable(id1, k1) /\ Applicable(id2, k2) /\ DocOk(d1, src) /\ DocOk(d2, src)
     /\ SrcOk(id1, src) /\ SrcOk(id2, src)
     /\ inp = [family |-> fam, src |-> src, k |-> k1, id |-> id1, doc |-> d1, k2 |-> k2, id2 |-> id2, doc2 |-> d2]

PairCase(i) ==
  LET o1 == OptFor(i.id, i.k)
      o2 == OptFor(i.id2, i.k2)
      a1 == Allowed(i.k, o1, i.doc, i.src)
      a2 == Allowed(i.k2, o2, i.doc2, i.src)
      f1 == PrimJ("a", i.k, FALSE, o1, i.doc, a1)
      f2 == PrimJ("b", i.k2, FALSE, o2, i.doc2, a2)
      yaml == DocYaml(i.doc) /\ DocYaml(i.doc2)
  IN IF i.family = "pair" THEN CaseJ("pair", i.src, yaml, <<f1, f2>>, <<a1, a2>>)
     ELSE CaseJ("embedded", i.src, yaml,
                <<f1, [name |-> Names["s"], shape |-> "embedded", kind |-> "", ptr |-> FALSE, opts |-> OptsJ(Plain),
                       inherit |-> FALSE, part |-> "", doc |-> [d |-> "sub"],
                       out |-> [err |-> a2.err, ok |-> a2.ok, any |-> a2.any, val |-> [v |-> "sub", text |-> "", ms |-> 0],
                                alt |-> NoVal, why |-> a2.why],
                       sub |-> <<f2>>]>>,
                <<a1, a2>>)

\* --------------------------------------------------------------- family: slice / map
\* field []k or map[string]k (required | optional); document: absent, an ill-typed scalar, or a
\* container of 0..2 literals.  Absent + required container: the statement's "required" is read
\* for scalar fields; "absent = empty container" is tolerated next to an error.
ContDocs ==
  {[d |-> "absent", items |-> <<>>]}
  \cup {[d |-> "lit", items |-> <<Lits[i]>>] : i \in LitIdx2}
  \cup {[d |-> "cont", items |-> <<>>]}
  \cup {[d |-> "cont", items |-> <<Lits[i]>>] : i \in LitIdx}
  \cup {[d |-> "cont", items |-> <<Lits[i], Lits[j]>>] : i \in LitIdx, j \in LitIdx2}

ContInit(fam) ==
  \E k \in Kinds, optional \in BOOLEAN, doc \in ContDocs :
     inp = [family |-> fam, src |-> "typed", k |-> k, optional |-> optional, cdoc |-> doc, def |-> <<>>]

\* family "twice": the same container field is unmarshalled twice from the same document; between
\* the calls the driver edits every reachable slice / map element of the first result in place and
\* appends to it.  Both results must be members of the same allowed set (AllowedAgain).  Slices may
\* declare default=[..] (the only container default the tag language has); shape "map" has none.
DefSeqs == {<<>>} \cup {<<Lits[i]>> : i \in LitIdx2} \cup {<<Lits[i], Lits[j]>> : i \in LitIdx2, j \in LitIdx2}
TwiceDocs ==
  {[d |-> "absent", items |-> <<>>], [d |-> "cont", items |-> <<>>]}
  \cup {[d |-> "cont", items |-> <<Lits[i]>>] : i \in LitIdx}
  \cup {[d |-> "cont", items |-> <<Lits[i], Lits[j]>>] : i \in LitIdx, j \in LitIdx}
TwiceInit ==
  \E shape \in {"slice", "map"}, k \in Kinds, optional \in BOOLEAN, def \in DefSeqs, doc \in TwiceDocs :
     /\ (shape = "map" => def = <<>>)
     \* not generated: a default text such as [true] shared by a []string and a []bool field (the
     \* process-wide cache of parsed defaults is keyed by the text alone; see the check's notes)
     /\ (k = "string" => \A j \in 1..Len(def) : def[j].class # "bool")
     /\ (def # <<>> => ~optional)
     /\ inp = [family |-> "twice", shape |-> shape, src |-> "typed", k |-> k, optional |-> optional, cdoc |-> doc, def |-> def]

ListVal(vals) == [v |-> "list", text |-> "", ms |-> 0, items |-> vals]
ContOut(i) ==
  CASE i.cdoc.d = "absent" /\ i.def # <<>> ->
         LET s == DefaultSeqAllowed(i.k, i.def)
         IN [err |-> s.err, ok |-> s.ok /\ ~s.any, any |-> s.any, val |-> ListVal(s.vals), alt |-> NoVal, why |-> s.why]
    [] i.cdoc.d = "absent" ->
         IF i.optional THEN Must(Zero) ELSE Either(Zero)
    [] i.cdoc.d = "lit" ->
         IF i.cdoc.items[1].class = "null" THEN ErrOrAny ELSE MustErr
    [] OTHER ->
         LET s == SeqAllowed(i.k, i.cdoc.items)
         IN [err |-> s.err, ok |-> s.ok /\ ~s.any, any |-> s.any, val |-> ListVal(s.vals), alt |-> NoVal, why |-> s.why]

ContCase(i) ==
  LET out == ContOut(i)
      shape == IF i.family = "twice" THEN i.shape ELSE i.family
      o == IF i.optional THEN Opts(TRUE, "", {}, NoRange, FALSE, "") ELSE Plain
      keys == <<"kx", "ky">>
      docj == CASE i.cdoc.d = "absent" -> [d |-> "absent"]
                [] i.cdoc.d = "lit" -> [d |-> "lit", text |-> i.cdoc.items[1].text, class |-> i.cdoc.items[1].class]
                [] OTHER -> [d |-> IF shape = "slice" THEN "arr" ELSE "obj",
                             items |-> [j \in 1..Len(i.cdoc.items) |->
                                          [key |-> keys[j], text |-> i.cdoc.items[j].text, class |-> i.cdoc.items[j].class]]]
      yaml == \A j \in 1..Len(i.cdoc.items) : i.cdoc.items[j].yaml
  IN CaseJ(i.family, "typed", yaml,
           <<[name |-> Names["a"], shape |-> shape, kind |-> i.k, ptr |-> FALSE, opts |-> OptsJ(o),
              inherit |-> FALSE, part |-> "", doc |-> docj, out |-> out, sub |-> <<>>,
              defitems |-> [j \in 1..Len(i.def) |-> i.def[j].text]]>>,
           <<out>>)

\* --------------------------------------------------------------- family: nested / inherit
\* struct{ A f1; S struct{ B f2 } } with S required | optional | optional pointer; S's document is
\* absent, an ill-typed scalar, or an object holding B's document.
\* inherit: B carries `inherit` and has A's key: when S's object lacks the key the statement does
\* not say whether the parent's value is taken, so both the inherited value and "absent" are allowed.
NestInit(fam) ==
  \E k1 \in Kinds, id1 \in OptIds, d1 \in DocsOf(LitIdx), k2 \in Kinds2, id2 \in OptIds2, d2 \in DocsOf(LitIdx2),
     smode \in {"req", "opt", "ptr"}, sdoc \in {"absent", "lit", "obj"} :
     /\ Applicable(id1, k1) /\ Applicable(id2, k2)
     /\ (sdoc # "obj" => d2 = Absent)
     /\ (fam = "inherit" => (k2 = k1 /\ smode = "req" /\ sdoc = "obj" /\ id2 \in {"req", "opt"}))
     /\ inp = [family |-> fam, src |-> "typed", k |-> k1, id |-> id1, doc |-> d1, k2 |-> k2, id2 |-> id2, doc2 |-> d2,
               smode |-> smode, sdoc |-> sdoc]

NestCase(i) ==
  LET o1 == OptFor(i.id, i.k)
      o2 == OptFor(i.id2, i.k2)
      a1 == Allowed(i.k, o1, i.doc, "typed")
      own == Allowed(i.k2, o2, i.doc2, "typed")
      a2 == IF i.family = "inherit" /\ i.doc2.d = "absent" /\ i.doc.d = "lit"
            THEN Union(Allowed(i.k2, o2, i.doc, "typed"), own) ELSE own
      inner == [err |-> a2.err, ok |-> a2.ok \/ a2.any, any |-> a2.any, val |-> SubVal, alt |-> NoVal, why |-> a2.why]
      sout == CASE i.sdoc = "lit" -> MustErr
                [] i.sdoc = "obj" -> inner
                [] i.smode = "req" -> Weaken(inner)                      \* absent: "as if empty" or an error
                [] OTHER -> IF inner.ok /\ ~inner.any                    \* optional + absent: zero, or inner defaults
                            THEN [err |-> FALSE, ok |-> TRUE, any |-> FALSE, val |-> Zero, alt |-> SubVal, why |-> ""]
                            ELSE Must(Zero)
      f1 == PrimJ("a", i.k, FALSE, o1, i.doc, a1)
      f2 == [PrimJ(IF i.family = "inherit" THEN "a" ELSE "b", i.k2, FALSE, o2, i.doc2, a2) EXCEPT !.inherit = (i.family = "inherit")]
      so == IF i.smode = "req" THEN Plain ELSE Opts(TRUE, "", {}, NoRange, FALSE, "")
      fs == [name |-> Names["s"], shape |-> "struct", kind |-> "", ptr |-> (i.smode = "ptr"), opts |-> OptsJ(so),
             inherit |-> FALSE, part |-> "",
             doc |-> CASE i.sdoc = "absent" -> [d |-> "absent"] [] i.sdoc = "lit" -> [d |-> "lit", text |-> "5", class |-> "num"]
                       [] OTHER -> [d |-> "sub"],
             out |-> sout, sub |-> <<f2>>]
  IN CaseJ(i.family, "typed", DocYaml(i.doc) /\ DocYaml(i.doc2), <<f1, fs>>, <<a1, sout>>)

\* --------------------------------------------------------------- family: deep
\* A container of containers of structs: T = struct{ B f2 } with B's key spelt in each way of Names,
\*   ss  [][]T            document [[{..}]]
\*   sm  []map[string]T            [{"kx":{..}}]
\*   ms  map[string][]T            {"kx":[{..}]}
\*   ssm [][]map[string]T          [[{"kx":{..}}]]
\*   sp0 []*T                      [null,{..}]       (not compared in YAML: YAML null arrives as "")
\*   sx  []T                       [5,{..}]          an element that is not an object: must fail
\* (for this family the constant Kinds2 carries the shapes offered)
\* The struct outcome is that of its one T element; conf.Load* must accept the respelt keys of B at
\* any depth.  sp0: the statement says nothing about null elements; a loader may refuse the
\* document, or skip the null (nil pointer) and fill the other element exactly.
DeepShapes == {"ss", "sm", "ms", "ssm", "sp0", "sx"}
DeepInit ==
  \E shape \in DeepShapes \cap Kinds2, n \in NameIds, k \in Kinds, id \in OptIds, doc \in DocsOf(LitIdx) :
     /\ Applicable(id, k)
     /\ inp = [family |-> "deep", src |-> "typed", shape |-> shape, n |-> n, k |-> k, id |-> id, doc |-> doc]

DeepCase(i) ==
  LET o == OptFor(i.id, i.k)
      a == Allowed(i.k, o, i.doc, "typed")
      inner0 == [err |-> a.err, ok |-> a.ok \/ a.any, any |-> a.any, val |-> SubVal, alt |-> NoVal, why |-> a.why]
      inner == IF i.shape = "sp0" THEN Weaken(inner0) ELSE IF i.shape = "sx" THEN MustErr ELSE inner0
      fb == PrimJ(i.n, i.k, FALSE, o, i.doc, a)
      fd == [name |-> Names["a"], shape |-> "deep", kind |-> i.shape, ptr |-> FALSE, opts |-> OptsJ(Plain),
             inherit |-> FALSE, part |-> "", doc |-> [d |-> "sub"], out |-> inner, sub |-> <<fb>>]
  IN CaseJ("deep", "typed", DocYaml(i.doc) /\ i.shape # "sp0", <<fd>>, <<inner>>)

\* --------------------------------------------------------------- family: shapes
\* The container-shape dimension: one member whose type is a word over S / M / P (see
\* UnmarshalContract!ShapeAllowed) with one or two container levels and an optional pointer before
\* each container and before the element:  []k  *[]k  []*k  map[string]k ... [][]k  map[string][]k
\* []*[]k  map[string]*[]k  []map[string]k  *[]*map[string]*k ...  (40 words x element kinds).
\* Documents: the canonical well-typed tree of the word with ONE node replaced.  The replaced node
\* sits at any depth (the member itself, an element of the outer container, an element of the inner
\* one, the leaf); on the way down every container holds the path alone, the path followed by a
\* well-typed sibling, or a well-typed sibling followed by the path.  The replacement is drawn from
\* one catalogue whatever is expected at that place: a scalar / bool / string / null literal of
\* LitIdx, [] {} [g] {"kx":g} [[g]] [{"kx":g}] {"kx":[g]} {"kx":{"kx":g}} [g,[g]] (g = a well-typed
\* element) - so lists where scalars are expected, scalars / objects where lists are expected, the
\* well-typed variants (empty, one deeper) and ill-typed leaves all come from the same product, and
\* ShapeAllowed decides which is which.  Plus the absent member (required | optional).
\* Each document is offered (constant OptIds) as
\*   "tree"  structure in a typed document,
\*   "jstr"  its JSON text as a string member of a typed document,
\*   "text"  its JSON text as form / path / header value.
\* Kinds2 selects the number of container levels ("c1", "c2") so that runs can be partitioned.
GoodLit(k) == CASE k \in NumKinds -> Lits[4] [] k = "bool" -> Lits[47] [] k = "string" -> Lits[49] [] OTHER -> Lits[56]
ShapeWords == {w \in UNION {[1..n -> Ctors] : n \in 1..5} :
                 /\ Containers(w) \in 1..2
                 /\ \A i \in 1..(Len(w) - 1) : ~(w[i] = "P" /\ w[i + 1] = "P")}
RECURSIVE CanonTree(_, _)
CanonTree(rt, k) ==
  IF rt = <<>> THEN Leaf(GoodLit(k))
  ELSE IF Head(rt) = "P" THEN CanonTree(Tail(rt), k)
  ELSE IF Head(rt) = "S" THEN Arr(<<CanonTree(Tail(rt), k)>>) ELSE Obj(<<CanonTree(Tail(rt), k)>>)
Positions == {"only", "first", "last"}
PosSeqs(n) == UNION {[1..d -> Positions] : d \in 0..n}
RECURSIVE Plant(_, _, _, _)
Plant(rt, k, poss, sub) ==
  IF poss = <<>> THEN sub
  ELSE IF Head(rt) = "P" THEN Plant(Tail(rt), k, poss, sub)
  ELSE LET child == Plant(Tail(rt), k, Tail(poss), sub)
           sib == CanonTree(Tail(rt), k)
           items == CASE Head(poss) = "only" -> <<child>> [] Head(poss) = "first" -> <<child, sib>> [] OTHER -> <<sib, child>>
       IN IF Head(rt) = "S" THEN Arr(items) ELSE Obj(items)
Subs(k) ==
  LET g == Leaf(GoodLit(k))
  IN {Leaf(Lits[i]) : i \in {j \in LitIdx : Lits[j].class \notin {"array", "object"}}}
     \cup {Arr(<<>>), Obj(<<>>), Arr(<<g>>), Obj(<<g>>), Arr(<<Arr(<<g>>)>>), Arr(<<Obj(<<g>>)>>),
           Obj(<<Arr(<<g>>)>>), Obj(<<Obj(<<g>>)>>), Arr(<<g, Arr(<<g>>)>>)}
ShapeDocs(ty, k) == {Plant(ty, k, p, s) : p \in PosSeqs(Containers(ty)), s \in Subs(k)}

ShapesInit ==
  \E ty \in ShapeWords, k \in Kinds, fm \in OptIds \cap {"tree", "jstr", "text"} :
     /\ (IF Containers(ty) = 1 THEN "c1" ELSE "c2") \in Kinds2
     /\ LET src == IF fm = "text" THEN "text" ELSE "typed"
            form == IF fm = "tree" THEN "tree" ELSE "text"
        IN \/ \E node \in ShapeDocs(ty, k) :
                inp = [family |-> "shapes", src |-> src, form |-> form, ty |-> ty, k |-> k, optional |-> FALSE,
                       present |-> TRUE, node |-> node]
           \/ \E optional \in BOOLEAN :
                inp = [family |-> "shapes", src |-> src, form |-> form, ty |-> ty, k |-> k, optional |-> optional,
                       present |-> FALSE, node |-> Leaf(NoLit)]

RECURSIVE NodeJ(_)
NodeJ(nd) ==
  IF nd.n = "leaf" THEN [n |-> "leaf", text |-> nd.lit.text, class |-> nd.lit.class, items |-> <<>>]
  ELSE [n |-> nd.n, text |-> "", class |-> "", items |-> [j \in 1..Len(nd.items) |-> NodeJ(nd.items[j])]]

ShapesOut(i) ==
  IF i.present THEN ShapeAllowedFrom(i.ty, i.k, i.node, i.src, i.form)
  ELSE IF i.optional THEN Must(Zero) ELSE Either(Zero)       \* as for the flat containers (ContOut)
\* (the outcome is bound through a one-element set so that TLC evaluates the recursive relation once)
ShapesCaseOf(i, a) ==
  LET out == [err |-> a.err, ok |-> a.ok /\ ~a.any, any |-> a.any, val |-> a.val, alt |-> NoVal, why |-> a.why]
      o == IF i.optional THEN Opts(TRUE, "", {}, NoRange, FALSE, "") ELSE Plain
      \* the text of a tree is an opaque string for YAML; a structured null is not the same content there
      yaml == i.form = "text" \/ ~i.present \/ AllYaml(i.node)
  IN CaseJ("shapes", i.src, yaml,
           <<[name |-> Names["a"], shape |-> "tree", kind |-> i.k, ptr |-> FALSE, opts |-> OptsJ(o),
              inherit |-> FALSE, part |-> "", ty |-> [j \in 1..Len(i.ty) |-> i.ty[j]],
              doc |-> [d |-> IF i.present THEN "tree" ELSE "absent", form |-> i.form, node |-> NodeJ(i.node)],
              out |-> out, sub |-> <<>>]>>,
           <<out>>)
ShapesCase(i) == CHOOSE c \in {ShapesCaseOf(i, a) : a \in {ShapesOut(i)}} : TRUE

\* --------------------------------------------------------------- family: roundtrip / rtopt / rtcons
\* one member per request part; the value of each member is named by a literal that fits its kind.
\* Allowed = UnmarshalContract!RoundTripAllowed: the struct comes back equal (error tolerated only
\* for the upper half of uint64) unless a member's value is outside its own options= / range=.
RTVal(k, l) ==
  CASE k \in NumKinds -> Numeric(l) /\ Fits(l, k) /\ (k \in IntKinds => l.syn = "int")
    [] k = "bool" -> l.class = "bool"
    [] k = "string" -> l.class = "string"
    [] OTHER -> FALSE
\* Every generated string can be carried by every part: httpc writes path values into URL.Path
\* (escaped once by URL.String, decoded once by the server), form values through url.Values.Encode,
\* header values verbatim (HTTP allows everything but control characters; blanks at the ends would be
\* trimmed and are not generated), json values through encoding/json.  Not generated because the part
\* cannot carry them: "/" , "." and ".." as a path value (the router splits / cleans the decoded path),
\* control characters, and - in the path and form parts - the empty string (a path segment cannot be
\* empty, the path filler refuses it; form parsing drops empty values).  The header and json parts
\* carry "" (the zero value of a string member: "optional" with options= on the client side).
RTPartOk(part, k, l) == (k = "string" /\ l.text = "") => part \in {"header", "json"}

\* Option sets of request members.  The families:
\*   roundtrip  every member plain
\*   rtopt      every member `optional,default=<non-zero>`; the client sends the zero value, the
\*              default or another value.  "Parsed back into an equal struct" does not depend on the
\*              options: a member the client holds at its zero value comes back as zero.
\*   rtcons     one FOCUS member (each part in turn) with every kind x option set x value of the
\*              catalogue - range= with the four bracket combinations, options=, each also with
\*              optional / default=, `,string` (json part), pointer member (json part) - and client
\*              values on both bounds, just inside, just outside; the three other members share one
\*              (kind, option set, value) of the reduced catalogue, valid or outside.
RTIds == {"req", "opt", "def", "optdef", "rcc", "roo", "rco", "roc", "options", "optrcc", "optroc", "optopts",
          "defrange", "defopts", "str"}
RTApplicable(id, k, part) ==
  /\ id \in RTIds /\ Applicable(id, k)
  \* `,string` is a notion of typed documents: only the json part (cf. SrcOk)
  /\ (id = "str" => part = "json")
RTInit(fam, id) ==
  \E kp \in Kinds, lp \in LitIdx, kf \in Kinds, lf \in LitIdx, kh \in Kinds2, lh \in LitIdx2, kj \in Kinds, lj \in LitIdx :
     /\ RTVal(kp, Lits[lp]) /\ RTVal(kf, Lits[lf]) /\ RTVal(kh, Lits[lh]) /\ RTVal(kj, Lits[lj])
     /\ RTPartOk("path", kp, Lits[lp]) /\ RTPartOk("form", kf, Lits[lf])
     /\ RTPartOk("header", kh, Lits[lh]) /\ RTPartOk("json", kj, Lits[lj])
     /\ inp = [family |-> fam, src |-> "typed", focus |-> "", kp |-> kp, lp |-> lp, kf |-> kf, lf |-> lf,
               kh |-> kh, lh |-> lh, kj |-> kj, lj |-> lj, idp |-> id, idf |-> id, idh |-> id, idj |-> id, pj |-> FALSE]

RTConsInit ==
  \E fp \in Parts, k \in Kinds, id \in OptIds, l \in LitIdx, ptr \in BOOLEAN,
     k2 \in Kinds2, id2 \in OptIds2, l2 \in LitIdx2 :
     /\ RTVal(k, Lits[l]) /\ RTApplicable(id, k, fp) /\ RTPartOk(fp, k, Lits[l])
     /\ RTVal(k2, Lits[l2]) /\ id2 # "str" /\ RTApplicable(id2, k2, "") /\ RTPartOk("path", k2, Lits[l2])
     \* a pointer member (always non-nil here): json part only (the other parts render members with
     \* fmt.Sprint) and without options= / range= / `,string`: the client helper's validation and its
     \* `,string` rendering do not look through pointers (inherited: "unsupported type *int", the
     \* address as text) - observed, not generated; see the check's notes
     /\ (ptr => (fp = "json" /\ id \in {"req", "opt", "def", "optdef"}))
     /\ LET sel(p, a, b) == IF fp = p THEN a ELSE b
        IN inp = [family |-> "rtcons", src |-> "typed", focus |-> fp,
                  kp |-> sel("path", k, k2), lp |-> sel("path", l, l2), idp |-> sel("path", id, id2),
                  kf |-> sel("form", k, k2), lf |-> sel("form", l, l2), idf |-> sel("form", id, id2),
                  kh |-> sel("header", k, k2), lh |-> sel("header", l, l2), idh |-> sel("header", id, id2),
                  kj |-> sel("json", k, k2), lj |-> sel("json", l, l2), idj |-> sel("json", id, id2), pj |-> ptr]

RTOutOf(k, id, l) == RoundTripAllowed(k, OptFor(id, k), l)
RTField(n, part, k, id, l, ptr) ==
  [PrimJ(n, k, ptr, OptFor(id, k), Present(l), RTOutOf(k, id, l)) EXCEPT !.part = part]
RTCase(i) ==
  LET fp == RTField("a", "path", i.kp, i.idp, Lits[i.lp], FALSE)
      ff == RTField("b", "form", i.kf, i.idf, Lits[i.lf], FALSE)
      fh == RTField("s", "header", i.kh, i.idh, Lits[i.lh], FALSE)
      fj == RTField("x", "json", i.kj, i.idj, Lits[i.lj], i.pj)
  IN [CaseJ(i.family, "typed", TRUE, <<fp, ff, fh, fj>>, <<fp.out, ff.out, fh.out, fj.out>>) EXCEPT !.focus = i.focus]

\* --------------------------------------------------------------- family: axioms
\* The numeric facts this specification takes as given (TLC cannot compute with 64-bit values):
\* the order of Points, every literal's position / integrality / float exactness, the bounds of
\* the integer kinds.  They are printed once and re-derived by the driver with math/big.
AxiomsCase ==
  [family |-> "axioms", points |-> Points,
   lits |-> [i \in 1..NLits |-> Lits[i]],
   bounds |-> [k \in IntKinds |-> [lo |-> KLo[k], hi |-> KHi[k]]]]

\* --------------------------------------------------------------- spec
Init ==
  CASE Family = "single" -> SingleInit
    [] Family \in {"pair", "embedded"} -> PairInit(Family)
    [] Family \in {"slice", "map"} -> ContInit(Family)
    [] Family \in {"nested", "inherit"} -> NestInit(Family)
    [] Family = "roundtrip" -> RTInit("roundtrip", "req")
    [] Family = "rtopt" -> RTInit("rtopt", "optdef")
    [] Family = "rtcons" -> RTConsInit
    [] Family = "deep" -> DeepInit
    [] Family = "shapes" -> ShapesInit
    [] Family = "axioms" -> inp = [family |-> "axioms"]
    [] Family = "twice" -> TwiceInit
    [] Family = "history" -> HistInit

Next == UNCHANGED inp
Spec == Init /\ [][Next]_inp

CaseOf(i) ==
  CASE i.family = "single" -> SingleCase(i)
    [] i.family \in {"pair", "embedded"} -> PairCase(i)
    [] i.family \in {"slice", "map"} -> ContCase(i)
    [] i.family \in {"nested", "inherit"} -> NestCase(i)
    [] i.family \in {"roundtrip", "rtopt", "rtcons"} -> RTCase(i)
    [] i.family = "deep" -> DeepCase(i)
    [] i.family = "shapes" -> ShapesCase(i)
    [] i.family = "axioms" -> AxiomsCase
    [] i.family = "twice" -> ContCase(i)
    [] i.family = "history" -> HistCase(i)

Emit == PrintT(ToJson(CaseOf(inp)))

\* --------------------------------------------------------------- sanity theorems on every case
SaneField(k, o, doc, src) ==
  LET a == Allowed(k, o, doc, src)
  IN /\ T_NonEmpty(a)
     /\ T_RequiredAbsent(o, doc, a)
     /\ T_OptionalZero(o, doc, a)
     /\ T_Constraint(o, doc, a)
     /\ (doc.d = "lit" /\ o.env = "" => T_NeverWrapped(k, doc.lit, a))
     /\ T_EnvConstraint(k, o, a)
     /\ (doc.d = "lit" => T_FitsMonotone(doc.lit))
     /\ (a.ok => a.val.v # "none") /\ (~a.ok => a.alt = NoVal)

Sane ==
  /\ T_PointsOrdered
  /\ inp.family \in {"single", "pair", "embedded", "nested", "inherit", "history", "deep"} =>
        SaneField(inp.k, OptFor(inp.id, inp.k), inp.doc, inp.src)
  /\ inp.family \in {"pair", "embedded", "nested"} =>
        SaneField(inp.k2, OptFor(inp.id2, inp.k2), inp.doc2, inp.src)
  \* the struct fails if and only if some field must fail (first clause of "struct outcome")
  /\ inp.family \in {"pair", "embedded"} =>
        LET a1 == Allowed(inp.k, OptFor(inp.id, inp.k), inp.doc, inp.src)
            a2 == Allowed(inp.k2, OptFor(inp.id2, inp.k2), inp.doc2, inp.src)
            s == StructAllowed(<<a1, a2>>)
        IN /\ (s.mustErr <=> (IsMustErr(a1) \/ IsMustErr(a2)))
           /\ (s.mustErr => ~s.ok /\ ~s.any /\ s.err)
           /\ (s.err \/ s.ok \/ s.any)
  \* container shapes: the theorems of the tree relation; the canonical tree is well-formed; the
  \* literals taken as "a well-typed element" are what the catalogue says they are
  /\ inp.family = "shapes" =>
        /\ Lits[4].text = "5" /\ Lits[47].text = "true" /\ Lits[49].text = "abc" /\ Lits[56].text = "10s"
        /\ \A canon \in {CanonTree(inp.ty, inp.k)} :
              /\ Structural(inp.ty, canon)
              /\ \A c \in {ShapeAllowed(inp.ty, inp.k, canon)} : c.ok /\ ~c.any /\ (c.err => inp.k = "duration")
        /\ \A a \in {ShapesOut(inp)} :
              /\ T_NonEmpty(a)
              /\ inp.present => \A b \in {ShapeAllowed(inp.ty, inp.k, inp.node)} : T_Shape(inp.ty, inp.node, a, b, inp.form)
  \* a round trip never needs a wrapped value: every generated request value fits its field
  /\ inp.family \in {"roundtrip", "rtopt", "rtcons"} =>
        /\ Fits(Lits[inp.lp], inp.kp) /\ Fits(Lits[inp.lf], inp.kf)
        /\ Fits(Lits[inp.lh], inp.kh) /\ Fits(Lits[inp.lj], inp.kj)
        /\ \A m \in {<<inp.kp, inp.idp, inp.lp>>, <<inp.kf, inp.idf, inp.lf>>, <<inp.kh, inp.idh, inp.lh>>, <<inp.kj, inp.idj, inp.lj>>} :
              T_RoundTrip(m[1], OptFor(m[2], m[1]), Lits[m[3]], RTOutOf(m[1], m[2], Lits[m[3]]))
        \* the struct comes back equal exactly when no member is outside its constraint
        /\ LET s == StructAllowed(<<RTOutOf(inp.kp, inp.idp, Lits[inp.lp]), RTOutOf(inp.kf, inp.idf, Lits[inp.lf]),
                                    RTOutOf(inp.kh, inp.idh, Lits[inp.lh]), RTOutOf(inp.kj, inp.idj, Lits[inp.lj])>>)
           IN (s.ok \/ s.err) /\ ~s.any

=============================================================================
