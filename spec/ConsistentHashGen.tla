------------------------- MODULE ConsistentHashGen -------------------------
(***************************************************************************)
(* Generator of membership histories for ConsistentHash.tla (C13).         *)
(*                                                                         *)
(* The assignment vectors are not predicted here - the hash function is an *)
(* environment - so a generated behaviour carries only the operations (and *)
(* the membership the specification derives from them, for the evidence).  *)
(* The Go driver executes a history on the real ring and records the       *)
(* assignment vector after every operation; ConsistentHashTrace.tla then   *)
(* decides whether every recorded step is admitted by the contract.        *)
(* BFS over `hist` = complete enumeration of the histories of MaxOps       *)
(* operations; -simulate = long random histories.                          *)
(*                                                                         *)
(* Scenario families (constant Family):                                    *)
(*   "all"    every history of MaxOps operations;                          *)
(*   "drain"  only the histories in which the ring RETURNS TO EMPTY: some  *)
(*            operation takes the last node of positive weight away        *)
(*            (Remove, or a re-add with weight 0 / 0 replicas).  The       *)
(*            lookups after that operation and after the following ones    *)
(*            (weight-0 re-adds on the drained ring, the first live add    *)
(*            after it) are the "absence only when no node of positive     *)
(*            weight is present" half of the Total clause, on a ring that  *)
(*            has a past.  `drains` counts the returns to empty.           *)
(*                                                                         *)
(* Replica setting (constant Settings, a set of integers, {} = dimension   *)
(* off: the driver creates the ring with NewConsistentHash / Base):        *)
(*   when Settings # {} every history STARTS with [op |-> "new", set |-> s]*)
(*   for an s \in Settings - the driver creates the ring with              *)
(*   NewCustomConsistentHash(s, fn).  All settings of one run have the     *)
(*   same BaseOf(s) = Base (ASSUME): settings below the minimum behave as  *)
(*   the minimum, which is what the contract is then evaluated with.       *)
(*   The "new" operation counts towards MaxOps.                            *)
(***************************************************************************)
EXTENDS ConsistentHash, Sequences, Json

CONSTANTS MaxOps, Family, Settings

ASSUME \A s \in Settings : s \in Int /\ BaseOf(s) = Base

VARIABLES hist, drains

gvars == <<vars, hist, drains>>

GInit == Init /\ hist = <<>> /\ drains = 0

Drains(m, o) == Live(m) # {} /\ Live(MemAfter(m, o)) = {}

GOps == Ops \ {[op |-> "lookup"]}      \* every recorded step is followed by lookups anyway

GStep(o) ==
  /\ Len(hist) < MaxOps
  /\ mem' = MemAfter(mem, o)
  /\ asg' = asg                         \* not predicted
  /\ out' = o
  /\ hist' = Append(hist, o)
  /\ drains' = drains + (IF Drains(mem, o) THEN 1 ELSE 0)

NewOps == {[op |-> "new", set |-> s] : s \in Settings}

\* two plain disjuncts of \E over constant sets: TLC splits them into one action per operation, which keeps
\* -simulate at one Emit per behaviour (it evaluates the invariant on every successor of the action it picked)
GNext == \/ \E o \in GOps : (Settings # {} => hist # <<>>) /\ GStep(o)
         \/ \E o \in NewOps : hist = <<>> /\ GStep(o)

GSpec == GInit /\ [][GNext]_gvars

Wanted == Family = "drain" => drains > 0

Emit == (Len(hist) = MaxOps /\ Wanted) => PrintT(ToJson(hist))
=============================================================================
