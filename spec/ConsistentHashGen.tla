------------------------- MODULE ConsistentHashGen -------------------------
(***************************************************************************)
(* Generator of membership histories for ConsistentHash.tla (C13).         *)
(*                                                                         *)
(* The assignment vectors are not predicted here - the hash function is an *)
(* environment - so a generated behaviour carries only the operations (and *)
(* the membership the specification derives from them, for the evidence).  *)
(* The Go driver executes a history on the real ring and records the       *)
(* assignment vector after every operation; ConsistentHashTrace.tla then   *)
(* decides whether every recorded step is admitted by the contract.        *)
(* BFS over `hist` = complete enumeration of the histories of MaxOps       *)
(* operations; -simulate = long random histories.                          *)
(***************************************************************************)
EXTENDS ConsistentHash, Sequences, Json

CONSTANTS MaxOps

VARIABLES hist

gvars == <<vars, hist>>

GInit == Init /\ hist = <<>>

GOps == Ops \ {[op |-> "lookup"]}      \* every recorded step is followed by lookups anyway

GStep(o) ==
  /\ Len(hist) < MaxOps
  /\ mem' = MemAfter(mem, o)
  /\ asg' = asg                         \* not predicted
  /\ out' = o
  /\ hist' = Append(hist, o)

GNext == \E o \in GOps : GStep(o)

GSpec == GInit /\ [][GNext]_gvars

Emit == Len(hist) = MaxOps => PrintT(ToJson(hist))
=============================================================================
