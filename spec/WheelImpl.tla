------------------------------ MODULE WheelImpl ------------------------------
(***************************************************************************)
(* Mechanism-shaped model of lib/collection/timingwheel.go (property C10), *)
(* one action per command handled by the wheel's run loop:                 *)
(*   setTask / moveTask / removeTask / onTick+scanAndRunTasks / drainAll   *)
(* with the data structures of the code: `slots` (lists of entries with    *)
(* circle and removed flag), `timers` (key -> position + entry) and        *)
(* `tickedPos`.  The refinement mapping PendMap computes, for every key    *)
(* with a timer, the tick at which its entry will be reached with circle 0 *)
(* and TLC checks that every step of the mechanism is a step of the        *)
(* abstract wheel (Wheel.tla) - including the exact fired set of every     *)
(* tick.  (moveTask is modelled as repaired in /repo commit dc462ec:       *)
(* invalidate the old entry, insert a new one; the former in-place         *)
(* circle/diff rewrite was the defect found by this check.  The code's     *)
(* `diff` relocation branch in scanAndRunTasks is dead after the repair    *)
(* and is not modelled.)                                                   *)
(***************************************************************************)
EXTENDS Integers, Sequences, FiniteSets, TLC

CONSTANTS N, Keys, Vals, MaxD

VARIABLES slots,      \* [0..N-1 -> Seq([key, val, circle, removed, id])]
          timers,     \* [Keys -> [pos, id]]  (id = 0: no timer)
          tickedPos,  \* last slot scanned
          nid,        \* entry id counter (ghost: links timers to entries)
          T, closed, drained, out

ivars == <<slots, timers, tickedPos, nid, T, closed, drained, out>>
icore == <<slots, timers, tickedPos, T, closed, drained>>

NoTimer == [pos |-> 0, id |-> 0]
Absent  == [due |-> 0, val |-> 0]

Entry(k) == LET t == timers[k]
                s == slots[t.pos]
                i == CHOOSE j \in 1..Len(s) : s[j].id = t.id
            IN s[i]

\* ticks until slot p is scanned next, seen from tickedPos
Until(p) == ((p - tickedPos - 1) % N) + 1

PendMap == [k \in Keys |->
              IF timers[k].id = 0 THEN Absent
              ELSE [due |-> T + Until(timers[k].pos) + Entry(k).circle * N, val |-> Entry(k).val]]

Abs == INSTANCE Wheel WITH pend <- PendMap

PosCircle(d) == [pos |-> (tickedPos + d) % N, circle |-> (d - 1) \div N]

Init ==
  /\ slots = [i \in 0..(N - 1) |-> <<>>]
  /\ timers = [k \in Keys |-> NoTimer]
  /\ tickedPos = N - 1
  /\ nid = 0
  /\ T = 0 /\ closed = FALSE /\ drained = FALSE
  /\ out = [op |-> "init"]

\* mark the entry of key k removed (in its slot)
MarkRemoved(sl, k) ==
  LET t == timers[k] IN
  [sl EXCEPT ![t.pos] = [j \in 1..Len(@) |-> IF @[j].id = t.id THEN [@[j] EXCEPT !.removed = TRUE] ELSE @[j]]]

PushBack(sl, p, e) == [sl EXCEPT ![p] = Append(@, e)]

SetTask(k, v, d) ==
  /\ ~drained
  /\ IF closed
       THEN /\ out' = [op |-> "set", k |-> k, v |-> v, d |-> d, err |-> "closed"]
            /\ UNCHANGED <<icore, nid>>
       ELSE LET pc == PosCircle(d)
                e  == [key |-> k, val |-> v, circle |-> pc.circle, removed |-> FALSE, id |-> nid + 1]
            IN /\ nid' = nid + 1
               /\ timers' = [timers EXCEPT ![k] = [pos |-> pc.pos, id |-> nid + 1]]
               \* existing key: value replaced, then moveTask (old entry invalidated, new one inserted)
               /\ slots' = PushBack(IF timers[k].id = 0 THEN slots ELSE MarkRemoved(slots, k), pc.pos, e)
               /\ out' = [op |-> "set", k |-> k, v |-> v, d |-> d, err |-> "ok"]
               /\ UNCHANGED <<tickedPos, T, closed, drained>>

MoveTask(k, d) ==
  /\ ~drained
  /\ IF closed
       THEN /\ out' = [op |-> "move", k |-> k, d |-> d, err |-> "closed"]
            /\ UNCHANGED <<icore, nid>>
       ELSE /\ out' = [op |-> "move", k |-> k, d |-> d, err |-> "ok"]
            /\ IF timers[k].id = 0
                 THEN UNCHANGED <<icore, nid>>
                 ELSE LET pc == PosCircle(d)
                          e  == [key |-> k, val |-> Entry(k).val, circle |-> pc.circle, removed |-> FALSE, id |-> nid + 1]
                      IN /\ nid' = nid + 1
                         /\ timers' = [timers EXCEPT ![k] = [pos |-> pc.pos, id |-> nid + 1]]
                         /\ slots' = PushBack(MarkRemoved(slots, k), pc.pos, e)
                         /\ UNCHANGED <<tickedPos, T, closed, drained>>

RemoveTask(k) ==
  /\ ~drained
  /\ IF closed
       THEN /\ out' = [op |-> "remove", k |-> k, err |-> "closed"]
            /\ UNCHANGED <<icore, nid>>
       ELSE /\ out' = [op |-> "remove", k |-> k, err |-> "ok"]
            /\ IF timers[k].id = 0
                 THEN UNCHANGED <<icore, nid>>
                 ELSE /\ slots' = MarkRemoved(slots, k)
                      /\ timers' = [timers EXCEPT ![k] = NoTimer]
                      /\ UNCHANGED <<tickedPos, T, closed, drained, nid>>

\* onTick + scanAndRunTasks: removed entries are dropped, circle > 0 is decremented,
\* the others fire and lose their timer
OnTick ==
  /\ ~closed
  /\ LET tp == (tickedPos + 1) % N
         s  == slots[tp]
         fire == {j \in 1..Len(s) : ~s[j].removed /\ s[j].circle = 0}
         keep == SelectSeq(s, LAMBDA e : ~e.removed /\ e.circle > 0)
     IN /\ tickedPos' = tp
        /\ slots' = [slots EXCEPT ![tp] = [j \in 1..Len(keep) |-> [keep[j] EXCEPT !.circle = @ - 1]]]
        /\ timers' = [k \in Keys |-> IF \E j \in fire : s[j].key = k THEN NoTimer ELSE timers[k]]
        /\ out' = [op |-> "tick", fired |-> {[k |-> s[j].key, v |-> s[j].val] : j \in fire}]
  /\ T' = T + 1
  /\ UNCHANGED <<closed, drained, nid>>

BadArg(which) ==
  /\ ~closed /\ ~drained
  /\ out' = [op |-> which, err |-> "arg"]
  /\ UNCHANGED <<icore, nid>>

\* drainAll hands every non-removed entry of every slot to fn and empties the slots
\* (the timers map is NOT cleared by the code; after Drain only ticks and Stop follow)
DrainAll ==
  /\ ~drained
  /\ IF closed
       THEN /\ out' = [op |-> "drain", err |-> "closed", drained |-> {}]
            /\ UNCHANGED <<icore, nid>>
       ELSE /\ out' = [op |-> "drain", err |-> "ok",
                       drained |-> UNION {{[k |-> slots[p][j].key, v |-> slots[p][j].val] :
                                             j \in {i \in 1..Len(slots[p]) : ~slots[p][i].removed}} : p \in 0..(N - 1)}]
            /\ slots' = [i \in 0..(N - 1) |-> <<>>]
            /\ timers' = [k \in Keys |-> NoTimer]     \* abstraction: stale timers are unobservable after Drain
            /\ drained' = TRUE
            /\ UNCHANGED <<tickedPos, T, closed, nid>>

Stop ==
  /\ ~closed
  /\ closed' = TRUE
  /\ out' = [op |-> "stop"]
  /\ UNCHANGED <<slots, timers, tickedPos, nid, T, drained>>

Next ==
  \/ OnTick
  \/ \E k \in Keys, v \in Vals, d \in 1..MaxD : SetTask(k, v, d)
  \/ \E k \in Keys, d \in 1..MaxD : MoveTask(k, d)
  \/ \E k \in Keys : RemoveTask(k)
  \/ \E w \in Abs!BadOps : BadArg(w)
  \/ DrainAll
  \/ Stop

Spec == Init /\ [][Next]_ivars

\* Every timer points at a live entry with the same key in the slot it names.
TimersConsistent ==
  \A k \in Keys : timers[k].id # 0 =>
      \E j \in 1..Len(slots[timers[k].pos]) :
          LET e == slots[timers[k].pos][j] IN e.id = timers[k].id /\ e.key = k /\ ~e.removed

\* No live entry without a timer (otherwise a removed/moved task would still fire).
NoOrphans ==
  \A p \in 0..(N - 1) : \A j \in 1..Len(slots[p]) :
      ~slots[p][j].removed => timers[slots[p][j].key].id = slots[p][j].id

Refines == Abs!Spec

=============================================================================
