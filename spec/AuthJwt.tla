------------------------------ MODULE AuthJwt ------------------------------
(***************************************************************************)
(* JWT gate of a route (property C04, first sentence; api/engine.go        *)
(* appendAuthHandler, api/handler/authhandler.go, api/token/tokenparser.go)*)
(*                                                                         *)
(* Credentials are symbolic; the driver mints a real token for each class: *)
(*   shape  "bearer"      Authorization: Bearer <token>                    *)
(*          "malformed"   Bearer followed by something that is not a JWT   *)
(*          "missing"     no Authorization header                          *)
(*          "wrongscheme" Authorization: Basic <a perfectly valid token>   *)
(*   key    secret the token is signed with: "cur" | "prev" | "other"      *)
(*   alg    "HS256" | "HS384" | "HS512" : HMAC, signed with `key`          *)
(*          "none"     : unsigned token with alg=none                      *)
(*          "RS256hdr" : header claims RS256, signature is HMAC with `key` *)
(*          "badsig"   : HS256 token whose signature was altered           *)
(*   time   "valid" (exp in the future, nbf in the past) | "expired" |     *)
(*          "notyet" (nbf in the future) | "noclaims" (no time claim)      *)
(*   claims "none" | "custom" (uid, role) | "mixed" (custom + registered)  *)
(*                                                                         *)
(* Route configuration cfg: "single" (WithJwt(cur)), "transition"          *)
(* (WithJwtTransition(cur, prev)), "same" (transition with prev = cur).    *)
(*                                                                         *)
(* Server construction `server`: how the middleware chain in front of the   *)
(* gate is built - "default" (built-in chain), "chain" (api.WithChain with *)
(* a custom chain), "use" (built-in chain plus a Server.Use middleware),   *)
(* "chain+use".  The statement is about the route, so the verdict does not  *)
(* mention it; it is a dimension only so that every way the engine composes *)
(* the chain is driven.                                                    *)
(*                                                                         *)
(* Unauthorized callback `cb` of the server (api.WithUnauthorizedCallback, *)
(* handed by the engine to every JWT gate): "none" (not configured),       *)
(* "silent" (writes nothing - it only logs), "header" (sets a              *)
(* WWW-Authenticate header, writes no status), "writes401" (writes status  *)
(* 401 and a body itself).  The statement says "otherwise the answer is    *)
(* 401 and the handler does not run" without any condition on a callback,  *)
(* so the verdict and the status of a denial (`deny_status`) do not mention *)
(* it; it is a dimension so that every kind of callback is driven.  (A      *)
(* callback that writes a status other than 401 is not offered: the        *)
(* statement would forbid what such a configuration asks for.)             *)
(*                                                                         *)
(* The statement: the handler runs iff the token's HMAC signature verifies *)
(* under the current or the previous secret and its time claims are valid; *)
(* then the non-registered claims are visible in the context; otherwise    *)
(* 401 and the handler does not run.  Nothing in it depends on earlier     *)
(* requests.  The parser's hit counters (which secret is tried first) are  *)
(* modelled only so that TLC drives the real parser through every ordering *)
(* state, and to check that the try-order cannot change the verdict.       *)
(* For the same reason the verdict of a request cannot depend on requests  *)
(* served at the same time: the driver's concurrent stage replays several  *)
(* behaviours of this module at once against ONE route (one parser) and    *)
(* judges every request by its own step.                                   *)
(***************************************************************************)
EXTENDS Integers, Sequences, FiniteSets, TLC

CONSTANTS Tokens,    \* set of token classes offered
          Cfgs,      \* set of route configurations
          Servers,   \* set of server constructions
          Callbacks, \* set of unauthorized-callback kinds
          MaxReq     \* requests per behaviour

VARIABLES cfg,       \* route configuration of this behaviour
          server,    \* server construction of this behaviour
          cb,        \* unauthorized callback of this behaviour's server
          cnt,       \* parser history: secret -> successes (abstract secrets "cur", "prev")
          stale,     \* more than 24 h of timex time have passed since the parser was created
          n,         \* requests so far
          out

core == <<cfg, server, cb, cnt, stale, n>>
vars == <<core, out>>

HS == {"HS256", "HS384", "HS512"}

\* the secret a token key denotes under a configuration ("same": prev and cur are one secret)
SecretOf(k, c) == IF c = "same" /\ k = "prev" THEN "cur" ELSE k
Configured(c) == IF c = "single" THEN {"cur"} ELSE IF c = "same" THEN {"cur"} ELSE {"cur", "prev"}

\* does the token verify as an HMAC-signed token under secret s
Verifies(t, c, s) == t.shape = "bearer" /\ t.alg \in HS /\ SecretOf(t.key, c) = s
TimeOK(t) == t.time \in {"valid", "noclaims"}

\* the statement's verdict.  A token without any time claim has no invalid time claim; whether
\* that counts as "time claims are valid" is left open: "either".
Verdict(t, c) ==
  IF ~(\E s \in Configured(c) : Verifies(t, c, s)) THEN "deny"
  ELSE IF t.time \in {"expired", "notyet"} THEN "deny"
  ELSE IF t.time = "noclaims" THEN "either"
  ELSE "admit"

\* the answer to a request that is not admitted - whatever callback is configured
DenyStatus == 401
AllCallbacks == {"none", "silent", "header", "writes401"}

Custom == {"uid", "role"}
Registered == {"aud", "exp", "jti", "iat", "iss", "nbf", "sub"}
Visible(t) == IF t.claims = "none" THEN {} ELSE Custom

(* ---------------------------------------------------------------- token classes *)

Tok(sh, k, a, t, c) == [shape |-> sh, key |-> k, alg |-> a, time |-> t, claims |-> c]

\* non-bearer shapes carry (where a token is present at all) an otherwise perfectly valid token
OddTokens == {Tok(sh, "cur", "HS256", "valid", "custom") : sh \in {"malformed", "missing", "wrongscheme"}}

\* the complete product of bearer tokens
AllTokens ==
  {Tok("bearer", k, a, t, c) : k \in {"cur", "prev", "other"},
                               a \in HS \cup {"none", "RS256hdr", "badsig"},
                               t \in {"valid", "expired", "notyet", "noclaims"},
                               c \in {"none", "custom", "mixed"}} \cup OddTokens

\* a representative selection for request sequences (every verdict-relevant dimension varies)
CoreTokens ==
  {Tok("bearer", k, "HS256", "valid", "custom") : k \in {"cur", "prev", "other"}}
  \cup {Tok("bearer", "cur", "HS384", "valid", "mixed"), Tok("bearer", "prev", "HS512", "valid", "mixed"),
        Tok("bearer", "cur", "none", "valid", "custom"), Tok("bearer", "prev", "RS256hdr", "valid", "custom"),
        Tok("bearer", "cur", "badsig", "valid", "custom"),
        Tok("bearer", "cur", "HS256", "expired", "custom"), Tok("bearer", "prev", "HS256", "expired", "none"),
        Tok("bearer", "prev", "HS256", "notyet", "custom"),
        Tok("bearer", "cur", "HS256", "noclaims", "custom")}
  \cup OddTokens

\* classes for the concurrent stage: mostly valid tokens under either secret, a few invalid ones
ConcTokens ==
  {Tok("bearer", k, a, "valid", c) : k \in {"cur", "prev"}, a \in {"HS256", "HS512"}, c \in {"custom", "mixed"}}
  \cup {Tok("bearer", "other", "HS256", "valid", "custom"), Tok("bearer", "prev", "HS256", "expired", "custom")}

\* fewer classes, for longer sequences
FewTokens ==
  {Tok("bearer", k, "HS256", "valid", "custom") : k \in {"cur", "prev", "other"}}
  \cup {Tok("bearer", "prev", "HS256", "expired", "mixed"), Tok("bearer", "cur", "none", "valid", "custom"),
        Tok("missing", "cur", "HS256", "valid", "custom")}

(* ---------------------------------------------------------------- the parser's ordering state *)

TryOrder(c, h) ==
  IF c = "single" THEN <<"cur">>
  ELSE IF c = "same" THEN <<"cur", "cur">>
  ELSE IF h["cur"] > h["prev"] THEN <<"cur", "prev">> ELSE <<"prev", "cur">>

\* the secret under which the parser succeeds, trying in order ("" if none)
Accepts(t, c, s) == Verifies(t, c, s) /\ TimeOK(t)
Hit(t, c, h) ==
  LET o == TryOrder(c, h)
  IN IF Accepts(t, c, o[1]) THEN o[1]
     ELSE IF Len(o) > 1 /\ Accepts(t, c, o[2]) THEN o[2] ELSE ""

Bump(h, s, st) == IF st THEN [k \in DOMAIN h |-> IF k = s THEN 1 ELSE 0]
                        ELSE [h EXCEPT ![s] = @ + 1]

(* ---------------------------------------------------------------- actions *)

Init ==
  /\ cfg \in Cfgs /\ server \in Servers /\ cb \in Callbacks
  /\ cnt = [k \in {"cur", "prev"} |-> 0]
  /\ stale = FALSE
  /\ n = 0
  /\ out = [op |-> "config", cfg |-> cfg, server |-> server, cb |-> cb]

Request(t) ==
  /\ n < MaxReq
  /\ n' = n + 1
  /\ LET s == Hit(t, cfg, cnt)
     IN cnt' = IF s = "" \/ cfg = "single" THEN cnt ELSE Bump(cnt, s, stale)
  /\ out' = [op |-> "jwt", tok |-> t, expect |-> Verdict(t, cfg), visible |-> Visible(t),
             hidden |-> Registered, deny_status |-> DenyStatus]
  /\ UNCHANGED <<cfg, server, cb, stale>>

\* 25 hours of timex time pass (the parser forgets its counters on the next success)
Advance ==
  /\ ~stale /\ n < MaxReq /\ cfg # "single"
  /\ stale' = TRUE
  /\ out' = [op |-> "advance", hours |-> 25]
  /\ UNCHANGED <<cfg, server, cb, cnt, n>>

Next == (\E t \in Tokens : Request(t)) \/ Advance

Spec == Init /\ [][Next]_vars

(* ---------------------------------------------------------------- properties *)

TypeOK == cfg \in Cfgs /\ server \in Servers /\ cb \in Callbacks /\ Callbacks \subseteq AllCallbacks /\ cnt \in [{"cur", "prev"} -> 0..MaxReq] /\ stale \in BOOLEAN /\ n \in 0..MaxReq

\* whatever the ordering state, trying the secrets one after the other decides exactly the
\* statement's verdict: the history of earlier requests cannot change admission
OrderCannotMatter ==
  \A t \in Tokens :
     LET s == Hit(t, cfg, cnt)
     IN /\ (Verdict(t, cfg) = "deny" => s = "")
        /\ (Verdict(t, cfg) = "admit" => s # "")

\* admitted tokens are exactly: bearer + HMAC alg + configured secret + valid time
AdmitShape ==
  out.op = "jwt" /\ out.expect # "deny" =>
     /\ out.tok.shape = "bearer" /\ out.tok.alg \in HS /\ out.tok.key # "other"
     /\ (out.tok.key = "prev" => cfg # "single")
     /\ out.tok.time \in {"valid", "noclaims"}

\* a denial is answered 401 under every callback kind (the prediction never looks at cb)
DeniedIs401 == out.op = "jwt" => out.deny_status = 401

NeverRegistered == out.op = "jwt" => out.visible \cap out.hidden = {}

=============================================================================
