--------------------------- MODULE CacheAsideTrace ---------------------------
(***************************************************************************)
(* Trace specification for the concurrent-readers clause of property C06:  *)
(* validates a trace recorded from the real sqlc.CachedConn.QueryRow       *)
(* (harness/c06, TestVerifC06Concurrent).                                  *)
(*                                                                         *)
(* Events (one JSON object per line, file order = order of the sequence    *)
(* numbers taken under the tracer's mutex):                                *)
(*   write k d      the row behind key k now has payload d ("" = no row);  *)
(*                  the key has been removed from the cache (sequential    *)
(*                  phase: no read of k is pending)                        *)
(*   inv r k        reader r calls QueryRow for k                          *)
(*   dbb k / dbe k  the database callback for k is entered / left          *)
(*   ret r k res d  reader r returns ("row" with payload d, or "nf")       *)
(*   ttl k kind ttl what Redis holds for k at the end of the round         *)
(* What the statement promises about such a trace:                         *)
(*   - at most one database query per key in flight (invariant),           *)
(*   - a query is only made on behalf of a pending reader of that key,     *)
(*   - once a query for k has ended the database is not reached again for  *)
(*     k until the next write (value or placeholder remembered),           *)
(*   - every reader returns the current row / not-found, and only after a  *)
(*     query for the key has ended (the key was uncached),                 *)
(*   - the stored TTL is within +-5 % of the configured expiry.            *)
(* A trace that cannot take its next event deadlocks: TLC reports the      *)
(* position l of the first event the specification does not allow.         *)
(***************************************************************************)
EXTENDS Integers, Sequences, FiniteSets, TLC, Json

CONSTANTS TKeys,     \* keys read
          Readers,   \* reader ids
          TE, TNF    \* configured expiry / not-found expiry (s)

TraceLog == ndJsonDeserialize("c06trace.ndjson")

VARIABLES l, cur, inflight, filled, pend

tvars == <<l, cur, inflight, filled, pend>>

TLo(b) == (b * 95 + 99) \div 100     \* ceil(0.95 b)
THi(b) == (b * 105 + 99) \div 100    \* ceil(1.05 b)

TInit == /\ l = 1
         /\ cur = [k \in TKeys |-> ""]
         /\ inflight = [k \in TKeys |-> 0]
         /\ filled = [k \in TKeys |-> FALSE]
         /\ pend = [r \in Readers |-> ""]

ev == TraceLog[l]

Write == /\ ev.e = "write"
         /\ \A r \in Readers : pend[r] # ev.k
         /\ inflight[ev.k] = 0
         /\ cur' = [cur EXCEPT ![ev.k] = ev.d]
         /\ filled' = [filled EXCEPT ![ev.k] = FALSE]
         /\ UNCHANGED <<inflight, pend>>

Inv == /\ ev.e = "inv"
       /\ pend[ev.r] = ""
       /\ pend' = [pend EXCEPT ![ev.r] = ev.k]
       /\ UNCHANGED <<cur, inflight, filled>>

\* (a second query in flight is accepted here so that the invariant, not a deadlock, reports it)
DbBegin == /\ ev.e = "dbb"
           /\ \E r \in Readers : pend[r] = ev.k
           /\ ~filled[ev.k]
           /\ inflight' = [inflight EXCEPT ![ev.k] = @ + 1]
           /\ UNCHANGED <<cur, filled, pend>>

DbEnd == /\ ev.e = "dbe"
         /\ inflight[ev.k] >= 1
         /\ inflight' = [inflight EXCEPT ![ev.k] = @ - 1]
         /\ filled' = [filled EXCEPT ![ev.k] = TRUE]
         /\ UNCHANGED <<cur, pend>>

Ret == /\ ev.e = "ret"
       /\ pend[ev.r] = ev.k
       /\ filled[ev.k]
       /\ IF cur[ev.k] = "" THEN ev.res = "nf" ELSE ev.res = "row" /\ ev.d = cur[ev.k]
       /\ pend' = [pend EXCEPT ![ev.r] = ""]
       /\ UNCHANGED <<cur, inflight, filled>>

Ttl == /\ ev.e = "ttl"
       /\ IF cur[ev.k] = "" THEN ev.kind = "placeholder" /\ ev.ttl \in TLo(TNF)..THi(TNF)
                            ELSE ev.kind = "row" /\ ev.ttl \in TLo(TE)..THi(TE)
       /\ UNCHANGED <<cur, inflight, filled, pend>>

TNext == \/ /\ l <= Len(TraceLog)
            /\ l' = l + 1
            /\ (Write \/ Inv \/ DbBegin \/ DbEnd \/ Ret \/ Ttl)
         \/ /\ l > Len(TraceLog)
            /\ UNCHANGED tvars

TSpec == TInit /\ [][TNext]_tvars

AtMostOneInFlight == \A k \in TKeys : inflight[k] <= 1
=============================================================================
